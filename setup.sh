#!/bin/sh
# Builds the framework from files on disk only (offline): the Lean model, every proof module,
# the model driver, and the Rust harness against /repo's current working tree.
set -e
cd "$(dirname "$0")"
export CARGO_NET_OFFLINE=true
python3 tools/translate.py > /dev/null   # regenerate lean/NdInterp/Gen/SourceFacts.lean from /repo/src
python3 tools/translate_formulas.py > /dev/null   # regenerate lean/NdInterp/Gen/Formulas.lean (arithmetic kernels) from /repo/src
python3 tools/translate_control.py > /dev/null    # regenerate lean/NdInterp/Gen/Control.lean (control flow of monotonic_prop / get_lower_index) from /repo/src
MODS=$(ls lean/NdInterp/Props/*.lean lean/NdInterp/Props/FormulaTie/*.lean | sed 's#lean/##; s#\.lean$##; s#/#.#g')
(cd lean && lake build NdInterp driver $MODS)
[ -f harness/Cargo.lock ] || cp /repo/Cargo.lock harness/Cargo.lock
(cd harness && cargo build --release --offline)
echo setup-ok
