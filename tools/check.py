#!/usr/bin/env python3
"""check <ID> [--tier quick|thorough] [--replay FILE]

Decision procedure of one property (DESIGN.md §2.4):
  1 proof obligations: lake build of the property's theorem modules, source audit, axiom audit
  2 tie: harness rebuilt from /repo's working tree; correspondence model@Rat vs crate@Q (exact),
    model@Float vs crate@f64 (outcome kinds)
  3 property oracles evaluated directly on the implementation's outputs
  4 verdict, evidence/<ID>.json, replay file on violation
"""
import argparse
import importlib
import json
import os
import random
import sys
import time

sys.path.insert(0, os.path.dirname(os.path.abspath(__file__)))
import vlib
from vlib import Result, log

# multipliers of the quick tier's case counts: unchanged source / source that differs from baseline_src.json
BASE_SCALE = 3.0
CHANGED_SCALE = 12.0

KNOWN = os.path.join(vlib.VERIF, "known_findings.json")


def load_known(pid):
    try:
        data = json.load(open(KNOWN))
    except FileNotFoundError:
        return []
    return [e for e in data.get("open", []) if e.get("property") == pid]


def write_replay(pid, name, payload):
    d = os.path.join(vlib.VERIF, "replays")
    os.makedirs(d, exist_ok=True)
    path = os.path.join(d, f"{pid}-{name}.json")
    with open(path, "w") as f:
        json.dump(payload, f, indent=1, default=str)
    return path


def main():
    ap = argparse.ArgumentParser()
    ap.add_argument("prop")
    ap.add_argument("--tier", default=os.environ.get("VERIF_TIER", "quick"))
    ap.add_argument("--replay")
    args = ap.parse_args()
    pid = args.prop.upper()
    tier = args.tier if args.tier in ("quick", "thorough") else "quick"
    seed = int(os.environ.get("VERIF_SEED", "20260929"))
    mod = importlib.import_module(f"props.{pid.lower()}")
    if not args.replay:
        for kind in ("input", "unproved", "build"):
            try:
                os.remove(os.path.join(vlib.VERIF, "replays", f"{pid}-{kind}.json"))
            except FileNotFoundError:
                pass
    t0 = time.time()
    rng = random.Random(f"{seed}-{pid}-{tier}")

    broken = []          # proof obligations / correspondence items that no longer check
    violations = []      # (description, replay payload) with a concrete failing input
    notes = []

    # ---- 0 translator: regenerate the source facts from /repo/src --------------------------
    rc_t, out_t = vlib.sh([sys.executable, os.path.join(vlib.VERIF, "tools", "translate.py")])
    if rc_t != 0:
        notes.append("translator failed: " + out_t[-500:])
    elif "problems" in out_t:
        notes.append(out_t.strip()[-800:])

    # ---- 0a formula translator: regenerate the arithmetic kernels (Gen/Formulas.lean) the FormulaTie modules are stated over
    ft_status = {}
    if any("FormulaTie" in m_ for m_ in mod.LEAN_MODULES):
        tf = os.path.join(vlib.VERIF, "tools", "translate_formulas.py")
        rc_f, out_f = vlib.sh([sys.executable, tf])
        okf, outf = (False, out_f) if rc_f != 0 else vlib.lake_build(["NdInterp.Gen.Formulas"])
        if not okf:
            # the translator produced something Lean does not accept: its own failure, never an alarm — every kernel becomes
            # `unavailable` (vacuous tie lemmas) and the property is tied by the correspondence runs alone
            notes.append("formula translator output rejected; all kernels marked unavailable: " + (outf or "")[-300:])
            vlib.sh([sys.executable, tf, "--all-unavailable"])
        try:
            ft_status = json.load(open(os.path.join(vlib.LEAN, "NdInterp", "Gen", "Formulas.status.json")))
        except Exception:
            ft_status = {}
        un = {k: v for k, v in ft_status.items() if not v.startswith("translated")}
        if un:
            notes.append(f"formula tie: {len(un)} kernel(s) not located in the current source, tied by the correspondence only: {un}")

    # ---- 0a' control-flow translator: regenerate Gen/Control.lean (automaton of monotonic_prop, get_lower_index) for FormulaTie.Ctl
    if any(m_.endswith("FormulaTie.Ctl") for m_ in mod.LEAN_MODULES):
        tc = os.path.join(vlib.VERIF, "tools", "translate_control.py")
        rc_c, out_c = vlib.sh([sys.executable, tc])
        okc, outc = (False, out_c) if rc_c != 0 else vlib.lake_build(["NdInterp.Gen.Control"])
        if not okc and rc_c == 0:
            # Lean does not accept a generated definition (a renamed parameter, a loop whose termination it cannot show, …): the
            # translator's own limitation, never an alarm.  First drop only the definitions the errors point into (and their callers)
            import re as _re
            gen_path = os.path.join(vlib.LEAN, "NdInterp", "Gen", "Control.lean")
            try:
                src_lines = open(gen_path).read().splitlines()
            except OSError:
                src_lines = []
            badnames = set()
            for m_ in _re.finditer(r"Gen/Control\.lean:(\d+):", outc or ""):
                ln = int(m_.group(1))
                for k_ in range(min(ln, len(src_lines)) - 1, -1, -1):
                    mm = _re.match(r"def (\w+?)(_available)? ", src_lines[k_])
                    if mm:
                        badnames.add(mm.group(1))
                        break
            if badnames:
                vlib.sh([sys.executable, tc, "--unavailable", ",".join(sorted(badnames))])
                okc, outc2 = vlib.lake_build(["NdInterp.Gen.Control"])
                if okc:
                    notes.append(f"control-flow translator: generated definitions rejected by Lean and marked unavailable: {sorted(badnames)}")
        if not okc:
            # every function becomes `unavailable` and the property is tied by the correspondence runs alone
            notes.append("control-flow translator output rejected; all functions marked unavailable: " + (outc or "")[-300:])
            vlib.sh([sys.executable, tc, "--all-unavailable"])
        try:
            ct_status = json.load(open(os.path.join(vlib.LEAN, "NdInterp", "Gen", "Control.status.json")))
        except Exception:
            ct_status = {}
        ft_status.update({"ctl:" + k: v for k, v in ct_status.items()})
        unc = {k: v for k, v in ct_status.items() if not v.startswith("translated")}
        if unc:
            notes.append(f"control-flow tie: {len(unc)} function(s) not translated from the current source, tied by the correspondence only: {unc}")

    # ---- 0b effort: the quick tier samples more when the code of /repo/src is not the tree the model was validated on ----
    import gen
    changed_src = vlib.src_changed_files()
    if "VERIF_SCALE" not in os.environ:
        gen.SCALE = CHANGED_SCALE if changed_src else BASE_SCALE
    if changed_src:
        notes.append(f"source differs from the validated baseline (baseline_src.json) in {changed_src}: quick-tier effort x{gen.SCALE:g}")

    # ---- 1 proof obligations -------------------------------------------------------------
    ok, out = vlib.lake_build(list(mod.LEAN_MODULES) + ["driver"])
    theorems = []
    for f, prefix in mod.THEOREM_FILES:
        theorems += vlib.theorem_names(f, prefix)
    obligations = len(theorems)
    discharged = 0
    axioms = {}
    if not ok:
        tail = "\n".join([l for l in out.splitlines() if "error" in l][:20])
        broken.append({"kind": "theorem", "what": f"lake build of {mod.LEAN_MODULES} failed", "detail": tail})
        # which modules still build? try each separately so evidence is precise
        ok_driver, _ = vlib.lake_build(["driver"])
        if not ok_driver:
            print(f"INTERNAL: the model driver does not build:\n{out[-3000:]}")
            sys.exit(2)
    else:
        hits = vlib.source_audit()
        if hits:
            broken.append({"kind": "theorem", "what": "forbidden construct in Lean sources", "detail": hits})
        axioms = vlib.axiom_audit(pid, mod.LEAN_MODULES, theorems)
        for t in theorems:
            a = axioms.get(t)
            if isinstance(a, list) and set(a) <= vlib.ALLOWED_AXIOMS:
                discharged += 1
            else:
                broken.append({"kind": "theorem", "what": f"axiom audit of {t}", "detail": a})
        if tier == "thorough":
            # independent re-check of the compiled proof modules (declarations replayed through the kernel by leanchecker)
            for m_ in mod.LEAN_MODULES:
                rc_l, out_l = vlib.sh(["lake", "env", "leanchecker", m_], cwd=vlib.LEAN, timeout=1800)
                if rc_l != 0:
                    broken.append({"kind": "theorem", "what": f"leanchecker {m_}", "detail": out_l[-600:]})
                else:
                    notes.append(f"leanchecker {m_}: ok")

    # ---- 2 tie: rebuild harness from /repo, correspondence ------------------------------
    okc, outc = vlib.cargo_build(tuple(["vharness"] + list(getattr(mod, "HARNESS_BINS", []))))
    if not okc:
        # the tree no longer compiles (or no longer compiles at the exact scalar): nothing can be run
        errs = "\n".join([l for l in outc.splitlines() if l.startswith("error")][:20])
        witness = getattr(mod, "build_failure_witness", lambda o: None)(outc)
        if witness:
            # the compile error itself exhibits the failing object (e.g. an interpolator type that is not Sync)
            path = write_replay(pid, "build", {"property": pid, "kind": "implementation", "what": witness, "detail": errs,
                                                "replay": "cd /verif/harness && cargo build --release --offline --bin " +
                                                          " --bin ".join(getattr(mod, "HARNESS_BINS", ["vharness"]))})
            print(outc[-3000:])
            print(f"VIOLATION property={pid} replay={path}")
            sys.exit(1)
        path = write_replay(pid, "build", {"property": pid, "kind": "correspondence",
                                            "what": "harness/crate does not build against /repo", "detail": errs})
        print(outc[-3000:])
        print(f"VIOLATION property={pid} replay={path} no-failing-input-found")
        sys.exit(1)

    if args.replay:
        rp = json.load(open(args.replay))
        line = rp.get("line")
        if line:
            m, i = vlib.run_cases(pid, [line], tag="replay")
            print("case :", line)
            print("model:", m[0])
            print("impl :", i[0])
            print("required:", rp.get("required"))
        else:
            print(json.dumps(rp, indent=1))
        return

    cases = []
    corpus_dir = os.path.join(vlib.VERIF, "corpus", pid)
    if os.path.isdir(corpus_dir):
        for fn in sorted(os.listdir(corpus_dir)):
            for l in open(os.path.join(corpus_dir, fn)):
                l = l.strip()
                if l and not l.startswith("#"):
                    # `case => expected result` : minimised past failures with the required outcome
                    exp = None
                    if " => " in l:
                        l, exp = l.split(" => ", 1)
                    cases.append({"line": l.strip(), "meta": {"corpus": fn, "expect": exp and exp.strip()}})
    n_corpus = len(cases)
    cases += mod.generate(rng, tier)
    lines = [c["line"] for c in cases]
    model, impl = vlib.run_cases(pid, lines)

    disagreements = []
    hist = {}
    distinct = set()
    nontrivial = 0
    internal = []
    for c, m, i in zip(cases, model, impl):
        ri = Result(i)
        k = ri.kind if ri.kind != "berr" else i
        hist[k] = hist.get(k, 0) + 1
        if i == "crash-skipped":      # not run: the runner died too often before reaching this case
            continue
        if "bad-op" in m or "bad-op" in i or m == "missing" or i == "missing":
            internal.append((c["line"], m, i))
            continue
        if not vlib.same(c["line"], m, i):
            disagreements.append({"line": c["line"], "model": m, "impl": i})
        if c["line"] not in distinct:
            distinct.add(c["line"])
            if "corpus" in c.get("meta", {}) or mod.nontrivial(c, ri):
                nontrivial += 1
    if internal:
        print("INTERNAL: generator produced cases the runners reject:")
        for l, m, i in internal[:5]:
            print("  ", l[:300], "|", m, "|", i)
        sys.exit(2)

    # ---- 3 property oracles on the implementation ---------------------------------------
    oracle_fail = []
    for c, i in zip(cases, impl):
        if "corpus" in c.get("meta", {}):
            exp = c["meta"].get("expect")
            if exp and i != exp:
                oracle_fail.append({"line": c["line"], "impl": i, "required": f"corpus case {c['meta']['corpus']}: result must be `{exp}`"})
            continue
        if i == "crash-skipped":
            continue
        try:
            why = mod.oracle(c, Result(i))
        except Exception as e:  # an oracle must never crash silently
            why = f"oracle crashed: {e!r}"
        if why:
            oracle_fail.append({"line": c["line"], "impl": i, "required": why, "meta": {k: str(v)[:300] for k, v in c.get("meta", {}).items()}})
    extra_eval = 0
    if hasattr(mod, "extra"):
        try:
            ex = mod.extra(rng, tier)
        except vlib.BuildError as e:
            # a harness subcommand (in-process runs on the real crate) died: the crate brought the process down
            ex = {"failures": [{"line": "", "impl": str(e)[-600:],
                                "required": "the in-process run of this property's scenario must complete (process died: signal/abort)"}]}
        extra_eval = ex.get("evaluations", 0)
        nontrivial += ex.get("nontrivial", 0)
        oracle_fail += ex.get("failures", [])
        notes += ex.get("notes", [])
        hist.update({f"extra:{k}": v for k, v in ex.get("hist", {}).items()})
    hist.update({f"f64_model_vs_crate:{k}": v for k, v in vlib.F_STATS.items()})

    # ---- 4 verdict -----------------------------------------------------------------------
    known = load_known(pid)
    def is_known(f):
        return any(k.get("match") and k["match"] in f.get("line", "") + f.get("required", "") for k in known)
    new_fail = [f for f in oracle_fail if not is_known(f)]
    for k in known:
        print(f"KNOWN-FINDING: property={pid} {k.get('what')}")

    rc = 0
    if new_fail:
        f = min(new_fail, key=lambda f: (f.get("rank", 1), len(f.get("line", ""))))
        path = write_replay(pid, "input", {"property": pid, "kind": "input", **f,
                                           "also_broken": broken, "disagreements": disagreements[:3],
                                           "failing_inputs_total": len(new_fail)})
        print(f"VIOLATION property={pid} replay={path}")
        rc = 1
    elif broken or disagreements:
        # proof or correspondence broke, oracles found no failing input of the property itself:
        # directed search around the disagreeing cases
        found = None
        if disagreements and hasattr(mod, "search"):
            found = mod.search(rng, disagreements)
        if found:
            path = write_replay(pid, "input", {"property": pid, "kind": "input", **found,
                                               "also_broken": broken, "disagreements": disagreements[:3]})
            print(f"VIOLATION property={pid} replay={path}")
        else:
            what = broken[0] if broken else {"kind": "correspondence", "what": "model and implementation differ",
                                             **disagreements[0]}
            path = write_replay(pid, "unproved", {"property": pid, **what, "all_broken": broken,
                                                  "disagreements": disagreements[:10],
                                                  "disagreements_total": len(disagreements)})
            print(f"VIOLATION property={pid} replay={path} no-failing-input-found")
        rc = 1

    wall = time.time() - t0
    samples = [c["line"][:400] for c in cases[n_corpus:n_corpus + 3]] + [f"theorem {t}" for t in theorems[:4]]
    ev = {
        "property_id": pid,
        "tier": tier,
        "seed": seed,
        "level": "proof",
        "coverage": {
            "obligations": max(obligations, 0),
            "discharged": discharged,
            "checker_cmd": f"cd /verif/lean && lake build {' '.join(mod.LEAN_MODULES)} && lake env lean .work/{pid}/Audit.lean  (#print axioms of every {pid}_* theorem)",
            "trusted_base": vlib.TRUSTED_BASE + getattr(mod, "TRUSTED_EXTRA", []),
            "theorems": theorems,
            "axioms": axioms,
            "evaluations": len(cases) + extra_eval,
            "distinct_nontrivial": nontrivial,
            "rule": mod.RULE,
            "samples": samples,
            "corpus_cases": n_corpus,
            "correspondence_disagreements": len(disagreements),
            "oracle_failures": len(oracle_fail),
            "outcome_histogram": hist,
            "partial": getattr(mod, "PARTIAL", []),
            "notes": notes,
            "effort_scale": gen.SCALE,
            "formula_kernels_translated": sorted(k for k, v in ft_status.items() if v.startswith("translated")),
            "formula_kernels_unavailable": {k: v for k, v in ft_status.items() if not v.startswith("translated")},
            "source_changed_files": changed_src,
        },
        "assumptions": getattr(mod, "ASSUMPTIONS", []),
        "wall_s": round(wall, 2),
        "violations": 0 if rc == 0 else 1,
    }
    os.makedirs(os.path.join(vlib.VERIF, "evidence"), exist_ok=True)
    with open(os.path.join(vlib.VERIF, "evidence", f"{pid}.json"), "w") as f:
        json.dump(ev, f, indent=1)
    print(f"{pid} tier={tier} theorems={discharged}/{obligations} cases={len(cases)} nontrivial={nontrivial} "
          f"disagreements={len(disagreements)} oracle_failures={len(oracle_fail)} wall={wall:.1f}s "
          f"{'OK' if rc == 0 else 'FAILED'}")
    sys.exit(rc)


if __name__ == "__main__":
    main()
