#!/usr/bin/env python3
"""seed_par.py [-j N] [--only-missing | --only-quiet] <seed-id|glob> ...

Evaluates kept seeded changes (seeded/<id>/patch.diff) against the quick check of their own property, several at a
time: every worker owns a scratch copy of /verif (build output included) and a scratch git worktree of /repo under
SEED_SCRATCH (default /tmp/seedpar); the copy's tools and harness are pointed at the worker's worktree.  The patch is
applied there, `./check <property> --tier quick` runs in the copy, the patch is undone.  Nothing in /repo or in
/verif/evidence is touched.  Results are merged into seeded/<id>/meta.json (`checks`, `caught_by`, `rechecked`).
The worker directories are removed at the end (git worktree remove --force).

This is an evaluation aid.  The procedure of record (apply to /repo itself, run, undo) is tools/seed_eval.py --recheck.
"""
import fnmatch
import json
import os
import queue
import re
import shutil
import subprocess
import sys
import threading

VERIF = os.path.dirname(os.path.dirname(os.path.abspath(__file__)))
SCRATCH = os.environ.get("SEED_SCRATCH", "/tmp/seedpar")


def sh(cmd, cwd=None, timeout=7200):
    e = dict(os.environ, CARGO_NET_OFFLINE="true")
    p = subprocess.run(cmd, cwd=cwd, shell=True, stdout=subprocess.PIPE, stderr=subprocess.STDOUT, text=True, timeout=timeout, env=e)
    return p.returncode, p.stdout


def prepare(k):
    w = os.path.join(SCRATCH, f"w{k}")
    v, r = os.path.join(w, "verif"), os.path.join(w, "repo")
    if os.path.isdir(r):
        sh(f"git -C /repo worktree remove --force {r}")
    shutil.rmtree(w, ignore_errors=True)
    os.makedirs(w)
    rc, out = sh(f"git -C /repo worktree add -q --detach {r} HEAD")
    assert rc == 0, out
    rc, out = sh(f"rsync -a --exclude .git --exclude seeded --exclude replays --exclude .work --exclude __pycache__ {VERIF}/ {v}/")
    assert rc == 0, out
    for f, pat in (("tools/vlib.py", 'REPO = "/repo"'), ("tools/translate.py", 'REPO = "/repo"'),
                   ("tools/translate_formulas.py", 'src = "/repo/src"'),
                   ("tools/translate_control.py", 'src = "/repo/src"'), ("harness/Cargo.toml", 'path = "/repo"')):
        p = os.path.join(v, f)
        t = open(p).read()
        assert pat in t, (f, pat)
        open(p, "w").write(t.replace(pat, pat.replace("/repo", r)))
    return v, r


def evaluate(v, r, sid):
    d = os.path.join(VERIF, "seeded", sid)
    meta = json.load(open(os.path.join(d, "meta.json")))
    pid = meta["property"]
    sh("git checkout -q -- . && git clean -qfd src tests", cwd=r)
    rc, out = sh(f"git apply {os.path.join(d, 'patch.diff')}", cwd=r)
    if rc != 0:
        return sid, pid, {"result": "patch-does-not-apply", "detail": out[-300:], "summary": ""}
    rc, out = sh(f"./check {pid} --tier quick", cwd=v)
    sh("git checkout -q -- . && git clean -qfd src tests", cwd=r)
    vio = [l for l in out.splitlines() if l.startswith("VIOLATION")]
    summ = [l for l in out.splitlines() if l.startswith(pid + " tier=")]
    kind, detail = "quiet", ""
    if rc != 0 and vio:
        kind = "no-failing-input-found" if vio[0].rstrip().endswith("no-failing-input-found") else "violation-with-input"
        rp = re.search(r"replay=(\S+)", vio[0])
        if rp:
            p = rp.group(1)
            p = p if os.path.isabs(p) else os.path.join(v, p)
            try:
                j = json.load(open(p))
                detail = str(j.get("required") or j.get("what") or "")[:300]
            except Exception:
                pass
    elif rc != 0:
        kind, detail = f"check-error rc={rc}", out[-400:]
    return sid, pid, {"result": kind, "detail": detail, "summary": summ[-1] if summ else ""}


def main():
    args = sys.argv[1:]
    j = 4
    if "-j" in args:
        i = args.index("-j")
        j = int(args[i + 1])
        del args[i:i + 2]
    only_missing = "--only-missing" in args
    only_quiet = "--only-quiet" in args
    pats = [a for a in args if not a.startswith("--")] or ["*"]
    seeds = []
    for s in sorted(os.listdir(os.path.join(VERIF, "seeded"))):
        mp = os.path.join(VERIF, "seeded", s, "meta.json")
        if not os.path.exists(mp) or not any(fnmatch.fnmatch(s, p) for p in pats):
            continue
        m = json.load(open(mp))
        tgt = m.get("checks", {}).get(m["property"], {}).get("result")
        if only_missing and tgt is not None:
            continue
        if only_quiet and tgt != "quiet":
            continue
        seeds.append(s)
    print(len(seeds), "seeds", flush=True)
    q = queue.Queue()
    for s in seeds:
        q.put(s)
    commit = sh("git -C /verif rev-parse --short HEAD")[1].strip()
    dirty = bool(sh("git -C /verif status --porcelain -- tools lean harness")[1].strip())
    lock = threading.Lock()

    def worker(k):
        v, r = prepare(k)
        while True:
            try:
                s = q.get_nowait()
            except queue.Empty:
                break
            try:
                sid, pid, res = evaluate(v, r, s)
            except Exception as e:  # noqa
                sid, pid, res = s, "?", {"result": "eval-error", "detail": repr(e)[:300], "summary": ""}
            with lock:
                mp = os.path.join(VERIF, "seeded", sid, "meta.json")
                m = json.load(open(mp))
                first = m["property"] not in m.get("checks", {})
                if m.get("checks", {}).get(m["property"], {}).get("result") == "quiet":
                    m["first_eval_missed_by_target"] = True
                m.setdefault("checks", {})[m["property"]] = res
                if res["result"] == "quiet" and (first or m.get("first_eval_missed_by_target")):
                    m["first_eval_missed_by_target"] = True
                m["caught_by"] = sorted(c for c, x in m["checks"].items() if x["result"].startswith(("violation", "no-failing")))
                m["caught_by_target_property"] = m["property"] in m["caught_by"]
                m.setdefault("rechecked", []).append({"checks": [m["property"]], "machinery_commit": commit + ("+dirty" if dirty else ""),
                                                      "where": "scratch copy of /verif against a scratch worktree of /repo (tools/seed_par.py)"})
                json.dump(m, open(mp, "w"), indent=1)
                print(sid, res["result"], "|", res["detail"][:140].replace("\n", " "), "|", res["summary"][-60:], flush=True)
        sh(f"git -C /repo worktree remove --force {r}")
        shutil.rmtree(os.path.join(SCRATCH, f"w{k}"), ignore_errors=True)

    ts = [threading.Thread(target=worker, args=(k,)) for k in range(min(j, max(1, len(seeds))))]
    for t in ts:
        t.start()
    for t in ts:
        t.join()
    sh("git -C /repo worktree prune")


if __name__ == "__main__":
    main()
