#!/usr/bin/env python3
"""prints the catch matrix of the seeded changes (seeded/*/meta.json) as a markdown table"""
import glob
import json
import os
import re

VERIF = os.path.dirname(os.path.dirname(os.path.abspath(__file__)))
rows = []
for f in sorted(glob.glob(os.path.join(VERIF, "seeded", "*", "meta.json"))):
    m = json.load(open(f))
    d = os.path.dirname(f)
    title = ""
    notes = os.path.join(d, "NOTES.md")
    if os.path.exists(notes):
        title = open(notes).readline().strip().lstrip("# ").strip()
        title = re.sub(r"^C\d\d\w*\s*/\s*m\d\s*[—-]+\s*", "", title)
    pid = m["property"]
    tgt = m["checks"].get(pid, {})
    how = {"violation-with-input": "failing input", "no-failing-input-found": "obligation broken, no input", "quiet": "MISSED"}.get(tgt.get("result"), tgt.get("result", "?"))
    if m.get("first_eval_missed_by_target"):
        how += " (after strengthening; missed at first)"
    others = [c for c in m["caught_by"] if c != pid]
    rows.append((m["seed"], title[:110], how, ", ".join(others) or "—"))
print("| seed | change | own property's check | also reported by |")
print("|---|---|---|---|")
for r in rows:
    print("| " + " | ".join(r) + " |")
print()
print(f"{len(rows)} changes; caught by the check of their own property: {sum(1 for r in rows if not r[2].startswith('MISSED'))}")
