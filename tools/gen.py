"""Input generators shared by the property checks (all randomness from the rng passed in)."""
import math
import os
from fractions import Fraction as Fr

from vlib import next_up, next_down

# effort multiplier of the quick tier (check.py raises it when /repo/src differs from the tree the model was validated on)
SCALE = float(os.environ.get("VERIF_SCALE", "1"))


def N(tier, q, t):
    """number of cases of a family: q (times SCALE, at most t) in the quick tier, t in the thorough tier"""
    if tier != "quick":
        return t
    return max(q, min(t, int(q * SCALE)))


AXIS_KINDS_Q = ["unit", "uniform", "geometric", "clustered", "random", "dyadic", "mesh64", "evenish", "nearly_even", "indexlike"]


def axis_q(rng, n, kind=None):
    """strictly increasing list of n Fractions"""
    kind = kind or rng.choice(AXIS_KINDS_Q)
    if kind == "unit":
        return [Fr(i) for i in range(n)]
    if kind == "uniform":
        a = Fr(rng.randint(-20, 20), rng.choice([1, 2, 3, 4, 8]))
        h = Fr(rng.randint(1, 9), rng.choice([1, 2, 3, 5, 8, 16]))
        return [a + i * h for i in range(n)]
    if kind == "geometric":
        r = rng.choice([Fr(2), Fr(3, 2), Fr(5, 4), Fr(1, 2), Fr(3)])
        a = Fr(rng.randint(-5, 5))
        xs, step = [a], Fr(rng.randint(1, 4), rng.choice([1, 2, 4]))
        for _ in range(n - 1):
            xs.append(xs[-1] + step)
            step *= r
        return xs
    if kind == "clustered":
        xs = [Fr(rng.randint(-8, 8))]
        for _ in range(n - 1):
            if rng.random() < 0.4:
                xs.append(xs[-1] + Fr(1, 2 ** rng.randint(8, 40)))
            else:
                xs.append(xs[-1] + Fr(rng.randint(1, 6), rng.choice([1, 2, 3])))
        return xs
    if kind == "dyadic":
        xs = [Fr(rng.randint(-64, 64), 16)]
        for _ in range(n - 1):
            xs.append(xs[-1] + Fr(rng.randint(1, 64), 16))
        return xs
    if kind == "evenish" and n >= 4:
        # an even grid whose interior points were moved: first and last point and the first step (or the last step) are those
        # of the even grid, so "first step == mean step" holds although the axis is not evenly spaced
        a = Fr(rng.randint(-20, 20), rng.choice([1, 2, 4]))
        h = Fr(rng.randint(1, 9), rng.choice([1, 2, 4, 8]))
        xs = [a + i * h for i in range(n)]
        keep = {0, n - 1, 1} if rng.random() < 0.7 else {0, n - 1, n - 2}
        for i in range(1, n - 1):
            if i not in keep:
                lo, hi = xs[i - 1], xs[i + 1]
                xs[i] = lo + (hi - lo) * Fr(rng.randint(1, 15), 16)
        return xs
    if kind == "nearly_even" and n >= 3:
        # an even grid whose interior knots are off by a relative 2^-27 .. 2^-45 of the step (seed C16-r6m1: spacings "snapped" to their
        # mean when they agree with it to 1e-8 — the system is then built for another axis than the one evaluated on)
        a = Fr(rng.randint(-20, 20), rng.choice([1, 2, 4]))
        h = Fr(rng.randint(1, 9), rng.choice([1, 2, 4, 8]))
        xs = [a + i * h for i in range(n)]
        for i in range(1, n - 1):
            xs[i] += h * Fr(rng.choice([-1, 0, 1, 1]), 2 ** rng.randint(27, 45))
        if all(x == a + i * h for i, x in enumerate(xs)):
            xs[1] += h * Fr(1, 2 ** 29)
        return xs
    if kind == "indexlike" and n >= 3:
        # starts at exactly 0 and ends at exactly n-1 like the builders' default index axis, but is uneven in between (seed C15-r6m1:
        # a "default axis" fast path recognised by its end points only)
        cuts = sorted({Fr(rng.randint(1, 16 * (n - 1) - 1), 16) for _ in range(3 * n)})
        rng.shuffle(cuts)
        xs = [Fr(0)] + sorted(cuts[:n - 2]) + [Fr(n - 1)]
        if len(xs) == n and all(a < b for a, b in zip(xs, xs[1:])):
            return xs
    if kind == "mesh64":
        # neighbouring interval lengths differ by factors up to 2^6
        xs = [Fr(rng.randint(-4, 4))]
        for _ in range(n - 1):
            xs.append(xs[-1] + Fr(2 ** rng.randint(0, 6), 8))
        return xs
    # random
    s = set()
    while len(s) < n:
        s.add(Fr(rng.randint(-200, 200), rng.choice([1, 2, 3, 4, 5, 7, 8, 12])))
    return sorted(s)


def vals_q(rng, k, kind=None):
    kind = kind or rng.choice(["int", "dyadic", "rational", "big"])
    if kind == "int":
        return [Fr(rng.randint(-30, 30)) for _ in range(k)]
    if kind == "dyadic":
        return [Fr(rng.randint(-512, 512), 2 ** rng.randint(0, 8)) for _ in range(k)]
    if kind == "big":
        return [Fr(rng.randint(-10 ** 6, 10 ** 6), rng.randint(1, 10 ** 4)) for _ in range(k)]
    return [Fr(rng.randint(-60, 60), rng.randint(1, 12)) for _ in range(k)]


def queries_q(rng, xs, count, ext=False, inside_only=True):
    """queries directed at the boundaries of the case analysis of the code"""
    qs = []
    n = len(xs)
    span = xs[-1] - xs[0]
    eps = [Fr(1, 2 ** 20), Fr(1, 2 ** 50), Fr(1, 7)]
    pool = []
    for i in range(n):
        pool.append(xs[i])
        if i + 1 < n:
            h = xs[i + 1] - xs[i]
            pool.append(xs[i] + h / 2)
            pool.append(xs[i] + h * rng.choice(eps))
            pool.append(xs[i + 1] - h * rng.choice(eps))
            pool.append(xs[i] + h * Fr(rng.randint(1, 99), 100))
    if ext or not inside_only:
        for k in [Fr(1, 2 ** 30), Fr(1, 3), 1, 2, 7, 50]:
            pool.append(xs[0] - span * k)
            pool.append(xs[-1] + span * k)
    rng.shuffle(pool)
    must = [xs[0], xs[-1]]
    qs = must + pool
    return qs[:max(count, 2)]


def trailing_shape(rng, max_axes=3, allow_zero=False):
    k = rng.choice([0, 0, 1, 1, 2, 3][:max_axes + 3])
    k = min(k, max_axes)
    dims = []
    for _ in range(k):
        c = [1, 2, 3] + ([0] if allow_zero else [])
        dims.append(rng.choice(c))
    return dims


# ------------------------------------------------------------------ floats

def axis_f(rng, n, kind=None):
    """strictly increasing list of n finite f64 with finite span and finite (n-1)/span"""
    kind = kind or rng.choice(["unit", "uniform", "geometric", "log", "ulps", "mixed", "random", "evenish", "even", "nearly_even", "indexlike", "tail"])
    if kind == "unit":
        return [float(i) for i in range(n)]
    if kind == "even":
        # exactly evenly spaced (dyadic origin and step: every consecutive difference is the same float), origin away from 0
        a = rng.choice([-1, 1]) * rng.randint(1, 4000) / 4.0
        h = rng.randint(1, 64) / 16.0
        if n >= 3 and rng.random() < 0.5:
            a = -rng.randint(1, n - 2) * h      # an interior knot is exactly 0: its neighbouring floats are subnormal
        return [a + i * h for i in range(n)]
    if kind == "tail" and n >= 3:
        # knots that crowd towards the last one by many orders of magnitude (-1000, -100, .., -1e-20, 0): for queries in the tiny intervals
        # near the end `x - first` rounds to the full span and the O(1) guess lands on the last knot (seed C01-r9m1: "a guess on the last
        # knot can only mean the last interval")
        end = rng.choice([0.0, 0.0, 1.0, -3.0])
        gaps = sorted((10.0 ** rng.uniform(-22, 3) for _ in range(n - 1)), reverse=True)
        gaps[0] = max(gaps[0], 100.0)
        xs = [end - g for g in gaps] + [end]
        if all(p < q for p, q in zip(xs, xs[1:])):
            return xs
    if kind == "nearly_even" and n >= 3:
        a = rng.randint(-64, 64) / 4.0
        h = rng.randint(1, 32) / 8.0
        xs = [a + i * h for i in range(n)]
        for i in range(1, n - 1):
            xs[i] += h * rng.choice([-1, 0, 1, 1]) * 2.0 ** -rng.randint(27, 40)
        if all(x == a + i * h for i, x in enumerate(xs)):
            xs[1] += h * 2.0 ** -29
        if all(p < q for p, q in zip(xs, xs[1:])):
            return xs
    if kind == "indexlike" and n >= 3:
        cuts = sorted({rng.randint(1, 16 * (n - 1) - 1) / 16.0 for _ in range(3 * n)})
        rng.shuffle(cuts)
        xs = [0.0] + sorted(cuts[:n - 2]) + [float(n - 1)]
        if len(xs) == n and all(p < q for p, q in zip(xs, xs[1:])):
            return xs
    if kind == "evenish" and n >= 4:
        # dyadic even grid with moved interior points (first step == mean step exactly, axis not evenly spaced)
        a = rng.randint(-64, 64) / 4.0
        h = rng.randint(1, 32) / 8.0
        xs = [a + i * h for i in range(n)]
        keep = {0, n - 1, 1} if rng.random() < 0.7 else {0, n - 1, n - 2}
        for i in range(1, n - 1):
            if i not in keep:
                lo, hi = xs[i - 1], xs[i + 1]
                xs[i] = lo + (hi - lo) * rng.randint(1, 15) / 16.0
        return xs
    if kind == "uniform":
        a = rng.uniform(-100, 100)
        h = rng.uniform(1e-3, 10)
        xs = [a + i * h for i in range(n)]
    elif kind == "geometric":
        a, r = rng.uniform(0.1, 2), rng.uniform(1.1, 3.0)
        xs = [a * r ** i for i in range(n)]
    elif kind == "log":
        xs = [math.log(1.0 + i * rng.uniform(0.5, 3)) + i * 1e-9 for i in range(1, n + 1)]
    elif kind == "ulps":
        x = rng.uniform(-5, 5)
        xs = [x]
        for _ in range(n - 1):
            if rng.random() < 0.5:
                for _ in range(rng.randint(1, 3)):
                    x = next_up(x)
            else:
                x = x + rng.uniform(0.01, 1.0)
            xs.append(x)
    elif kind == "mixed":
        e0 = rng.randint(-300, 250)
        xs = sorted({rng.uniform(1, 10) * 10.0 ** rng.randint(e0, e0 + 40) * rng.choice([-1, 1]) for _ in range(n * 2)})
        xs = xs[:n] if len(xs) >= n else [float(i) for i in range(n)]
    else:
        xs = sorted({rng.uniform(-1e3, 1e3) for _ in range(n * 2)})[:n]
    # enforce strictness and the finiteness premise
    out = [xs[0]]
    for v in xs[1:]:
        out.append(v if v > out[-1] else next_up(out[-1]))
    span = out[-1] - out[0]
    if not (math.isfinite(span) and span > 0 and math.isfinite((n - 1) / span)):
        return [float(i) for i in range(n)]
    return out


def queries_f(rng, xs, count, special=True):
    pool = []
    for x in xs:
        pool += [x, next_up(x), next_down(x)]
    for a, b in zip(xs, xs[1:]):
        pool.append(a + (b - a) / 2)
        pool.append(rng.uniform(a, b))
    if special:
        pool += [math.inf, -math.inf, 1.7976931348623157e308, -1.7976931348623157e308, 0.0, -0.0,
                 xs[0] - abs(xs[0]) - 1.0, xs[-1] + abs(xs[-1]) + 1.0]
    rng.shuffle(pool)
    return [xs[0], xs[-1]] + pool[:max(0, count - 2)]


LAYS_1D = ["c", "c", "s2", "s3", "rev", "rev", "w"]
LAYS_ND = ["c", "c", "f", "s2", "rev", "perm", "w", "revl", "neg"]


def degenerate(rng, n, L, flat, p=0.15):
    """with probability p give the data (n rows of L lanes, row-major) a special structure: all rows equal (every lane constant
    along the interpolation axis), one lane constant, everything zero, every lane an affine function of the row number, or
    rows symmetric about the middle.  Shortcuts keyed on such data must still honour everything else (boundary values, other lanes)."""
    if rng.random() >= p or n == 0 or L == 0:
        return flat
    flat = list(flat)
    zero = flat[0] - flat[0]
    kind = rng.choice(["const", "lane", "zero", "affine", "sym"] + (["mirror", "mirror"] if L >= 2 else []))
    if kind == "mirror":
        # lanes in exactly negated pairs (y, -y, ...; with an odd number one lane is left alone): every row sums to zero over the lanes
        # although no lane is zero (seed C02-r7m1: an elimination step skipped when the *sum over all lanes* of a right-hand-side row is 0)
        perm = list(range(L))
        rng.shuffle(perm)
        for a, b in zip(perm[0::2], perm[1::2]):
            for i in range(n):
                flat[i * L + b] = zero - flat[i * L + a]
    elif kind == "const":
        for i in range(1, n):
            flat[i * L:(i + 1) * L] = flat[:L]
    elif kind == "lane":
        j = rng.randrange(L)
        for i in range(1, n):
            flat[i * L + j] = flat[j]
    elif kind == "zero":
        flat = [zero] * len(flat)
    elif kind == "affine":
        for j in range(L):
            a, b = flat[j], (flat[L + j] - flat[j]) if n > 1 else zero
            for i in range(n):
                flat[i * L + j] = a + b * i
    else:
        for i in range(n // 2):
            flat[(n - 1 - i) * L:(n - i) * L] = flat[i * L:(i + 1) * L]
    return flat


def structured_grid(rng, nx, ny, L, flat, p=0.15):
    """with probability p give 2-D data (nx x ny nodes of L lanes) a special structure: a symmetric Toeplitz table f(|i-j|), a
    checkerboard, a constant, an additively separable table — cells whose corners coincide in pairs"""
    if rng.random() >= p or nx * ny * L == 0:
        return flat
    flat = list(flat)
    zero = flat[0] - flat[0]
    kind = rng.choice(["toeplitz", "checker", "const", "separable", "rows"])
    for l in range(L):
        pool = [flat[k * L + l] for k in range(nx * ny)]
        for i in range(nx):
            for j in range(ny):
                k = (i * ny + j) * L + l
                if kind == "toeplitz":
                    flat[k] = pool[abs(i - j) % len(pool)]
                elif kind == "checker":
                    flat[k] = pool[(i + j) % 2]
                elif kind == "const":
                    flat[k] = pool[0]
                elif kind == "separable":
                    flat[k] = pool[i % len(pool)] + pool[(nx + j) % len(pool)]
                else:
                    flat[k] = pool[i % len(pool)]
    return flat


def auto_lay(pool, *key):
    """a memory layout chosen from the content of the case (no layout given by the caller): every family of every check
    meets every layout of every array argument; half of the cases stay in plain C order"""
    import zlib
    h = zlib.crc32(" ".join(str(k) for k in key).encode())
    if h & 1:
        return "c"
    return pool[(h >> 1) % len(pool)]


# ------------------------------------------------------------------ protocol line builders
from vlib import t_xspec, t_ndarr, t_strat, t_buf, t_vec, fq, ff, shape_size


def i1_line(S, x, shape, flat, strat, entry, dtag="dyn", xlay=None, dlay=None):
    fmt = fmt_of(S)
    xlay = xlay or auto_lay(LAYS_1D, "x", x, entry)
    dlay = dlay or auto_lay(LAYS_ND, "d", shape, flat[:4], entry)
    return f"{S} i1 {dtag} {t_xspec(x, fmt, xlay)} {t_ndarr(shape, flat, fmt, dlay)} {t_strat(strat, fmt)} {entry}"


def i2_line(S, x, y, shape, flat, ext, entry, dtag="dyn", xlay=None, ylay=None, dlay=None):
    fmt = fmt_of(S)
    xlay = xlay or auto_lay(LAYS_1D, "x", x, entry)
    ylay = ylay or auto_lay(LAYS_1D, "y", y, entry)
    dlay = dlay or auto_lay(LAYS_ND, "d", shape, flat[:4], entry)
    return (f"{S} i2 {dtag} {t_xspec(x, fmt, xlay)} {t_xspec(y, fmt, ylay)} "
            f"{t_ndarr(shape, flat, fmt, dlay)} {int(ext)} {entry}")


def fi(v):
    """protocol text of an i64"""
    assert int(v) == v
    return str(int(v))


def fmt_of(S):
    from vlib import ff32
    return {"Q": fq, "F": ff, "I": fi, "G": ff32, "J": fi}[S]


def axis_i(rng, n, kind=None):
    """strictly increasing integer axis (i64 element type; magnitudes far from overflow)"""
    kind = kind or rng.choice(["unit", "uniform", "random", "evenish", "gappy", "big", "small", "small"])
    if kind == "unit":
        return list(range(n))
    if kind == "small":
        # steps of 1..3: the mean step has a large fractional part, so integer division of span and offsets truncates visibly
        xs = [rng.randint(-10, 10)]
        for _ in range(n - 1):
            xs.append(xs[-1] + rng.choice([1, 1, 2, 3]))
        return xs
    if kind == "uniform":
        a, h = rng.randint(-50, 50), rng.randint(1, 9)
        return [a + i * h for i in range(n)]
    if kind == "gappy":
        # mostly unit steps with one or two large gaps: the mean step truncates badly
        xs = [rng.randint(-20, 20)]
        for _ in range(n - 1):
            xs.append(xs[-1] + (rng.randint(5, 40) if rng.random() < 0.25 else 1))
        return xs
    if kind == "big":
        # neighbours closer than the f64 spacing at their magnitude (above 2^53)
        b = rng.choice([2 ** 53, 2 ** 60, 1_668_400_000_000_000_000, -(2 ** 58)])
        xs = [b + rng.randint(0, 3)]
        for _ in range(n - 1):
            xs.append(xs[-1] + rng.choice([1, 1, 2, 3, 100, 300]))
        return xs
    if kind == "evenish" and n >= 4:
        a, h = rng.randint(-20, 20), rng.randint(2, 8)
        xs = [a + i * h for i in range(n)]
        for i in range(2, n - 1):
            lo, hi = xs[i - 1] + 1, xs[i + 1] - 1
            if lo <= hi:
                xs[i] = rng.randint(lo, hi)
        return xs
    s = set()
    while len(s) < n:
        s.add(rng.randint(-200, 200))
    return sorted(s)


def queries_i(rng, xs, count, ext=False):
    pool = list(xs)
    for a, b in zip(xs, xs[1:]):
        if b - a > 1:
            pool += [a + 1, b - 1, (a + b) // 2, rng.randint(a, b)]
    if ext:
        span = xs[-1] - xs[0]
        pool += [xs[0] - 1, xs[-1] + 1, xs[0] - span, xs[-1] + span, xs[0] - 3 * span - 7, xs[-1] + 2 * span + 5]
    rng.shuffle(pool)
    return ([xs[0], xs[-1]] + pool)[:max(count, 2)]


def e_scalar(S, *q):
    fmt = fmt_of(S)
    return "scalar " + " ".join(fmt(v) for v in q)


def e_idx(S, *q):
    """consecutive `get_index_left_of` calls on one interpolator (2-D: x1 y1 x2 y2 ...)"""
    fmt = fmt_of(S)
    return f"idx {len(q)} " + " ".join(fmt(v) for v in q)


def e_single(S, *q):
    fmt = fmt_of(S)
    return "single " + " ".join(fmt(v) for v in q)


def e_into(S, q, bufshape, lay=None):
    fmt = fmt_of(S)
    qs = q if isinstance(q, (list, tuple)) else [q]
    lay = lay or auto_lay(LAYS_ND, "b", bufshape, qs)
    return "into " + " ".join(fmt(v) for v in qs) + " " + t_buf(bufshape, lay)


def q_lay(lay, ql):
    """a query array whose elements are all equal is handed over as a broadcast view (all strides 0) half of the time"""
    import zlib
    if len(ql) >= 2 and all(str(v) == str(ql[0]) for v in ql) and zlib.crc32(str(ql[0]).encode()) & 1:
        return "bc"
    return lay


def e_array(S, qshape, *qlists, qtag="dyn", lay=None, lays=None):
    """`lays`: one layout per query array (x, y) instead of a common one"""
    fmt = fmt_of(S)
    lay = lay or auto_lay(LAYS_ND, "q", qshape, qlists[0][:6])
    if lays:
        return f"array {qtag} " + " ".join(t_ndarr(qshape, ql, fmt, l_) for ql, l_ in zip(qlists, lays))
    return f"array {qtag} " + " ".join(t_ndarr(qshape, ql, fmt, q_lay(lay, ql)) for ql in qlists)


def e_ainto(S, qshape, bufshape, *qlists, qtag="dyn", lay=None, blay=None, lays=None):
    fmt = fmt_of(S)
    lay = lay or auto_lay(LAYS_ND, "q", qshape, qlists[0][:6])
    blay = blay or auto_lay(LAYS_ND, "b", bufshape, qlists[0][:6])
    if lays:
        return f"ainto {qtag} " + " ".join(t_ndarr(qshape, ql, fmt, l_) for ql, l_ in zip(qlists, lays)) + " " + t_buf(bufshape, blay)
    return f"ainto {qtag} " + " ".join(t_ndarr(qshape, ql, fmt, q_lay(lay, ql)) for ql in qlists) + " " + t_buf(bufshape, blay)


def transpose_last2(qshape, ql):
    """logical contents with the last two axes exchanged (they have equal length)"""
    k = qshape[-1]
    assert len(qshape) >= 2 and qshape[-2] == k
    out = list(ql)
    blocks = len(ql) // (k * k)
    for b in range(blocks):
        for i in range(k):
            for j in range(k):
                out[b * k * k + i * k + j] = ql[b * k * k + j * k + i]
    return out


def pick_dims(rng, data_rank, qrank=None):
    """(dtag, qtag) the runner supports for these ranks"""
    dtag = "sta" if data_rank <= 6 and rng.random() < 0.6 else "dyn"
    qtag = "dyn"
    if qrank is not None and qrank <= 4 and rng.random() < 0.6:
        qtag = "sta"
    return dtag, qtag



# query-array shapes of rank >= 3: at least two axes before the last one are longer than 1 in most of them and the lengths differ,
# so that a result written to a transposed / differently unravelled position is a different query's result (seed C01-r5m1)
QSHAPES_3 = [[2, 3, 2], [3, 2, 2], [2, 2, 3], [2, 3, 1], [3, 2, 1], [2, 1, 3], [1, 2, 2], [3, 2, 3]]
QSHAPES_4 = [[2, 3, 1, 2], [2, 2, 2, 2], [3, 2, 2, 1], [2, 1, 3, 2]]


def fill_shape(rng, qshape, *qlists):
    """element lists for a query array of shape qshape, drawn from qlists (same positions from every list); distinct neighbours"""
    k = shape_size(qshape)
    m = len(qlists[0])
    idx = [i % m for i in range(k)]
    rng.shuffle(idx)
    return [[ql[i] for i in idx] for ql in qlists]


def query_shape(rng, nq, ranks=(0, 1, 1, 1, 2, 2, 3, 3, 4)):
    """a query shape of rank 0..4 for about nq query points"""
    k = rng.choice(ranks)
    if k == 0:
        return []
    if k == 1:
        return [max(1, nq)]
    if k == 2:
        a = max(1, nq // 2)
        return rng.choice([[a, 2], [2, a], [a, 3]])
    return list(rng.choice(QSHAPES_3 if k == 3 else QSHAPES_4))


LONG_KINDS = ["quadratic", "cubic-rev", "wide-last", "wide-first", "log", "sqrt", "growing", "random"]


def long_axis(rng, kind, n, S):
    """strictly increasing axis of n >= 2 points for long, unevenly spaced axes; S in Q / F / I (exactly representable values)"""
    if kind == "quadratic":
        v = [i * i for i in range(n)]
    elif kind == "cubic-rev":
        v = [-(n - i) ** 3 for i in range(n)]
    elif kind == "wide-last":
        v = list(range(n - 1)) + [4 * n]
    elif kind == "wide-first":
        v = [-4 * n] + list(range(1, n))
    elif kind == "sqrt":
        v = [int(1000 * math.sqrt(i)) for i in range(n)]
    elif kind == "log":
        v = [int(4000 * math.log(1 + i)) for i in range(n)]
    elif kind == "growing":
        v, st = [0], 1.0
        for _ in range(n - 1):
            v.append(v[-1] + max(1, int(st))); st *= 1.04
    else:
        v = [0]
        for _ in range(n - 1):
            v.append(v[-1] + rng.choice([1, 1, 1, 2, 5, 40]))
    assert all(a < b for a, b in zip(v, v[1:])), kind
    off = rng.randint(-50, 50)
    if S == "Q":
        d = rng.choice([1, 1, 3, 8])
        return [Fr(x + off, d) for x in v]
    if S == "F":
        sc = rng.choice([1.0, 0.125, 3.0])
        return [float(x + off) * sc for x in v]
    return [x + off for x in v]


def lanes_of(shape, k=1):
    return shape_size(shape[k:])


def exact_linear(xs, rows, q):
    """exact piecewise-linear interpolant (extrapolating with the end line); rows[i] = lane list"""
    from vlib import lin_bracket
    i = lin_bracket(xs, q)
    t = Fr(q - xs[i]) / Fr(xs[i + 1] - xs[i])
    return i, [Fr(a) + (Fr(b) - Fr(a)) * t for a, b in zip(rows[i], rows[i + 1])]


def rows_of(shape, flat, k=1):
    L = lanes_of(shape, k)
    n = shape_size(shape[:k])
    return [flat[i * L:(i + 1) * L] for i in range(n)]
