#!/usr/bin/env python3
"""Translator: reads /repo/src and regenerates lean/NdInterp/Gen/SourceFacts.lean — facts about the
shape of the program that C17 and C19 are stated over (receivers of the query methods, fields,
interior-mutability / global-state constructs, every `unsafe` site, every `cast_unchecked` site with
its enclosing guard and its two type expressions).  Writes only on change.  If an anchor cannot be
parsed the corresponding fact is emitted as `unavailable` (never as 'assumed true')."""
import os
import re
import sys

REPO = "/repo"
OUT = os.path.join(os.path.dirname(os.path.dirname(os.path.abspath(__file__))), "lean", "NdInterp", "Gen", "SourceFacts.lean")
LAYOUT_API = ["as_slice", "as_ptr", "as_mut_ptr", "into_shape", "to_shape", "reshape", ".strides(", "stride_of", "raw_view",
              "RawArrayView", "from_shape_ptr", "as_standard_layout", "is_standard_layout", "into_raw_vec", "uninit", "assume_init",
              "from_shape_vec_unchecked", "uget", "get_unchecked"]
FORBIDDEN = ["RefCell", "UnsafeCell", "OnceCell", "OnceLock", "LazyLock", "LazyCell", "Mutex", "RwLock", "Atomic",
             "thread_local", "lazy_static", "static mut", "Cell<", "Rc<"]


def strip_comments(src):
    """remove // and /* */ comments and string literals' contents, keep line structure"""
    out, i, n = [], 0, len(src)
    while i < n:
        if src.startswith("//", i):
            while i < n and src[i] != "\n":
                i += 1
        elif src.startswith("/*", i):
            depth = 1
            i += 2
            while i < n and depth:
                if src.startswith("/*", i):
                    depth += 1; i += 2
                elif src.startswith("*/", i):
                    depth -= 1; i += 2
                else:
                    if src[i] == "\n":
                        out.append("\n")
                    i += 1
        elif src[i] == '"':
            out.append('"')
            i += 1
            while i < n and src[i] != '"':
                if src[i] == "\\":
                    i += 1
                if i < n and src[i] == "\n":
                    out.append("\n")
                i += 1
            out.append('"')
            i += 1
        else:
            out.append(src[i])
            i += 1
    return "".join(out)


def match_brace(s, i):
    """index just after the block starting at s[i] == '{'"""
    depth = 0
    while i < len(s):
        if s[i] == "{":
            depth += 1
        elif s[i] == "}":
            depth -= 1
            if depth == 0:
                return i + 1
        i += 1
    return len(s)


def remove_cfg_items(s, cfg):
    """blank out items annotated with #[cfg(<cfg>)] (the item = up to the matching brace or ';')"""
    pat = re.compile(r"#\[cfg\(" + re.escape(cfg) + r"\)\]")
    while True:
        m = pat.search(s)
        if not m:
            return s
        j = m.end()
        # the item ends at the first ';' before any '{', or at the matching '}'
        k = j
        while k < len(s) and s[k] not in "{;":
            k += 1
        end = k + 1 if k < len(s) and s[k] == ";" else match_brace(s, k)
        blank = "".join(c if c == "\n" else " " for c in s[m.start():end])
        s = s[:m.start()] + blank + s[end:]


def line_of(s, pos):
    return s.count("\n", 0, pos) + 1


# ---------------------------------------------------------------- dimension type expressions
class ParseError(Exception):
    pass


def parse_dim(t):
    t = t.strip()
    if t == "Dq":
        return "DimExpr.dq"
    if t == "D":
        return "DimExpr.d"
    if t == "Ix1":
        return "DimExpr.ix1"
    if t.endswith("::Smaller") and not t.startswith("<"):
        return f"(DimExpr.smaller {parse_dim(t[:-len('::Smaller')])})"
    if t.startswith("<"):
        # <X as Trait<..>>::Assoc
        depth, i = 0, 0
        while i < len(t):
            if t[i] == "<":
                depth += 1
            elif t[i] == ">":
                depth -= 1
                if depth == 0:
                    break
            i += 1
        inner, rest = t[1:i], t[i + 1:]
        m = re.match(r"(.*?)\s+as\s+(.*)$", inner, re.S)
        if not m:
            raise ParseError(t)
        x, trait = m.group(1), m.group(2).strip()
        if trait == "Dimension" and rest == "::Smaller":
            return f"(DimExpr.smaller {parse_dim(x)})"
        mm = re.match(r"DimAdd<(.*)>$", trait, re.S)
        if mm and rest == "::Output":
            return f"(DimExpr.addOut {parse_dim(x)} {parse_dim(mm.group(1))})"
    raise ParseError(t)


def split_top(s, sep=","):
    parts, depth, cur = [], 0, ""
    for c in s:
        if c in "<([":
            depth += 1
        elif c in ">)]":
            depth -= 1
        if c == sep and depth == 0:
            parts.append(cur); cur = ""
        else:
            cur += c
    parts.append(cur)
    return [p.strip() for p in parts if p.strip()]


def parse_cast_ty(t):
    t = " ".join(t.split())
    m = re.match(r"&\s*ArrayBase<(.*)>$", t)
    if m:
        a = split_top(m.group(1))
        if len(a) == 2:
            return f'(CastTy.refArray "{a[0]}" {parse_dim(a[1])})'
    m = re.match(r"ArrayViewMut<(.*)>$", t)
    if m:
        a = split_top(m.group(1))
        if len(a) == 2:
            return f"(CastTy.viewMut {parse_dim(a[1])})"
    raise ParseError(t)


# ---------------------------------------------------------------- fact extraction
def enclosing_if(code, pos):
    """condition text of the innermost `if <cond> {` whose block contains pos, or None"""
    best = None
    for m in re.finditer(r"\bif\s+([^{;]+?)\s*\{", code):
        start = m.end() - 1
        end = match_brace(code, start)
        if start < pos < end:
            if best is None or start > best[0]:
                best = (start, " ".join(m.group(1).split()))
    return best[1] if best else None


def main():
    files = []
    for root, _, fs in os.walk(os.path.join(REPO, "src")):
        for f in fs:
            if f.endswith(".rs"):
                files.append(os.path.join(root, f))
    files.sort()
    methods, fields, hits, unsafe_sites, cast_sites, problems = [], [], [], [], [], []
    layout_hits = []
    for path in files:
        rel = os.path.relpath(path, REPO)
        code = strip_comments(open(path).read())
        code = remove_cfg_items(code, "ndarray_interp_verif")
        code = remove_cfg_items(code, "test")
        for tok in FORBIDDEN:
            for m in re.finditer(re.escape(tok), code):
                hits.append(f"{rel}:{line_of(code, m.start())}: {tok}")
        for tok in LAYOUT_API:
            for m in re.finditer(re.escape(tok), code):
                layout_hits.append(f"{rel}:{line_of(code, m.start())}: {tok}")
        for m in re.finditer(r"(?m)^\s*(pub\s+)?static\s", code):
            hits.append(f"{rel}:{line_of(code, m.start())}: static item")
        for m in re.finditer(r"\bunsafe\b", code):
            unsafe_sites.append((rel, line_of(code, m.start())))
        # structs with fields
        for m in re.finditer(r"\bstruct\s+(\w+)", code):
            name = m.group(1)
            k = m.end()
            while k < len(code) and code[k] not in "{;(":
                k += 1
            if k < len(code) and code[k] == "{":
                body = code[k + 1:match_brace(code, k) - 1]
                for fm in split_top(body):
                    fm = " ".join(fm.split())
                    if ":" in fm:
                        fields.append((rel, name, fm))
        # impl blocks: methods with receivers
        for m in re.finditer(r"\bimpl\b([^{;]*)\{", code):
            header = " ".join(m.group(1).split())
            tm = re.search(r"(?:for\s+)?(\w+)\s*(?:<[^{]*)?$", header.split(" where ")[0])
            target = None
            for cand in ("Interp1DBuilder", "Interp2DBuilder", "Interp1D", "Interp2D", "CubicSplineStrategy", "CubicSpline", "Linear", "Bilinear"):
                if re.search(r"\b" + cand + r"\b\s*<|\bfor\s+" + cand + r"\b|^\s*" + cand + r"\b|>\s*" + cand + r"\b", header.split(" where ")[0]):
                    target = cand
                    break
            if target is None:
                continue
            start = m.end() - 1
            body = code[start:match_brace(code, start)]
            for fm in re.finditer(r"\b(pub(?:\([^)]*\))?\s+)?fn\s+(\w+)\s*(?:<[^(]*>)?\s*\(([^)]*)", body):
                vis = "pub" if fm.group(1) else "priv"
                args = " ".join(fm.group(3).split())
                first = args.split(",")[0].strip()
                recv = {"&self": "Recv.ref", "&mut self": "Recv.refMut", "self": "Recv.owned", "mut self": "Recv.owned"}.get(first, "Recv.noSelf")
                methods.append((rel, target, fm.group(2), vis, recv))
        # cast sites
        for m in re.finditer(r"cast_unchecked\s*::\s*<", code):
            # skip the definition `fn cast_unchecked<A, B>`
            j = m.end() - 1
            depth, k = 0, j
            while k < len(code):
                if code[k] == "<":
                    depth += 1
                elif code[k] == ">":
                    depth -= 1
                    if depth == 0:
                        break
                k += 1
            tys = split_top(code[j + 1:k])
            guard = enclosing_if(code, m.start())
            if guard is None:
                g = "Guard.none"
            elif re.fullmatch(r"TypeId::of::<Dq>\(\)\s*==\s*TypeId::of::<Ix1>\(\)", guard):
                g = "Guard.dqIsIx1"
            else:
                g = 'Guard.other "' + guard.replace('"', "'") + '"'
            try:
                src, dst = parse_cast_ty(tys[0]), parse_cast_ty(tys[1])
            except (ParseError, IndexError) as e:
                problems.append(f"{rel}:{line_of(code, m.start())}: cannot parse cast types {tys}: {e}")
                continue
            min_rank = 2 if "interp2d" in rel else 1
            cast_sites.append((rel, line_of(code, m.start()), g, src, dst, min_rank))

    def s(x):
        return '"' + x.replace("\\", "\\\\").replace('"', '\\"') + '"'

    L = ["/-", "GENERATED by tools/translate.py from /repo/src on every run — do not edit.", "-/",
         "import NdInterp.Model.Dims", "", "namespace NdInterp.Gen", "open NdInterp", ""]
    L.append("/-- (file, type, fn, visibility, receiver) of every method of the interpolator, builder and strategy types -/")
    L.append("def methods : List (String × String × String × String × Recv) := [")
    L.append(",\n".join(f"  ({s(a)}, {s(b)}, {s(c)}, {s(d)}, {e})" for a, b, c, d, e in methods))
    L.append("]\n")
    L.append("/-- (file, struct, field declaration) -/")
    L.append("def fields : List (String × String × String) := [")
    L.append(",\n".join(f"  ({s(a)}, {s(b)}, {s(c)})" for a, b, c in fields))
    L.append("]\n")
    L.append("/-- occurrences of interior-mutability / global-state constructs outside cfg(test) and the verification hooks -/")
    L.append("def mutableStateHits : List String := [" + ", ".join(s(h) for h in hits) + "]\n")
    L.append("/-- calls of ndarray APIs whose result depends on the memory layout (outside cfg(test)) -/")
    L.append("def layoutApiHits : List String := [" + ", ".join(s(h) for h in layout_hits) + "]\n")
    L.append("/-- every `unsafe` token (file, line) -/")
    L.append("def unsafeSites : List (String × Nat) := [" + ", ".join(f"({s(a)}, {b})" for a, b in unsafe_sites) + "]\n")
    L.append("def castSites : List CastSite := [")
    L.append(",\n".join(f"  {{ file := {s(a)}, line := {b}, guard := {g}, src := {src}, dst := {dst}, minRank := {mr} }}"
                        for a, b, g, src, dst, mr in cast_sites))
    L.append("]\n")
    L.append("/-- anchors the translator could not interpret (must be empty for the facts to be complete) -/")
    L.append("def problems : List String := [" + ", ".join(s(p) for p in problems) + "]\n")
    L.append("end NdInterp.Gen")
    text = "\n".join(L) + "\n"
    old = open(OUT).read() if os.path.exists(OUT) else None
    if old != text:
        os.makedirs(os.path.dirname(OUT), exist_ok=True)
        tmp = OUT + f".tmp{os.getpid()}"
        with open(tmp, "w") as f:       # atomic replacement: checks of several properties may run at the same time
            f.write(text)
        os.replace(tmp, OUT)
        print("translate: SourceFacts.lean regenerated")
    else:
        print("translate: SourceFacts.lean unchanged")
    if problems:
        print("translate: problems:", *problems, sep="\n  ")


if __name__ == "__main__":
    main()
