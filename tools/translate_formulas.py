#!/usr/bin/env python3
"""Formula translator: reads the arithmetic kernels of the crate out of /repo/src and regenerates
lean/NdInterp/Gen/Formulas.lean — one Lean `def` per kernel, transliterated from the Rust expression that is in the
source *now* (Rust infix arithmetic = Lean infix arithmetic; `x.pow(two)` = `sq x`; `cast(2.0)` = `c2`; `x[len - 1]`,
`data.index_axis(AX0, 0)` = named parameters; `let`s stay `let`s; closure parameters are bound to the arrays their
`Zip` pairs them with).  `Props/FormulaTie.lean` proves, for every input, that each generated kernel equals the
corresponding expression of the hand-written model — so the theorems about the model are re-tied to what the code
says on every run.

A kernel that cannot be located or parsed (the source was restructured) is emitted as *unavailable*
(`def <k>_available : Bool := false` and a dummy body); its tie lemma then holds vacuously and the check records
the kernel as untied (tied by the correspondence runs only).  Nothing is ever assumed to hold.

usage: translate_formulas.py [--src DIR] [--out FILE]      (defaults: /repo/src, lean/NdInterp/Gen/Formulas.lean)
"""
import json
import os
import re
import sys

HERE = os.path.dirname(os.path.abspath(__file__))
sys.path.insert(0, HERE)
from translate import strip_comments, match_brace  # noqa: E402


class Unavailable(Exception):
    pass


# ------------------------------------------------------------------------------------------------ tokens / parser

TOK = re.compile(r"\s*(?:(\d+\.\d+|\d+)|([A-Za-z_]\w*)|(\"[^\"]*\"|::|<=|>=|==|!=|&&|\|\||-=|\.\.|[-+*/()\[\].,&<>=;{}|!:#?']))")


def tokenize(s):
    out, i = [], 0
    while i < len(s):
        m = TOK.match(s, i)
        if not m:
            if s[i:].strip() == "":
                break
            raise Unavailable(f"cannot tokenize at {s[i:i+30]!r}")
        if m.group(1) is not None:
            out.append(("num", m.group(1)))
        elif m.group(2) is not None:
            out.append(("id", m.group(2)))
        else:
            out.append(("op", m.group(3)))
        i = m.end()
    return out


class P:
    """expression parser for the arithmetic subset of Rust the kernels use; stops at the first token it cannot use"""

    def __init__(self, toks, pos=0):
        self.t, self.i = toks, pos

    def peek(self, k=0):
        return self.t[self.i + k] if self.i + k < len(self.t) else ("eof", "")

    def eat(self, v=None):
        tok = self.peek()
        if v is not None and tok[1] != v:
            raise Unavailable(f"expected {v!r}, got {tok[1]!r}")
        self.i += 1
        return tok

    def expr(self):
        return self.p_and()

    def p_and(self):
        a = self.p_cmp()
        while self.peek() == ("op", "&&"):
            self.eat()
            a = ("and", a, self.p_cmp())
        return a

    def p_cmp(self):
        a = self.p_add()
        if self.peek()[0] == "op" and self.peek()[1] in ("<=", ">=", "<", ">", "==", "!="):
            op = self.eat()[1]
            a = ("cmp", op, a, self.p_add())
        return a

    def p_add(self):
        a = self.p_mul()
        while self.peek()[0] == "op" and self.peek()[1] in ("+", "-"):
            op = self.eat()[1]
            a = ("bin", op, a, self.p_mul())
        return a

    def p_mul(self):
        a = self.p_un()
        while self.peek()[0] == "op" and self.peek()[1] in ("*", "/"):
            op = self.eat()[1]
            a = ("bin", op, a, self.p_un())
        return a

    def p_un(self):
        tok = self.peek()
        if tok == ("op", "-"):
            self.eat()
            return ("neg", self.p_un())
        if tok == ("op", "*") or tok == ("op", "&"):
            self.eat()
            if self.peek() == ("id", "mut"):
                self.eat()
            return self.p_un()          # deref / reference: the value
        if tok == ("op", "!"):
            self.eat()
            return ("not", self.p_un())
        return self.p_post()

    def skip_balanced(self, open_, close):
        """current token is `open_`; skip to just after the matching `close`"""
        depth = 0
        while True:
            tok = self.eat()
            if tok[0] == "eof":
                raise Unavailable("unbalanced")
            if tok[1] == open_:
                depth += 1
            elif tok[1] == close:
                depth -= 1
                if depth == 0:
                    return

    def args(self):
        """after '(' : comma separated expressions up to ')'"""
        out = []
        while self.peek() != ("op", ")"):
            out.append(self.expr())
            if self.peek() == ("op", ","):
                self.eat()
        self.eat(")")
        return out

    def p_post(self):
        a = self.p_prim()
        while True:
            tok = self.peek()
            if tok == ("op", ".") and self.peek(1)[0] == "id":
                self.eat()
                name = self.eat()[1]
                if self.peek() == ("op", "::"):       # turbofish
                    self.eat()
                    self.skip_balanced("<", ">")
                if self.peek() == ("op", "("):
                    if name in ("unwrap_or_else", "expect", "unwrap_or"):
                        self.skip_balanced("(", ")")
                        continue                          # `cast(..).unwrap_or_else(|| unimplemented!())` : the value
                    self.eat("(")
                    a = ("method", a, name, self.args())
                else:
                    a = ("field", a, name)
            elif tok == ("op", ".") and self.peek(1)[0] == "num":
                self.eat()
                a = ("field", a, self.eat()[1])
            elif tok == ("op", "["):
                self.eat()
                idx = self.expr()
                self.eat("]")
                a = ("index", a, idx)
            else:
                return a

    def p_prim(self):
        tok = self.peek()
        if tok[0] == "num":
            self.eat()
            return ("num", tok[1])
        if tok == ("op", "("):
            self.eat()
            first = self.expr()
            if self.peek() == ("op", ","):
                items = [first]
                while self.peek() == ("op", ","):
                    self.eat()
                    if self.peek() == ("op", ")"):
                        break
                    items.append(self.expr())
                self.eat(")")
                return ("tuple", items)
            self.eat(")")
            return first
        if tok[0] == "id":
            self.eat()
            path = [tok[1]]
            while self.peek() == ("op", "::"):
                self.eat()
                if self.peek() == ("op", "<"):
                    self.skip_balanced("<", ">")
                else:
                    path.append(self.eat()[1])
            if self.peek() == ("op", "("):
                self.eat()
                return ("call", "::".join(path), self.args())
            return ("var", "::".join(path))
        raise Unavailable(f"unexpected token {tok[1]!r}")


def parse_expr(text):
    toks = tokenize(text)
    p = P(toks)
    e = p.expr()
    return e, p.peek()


# ------------------------------------------------------------------------------------------------ rendering

CONSTS = {"0": "c0", "0.0": "c0", "1": "c1", "1.0": "c1", "2": "c2", "2.0": "c2", "3": "c3", "3.0": "c3"}
IDENT_METHODS = {"to_owned", "clone", "view", "into_owned", "view_mut", "reborrow", "into_dyn"}


def canon(e):
    """canonical text of an index expression: `len - 1`, `n + 1`, `0`, ... (with `len - 1 - 1` = `len - 2`)"""
    def lin(e):
        # returns (symbol or None, offset)
        if e[0] == "num":
            return None, int(float(e[1]))
        if e[0] == "var":
            return e[1], 0
        if e[0] == "bin" and e[1] in "+-":
            s1, o1 = lin(e[2])
            s2, o2 = lin(e[3])
            if s2 is not None:
                raise Unavailable("index not affine")
            return s1, o1 + (o2 if e[1] == "+" else -o2)
        if e[0] == "method" and e[2] == "len" and e[1][0] in ("var", "field"):
            return "len", 0
        if e[0] == "field" and e[1] == ("var", "range"):
            return "range." + e[2], 0
        raise Unavailable("index not affine")
    s, o = lin(e)
    if s is None:
        return str(o)
    return s if o == 0 else f"{s}{'+' if o > 0 else '-'}{abs(o)}"


class Env:
    """names in scope -> Lean text; arrays -> {canonical index -> Lean parameter}"""

    def __init__(self, arrays, names=None):
        self.arrays = arrays
        self.names = dict(names or {})
        self.lets = []            # (lean name, lean expr) in order
        self.reserved = set()     # Lean identifiers that are parameters of the kernel

    def render(self, e):
        k = e[0]
        if k == "num":
            if e[1] in CONSTS:
                return CONSTS[e[1]]
            raise Unavailable(f"numeric literal {e[1]}")
        if k == "var":
            if e[1] in self.names:
                return self.names[e[1]]
            raise Unavailable(f"unknown name {e[1]}")
        if k == "neg":
            return f"(-{self.render(e[1])})"
        if k == "bin":
            return f"({self.render(e[2])} {e[1]} {self.render(e[3])})"
        if k == "cmp":
            f = {"<=": "Cmp.le", ">=": "Cmp.ge", "<": "Cmp.lt", ">": "Cmp.gt", "==": "Cmp.eq"}.get(e[1])
            if not f:
                raise Unavailable("comparison " + e[1])
            return f"({f} {self.render(e[2])} {self.render(e[3])})"
        if k == "and":
            return f"({self.render(e[1])} && {self.render(e[2])})"
        if k == "not":
            return f"(!{self.render(e[1])})"
        if k == "index":
            return self.array_elem(e[1], e[2])
        if k == "method":
            recv, name, args = e[1], e[2], e[3]
            if name in IDENT_METHODS and not args:
                return self.render(recv)
            if name == "pow" and len(args) == 1:
                if self.render(args[0]) == "c2":
                    return f"(sq {self.render(recv)})"
                raise Unavailable("pow with exponent other than two")
            if name == "rem_euclid" and len(args) == 1:
                return f"(RemEuclid.remEuclid {self.render(recv)} {self.render(args[0])})"
            if name in ("index_axis", "index_axis_mut") and len(args) == 2:
                return self.array_elem(recv, args[1])
            raise Unavailable(f"method {name}")
        if k == "call":
            if e[1] == "cast" and len(e[2]) == 1:
                a = e[2][0]
                if a[0] == "num":
                    return self.render(a)
                return f"(castNat {self.render(a)})"
            if e[1].endswith("calc_frac") and len(e[2]) == 3 and e[2][0][0] == "tuple" and e[2][1][0] == "tuple":
                (a, b), (c, d) = e[2][0][1], e[2][1][1]
                return f"(calc_frac {self.render(a)} {self.render(b)} {self.render(c)} {self.render(d)} {self.render(e[2][2])})"
            raise Unavailable(f"call {e[1]}")
        if k == "field":
            key = self.field_key(e)
            if key in self.names:
                return self.names[key]
            raise Unavailable(f"field {key}")
        raise Unavailable(f"node {k}")

    def field_key(self, e):
        if e[0] == "var":
            return e[1]
        if e[0] == "field":
            return self.field_key(e[1]) + "." + e[2]
        raise Unavailable("field base")

    def array_elem(self, recv, idx):
        if recv[0] == "method" and recv[2] in IDENT_METHODS:
            recv = recv[1]
        try:
            key = self.field_key(recv)
        except Unavailable:
            raise Unavailable("indexed receiver")
        # a name bound to an array alias (e.g. the closure parameter `x` of `x.windows(3)`)
        key = self.names.get("@" + key, key)
        tab = self.arrays.get(key)
        if tab is None:
            raise Unavailable(f"array {key}")
        c = canon(idx)
        if c not in tab:
            raise Unavailable(f"{key}[{c}] is not a parameter of this kernel")
        return tab[c]

    def let(self, name, e):
        txt = self.render(e)
        lean = re.sub(r"\W", "_", name)
        used = {a for a, _ in self.lets} | set(self.names.values()) | self.reserved
        for tab in self.arrays.values():
            used |= set(tab.values())
        lean_n = lean
        while lean_n in used:
            lean_n += "'"
        self.lets.append((lean_n, txt))
        self.names[name] = lean_n

    def prefix(self, value=None):
        """the `let`s the value depends on (transitively), in source order"""
        ident = re.compile(r"[A-Za-z_][\w']*")
        need = set(ident.findall(value)) if value is not None else None
        keep = []
        for a, b in reversed(self.lets):
            if need is None or a in need:
                keep.append((a, b))
                if need is not None:
                    need |= set(ident.findall(b))
        return "".join(f"  let {a} := {b}\n" for a, b in reversed(keep))


# ------------------------------------------------------------------------------------------------ statements

LET = re.compile(r"\blet\s+(?:mut\s+)?(\w+)\s*(?::\s*[^=;]+?)?\s*=(?!=)")
SET = re.compile(r"(?<![\w.\])])(\*\s*\w+|\w+(?:\.\d+)?\s*\[[^\]]*\]|\w+(?:\.\d+)?)\s*(-=|(?<![=!<>+\-*/])=(?!=))")


def scan(region, env, zip_sources=True):
    """flat scan of a region in textual order: `let`s extend the environment; assignments, `.assign(&(..))`,
    `.fill(..)`, and `map_assign_into` closures are collected as (target text, op, rendered expression or exception)"""
    events = []
    for m in LET.finditer(region):
        events.append((m.start(), "let", m.group(1), m.end()))
    let_spans = [(m.start(), m.end()) for m in LET.finditer(region)]
    for m in SET.finditer(region):
        if any(a <= m.start() < b for a, b in let_spans):
            continue
        before = region[:m.start()].rstrip()
        if before.endswith("let") or before.endswith("mut"):
            continue
        events.append((m.start(), "set", re.sub(r"\s+", "", m.group(1)), m.end(), m.group(2)))
    for m in re.finditer(r"\.(assign|fill)\s*\(", region):
        # receiver: walk back over a postfix chain
        j = m.start()
        depth = 0
        while j > 0:
            ch = region[j - 1]
            if ch in ")]":
                depth += 1
            elif ch in "([":
                if depth == 0:
                    break
                depth -= 1
            elif depth == 0 and not (ch.isalnum() or ch in "_.:" or ch.isspace()):
                break
            elif depth == 0 and ch.isspace():
                # whitespace inside a chain is only allowed before a '.'
                if not region[j:].lstrip().startswith("."):
                    break
            j -= 1
        recv = region[j:m.start()].strip()
        events.append((m.start(), m.group(1), recv, m.end()))
    for m in re.finditer(r"Zip::from\(", region):
        events.append((m.start(), "zip", None, m.end()))
    events.sort(key=lambda ev: ev[0])
    out = []
    for ev in events:
        pos, kind = ev[0], ev[1]
        try:
            if kind == "let":
                e, _ = parse_expr(cut(region, ev[3]))
                alias = row_alias(e, env) if e[0] == "method" else None
                if alias:
                    env.names[ev[2]] = alias          # a view of a row: an alias, not a value
                else:
                    try:
                        env.let(ev[2], e)
                    except Unavailable:
                        env.names.pop(ev[2], None)
            elif kind == "set":
                e, _ = parse_expr(cut(region, ev[3]))
                tgt = ev[2]
                if ev[4] == "-=":
                    lhs, _ = parse_expr(tgt)
                    e = ("bin", "-", lhs, e)
                try:
                    out.append((tgt, env.render(e), dict(env.names)))
                except Unavailable as ex:
                    out.append((tgt, ex, None))
                # a plain re-assignment of a scalar name (`x = ...`) updates the environment
                if re.fullmatch(r"\w+", tgt) and ev[4] == "=":
                    try:
                        env.let(tgt, e)
                    except Unavailable:
                        pass
            elif kind in ("assign", "fill"):
                e, _ = parse_expr(cut(region, ev[3]))
                recv = re.sub(r"\s+", "", ev[2])
                try:
                    out.append((f"{recv}.{kind}", env.render(e), dict(env.names)))
                except Unavailable as ex:
                    out.append((f"{recv}.{kind}", ex, None))
            elif kind == "zip":
                bind_zip(region, ev[3], env, out)
        except Unavailable as ex:
            out.append((f"<{kind}@{pos}>", ex, None))
    return out


def cut(region, start):
    """text of the expression starting at `start` (up to the `;` or unbalanced closer that ends it)"""
    depth, i = 0, start
    while i < len(region):
        ch = region[i]
        if ch in "([{":
            depth += 1
        elif ch in ")]}":
            if depth == 0:
                break
            depth -= 1
        elif ch == ";" and depth == 0:
            break
        i += 1
    return region[start:i]


def row_alias(e, env):
    """`data.index_axis(AX0, 0)` and friends as the Lean parameter they denote"""
    try:
        if e[0] == "method" and e[2] in ("index_axis", "index_axis_mut"):
            return env.array_elem(e[1], e[3][1])
        if e[0] == "method" and e[2] in IDENT_METHODS:
            return row_alias(e[1], env)
        if e[0] == "var" and e[1] in env.names:
            return env.names[e[1]]
    except Unavailable:
        return None
    return None


def bind_zip(region, start, env, out):
    """`Zip::from(A).and(B)....for_each(|p, q, ..| body)` / `.map_assign_into(T, |p, ..| expr)`:
    bind every closure parameter to the row its producer denotes"""
    toks_text = cut(region, start - len("Zip::from("))
    srcs = []
    i = toks_text.index("(") + 1
    # producers: Zip::from(X) then .and(Y)*
    def take_paren(s, j):
        depth, k = 1, j
        while depth:
            if s[k] in "([{":
                depth += 1
            elif s[k] in ")]}":
                depth -= 1
            k += 1
        return s[j:k - 1], k
    a, i = take_paren(toks_text, i)
    srcs.append(a)
    target = None
    while True:
        m = re.match(r"\s*\.\s*(and|for_each|map_assign_into|fold_while|fold)\s*\(", toks_text[i:])
        if not m:
            return
        i += m.end()
        if m.group(1) == "and":
            a, i = take_paren(toks_text, i)
            srcs.append(a)
            continue
        rest = toks_text[i:]
        if m.group(1) == "map_assign_into":
            cm = re.match(r"\s*([^|]*?),\s*\|", rest)
            if not cm:
                return
            target = cm.group(1).strip()
            rest = rest[cm.end() - 1:]
        pm = re.match(r"\s*\|([^|]*)\|", rest)
        if not pm:
            return
        params = [re.sub(r"[&\s]|\bmut\b", "", p) for p in pm.group(1).split(",") if p.strip()]
        for p, s in zip(params, srcs):
            e, _ = parse_expr(s)
            alias = row_alias(e, env)
            if alias:
                env.names[p] = alias
            else:
                env.names.pop(p, None)
        if len(params) != len(srcs):
            for p in params:
                env.names.pop(p, None)
        if target is not None:
            body = rest[pm.end():].strip()
            if body.startswith("{"):
                body = body[1:]
            e, _ = parse_expr(body)
            te, _ = parse_expr(target)
            tname = row_alias(te, env) or target
            try:
                out.append((f"map_assign_into:{tname}", env.render(e), dict(env.names)))
            except Unavailable as ex:
                out.append((f"map_assign_into:{tname}", ex, None))
        return


# ------------------------------------------------------------------------------------------------ regions

def fn_body(code, header_re):
    m = re.search(header_re, code)
    if not m:
        raise Unavailable(f"anchor {header_re!r} not found")
    k = code.index("{", m.end() - 1) if code[m.end() - 1] != "{" else m.end() - 1
    # skip a where clause: the body is the first '{' at angle/paren depth 0 after the signature
    depth = 0
    j = m.end()
    while j < len(code):
        ch = code[j]
        if ch in "(<":
            depth += 1
        elif ch in ")>":
            depth -= 1 if not (ch == ">" and code[j - 1] == "-") else 0
        elif ch == "{" and depth <= 0:
            k = j
            break
        j += 1
    return code[k + 1:match_brace(code, k) - 1]


def block_after(text, anchor_re):
    m = re.search(anchor_re, text)
    if not m:
        raise Unavailable(f"anchor {anchor_re!r} not found")
    k = text.find("{", m.end() - 1)
    if k < 0:
        raise Unavailable("no block after anchor")
    return text[k + 1:match_brace(text, k) - 1], m.start(), match_brace(text, k)


# ------------------------------------------------------------------------------------------------ kernels

XS_ENDS = {"0": "x0", "1": "x1", "2": "x2", "len-1": "xl1", "len-2": "xl2", "len-3": "xl3", "len-4": "xl4"}
YS_ENDS = {"0": "y0", "1": "y1", "2": "y2", "len-1": "yl1", "len-2": "yl2", "len-3": "yl3"}
SCALAR_NAMES = {"zero": "c0", "one": "c1", "two": "c2", "three": "c3"}


class Out:
    def __init__(self):
        self.defs = []          # (name, params, body lines, available, why)
        self.status = {}
        self.tables = {}        # name -> list of (key, value) strings, or None when unavailable

    def add(self, name, params, env, value, classes=""):
        if isinstance(value, Exception) or value is None:
            self.unavailable(name, params, str(value) if value is not None else "statement not found", classes)
            return
        body = env.prefix(value) + "  " + value
        # every identifier of the body must be a parameter, a kept `let`, or a name of the model's vocabulary
        known = set(params) | {a for a, _ in env.lets} | {"c0", "c1", "c2", "c3", "sq", "calc_frac", "castNat", "let", "Cmp", "le", "ge",
                                                         "lt", "gt", "eq", "RemEuclid", "remEuclid"}
        unknown = [w for w in re.findall(r"[A-Za-z_][\w']*", body) if w not in known]
        if unknown:
            self.unavailable(name, params, f"refers to {sorted(set(unknown))}, which this kernel does not take as input", classes)
            return
        self.defs.append((name, params, body, True, classes))
        self.status[name] = "translated"

    def unavailable(self, name, params, why, classes=""):
        self.defs.append((name, params, None, False, classes))
        self.status[name] = "unavailable: " + why


def pick(stmts, target):
    """the unique statement with this target; ambiguous (assigned twice, e.g. under a new branch) = unavailable"""
    hits = [s for s in stmts if s[0] == target]
    if len(hits) == 1:
        return hits[0][1]
    if not hits:
        return Unavailable(f"no statement assigns {target}")
    return Unavailable(f"{target} is assigned {len(hits)} times in this region")


def names_at(stmts, target):
    hits = [s for s in stmts if s[0] == target and s[2] is not None]
    return hits[0][2] if len(hits) == 1 else None


def translate(src_dir):
    out = Out()
    rd = lambda rel: strip_comments(open(os.path.join(src_dir, rel)).read())

    # ---- linear.rs : calc_frac
    P5 = ["x1", "y1", "x2", "y2", "x"]
    try:
        body = fn_body(rd("interp1d/strategies/linear.rs"), r"fn\s+calc_frac\s*<[^>]*>\s*\(\s*\(x1,\s*y1\)\s*:\s*\(T,\s*T\),\s*\(x2,\s*y2\)\s*:\s*\(T,\s*T\),\s*x\s*:\s*T\s*\)")
        env = Env({}, {p: p for p in P5})
        scan(body, env)
        # the value of the function is its trailing expression
        tail = body.rsplit(";", 1)[-1]
        e, nxt = parse_expr(tail)
        out.add("calc_frac", P5, env, env.render(e))
    except Unavailable as ex:
        out.unavailable("calc_frac", P5, str(ex))
    except FileNotFoundError as ex:
        out.unavailable("calc_frac", P5, str(ex))

    # ---- bilinear.rs : the blend
    PB = ["x1", "x2", "y1", "y2", "z11", "z12", "z21", "z22", "x", "y"]
    try:
        body = fn_body(rd("interp2d/strategies/bilinear.rs"), r"fn\s+interp_into\s*\(")
        # which corner each z.. is: index_point(x_idx + a, y_idx + b)
        corners = {}
        for m in re.finditer(r"let\s*\(([^)]*)\)\s*=\s*interpolator\s*\.\s*index_point\s*\(([^;]*)\)\s*;", body):
            pats = [p.strip() for p in m.group(1).split(",")]
            args = [re.sub(r"\s+", "", a) for a in m.group(2).split(",")]
            if len(pats) != 3 or len(args) != 2:
                raise Unavailable("index_point pattern")
            dx = {"x_idx": 1, "x_idx+1": 2}.get(args[0])
            dy = {"y_idx": 1, "y_idx+1": 2}.get(args[1])
            if dx is None or dy is None:
                raise Unavailable(f"index_point arguments {args}")
            for p, lean in zip(pats, (f"x{dx}", f"y{dy}", f"z{dx}{dy}")):
                if p != "_":
                    corners[p] = lean
        env = Env({}, dict(corners, x="x", y="y"))
        if set(corners.values()) != {"x1", "x2", "y1", "y2", "z11", "z12", "z21", "z22"}:
            raise Unavailable(f"corner bindings {corners}")
        if not re.search(r"interpolator\s*\.\s*get_index_left_of\s*\(\s*x\s*,\s*y\s*\)", body):
            raise Unavailable("get_index_left_of(x, y)")
        zp = body[body.index("Zip::from"):]
        zm = re.search(r"\.for_each\s*\(\s*\|([^|]*)\|", zp)
        chain = [re.sub(r"\s+", "", c) for c in re.findall(r"(?:Zip::from|\.and)\s*\(\s*(\w+)\s*\)", zp[:zm.start()])]
        params = [re.sub(r"[&\s]", "", p) for p in zm.group(1).split(",")]
        for p, c in zip(params, chain):
            if c in corners:
                env.names[p] = corners[c]
        blk, _, _ = block_after(zp, r"\.for_each\s*\(\s*\|[^|]*\|\s*")
        stmts = scan(blk, env)
        out.add("bilinear", PB, env, pick(stmts, "*" + params[-1]))
    except (Unavailable, ValueError, AttributeError) as ex:
        out.unavailable("bilinear", PB, str(ex))

    # ---- vector_extensions.rs : index guess and the range tests of the lookup
    PG = ["x0", "xl", "n1", "x"]
    try:
        body = fn_body(rd("vector_extensions.rs"), r"fn\s+get_lower_index\s*\(\s*&self\s*,\s*x\s*:\s*S::Elem\s*\)\s*->\s*usize")
        env = Env({"self": {"0": "x0", "len-1": "xl", "range.0": "x0", "range.1": "xl"}},
                  {"x": "x", "range.0": "c0", "range.1": "(castNat n1)"})
        # `let mut range = (0usize, self.len() - 1)` : the model's guess uses 0 and len-1
        rm = re.search(r"let\s+mut\s+range\s*=\s*\(\s*0usize\s*,\s*self\s*\.\s*len\s*\(\s*\)\s*-\s*1\s*\)\s*;", body)
        if not rm:
            raise Unavailable("range initialisation")
        p1 = re.search(r"let\s+p1\s*=\s*\(", body)
        p2 = re.search(r"let\s+p2\s*=\s*\(", body)
        mid = re.search(r"let\s+mid\s*=\s*", body)
        if not (p1 and p2 and mid):
            raise Unavailable("p1/p2/mid")
        e1, _ = parse_expr(cut(body, p1.end() - 1))
        e2, _ = parse_expr(cut(body, p2.end() - 1))
        em, _ = parse_expr(cut(body, mid.end()))
        if e1[0] != "tuple" or e2[0] != "tuple" or em[0] != "call":
            raise Unavailable("guess shape")
        # cast(range.k) renders as the model's numerals
        def r(e):
            if e[0] == "call" and e[1] == "cast":
                return env.names[env.field_key(e[2][0])]
            return env.render(e)
        a = [r(t) for t in e1[1]] + [r(t) for t in e2[1]]
        if [x_[1] for x_ in em[2] if x_[0] == "var"] != ["p1", "p2", "x"]:
            raise Unavailable("calc_frac(p1, p2, x)")
        out.add("index_guess", PG, env, f"(calc_frac {a[0]} {a[1]} {a[2]} {a[3]} x)", classes="guess")
    except (Unavailable, KeyError) as ex:
        out.unavailable("index_guess", PG, str(ex), classes="guess")

    PR = ["x0", "xl", "x"]
    for name, rel, fn, arr in (("in_range_1d", "interp1d/mod.rs", "is_in_range", "self.x"),
                               ("in_range_2d_x", "interp2d/mod.rs", "is_in_x_range", "self.x"),
                               ("in_range_2d_y", "interp2d/mod.rs", "is_in_y_range", "self.y")):
        try:
            body = fn_body(rd(rel), r"fn\s+" + fn + r"\s*\(\s*&self\s*,\s*(\w)\s*:[^)]*\)\s*->\s*bool")
            var = re.search(r"fn\s+" + fn + r"\s*\(\s*&self\s*,\s*(\w)", rd(rel)).group(1)
            env = Env({arr: {"0": "x0", "len-1": "xl"}}, {var: "x"})
            e, nxt = parse_expr(body)
            out.add(name, PR, env, env.render(e), classes="cmp")
        except Unavailable as ex:
            out.unavailable(name, PR, str(ex), classes="cmp")

    # ---- cubic_spline.rs
    try:
        cs = rd("interp1d/strategies/cubic_spline.rs")
    except FileNotFoundError:
        cs = ""
    spline(cs, out)
    tables(rd, cs, out)
    return out


def norm(t):
    return re.sub(r"\s+", "", t).rstrip(",")


def match_arms(body):
    """`pat => expr,` arms of a match body at nesting depth 0"""
    arms, depth, start, i = [], 0, 0, 0
    while i < len(body):
        ch = body[i]
        if ch in "([{":
            depth += 1
        elif ch in ")]}":
            depth -= 1
            if depth == 0 and ch == "}" and body[i + 1:i + 2] != ",":
                arms.append(body[start:i + 1]); start = i + 1
        elif ch == "," and depth == 0:
            arms.append(body[start:i]); start = i + 1
        i += 1
    if body[start:].strip():
        arms.append(body[start:])
    out = []
    for a in arms:
        if "=>" in a:
            l, r = a.split("=>", 1)
            out.append((norm(l), norm(r)))
    return out


def tables(rd, cs, out):
    """finite decision tables of the crate, as text: minimum data lengths, the two `specialize` maps, the selection of the
    extrapolation mode, the order of the builders' validation steps"""
    # minimum data length of every strategy builder
    t = []
    for rel, name in (("interp1d/strategies/linear.rs", "Linear"), ("interp1d/strategies/cubic_spline.rs", "CubicSpline"),
                      ("interp2d/strategies/bilinear.rs", "Bilinear")):
        try:
            m = re.findall(r"const\s+MINIMUM_DATA_LENGHT\s*:\s*usize\s*=\s*(\d+)\s*;", rd(rel))
        except FileNotFoundError:
            m = []
        t.append((name, m[0] if len(m) == 1 else "?"))
    out.tables["minLen"] = t
    # specialize maps
    for key, hdr in (("specializeInternal", r"impl\s*<\s*T\s*:\s*SplineNum\s*>\s*InternalBoundary\s*<\s*T\s*>"),
                     ("specializeSingle", r"impl\s*<\s*T\s*:\s*SplineNum\s*>\s*SingleBoundary\s*<\s*T\s*>")):
        try:
            m = re.search(hdr, cs)
            if not m:
                raise Unavailable(key)
            blk = cs[m.end():]
            blk = blk[blk.index("{"):]
            blk = blk[:match_brace(blk, 0)]
            fb = fn_body(blk, r"fn\s+specialize\s*\(\s*self\s*\)\s*->\s*Self")
            mb, _, _ = block_after(fb, r"match\s+self\s*")
            arms = match_arms(mb)
            arms = [(l.replace("InternalBoundary::", "").replace("SingleBoundary::", "").replace("Self::", ""),
                     re.sub(r"\.unwrap_or_else\(\|\|unimplemented!\(\)\)", "", r.replace("Self::", "").replace("InternalBoundary::", "").replace("SingleBoundary::", "")))
                    for l, r in arms]
            out.tables[key] = arms
        except (Unavailable, ValueError):
            out.tables[key] = None
    # extrapolation mode selected by CubicSpline::build
    try:
        m = re.search(r"let\s+extrapolate\s*=\s*(if\s.*?)\s*;\s*Ok\s*\(\s*CubicSplineStrategy", cs, re.S)
        out.tables["extrapolateMode"] = [("expr", norm(m.group(1)))] if m else None
    except Exception:
        out.tables["extrapolateMode"] = None
    # validation steps of the two builders, in source order: which error kind each `return Err(..)` of build() carries
    for key, rel in (("validate1", "interp1d/mod.rs"), ("validate2", "interp2d/mod.rs")):
        try:
            src = rd(rel)
            m = re.search(r"pub\s+fn\s+build\s*\(\s*self\s*\)", src)
            fb = fn_body(src[m.start():], r"pub\s+fn\s+build\s*\(\s*self\s*\)")
            steps = []
            for mm in re.finditer(r"if\s+(.*?)\{\s*return\s+Err\s*\(\s*(?:BuilderError::)?(\w+)", fb, re.S):
                steps.append((norm(mm.group(1)), mm.group(2)))
            out.tables[key] = steps or None
        except Exception:
            out.tables[key] = None


ENDS = ["x0", "x1", "x2", "xl1", "xl2", "xl3", "y0", "y1", "y2", "yl1", "yl2", "yl3"]


def spline(cs, out):
    def fail_all(names_params, why):
        for n, p in names_params:
            out.unavailable(n, p, why)

    # ---------------- solve_for_k
    W = ["w0", "w1", "w2"]
    N3 = ["xm", "xn", "xp", "ym", "yn", "yp"]
    try:
        B = fn_body(cs, r"fn\s+solve_for_k\s*<")
        base = Env({}, dict(SCALAR_NAMES))
        # constants must be the casts of 0,1,2,3
        for nm, lit in (("zero", "0.0"), ("one", "1.0"), ("two", "2.0"), ("three", "3.0")):
            if not re.search(r"let\s+" + nm + r"\s*:\s*T\s*=\s*cast\(\s*" + re.escape(lit) + r"\s*\)", B):
                raise Unavailable(f"constant {nm}")
    except Unavailable as ex:
        fail_all([("interior_lo", W), ("interior_mid", W), ("interior_up", W), ("interior_rhs", N3)], str(ex))
        B = None
    if B is not None:
        # interior diagonals
        try:
            blk, _, _ = block_after(B, r"\.and\s*\(\s*x\s*\.\s*windows\s*\(\s*3\s*\)\s*\)\s*\.for_each\s*\(\s*\|\s*a_up\s*,\s*a_mid\s*,\s*a_low\s*,\s*x\s*\|\s*")
            zhead = B[:B.index("x.windows(3)") if "x.windows(3)" in B else 0]
            zz = re.search(r"Zip::from\s*\(\s*a_up\s*\.\s*slice_mut\s*\(\s*s!\s*\[\s*1\s*\.\.\s*-1\s*\]\s*\)\s*\)\s*\.and\s*\(\s*a_mid\s*\.\s*slice_mut\s*\(\s*s!\s*\[\s*1\s*\.\.\s*-1\s*\]\s*\)\s*\)\s*\.and\s*\(\s*a_low\s*\.\s*slice_mut\s*\(\s*s!\s*\[\s*1\s*\.\.\s*-1\s*\]\s*\)\s*\)\s*\.and\s*\(\s*$", zhead)
            if not zz:
                raise Unavailable("Zip of the diagonals' s![1..-1] slices with x.windows(3)")
            env = Env({"x": {"0": "w0", "1": "w1", "2": "w2"}}, dict(SCALAR_NAMES))
            st = scan(blk, env)
            for nm, tgt in (("interior_up", "*a_up"), ("interior_mid", "*a_mid"), ("interior_lo", "*a_low")):
                out.add(nm, W, env, pick(st, tgt))
        except (Unavailable, ValueError) as ex:
            fail_all([("interior_lo", W), ("interior_mid", W), ("interior_up", W)], str(ex))
        # interior rhs
        try:
            blk, _, end_rhs = block_after(B, r"for\s+n\s+in\s+1\s*\.\.\s*len\s*-\s*1\s*")
            env = Env({"x": {"n-1": "xm", "n": "xn", "n+1": "xp"}, "data": {"n-1": "ym", "n": "yn", "n+1": "yp"},
                       "rhs": {"n": "RHS_n"}}, dict(SCALAR_NAMES))
            st = scan(blk, env)
            out.add("interior_rhs", N3, env, pick(st, "map_assign_into:RHS_n"))
        except Unavailable as ex:
            out.unavailable("interior_rhs", N3, str(ex))
            end_rhs = None

        # the four end interval lengths
        def ends_env(extra_arrays=None):
            arrays = {"x": dict(XS_ENDS), "data": dict(YS_ENDS),
                      "rhs": {"0": "RHS_0", "1": "RHS_1", "2": "RHS_2", "len-1": "RHS_l1", "len-2": "RHS_l2"}}
            arrays.update(extra_arrays or {})
            env = Env(arrays, dict(SCALAR_NAMES))
            mm = re.search(r"match\s*\(\s*boundary\s*\.\s*specialize\s*\(\s*\)\s*,\s*len\s*\)", B)
            if not mm:
                raise Unavailable("match (boundary.specialize(), len)")
            start = end_rhs if end_rhs else 0
            scan(B[start:mm.start()], env)
            for nm in ("dx0", "dx1", "dx_1", "dx_2"):
                if nm not in env.names:
                    raise Unavailable(f"{nm} not defined before the match")
            return env

        E = ENDS
        rows = [("left_nak", r"match\s+left\s*\.\s*specialize\s*\(\s*\)\s*", r"SingleBoundary::NotAKnot\s*=>\s*", "0", "a_up[0]", None),
                ("left_fd", r"match\s+left\s*\.\s*specialize\s*\(\s*\)\s*", r"SingleBoundary::FirstDeriv\s*\(\s*deriv\s*\)\s*=>\s*", "0", "a_up[0]", "deriv"),
                ("left_sd", r"match\s+left\s*\.\s*specialize\s*\(\s*\)\s*", r"SingleBoundary::SecondDeriv\s*\(\s*deriv\s*\)\s*=>\s*", "0", "a_up[0]", "deriv"),
                ("right_nak", r"match\s+right\s*\.\s*specialize\s*\(\s*\)\s*", r"SingleBoundary::NotAKnot\s*=>\s*", "len-1", "a_low[len-1]", None),
                ("right_fd", r"match\s+right\s*\.\s*specialize\s*\(\s*\)\s*", r"SingleBoundary::FirstDeriv\s*\(\s*deriv\s*\)\s*=>\s*", "len-1", "a_low[len-1]", "deriv"),
                ("right_sd", r"match\s+right\s*\.\s*specialize\s*\(\s*\)\s*", r"SingleBoundary::SecondDeriv\s*\(\s*deriv\s*\)\s*=>\s*", "len-1", "a_low[len-1]", "deriv")]
        for nm, outer, arm, row, off_tgt, extra in rows:
            params = E + ([extra] if extra else [])
            try:
                env = ends_env()
                if extra:
                    env.names[extra] = extra
                ob, _, _ = block_after(B, outer)
                ab, _, _ = block_after(ob, arm)
                st = scan(ab, env)
                rhs_row = "RHS_0" if row == "0" else "RHS_l1"
                mid = pick(st, f"a_mid[{row}]")
                off = pick(st, off_tgt)
                cands = [s for s in st if s[0] in (f"*{p}" for p in ("b", "rhs_0", "rhs_n")) or s[0].endswith(".fill")]
                # the rhs: the closure assignment whose target parameter is bound to the rhs row, or a fill of that row
                rhs = None
                for s in st:
                    if s[0].startswith("*") and s[2] is not None and s[2].get(s[0][1:]) == rhs_row:
                        rhs = s[1] if rhs is None else Unavailable("rhs row assigned twice")
                    if s[0].endswith(".fill"):
                        te, _ = parse_expr(s[0][:-len(".fill")])
                        if row_alias(te, env) == rhs_row:
                            rhs = s[1] if rhs is None else Unavailable("rhs row assigned twice")
                out.add(nm + "_mid", params, env, mid)
                out.add(nm + "_off", params, env, off)
                out.add(nm + "_rhs", params, env, rhs)
            except Unavailable as ex:
                fail_all([(nm + "_mid", params), (nm + "_off", params), (nm + "_rhs", params)], str(ex))

        # parabola rows (3 points, NotAKnot/NotAKnot)
        PN = ["par_mid0", "par_up0", "par_lo1", "par_mid1", "par_up1", "par_lo2", "par_mid2", "par_rhs0", "par_rhs1", "par_rhs2"]
        try:
            env = ends_env()
            blk, _, _ = block_after(B, r"right\s*:\s*SingleBoundary::NotAKnot\s*,\s*\}\s*,\s*3\s*,?\s*\)\s*=>\s*")
            st = scan(blk, env)
            for nm, tgt in (("par_mid0", "a_mid[0]"), ("par_up0", "a_up[0]"), ("par_lo1", "a_low[1]"), ("par_mid1", "a_mid[1]"),
                            ("par_up1", "a_up[1]"), ("par_lo2", "a_low[2]"), ("par_mid2", "a_mid[2]"),
                            ("par_rhs0", "rhs.index_axis_mut(AX0,0).assign"), ("par_rhs1", "rhs.index_axis_mut(AX0,1).assign"),
                            ("par_rhs2", "rhs.index_axis_mut(AX0,2).assign")):
                out.add(nm, E, env, pick(st, tgt))
        except Unavailable as ex:
            fail_all([(n, E) for n in PN], str(ex))

        # periodic, 3 points
        try:
            env = ends_env()
            blk, _, _ = block_after(B, r"\(\s*InternalBoundary::Periodic\s*,\s*3\s*\)\s*=>\s*")
            st = scan(blk, env)
            out.add("per3_k", E, env, pick(st, "k.assign"))
        except Unavailable as ex:
            out.unavailable("per3_k", E, str(ex))

        # periodic, general
        EP = E + ["xl4"]
        KP = ["dx_1", "dx_2", "rhsLast", "k1_0", "k1_l", "k2_0", "k2_l"]
        try:
            env = ends_env({"k1": {"0": "k1_0", "len-3": "k1_l"}, "k2": {"0": "k2_0", "len-3": "k2_l"}})
            env.arrays["rhs"]["len-2"] = "RHS_l2"
            blk, _, _ = block_after(B, r"\(\s*InternalBoundary::Periodic\s*,\s*_\s*\)\s*=>\s*")
            st = scan(blk, env)
            out.add("perN_mid0", EP, env, pick(st, "a_mid[0]"))
            out.add("perN_up0", EP, env, pick(st, "a_up[0]"))
            out.add("perN_rhs0", EP, env, pick(st, "rhs.index_axis_mut(AX0,0).assign"))
            out.add("perN_rhsLast", EP, env, pick(st, "rhs.index_axis_mut(AX0,len-1-1).assign"))
            out.add("perN_rhs2_first", EP, env, pick(st, "rhs2.index_axis_mut(AX0,0).fill"))
            out.add("perN_rhs2_last", EP, env, pick(st, "rhs2.index_axis_mut(AX0,len-3).fill"))
            # k_m1 and the combination, over the solved rows as parameters
            env2 = Env({"k1": {"0": "k1_0", "len-3": "k1_l"}, "k2": {"0": "k2_0", "len-3": "k2_l"}, "rhs": {"len-2": "rhsLast"}},
                       dict(SCALAR_NAMES, dx_1="dx_1", dx_2="dx_2"))
            km = re.search(r"let\s+k_m1\s*=\s*", blk)
            if not km:
                raise Unavailable("k_m1")
            e, _ = parse_expr(cut(blk, km.end()))
            out.add("perN_km1", KP, env2, env2.render(e))
            env3 = Env({}, {"k1": "k1", "k2": "k2", "k_m1": "k_m1"})
            cm = re.search(r"k\s*\.\s*slice_axis_mut\s*\(\s*AX0\s*,\s*Slice::from\s*\(\s*0\s*\.\.\s*-2\s*\)\s*\)\s*\.assign\s*\(\s*&\s*\(", blk)
            if not cm:
                raise Unavailable("k[0..-2].assign(k1 + k_m1 * k2)")
            e, _ = parse_expr(cut(blk, cm.end()))
            out.add("perN_head", ["k1", "k2", "k_m1"], env3, env3.render(e))
        except Unavailable as ex:
            for n in ("perN_mid0", "perN_up0", "perN_rhs0", "perN_rhsLast", "perN_rhs2_first", "perN_rhs2_last"):
                if n not in out.status:
                    out.unavailable(n, EP, str(ex))
            if "perN_km1" not in out.status:
                out.unavailable("perN_km1", KP, str(ex))
            if "perN_head" not in out.status:
                out.unavailable("perN_head", ["k1", "k2", "k_m1"], str(ex))

    # ---------------- thomas
    TF = ["lo", "mid", "pm", "pu", "rhs", "rhsLeft"]
    TB = ["mid", "up", "rhs", "kRight"]
    try:
        T = fn_body(cs, r"fn\s+thomas\s*<")
        fw, _, _ = block_after(T, r"for\s+i\s+in\s+1\s*\.\.\s*len\s*")
        env = Env({"a_low": {"i": "lo"}, "a_mid": {"i-1": "pm", "i": "mid"}, "a_up": {"i-1": "pu"}, "rhs": {"i": "rhs"}},
                  {"rhs_left": "rhsLeft"})
        st = scan(fw, env, zip_sources=False)
        out.add("thomas_w", TF, Env({}, {}), env.names.get("w") and dict(env.lets).get("w"))
        out.add("thomas_mid", TF, env, pick(st, "a_mid[i]"))
        out.add("thomas_rhs", TF, env, pick(st, "*rhs"))
        # both `*rhs` and `*rhs_left` receive new_rhs
        both = pick(st, "*rhs_left")
        if isinstance(both, Exception) or both != pick(st, "*rhs"):
            out.unavailable("thomas_rhs", TF, "rhs and rhs_left are not assigned the same value")
        lastm = re.search(r"\*k\s*=\s*rhs\s*/\s*a_mid\s*\[\s*len\s*-\s*1\s*\]\s*;", T)
        env_l = Env({"a_mid": {"len-1": "mid"}}, {"rhs": "rhs"})
        if lastm:
            e, _ = parse_expr("rhs / a_mid[len - 1]")
            # parse what the source says, not the pattern
            e, _ = parse_expr(cut(T, T.index("=", lastm.start()) + 1))
            out.add("thomas_last", ["mid", "rhs"], env_l, env_l.render(e))
        else:
            # any other expression for the last row
            m2 = re.search(r"\*k\s*=\s*", T)
            if not m2:
                raise Unavailable("last row of the back substitution")
            e, _ = parse_expr(cut(T, m2.end()))
            out.add("thomas_last", ["mid", "rhs"], env_l, env_l.render(e))
        bk, _, _ = block_after(T, r"for\s+i\s+in\s*\(\s*0\s*\.\.\s*len\s*-\s*1\s*\)\s*\.\s*rev\s*\(\s*\)\s*")
        envb = Env({"a_up": {"i": "up"}, "a_mid": {"i": "mid"}, "rhs": {"i": "rhs"}, "k": {"i": "K"}}, {"k_right": "kRight"})
        stb = scan(bk, envb, zip_sources=False)
        vb = pick(stb, "*k")
        if isinstance(vb, Exception) or vb != pick(stb, "*k_right"):
            out.unavailable("thomas_back", TB, "k and k_right are not assigned the same value" if not isinstance(vb, Exception) else str(vb))
        else:
            out.add("thomas_back", TB, envb, vb)
    except Unavailable as ex:
        for n, p in (("thomas_w", TF), ("thomas_mid", TF), ("thomas_rhs", TF), ("thomas_last", ["mid", "rhs"]), ("thomas_back", TB)):
            if n not in out.status:
                out.unavailable(n, p, str(ex))

    # ---------------- coefficients
    PC = ["xi", "xi1", "k", "kRight", "y", "yRight"]
    try:
        C = fn_body(cs, r"fn\s+calc_coefficients\s*<")
        blk, _, _ = block_after(C, r"for\s+index\s+in\s+0\s*\.\.\s*len\s*-\s*1\s*")
        env = Env({"x": {"index": "xi", "index+1": "xi1"}, "k": {"index": "k", "index+1": "kRight"},
                   "data": {"index": "y", "index+1": "yRight"}, "c_a": {"index": "CA"}, "c_b": {"index": "CB"}}, {})
        st = scan(blk, env)
        va = [s for s in st if s[0].startswith("*") and s[2] and s[2].get(s[0][1:]) == "CA"]
        vb = [s for s in st if s[0].startswith("*") and s[2] and s[2].get(s[0][1:]) == "CB"]
        out.add("coef_a", PC, env, va[0][1] if len(va) == 1 else Unavailable("c_a assignment"))
        out.add("coef_b", PC, env, vb[0][1] if len(vb) == 1 else Unavailable("c_b assignment"))
    except Unavailable as ex:
        fail_all([("coef_a", PC), ("coef_b", PC)], str(ex))

    # ---------------- evaluation and periodic wrap
    PE = ["x", "xLeft", "xRight", "yLeft", "yRight", "aLeft", "bLeft"]
    PW = ["x", "x0", "xn"]
    try:
        m = re.search(r"impl\s*<[^{]*Interp1DStrategy\s*<[^{]*for\s+CubicSplineStrategy", cs)
        if not m:
            raise Unavailable("impl Interp1DStrategy for CubicSplineStrategy")
        I = fn_body(cs[m.start():], r"fn\s+interp_into\s*\(")
        env = Env({"interp.x": {"0": "x0", "len-1": "xn"}}, dict(SCALAR_NAMES, x="x"))
        if not re.search(r"let\s+one\s*:\s*Sd::Elem\s*=\s*cast\(\s*1\.0\s*\)", I):
            raise Unavailable("constant one")
        # accessor bindings
        need = {"x_left": ("idx", "xLeft", "yLeft"), "x_right": ("idx+1", "xRight", "yRight")}
        for mm in re.finditer(r"let\s*\(\s*(\w+)\s*,\s*(\w+)\s*\)\s*=\s*interp\s*\.\s*index_point\s*\(([^)]*)\)\s*;", I):
            arg = re.sub(r"\s+", "", mm.group(3))
            for k_, (a, lx, ly) in need.items():
                if arg == a and mm.group(1) == k_:
                    env.names[mm.group(1)] = lx
                    env.names["@row:" + mm.group(2)] = ly
        ab = {}
        for mm in re.finditer(r"let\s+(\w+)\s*=\s*self\s*\.\s*(a|b)\s*\.\s*index_axis\s*\(\s*AX0\s*,\s*idx\s*\)\s*;", I):
            ab[mm.group(1)] = mm.group(2) + "Left"
        if "xLeft" not in env.names.values() or "xRight" not in env.names.values() or sorted(ab.values()) != ["aLeft", "bLeft"]:
            raise Unavailable("index_point / a / b bindings")
        if not re.search(r"let\s+idx\s*=\s*interp\s*\.\s*get_index_left_of\s*\(\s*x\s*\)\s*;", I):
            raise Unavailable("idx = get_index_left_of(x)")
        # the wrap
        wb, _, _ = block_after(I, r"if\s+matches!\s*\(\s*self\s*\.\s*extrapolate\s*,\s*Extrapolate::Periodic\s*\)\s*&&\s*!\s*in_range\s*")
        envw = Env({"interp.x": {"0": "x0", "len-1": "xn", "interp.x.len()-1": "xn"}}, {"x": "x"})
        # `interp.x[interp.x.len() - 1]` : index through len()
        wb2 = re.sub(r"interp\s*\.\s*x\s*\.\s*len\s*\(\s*\)", "len", wb)
        stw = scan(wb2, envw)
        out.add("wrap", PW, envw, pick(stw, "x"), classes="rem")
        # t and the Hermite form
        tm = re.search(r"let\s+t\s*=\s*", I)
        e, _ = parse_expr(cut(I, tm.end()))
        env.let("t", e)
        zp = I[I.index("Zip::from"):]
        zm = re.search(r"\.for_each\s*\(\s*\|([^|]*)\|", zp)
        chain = [re.sub(r"\s+", "", c) for c in re.findall(r"(?:Zip::from|\.and)\s*\(\s*(\w+)\s*\)", zp[:zm.start()])]
        params = [re.sub(r"[&\s]", "", p) for p in zm.group(1).split(",")]
        for p, c in zip(params, chain):
            if "@row:" + c in env.names:
                env.names[p] = env.names["@row:" + c]
            elif c in ab:
                env.names[p] = ab[c]
            else:
                env.names.pop(p, None)
        blk, _, _ = block_after(zp, r"\.for_each\s*\(\s*\|[^|]*\|\s*")
        st = scan(blk, env)
        out.add("spline_t", PE, Env({}, {}), dict(env.lets).get("t"))
        out.add("spline_eval", PE, env, pick(st, "*" + params[-1]))
    except (Unavailable, ValueError, AttributeError) as ex:
        for n, p in (("wrap", PW), ("spline_t", PE), ("spline_eval", PE)):
            if n not in out.status:
                out.unavailable(n, p, str(ex), classes="rem" if n == "wrap" else "")


# ------------------------------------------------------------------------------------------------ output

HEADER = """/-
GENERATED by tools/translate_formulas.py from /repo/src on every run — do not edit.
One definition per arithmetic kernel of the crate, transliterated from the Rust source as it is now.
`NdInterp/Props/FormulaTie.lean` proves each of them equal to the model's expression, for every input.
-/
import NdInterp.Model.Spline

set_option linter.unusedVariables false

namespace NdInterp.Gen
open NdInterp

section
variable {α : Type} [Add α] [Sub α] [Mul α] [Div α] [Neg α] [NatCast α]

/-- `cast(usize)` -/
@[inline] def castNat (n : Nat) : α := (n : α)

"""


CTOR = {"NotAKnot": ".notAKnot", "Natural": ".natural", "Clamped": ".clamped", "Periodic": ".periodic"}
KIND = {"ShapeError": ".shapeError", "NotEnoughData": ".notEnoughData", "Monotonic": ".monotonic", "ValueError": ".valueError"}


def lean_boundary(t):
    """a boundary value as the source spells it -> the model's constructor term (None if not understood)"""
    if t in CTOR:
        return CTOR[t]
    m = re.fullmatch(r"Mixed\{left:(\w+),right:(\w+),?\}", t)
    if m and m.group(1) in CTOR and m.group(2) in CTOR:
        return f".mixed {CTOR[m.group(1)]} {CTOR[m.group(2)]}"
    m = re.fullmatch(r"(FirstDeriv|SecondDeriv)\(cast\((0|0\.0)\)\)", t)
    if m:
        return ("." + m.group(1)[0].lower() + m.group(1)[1:]) + " c0"
    return None


def emit_tables(out):
    L = ["section\nvariable {α : Type} [NatCast α]\n\n"]
    tb = out.tables

    def unavailable(name, sig, dflt):
        L.append(f"def {name}_available : Bool := false\n/-- not translated -/\ndef {name} {sig} := {dflt}\n\n")
        out.status["table:" + name] = "unavailable: not located or not understood"

    # minimum lengths
    ml = dict(tb.get("minLen") or [])
    if all(ml.get(k, "?").isdigit() for k in ("Linear", "CubicSpline", "Bilinear")):
        L.append("def minLen_available : Bool := true\n/-- `MINIMUM_DATA_LENGHT` of Linear, CubicSpline, Bilinear -/\n"
                 f"def minLen : Nat × Nat × Nat := ({ml['Linear']}, {ml['CubicSpline']}, {ml['Bilinear']})\n\n")
    else:
        unavailable("minLen", ": Nat × Nat × Nat", "(0, 0, 0)")
    # specialize maps as functions
    for name, ty in (("specializeInternal", "InternalBoundary"), ("specializeSingle", "SingleBoundary")):
        rows = tb.get(name)
        arms, ok = [], rows is not None and len(rows) >= 1 and rows[-1] == ("_", "self")
        if ok:
            for l, r in rows[:-1]:
                ll, rr = lean_boundary(l), lean_boundary(r)
                if ll is None or rr is None:
                    ok = False
                    break
                arms.append(f"  | {ll} => {rr}")
        if ok:
            L.append(f"def {name}_available : Bool := true\n/-- `{ty}::specialize` -/\n"
                     f"def {name} : {ty} α → {ty} α\n" + "\n".join(arms) + "\n  | b => b\n\n")
        else:
            unavailable(name, f": {ty} α → {ty} α", "fun b => b")
    # extrapolation mode
    em = tb.get("extrapolateMode")
    want = "if!self.extrapolate{Extrapolate::No}elseifmatches!(self.boundary,BoundaryCondition::Periodic){Extrapolate::Periodic}else{Extrapolate::Yes}"
    m = em and re.fullmatch(r"if!self\.extrapolate\{Extrapolate::(\w+)\}elseifmatches!\(self\.boundary,BoundaryCondition::Periodic\)\{Extrapolate::(\w+)\}else\{Extrapolate::(\w+)\}", em[0][1])
    EX = {"No": "Extrapolate.no", "Yes": "Extrapolate.yes", "Periodic": "Extrapolate.periodic"}
    if m and all(g in EX for g in m.groups()):
        L.append("def extrapolateMode_available : Bool := true\n/-- the `Extrapolate` mode `CubicSpline::build` selects -/\n"
                 "def extrapolateMode (ext periodic : Bool) : Extrapolate :=\n"
                 f"  if !ext then {EX[m.group(1)]} else if periodic then {EX[m.group(2)]} else {EX[m.group(3)]}\n\n")
    else:
        unavailable("extrapolateMode", "(ext periodic : Bool) : Extrapolate", "Extrapolate.no")
    # validation steps: the error kinds in source order
    for name in ("validate1", "validate2"):
        rows = tb.get(name)
        if rows and all(k in KIND for _, k in rows):
            conds = "; ".join(c for c, _ in rows).replace("-/", "- /")
            L.append(f"def {name}_available : Bool := true\n/-- error kinds of the validation steps of `build()`, in source order ({conds}) -/\n"
                     f"def {name} : List BKind := [" + ", ".join(KIND[k] for _, k in rows) + "]\n"
                     f"/-- the conditions of those steps, whitespace removed -/\n"
                     f"def {name}Conds : List String := [" + ", ".join('"' + c.replace('"', "'") + '"' for c, _ in rows) + "]\n\n")
        else:
            unavailable(name, ": List BKind", "[]")
            L.append(f"def {name}Conds : List String := []\n\n")
    L.append("end\n\n")
    return "".join(L)


def emit(out):
    L = [HEADER]
    order = sorted(out.defs, key=lambda d: 0 if d[0] == "calc_frac" else 1)
    for name, params, body, ok, classes in order:
        cls = ""
        ps = " ".join(params)
        ty = "α"
        if classes == "cmp":
            cls, ty = " [Cmp α]", "Bool"
        if classes == "rem":
            cls = " [RemEuclid α]"
        if classes == "guess":
            ps_decl = "(x0 xl : α) (n1 : Nat) (x : α)"
        else:
            ps_decl = f"({ps} : α)"
        L.append(f"def {name}_available : Bool := {'true' if ok else 'false'}\n")
        if ok:
            L.append(f"def {name}{cls} {ps_decl} : {ty} :=\n{body}\n\n")
        else:
            dflt = "false" if ty == "Bool" else params[0] if classes != "guess" else "x"
            L.append(f"/-- not translated: {out.status[name]} -/\ndef {name}{cls} {ps_decl} : {ty} := {dflt}\n\n")
    L.append("end\n\n")
    L.append("/-! ### finite decision tables of the crate, translated from the source -/\n\n")
    L.append(emit_tables(out))
    L.append("/-- kernels the translator could not locate or parse in the current source (tied by the correspondence runs only) -/\n")
    un = [n for n, s in out.status.items() if not s.startswith("translated")]
    L.append("def unavailable : List String := [" + ", ".join('"' + n + '"' for n in un) + "]\n\n")
    L.append("end NdInterp.Gen\n")
    return "".join(L)


def main():
    src = "/repo/src"
    out_path = os.path.join(os.path.dirname(HERE), "lean", "NdInterp", "Gen", "Formulas.lean")
    if "--src" in sys.argv:
        src = sys.argv[sys.argv.index("--src") + 1]
    if "--out" in sys.argv:
        out_path = sys.argv[sys.argv.index("--out") + 1]
    out = translate(src)
    if "--all-unavailable" in sys.argv:
        for i, d in enumerate(out.defs):
            out.defs[i] = (d[0], d[1], None, False, d[4])
            out.status[d[0]] = "unavailable: translator output was rejected by Lean"
    text = emit(out)
    old = open(out_path).read() if os.path.exists(out_path) else None
    if old != text:
        os.makedirs(os.path.dirname(out_path), exist_ok=True)
        tmp = out_path + f".tmp{os.getpid()}"
        with open(tmp, "w") as f:
            f.write(text)
        os.replace(tmp, out_path)
    st_path = os.path.splitext(out_path)[0] + ".status.json"
    with open(st_path + f".tmp{os.getpid()}", "w") as f:
        json.dump(out.status, f, indent=1)
    os.replace(st_path + f".tmp{os.getpid()}", st_path)
    for k, v in out.tables.items():
        out.status["table:" + k] = "translated" if v is not None else "unavailable: not located"
    with open(st_path + f".tmp{os.getpid()}", "w") as f:
        json.dump(out.status, f, indent=1)
    os.replace(st_path + f".tmp{os.getpid()}", st_path)
    un = {k: v for k, v in out.status.items() if not v.startswith("translated")}
    print(f"translate_formulas: {len(out.status) - len(un)}/{len(out.status)} kernels translated" + (" (regenerated)" if old != text else " (unchanged)"))
    for k, v in un.items():
        print(f"  {k}: {v}")


if __name__ == "__main__":
    main()
