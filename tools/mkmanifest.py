#!/usr/bin/env python3
"""Regenerates /verif/MANIFEST.json from the table below (claimed properties) and properties.jsonl."""
import json
import os

V = os.path.dirname(os.path.dirname(os.path.abspath(__file__)))
COMMON_NOTE = ("Trusted: Lean 4.33 kernel, axioms {propext, Classical.choice, Quot.sound} (audited per theorem each run), Mathlib; the "
               "hand-written Lean model; the model<->code tie is a differential run (generated, boundary-directed inputs) of the real "
               "generic crate at an exact rational scalar against the model at Rat, plus f64 outcome/bit comparisons; ndarray, "
               "num-traits and the Rust type system are modelled, not verified. For the arithmetic kernels a translator regenerates their Lean "
               "definitions from /repo/src on every run and the FT_* theorems re-prove, for every input, that the model is built from "
               "exactly those kernels (DESIGN 9.6); the control flow of monotonic_prop, get_lower_index, the accessors and Linear / Bilinear interp_into is re-translated too (FT_ctl_*, DESIGN 9.7). ")
CLAIMED = {
 "C01": ("Kernel-checked theorems for every strictly increasing axis, every length, every lane structure and every in-range query: "
         "C01_struct/C01_exact (value of the line through the bracketing points), C01_knot, C01_hull, C01_default_axis, and "
         "C01_rounding (13u+12u^2 bound under the standard model of fp arithmetic). Tied to the code by exact-rational "
         "correspondence and f64 runs held to the proved bound.", "§5 C01",
         "rounding only under the standard model (no overflow/underflow); f32 not run",
         "Lean 4 proof (field algebra over the lookup theorem C11) + exact-rational correspondence + formula tie (kernels re-translated from the source each run, FT_* theorems) + control-flow tie (Linear::interp_into, the Interp1D accessors and get_lower_index re-translated statement by statement each run; FT_ctl_linear etc. prove them equal to the model for every input)"),
 "C02": ("Kernel-checked: for every strictly increasing axis (n>=3), every data set and every non-periodic boundary pair the solver "
         "never fails (all Thomas pivots positive, C02_build), every answered query is the value of one cubic of degree <= 3 per interval "
         "(C02_eval, C02_cubic as Mathlib Polynomial), passes through the data (C02_through, C02_knot), is C1 (C02_C1) and C2 (C02_C2, from "
         "thomas_sound + the row<->C2 equivalence). Exact correspondence + exact oracle (values at knots, 5th sample on the fitted cubic, "
         "derivative jumps = 0) for all boundary selections incl. Periodic and per-lane Individual; f64 closeness test.", "§5 C02",
         "single-lane theorems (lanes via C08); periodic covered by exact oracle/correspondence, its theorems are in C07; rounding: segment evaluation bounded under the standard model (C02_eval_rounding), no bound for the tridiagonal solve",
         "Lean 4 proof (Thomas soundness, pivot positivity by induction, field algebra) + exact-rational correspondence + formula tie (kernels re-translated from the source each run, FT_* theorems)"),
 "C03": ("Kernel-checked: the returned slopes satisfy the selected condition at each end (C03_conditions: S'=v, S''=v, continuous third "
         "derivative for NotAKnot incl. the repaired right row; C03_parabola) and are the only slopes whose piecewise cubic is C2 and meets "
         "the end conditions (C03_unique via thomas_unique, C03_unique_values); Periodic: the condensed solve returns slopes satisfying the cyclic C2 system with "
         "k_0 = k_n-1 (C03_periodic, C03_periodic3; closing denominator proved > 0) and are the only such slopes (C03_periodic_unique, maximum-modulus "
         "argument on the strictly dominant cyclic system); C03_defect_witness machine-checks that the pre-repair row is "
         "not the NotAKnot condition. Exact end-condition residuals on the implementation and comparison with an independent exact spline "
         "(Gaussian elimination on the conditions) for all 25 end pairs, Periodic, per-lane assignments.", "§5 C03",
         "single-lane theorems, carried to lanes by C08_spline_build_lanes / C08_individual", "Lean 4 proof (system <-> conditions equivalence, uniqueness, periodic condensation) + exact oracles + formula tie (kernels re-translated from the source each run, FT_* theorems)"),
 "C04": ("Theorems C04_struct, C04_blend, C04_node, C04_gridline, C04_transpose for all grids, axes, lanes and in-grid queries; "
         "C04_rounding ((2B+B^2)*max|z| with B = 13u+12u^2 under the standard model of fp arithmetic: three nested calc_frac, in-range calc_frac is 1-Lipschitz in its values); "
         "exact correspondence and blend oracle at Q, f64 / f32 runs held to the proved bound, transposition metamorphic test.",
         "§5 C04", "rounding only under the standard model (no overflow/underflow)", "Lean 4 proof (field identities, bracket uniqueness) + exact-rational correspondence + formula tie (kernels re-translated from the source each run, FT_* theorems) + control-flow tie (Bilinear::interp_into and the Interp2D accessors re-translated each run; FT_ctl_bilinear)"),
 "C05": ("Theorems C05_linear, C05_bilinear (answered iff in the closed range, otherwise exactly OutOfBounds, never a panic), "
         "C05_gate_nan(_hi) with no assumption on the comparison operators (NaN), C05_batch_ok_iff / C05_batch_first_error for every "
         "strategy and entry point; spline variant in Props/C02. Outcome correspondence at Q and f64 over all strategies, entry points, "
         "range ends, adjacent floats, +-inf, NaN, offending element at every batch position.", "§5 C05",
         "NaN handled by the operator-agnostic theorem + f64 runs", "Lean 4 proof (range gate normal form) + outcome correspondence + formula tie (kernels re-translated from the source each run, FT_* theorems) + control-flow tie (the range gates of Linear / Bilinear and is_in_range re-translated each run; FT_ctl_linear, FT_ctl_bilinear, FT_ctl_acc*_is_in_range)"),
 "C06": ("Theorems: never rejects (ordered field), in-range results identical with the flag on/off for ARBITRARY scalar operations "
         "(bit-identity), continuation by the first/last line piece resp. border cell (C06_linear_left/right/inside, C06_bilinear_cell); "
         "spline statements in Props/C02. Exact checks at Q incl. end cubic recovered from 4 exact samples; on/off bitwise at f64.",
         "§5 C06", "rounding outside the range: proved for Linear and Bilinear under the standard model (C06_linear_rounding, C06_bilinear_rounding) and for the spline's evaluation given its coefficients (C06_spline_eval_rounding); the spline's solve is tested with a scaled tolerance", "Lean 4 proof + exact-rational correspondence and exact end-polynomial oracle + formula tie (kernels re-translated from the source each run, FT_* theorems) + control-flow tie for Linear / Bilinear (FT_ctl_linear, FT_ctl_bilinear)"),
 "C07": ("Kernel-checked (any slopes, single lane): C07_mode (periodic evaluation selected iff Periodic boundary and extrapolation), "
         "C07_wrap (outside the range the value is the in-range value at q - kP, k integer, wrapped point in [x0, x_{n-1})), C07_periodic "
         "(S(q + kP) = S(q) for every integer k, using the equal-ends check), C07_ends; rem_euclid law proved for the Rat instance. "
         "Exact runs at Q with k up to +-10^6 and points next to the range ends; f64 with tolerance.", "§5 C07",
         "f64: the effect of an argument error on the value is bounded (C07_segment_lipschitz, with C02_eval_rounding for the evaluation); the size of the argument error (rem_euclid on floats) is not modelled, tested with a tolerance", "Lean 4 proof (floor/representative uniqueness) + exact periodicity runs + formula tie (kernels re-translated from the source each run, FT_* theorems)"),
 "C08": ("Kernel-checked, for ARBITRARY scalar operations (bit-identity): every model function written with the lane-wise maps commutes "
         "with the lane projection row -> row[j]? and with the single-lane embedding (Lemmas/LanesHom): C08_linear, C08_bilinear, "
         "C08_spline_solve (shared diagonals and elimination factors), C08_spline_coeffs, C08_spline_eval, C08_other_lanes(_spline); "
         "C08_individual (per-lane boundaries: lane j of the slopes = solve_for_k of lane j with bounds[j], transposition included); over an "
         "ordered field C08_spline_build_lanes (the n-d build of validated data succeeds and every lane is the unique solution of its own system). "
         "Runs: lane j of n-d results vs the interpolator built from lane j alone and vs randomised other lanes, exact at Q and bit for "
         "bit at f64, Ix1..Ix6 and IxDyn, length-0/1 axes, per-lane boundaries.", "§5 C08",
         "row-major flattening of the trailing multi-index of the real arrays is checked by the runs, not modelled",
         "Lean 4 proof (naturality w.r.t. lane homomorphisms) + per-lane differential runs"),
 "C09": ("Kernel-checked, generic over scalar type and strategy: C09_array_elem / C09_array_err (block k of interp_array = interp of element "
         "k; first error wins), C09_scalar, C09_into_eq_alloc, C09_fast_eq_general (accumulating left fold with early exit = per-element "
         "loop), C09_shape / C09_shape_dyn (DimAdd output type and DimExtension::new yield exactly query shape ++ trailing dims). Runs over "
         "Dq in Ix0..Ix4/IxDyn x D in Ix1..Ix6/IxDyn, zero-length axes, rank > 6, query arrays and buffers in every memory layout, element-by-element agreement of all entry points "
         "(interp, interp_into, interp_scalar vs. interp_array), incl. an f64 family with inf/NaN/+-1e308 samples queried exactly on the knots.", "§5 C09",
         "dimension-type algebra modelled from ndarray 0.16 and cross-checked against type_name in C19's enumeration",
         "Lean 4 proof (list induction, finite dimension table) + entry-point agreement runs"),
 "C10": ("Kernel-checked: closed form of both validation chains (C10_validate1_eq/2_eq), success iff Valid (C10_iff_1d/2d), kind of the error "
         "names a violated requirement (C10_kind_1d), never a panic (C10_no_panic(_2d)), accepted axis is unmodified and NaN-free for ANY "
         "comparison operators (C10_axis_unmodified, C10_nan via C12_nan), Linear/Bilinear build iff validation, spline = validation then "
         "the strategy's own errors unchanged. The full decision table (1 496 cases quick) through model and code with an independent Valid "
         "oracle; D4 witnesses in the corpus.", "§5 C10", "spline build on validated n-d input: no-panic by C02_build per lane + runs",
         "Lean 4 proof (case analysis of the chain over C12) + exhaustive decision-table correspondence + decision-table and control-flow ties (validation steps, minimum lengths and monotonic_prop re-translated from the source each run; FT_tab_*, FT_ctl_* theorems)"),
 "C11": ("Theorems for every axis/length/guess/query (C11_bracket for ANY in-range initial guess, C11_guess, C11_exact, C11_unique) over "
         "any linear order resp. ordered field; C11_of_guess (any element arithmetic, as soon as the guess is an index) and C11_exact_I (i64 axes: "
         "the truncating integer guess is q-x0 on unit spacing and 0 otherwise). Exact-rational, f64 and i64 correspondence of get_lower_index "
         "(i64 axes incl. magnitudes above 2^53 and small-step axes), linear-scan oracle, exhaustive (length, guess, rank) family.", "§5 C11",
         "GuessOK for floats: proved under the standard model of fp arithmetic without over/underflow for axes of fewer than 1/(7u+6u^2) points (C11_guess_rounding, C11_float_stdmodel), exercised beyond; non-NaN float order trusted",
         "Lean 4 proof (bisection invariant by fun_induction, field arithmetic, standard-model rounding bound for the guess) + exact-rational correspondence + formula tie + control-flow tie (get_lower_index re-translated statement by statement from the source each run into Gen/Control.lean; FT_ctl_bisect, FT_ctl_lower_index prove it equal to the model for every input)"),
 "C12": ("Theorems for every list: C12_classify/C12_iff (any linear order), C12_nan (no assumption on the comparisons), "
         "C12_shortcircuit, C12_iff_I (instantiated at the i64 model); exhaustive relation words at Q, f64 (incl. saturating extremes and equal "
         "infinities) and i64 (small and above 2^53), every NaN placement, through crate and model.", "§5 C12",
         "IEEE non-NaN order trusted", "Lean 4 proof (automaton invariant by induction) + exhaustive word correspondence + control-flow tie (the automaton and monotonic_prop re-translated from the source each run into Gen/Control.lean; FT_ctl_update / _short_circuit / _finish / _mono_prop prove them equal to the model for every input)"),
 "C13": ("Kernel-checked: C13_buffer (view model: any two buffers of equal shape with injective addressing receive the same logical contents "
         "— no stride condition; false of the unrepaired reshape path) and C13_facts (regenerated source facts: no layout-sensitive "
         "ndarray API is called outside tests). Every case is run with random layouts of data/axes/queries/buffers against the "
         "layout-blind model (exact) and against its all-C-order twin (bit for bit); D2 witnesses in the corpus.", "§5 C13",
         "ndarray's own stride arithmetic trusted and exercised", "Lean 4 proof (view/memory model) + layout-blind correspondence"),
 "C14": ("Kernel-checked on the view/memory model of the repaired entry points: C14_ok_iff_shape / C14_into_shape / C14_mem_shape (Ok only "
         "for exactly the required shape, otherwise panic before any strategy call), C14_all_written (on Ok the view holds exactly the "
         "allocating variant's values; proved via decomposition of a view into its index_axis sub-views) and frame (addresses outside the "
         "view unchanged). Runs with poisoned windows and every wrong-shape family; D3 witnesses in the corpus.", "§5 C14",
         "real-memory frame property rests on safe Rust/ndarray; exercised by poisoned windows", "Lean 4 proof (view decomposition, write/read lemmas) + poisoned-buffer runs"),
 "C15": ("Kernel-checked: Linear — scale data, superposition, any strictly increasing axis relabelling commuting with calc_frac, instantiated "
         "to scaling by c>0 and shifting; Bilinear — scale data; spline end to end for every non-periodic boundary pair — data x c (C15_spline_scale_data), shift (C15_spline_shift), "
         "axis x c>0 with converted boundary values (C15_spline_scale_axis, by uniqueness), superposition (C15_spline_add: thomas_add + additive rows); Periodic (n>=4) C15_periodic_scale_data/_add/_shift/_scale_axis by uniqueness, 3-point Periodic C15_periodic3_* on the closed form; "
         "bit-for-bit half C15_hom_linear_data for ARBITRARY scalar operations. Metamorphic pairs on the real code: exact at Q for every "
         "strategy and boundary configuration (data x c, axis x c with converted boundary values, shifts, superposition), bit-for-bit at "
         "f64 for powers of two, negation and dyadic shifts.", "§5 C15",
         "bit-for-bit claim for the spline at f64 is tested, not proved",
         "Lean 4 proof (Linear/Bilinear; spline scale/add/shift/axis-scale end to end) + exact metamorphic runs + formula tie (kernels re-translated from the source each run, FT_* theorems)"),
 "C16": ("Kernel-checked: C16_linear, C16_bilinear (every query, in range or extrapolated), C16_spline (a cubic meeting the selected end "
         "conditions is reproduced: solver returns p'(x_i) by uniqueness, Hermite form of a cubic is the cubic), C16_notAKnot (n>=4), "
         "C16_natural_line. Exact reproduction checked at Q for random dyadic polynomials, all spacings, extrapolated queries, lanes with "
         "different polynomials.", "§5 C16", "f64 'up to rounding' via C01/C02 closeness runs",
         "Lean 4 proof (uniqueness of the spline + exact Hermite interpolation) + exact reproduction runs + formula tie (kernels re-translated from the source each run, FT_* theorems)"),
 "C17": ("Kernel-checked: C17_state, C17_history, C17_perm, C17_schedule (any interleaving of per-thread sequences) on the step model, and "
         "C17_facts by evaluation over the source facts regenerated on every run (all 24 query methods take &self, no &mut self, no interior "
         "mutability or global state outside tests/hooks). Runs: random histories replayed permuted and on 2..16 threads against fresh "
         "interpolators, bit for bit incl. errors and panics; Send+Sync compile-time assertions.", "§5 C17",
         "facts => immutability is Rust's shared-reference guarantee (trusted)", "Lean 4 proof (step model + decide on extracted source facts) + concurrent history replay"),
 "C18": ("Kernel-checked on the builder/entry-point model generic in the user strategy: C18_build_guard(_2d) (builder consulted only after "
         "validation, with the unmodified validated inputs), C18_build_error, C18_calls / C18_calls_prefix (one call per element in order, "
         "nothing after the first failure), C18_call_error (error passed through every entry point), C18_accessors. Runs with recording / "
         "failing strategies, minimum 0..4, failure at every call index.", "§5 C18", "target shapes checked by the harness only",
         "Lean 4 proof (generic strategy model) + recording-strategy runs"),
 "C19": ("Kernel-checked: C19_table (whole finite dimension-type table), C19_sites and C19_unsafe by evaluation over the cast sites, guards and "
         "type expressions extracted from the source on every run; C09_fast_eq_general for unobservability. Enumeration of 221 real "
         "instantiations with the guarded hook comparing type_name/size/align at every cast, cast counters, ndarray's actual DimAdd output "
         "type names, fast vs general vs single bit for bit.", "§5 C19", "UB itself unobservable; argument is type identity",
         "Lean 4 proof (decide over finite table + extracted sites) + exhaustive instantiation run with hooks"),
 "C20": ("Theorems C20_linear_data / C20_bilinear_data for ARBITRARY scalar operations (bit-identity, NaN/inf included) and "
         "C20_linear_axis / C20_bilinear_axis over ordered fields (bracket transfer); metamorphic bitwise runs on the real f64 code "
         "with poisoned rows/columns and moved knots.", "§5 C20", "axis variant for floats rests on the same-bracket premise exercised by the runs",
         "Lean 4 proof (data-flow argument, no algebraic law) + metamorphic bitwise runs + formula tie (kernels re-translated from the source each run, FT_* theorems) + control-flow tie (which points Linear / Bilinear read, re-translated each run; FT_ctl_linear, FT_ctl_bilinear)"),
}


def main():
    props = [json.loads(l) for l in open(os.path.join(V, "properties.jsonl"))]
    checks = []
    for p in props:
        pid = p["id"]
        if pid not in CLAIMED:
            continue
        text, ref, note, tech = CLAIMED[pid]
        checks.append({
            "property_id": pid,
            "quick_cmd": f"./check {pid} --tier quick",
            "thorough_cmd": f"./check {pid} --tier thorough",
            "evidence_file": f"/verif/evidence/{pid}.json",
            "replay_cmd_template": f"./check {pid} --replay {{path}}",
            "engine": "lean4-proof+exact-correspondence",
            "level_claimed": {"category": "proof", "text": text, "design_ref": "DESIGN.md " + ref},
            "level_note": COMMON_NOTE + note,
            "technique": tech,
        })
    m = {
        "version": 1,
        "setup_cmd": "./setup.sh",
        "hooks": {
            "guard": "ndarray_interp_verif",
            "enable": "RUSTFLAGS='--cfg ndarray_interp_verif' (set in /verif/harness/.cargo/config.toml; the harness depends on /repo by path)",
            "baseline_off_cmd": "cd /repo && cargo test --workspace --no-fail-fast --offline",
            "source_commits": ["6db4791"],
            "add_only": True,
        },
        "engines": [{
            "name": "lean4-proof+exact-correspondence",
            "path": "/verif/tools/check.py",
            "serves_properties": sorted(CLAIMED),
            "kind_free_text": ("Lean 4 theorems about a hand-written executable model (lean/NdInterp), tied to /repo on every run by running "
                               "the real generic crate at an exact rational scalar and comparing rationals with the model at Rat; property "
                               "oracles on the implementation search for failing inputs; the arithmetic kernels (57) and the structural source facts "
                               "are re-translated from /repo/src on every run and the tie theorems over them re-checked"),
        }],
        "checks": checks,
        "notes": "All checks rebuild the harness against /repo's working tree. VERIF_SEED and VERIF_TIER are honoured.",
        "not_applicable": [{"property_id": p["id"],
                            "reason": "check under construction in this commit; will be claimed (not a limit of the technique)"}
                           for p in props if p["id"] not in CLAIMED],
    }
    json.dump(m, open(os.path.join(V, "MANIFEST.json"), "w"), indent=1)
    print("claimed:", sorted(CLAIMED))


if __name__ == "__main__":
    main()
