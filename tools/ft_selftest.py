#!/usr/bin/env python3
"""Self-test of the formula tie (not part of any check): applies single edits to a scratch copy of /repo/src, runs the
formula translator on it and builds the FormulaTie modules in a scratch copy of the Lean project.

  * REWRITES: algebraically equal re-formulations of kernels — every tie theorem must still be proved (no alarm);
  * MUTATIONS: changed formulas / operands / bindings — some tie theorem must fail, or the kernel must become unavailable.

usage: python3 tools/ft_selftest.py        (needs a built /verif/lean; works under /verif/.work/ft_selftest)
"""
import os
import shutil
import subprocess
import sys

VERIF = os.path.dirname(os.path.dirname(os.path.abspath(__file__)))
WORK = os.path.join(VERIF, ".work", "ft_selftest")
CS = "interp1d/strategies/cubic_spline.rs"
LIN = "interp1d/strategies/linear.rs"
BIL = "interp2d/strategies/bilinear.rs"
MODS = ["NdInterp.Props.FormulaTie." + m for m in ("Lin", "Bil", "Rng", "SplSys", "SplEval", "PerSys", "PerWrap", "TabBuild", "TabSpec", "TabExt")]

REWRITES = [
    (LIN, "        let b = y1;\n        let m = (y2 - y1) / (x2 - x1);\n        m * (x - x1) + b", "        (y2 - y1) * (x - x1) / (x2 - x1) + y1"),
    (CS, "*a_mid = two * (dxn + dxn_1);", "*a_mid = two * dxn + two * dxn_1;"),
    (CS, "three * (dxn * (y_mid - y_left) / dxn_1 + dxn_1 * (y_right - y_mid) / dxn)",
     "three * dxn * (y_mid - y_left) / dxn_1 + three * dxn_1 * (y_right - y_mid) / dxn"),
    (CS, "*b = (tmp1 * (y1 - y0) / dx0 + dx0.pow(two) * (y2 - y1) / dx1) / d;",
     "*b = tmp1 * (y1 - y0) / (dx0 * d) + dx0 * dx0 * (y2 - y1) / (dx1 * d);"),
    (CS, "*rhs_0 = three * (y_1 - y_0) - deriv * dx0.pow(two) / two;", "*rhs_0 = three * y_1 - three * y_0 - deriv * dx0 * dx0 / two;"),
    (CS, "a_mid[len - 1] = two * dx_1;", "a_mid[len - 1] = dx_1 + dx_1;"),
    (CS, "let w = a_low[i] / a_mid[i - 1];\n            a_mid[i] -= w * a_up[i - 1];",
     "let w = a_low[i] / a_mid[i - 1];\n            a_mid[i] = a_mid[i] - a_low[i] * a_up[i - 1] / a_mid[i - 1];"),
    (CS, "let new_k = (rhs - a_up[i] * *k_right) / a_mid[i];", "let new_k = rhs / a_mid[i] - a_up[i] * *k_right / a_mid[i];"),
    (CS, "*c_a = k * (x[index + 1] - x[index]) - (y_right - y);", "*c_a = k * (x[index + 1] - x[index]) - y_right + y;"),
    (CS, "*y = (one - t) * y_left\n                    + t * y_right\n                    + t * (one - t) * (a_left * (one - t) + b_left * t);",
     "*y = y_left + t * (y_right - y_left)\n                    + t * (one - t) * (a_left * (one - t) + b_left * t);"),
    (CS, "k.assign(&((slope0 / dx0 + slope1 / dx1) / (one / dx0 + one / dx1)));", "k.assign(&((slope0 * dx1 + slope1 * dx0) / (dx0 + dx1)));"),
    (CS, "a_mid[0] = two * (dx_1 + dx0);", "a_mid[0] = two * dx_1 + two * dx0;"),
]

MUTATIONS = [
    (LIN, "m * (x - x1) + b", "m * (x - x2) + b"),
    (CS, "a_mid[len - 1] = dx_2;", "a_mid[len - 1] = dx_1;"),
    (CS, "*rhs_0 = three * (y_1 - y_0) - deriv * dx0.pow(two) / two;", "*rhs_0 = three * (y_1 - y_0) - deriv * dx0 / two;"),
    (CS, "*a_up = dxn_1;", "*a_up = dxn;"),
    (CS, "let dx_2 = x[len - 2] - x[len - 3];", "let dx_2 = x[len - 1] - x[len - 3];"),
    (CS, ".and(data.index_axis(AX0, 1))\n                            .and(data.index_axis(AX0, 2))\n                            .for_each(|b, &y0, &y1, &y2|",
     ".and(data.index_axis(AX0, 2))\n                            .and(data.index_axis(AX0, 1))\n                            .for_each(|b, &y0, &y1, &y2|"),
    (CS, "let new_k = (rhs - a_up[i] * *k_right) / a_mid[i];", "let new_k = (rhs - a_up[i] * *k_right) / a_mid[i + 1];"),
    (CS, "*c_b = (y_right - y) - k_right * (x[index + 1] - x[index]);", "*c_b = (y_right - y) - k * (x[index + 1] - x[index]);"),
    (CS, "x = ((x - x0).rem_euclid(&(xn - x0))) + x0;", "x = (x.rem_euclid(&(xn - x0))) + x0;"),
    (BIL, "let z2 = Linear::calc_frac((x1, z12), (x2, z22), x);", "let z2 = Linear::calc_frac((x1, z21), (x2, z22), x);"),
    (BIL, "let (_, _, z12) = interpolator.index_point(x_idx, y_idx + 1);\n        let (_, _, z21) = interpolator.index_point(x_idx + 1, y_idx);",
     "let (_, _, z21) = interpolator.index_point(x_idx, y_idx + 1);\n        let (_, _, z12) = interpolator.index_point(x_idx + 1, y_idx);"),
    ("interp1d/mod.rs", "self.x[0] <= x && x <= self.x[self.x.len() - 1]", "self.x[0] <= x && x < self.x[self.x.len() - 1]"),
    (CS, "rhs2.index_axis_mut(AX0, len - 3).fill(-dx_3);", "rhs2.index_axis_mut(AX0, len - 3).fill(-dx_2);"),
    (CS, "- &k1.index_axis(AX0, 0) * dx_2", "- &k1.index_axis(AX0, 0) * dx_1"),
    (CS, "const MINIMUM_DATA_LENGHT: usize = 3;", "const MINIMUM_DATA_LENGHT: usize = 2;"),
    (CS, "SingleBoundary::Natural => SecondDeriv(cast(0.0).unwrap_or_else(|| unimplemented!())),",
     "SingleBoundary::Natural => FirstDeriv(cast(0.0).unwrap_or_else(|| unimplemented!())),"),
    (CS, "let extrapolate = if !self.extrapolate {\n            Extrapolate::No", "let extrapolate = if !self.extrapolate {\n            Extrapolate::Yes"),
]


def run(edit):
    src = os.path.join(WORK, "src")
    shutil.rmtree(src, ignore_errors=True)
    shutil.copytree("/repo/src", src)
    f, a, b = edit
    p = os.path.join(src, f)
    s = open(p).read()
    assert a in s, (f, a[:40])
    open(p, "w").write(s.replace(a, b, 1))
    lean = os.path.join(WORK, "lean")
    r = subprocess.run([sys.executable, os.path.join(VERIF, "tools", "translate_formulas.py"), "--src", src, "--out",
                        os.path.join(lean, "NdInterp", "Gen", "Formulas.lean")], capture_output=True, text=True)
    unavailable = [l.strip() for l in r.stdout.splitlines() if "unavailable" in l]
    r2 = subprocess.run(["lake", "build"] + MODS, cwd=lean, capture_output=True, text=True)
    errs = [l for l in (r2.stdout + r2.stderr).splitlines() if l.startswith("error: NdInterp")]
    return unavailable, errs


def main():
    os.makedirs(WORK, exist_ok=True)
    lean = os.path.join(WORK, "lean")
    shutil.rmtree(lean, ignore_errors=True)
    shutil.copytree(os.path.join(VERIF, "lean"), lean)
    bad = 0
    for e in REWRITES:
        un, errs = run(e)
        ok = not errs and not un
        bad += not ok
        print(("ok   " if ok else "FAIL ") + "rewrite  " + e[2][:70].replace("\n", " ") + ("" if ok else f"  -> {errs[:1]} {un[:1]}"))
    for e in MUTATIONS:
        un, errs = run(e)
        ok = bool(errs) or bool(un)
        bad += not ok
        print(("ok   " if ok else "FAIL ") + "mutation " + e[2][:70].replace("\n", " ") + f"  -> {len(errs)} theorem(s) fail, {len(un)} kernel(s) unavailable")
    shutil.rmtree(os.path.join(WORK, "src"), ignore_errors=True)
    shutil.rmtree(lean, ignore_errors=True)
    print(f"{len(REWRITES)} rewrites, {len(MUTATIONS)} mutations, {bad} unexpected")
    sys.exit(1 if bad else 0)


if __name__ == "__main__":
    main()
