#!/usr/bin/env python3
"""Self-test of the control-flow tie (not part of any check): applies single edits to a scratch copy of
/repo/src/vector_extensions.rs, runs tools/translate_control.py on it and builds NdInterp.Props.FormulaTie.Ctl in a scratch copy of
the Lean project.

  * REWRITES: restructurings with the same behaviour — every FT_ctl_* theorem must still be proved and nothing may become unavailable;
  * MUTATIONS: changed branches / comparisons / bounds — some FT_ctl_* theorem must fail, or the function must become unavailable.

usage: python3 tools/ctl_selftest.py        (needs a built /verif/lean; works under /verif/.work/ctl_selftest)
"""
import os
import shutil
import subprocess
import sys

VERIF = os.path.dirname(os.path.dirname(os.path.abspath(__file__)))
WORK = os.path.join(VERIF, ".work", "ctl_selftest")
VE = "vector_extensions.rs"
LIN = "interp1d/strategies/linear.rs"
BIL = "interp2d/strategies/bilinear.rs"
M1 = "interp1d/mod.rs"
M2 = "interp2d/mod.rs"
CS = "interp1d/strategies/cubic_spline.rs"

REWRITES = [
    (VE, "let mid_idx = (range.1 - range.0) / 2 + range.0;", "let mid_idx = range.0 + (range.1 - range.0) / 2;"),
    (VE, "        if mid_x <= x && x < self[mid_idx + 1] {\n            return mid_idx;\n        }",
     "        if mid_x <= x {\n            if x < self[mid_idx + 1] {\n                return mid_idx;\n            }\n        }"),
    (VE, "            MonotonicState::Init => panic!(\"`MonotonicState::update` was never called\"),\n            MonotonicState::NotStrict => NotMonotonic,",
     "            MonotonicState::NotStrict => NotMonotonic,\n            MonotonicState::Init => panic!(\"`MonotonicState::update` was never called\"),"),
    (VE, "        if self.len() <= 1 {\n            return NotMonotonic;\n        };", "        if self.len() < 2 {\n            return NotMonotonic;\n        };"),
    (VE, "        if x >= self[self.len() - 1] {\n            return self.len() - 2;\n        }",
     "        let last = self.len() - 1;\n        if x >= self[last] {\n            return self.len() - 2;\n        }"),
    (VE, "        if mid_x <= x {\n            // why is this faster than `mid_x < x`???\n            range.0 = mid_idx;\n        } else {\n            range.1 = mid_idx;\n        }",
     "        if x >= mid_x {\n            range.0 = mid_idx;\n        } else {\n            range.1 = mid_idx;\n        }"),
    (VE, "            Likely(NotMonotonic) => Likely(NotMonotonic),\n        }\n    }\n\n    /// return", "            Likely(NotMonotonic) => self,\n        }\n    }\n\n    /// return"),
    (VE, "                let a = items[0];\n                let b = items[1];\n                state.update(a, b).short_circuit()", "                state.update(items[0], items[1]).short_circuit()"),
    (LIN, "        let (x1, y1) = this.index_point(idx);\n        let (x2, y2) = this.index_point(idx + 1);", "        let (x2, y2) = this.index_point(idx + 1);\n        let (x1, y1) = this.index_point(idx);"),
    (LIN, "        if !self.extrapolate && !this.is_in_range(x) {", "        if !(self.extrapolate || this.is_in_range(x)) {"),
    (M1, "        let view = self.data.index_axis(Axis(0), index);\n        (self.x[index], view)", "        (self.x[index], self.data.index_axis(Axis(0), index))"),
    (BIL, "        let (_, _, z12) = interpolator.index_point(x_idx, y_idx + 1);\n        let (_, _, z21) = interpolator.index_point(x_idx + 1, y_idx);",
     "        let (_, _, z21) = interpolator.index_point(x_idx + 1, y_idx);\n        let (_, _, z12) = interpolator.index_point(x_idx, y_idx + 1);"),
    (CS, "if matches!(self.extrapolate, Extrapolate::No) && !in_range {", "if !in_range && matches!(self.extrapolate, Extrapolate::No) {"),
    (CS, "        let a_left = self.a.index_axis(AX0, idx);\n        let b_left = self.b.index_axis(AX0, idx);", "        let b_left = self.b.index_axis(AX0, idx);\n        let a_left = self.a.index_axis(AX0, idx);"),
    (LIN, [("        x: Sx::Elem,\n    ) -> Result<(), InterpolateError> {\n        let this = interpolator;", "        xq: Sx::Elem,\n    ) -> Result<(), InterpolateError> {\n        let this = interpolator;"),
           ("!this.is_in_range(x)", "!this.is_in_range(xq)"), ("\"x = {x:#?} is not in range\"", "\"x = {xq:#?} is not in range\""),
           ("this.get_index_left_of(x)", "this.get_index_left_of(xq)"), ("(x2, y2), x);", "(x2, y2), xq);")], "the query parameter of Linear::interp_into renamed"),
    (VE, "        let mid_x = self[mid_idx];\n\n        if mid_x <= x && x < self[mid_idx + 1] {", "        let mid_x = self[mid_idx];\n\n        if self[mid_idx] <= x && x < self[mid_idx + 1] {"),
    (M1, "        if data.ndim() < 1 {", "        if data.ndim() == 0 {"),
    (M1, "        if x.len() != data.shape()[0] {\n            return Err(BuilderError::ShapeError(", "        if data.shape()[0] != x.len() {\n            return Err(BuilderError::ShapeError("),
    (M2, "        if !matches!(x.monotonic_prop(), Rising { strict: true }) {\n            return Err(Monotonic(\n                \"The x-axis needs to be strictly monotonic rising\".into(),\n            ));\n        }\n        if !matches!(y.monotonic_prop(), Rising { strict: true }) {",
     "        if !matches!(x.monotonic_prop(), Rising { strict: true }) || !matches!(y.monotonic_prop(), Rising { strict: true }) {"),
]

MUTATIONS = [
    (VE, "            if mid_x <= x {\n                range.0 = mid_idx;\n            } else {\n                range.1 = mid_idx;\n            }\n        }\n        range.0",
     "            if mid_x < x {\n                range.0 = mid_idx;\n            } else {\n                range.1 = mid_idx;\n            }\n        }\n        range.0"),
    (VE, "            Init => {\n                if a < b {\n                    Likely(Rising { strict: true })\n                } else if a == b {\n                    NotStrict\n                } else {\n                    Likely(Falling { strict: true })\n                }",
     "            Init => {\n                if a > b {\n                    Likely(Falling { strict: true })\n                } else if a == b {\n                    NotStrict\n                } else {\n                    Likely(Rising { strict: true })\n                }"),
    (VE, "if x >= self[self.len() - 1] {", "if x > self[self.len() - 1] {"),
    (VE, "return self.len() - 2;", "return self.len() - 1;"),
    (VE, "while range.0 + 1 < range.1 {", "while range.0 + 2 < range.1 {"),
    (VE, "                if a == b {\n                    Likely(Rising { strict: false })\n                } else if a < b {\n                    Likely(Rising { strict })",
     "                if a == b {\n                    Likely(Rising { strict })\n                } else if a < b {\n                    Likely(Rising { strict })"),
    (VE, "if self.len() <= 1 {", "if self.len() <= 2 {"),
    (VE, "            MonotonicState::Likely(NotMonotonic) => Err(NotMonotonic),\n            _ => Ok(self),",
     "            MonotonicState::Likely(NotMonotonic) | MonotonicState::NotStrict => Err(NotMonotonic),\n            _ => Ok(self),"),
    (VE, "if mid_x <= x && x < self[mid_idx + 1] {", "if mid_x <= x && x <= self[mid_idx + 1] {"),
    (VE, "        if mid_x <= x {\n            // why is this faster than `mid_x < x`???\n            range.0 = mid_idx;\n        } else {\n            range.1 = mid_idx;\n        }",
     "        if mid_x <= x {\n            range.1 = mid_idx;\n        } else {\n            range.0 = mid_idx;\n        }"),
    (VE, "        if x <= self[0] {\n            return 0;\n        }", "        if x < self[0] {\n            return 0;\n        }"),
    (VE, "let mid_idx = (range.1 - range.0) / 2 + range.0;", "let mid_idx = (range.1 + range.0) / 2 + 1;"),
    (VE, "            MonotonicState::NotStrict => NotMonotonic,", "            MonotonicState::NotStrict => Rising { strict: false },"),
    (VE, "                let a = items[0];\n                let b = items[1];", "                let a = items[1];\n                let b = items[0];"),
    (VE, "        let mut range = (0usize, self.len() - 1);", "        let mut range = (1usize, self.len() - 1);"),
    (LIN, "let (x2, y2) = this.index_point(idx + 1);", "let (x2, y2) = this.index_point(idx);"),
    (LIN, "if !self.extrapolate && !this.is_in_range(x) {", "if !self.extrapolate && this.is_in_range(x) {"),
    (LIN, "*t = Self::calc_frac((x1, y1), (x2, y2), x);", "*t = Self::calc_frac((x2, y1), (x1, y2), x);"),
    (M1, "self.x[0] <= x && x <= self.x[self.x.len() - 1]", "self.x[0] <= x && x < self.x[self.x.len() - 1]"),
    (M1, "(self.x[index], view)", "(self.x[index + 1], view)"),
    (BIL, "if !self.extrapolate && !interpolator.is_in_y_range(y) {", "if !self.extrapolate && !interpolator.is_in_x_range(y) {"),
    (BIL, "let (_, _, z21) = interpolator.index_point(x_idx + 1, y_idx);", "let (_, _, z21) = interpolator.index_point(x_idx, y_idx + 1);"),
    (BIL, "let z2 = Linear::calc_frac((x1, z12), (x2, z22), x);", "let z2 = Linear::calc_frac((x1, z12), (x2, z22), y);"),
    (M2, "(self.x.get_lower_index(x), self.y.get_lower_index(y))", "(self.x.get_lower_index(x), self.x.get_lower_index(y))"),
    (M2, "                .index_axis(Axis(0), x_idx)\n                .index_axis_move(Axis(0), y_idx),", "                .index_axis(Axis(0), y_idx)\n                .index_axis_move(Axis(0), x_idx),"),
    (CS, "if matches!(self.extrapolate, Extrapolate::Periodic) && !in_range {", "if matches!(self.extrapolate, Extrapolate::Periodic) {"),
    (CS, "let a_left = self.a.index_axis(AX0, idx);", "let a_left = self.a.index_axis(AX0, idx + 1);"),
    (CS, "x = ((x - x0).rem_euclid(&(xn - x0))) + x0;", "x = ((x - x0).rem_euclid(&(xn - x0))) + xn;"),
    (CS, "+ t * (one - t) * (a_left * (one - t) + b_left * t);", "+ t * (one + t) * (a_left * (one - t) + b_left * t);"),
    (CS, "let (x_right, data_right) = interp.index_point(idx + 1);", "let (x_right, data_right) = interp.index_point(idx);"),
    (CS, "if matches!(self.extrapolate, Extrapolate::No) && !in_range {", "if matches!(self.extrapolate, Extrapolate::Yes) && !in_range {"),
    (CS, "let t = (x - x_left) / (x_right - x_left);", "let t = (x - x_left) / (x_right - x);"),
    (M1, "if data.shape()[0] < Strat::MINIMUM_DATA_LENGHT {", "if data.shape()[0] <= Strat::MINIMUM_DATA_LENGHT {"),
    (M1, "        if x.len() != data.shape()[0] {\n            return Err(BuilderError::ShapeError(", "        if x.len() < data.shape()[0] {\n            return Err(BuilderError::ShapeError("),
    (M1, "if !matches!(x.monotonic_prop(), Rising { strict: true }) {", "if !matches!(x.monotonic_prop(), Rising { strict: false }) {"),
    (M2, "        if !matches!(y.monotonic_prop(), Rising { strict: true }) {", "        if !matches!(x.monotonic_prop(), Rising { strict: true }) {"),
    (M2, "        if data.ndim() < 2 {", "        if data.ndim() < 1 {"),
    (M2, "let y = Array1::from_iter((0..data.shape().get(1).copied().unwrap_or(0)).map(|i| {", "let y = Array1::from_iter((0..data.shape().get(0).copied().unwrap_or(0)).map(|i| {"),
    (M2, "        if y.len() != data.shape()[1] {", "        if y.len() != data.shape()[0] {"),
    (M1, "let len = data.shape().first().copied().unwrap_or(0);", "let len = data.shape().first().copied().unwrap_or(1);"),
    (BIL, "        if !self.extrapolate && !interpolator.is_in_x_range(x) {\n            return Err(InterpolateError::OutOfBounds(format!(\n                \"x = {x:?} is not in range\"\n            )));\n        }\n", ""),
]


def run(edit):
    src = os.path.join(WORK, "src")
    shutil.rmtree(src, ignore_errors=True)
    shutil.copytree("/repo/src", src)
    f, a, b = edit
    p = os.path.join(src, f)
    s = open(p).read()
    if isinstance(a, list):          # several replacements in one file (a renamed parameter): b is the label
        for old_, new_ in a:
            assert old_ in s, (f, old_[:60])
            s = s.replace(old_, new_, 1)
        open(p, "w").write(s)
    else:
        assert a in s, (f, a[:60])
        open(p, "w").write(s.replace(a, b, 1))
    lean = os.path.join(WORK, "lean")
    r = subprocess.run([sys.executable, os.path.join(VERIF, "tools", "translate_control.py"), "--src", src, "--out",
                        os.path.join(lean, "NdInterp", "Gen", "Control.lean")], capture_output=True, text=True)
    unavailable = [l.strip() for l in r.stdout.splitlines() if "unavailable" in l]
    r2 = subprocess.run(["lake", "build", "NdInterp.Props.FormulaTie.Ctl"], cwd=lean, capture_output=True, text=True)
    errs = [l for l in (r2.stdout + r2.stderr).splitlines() if l.startswith("error: NdInterp")]
    return unavailable, errs


def main():
    os.makedirs(WORK, exist_ok=True)
    lean = os.path.join(WORK, "lean")
    shutil.rmtree(lean, ignore_errors=True)
    shutil.copytree(os.path.join(VERIF, "lean"), lean)
    bad = 0
    for e in REWRITES:
        un, errs = run(e)
        ok = not errs and not un
        bad += not ok
        print(("ok   " if ok else "FAIL ") + "rewrite  " + e[2][:70].replace("\n", " ") + ("" if ok else f"  -> {errs[:2]} {un[:1]}"), flush=True)
    for e in MUTATIONS:
        un, errs = run(e)
        ok = bool(errs) or bool(un)
        bad += not ok
        print(("ok   " if ok else "FAIL ") + "mutation " + e[2][:70].replace("\n", " ") + f"  -> {len(errs)} error(s), {len(un)} function(s) unavailable", flush=True)
    shutil.rmtree(os.path.join(WORK, "src"), ignore_errors=True)
    shutil.rmtree(lean, ignore_errors=True)
    print(f"{len(REWRITES)} rewrites, {len(MUTATIONS)} mutations, {bad} unexpected")
    sys.exit(1 if bad else 0)


if __name__ == "__main__":
    main()
