"""Shared machinery of the checks: building, running model and implementation on protocol
cases, parsing results, exact-rational helpers, evidence and replay files."""
import fcntl
import json
import os
import re
import struct
import subprocess
import sys
import time
from fractions import Fraction

VERIF = os.path.dirname(os.path.dirname(os.path.abspath(__file__)))
LEAN = os.path.join(VERIF, "lean")
HARNESS = os.path.join(VERIF, "harness")
WORK = os.path.join(VERIF, ".work")
REPO = "/repo"
DRIVER = os.path.join(LEAN, ".lake", "build", "bin", "driver")
VHARNESS = os.path.join(HARNESS, "target", "release", "vharness")
# the protocol runner is three binaries (exact rationals; f64/f32; i64/i32), compiled in parallel; records are routed by scalar tag
RUNNER_OF = {"Q": "vharness", "F": "vharness_f", "G": "vharness_f", "I": "vharness_i", "J": "vharness_i"}
RUNNER_BINS = ("vharness", "vharness_f", "vharness_i")
SCENARIO_BIN = {"history": "vharness_hist", "custom": "vharness_custom", "casts": "vharness_casts"}
ALLOWED_AXIOMS = {"propext", "Classical.choice", "Quot.sound"}

TRUSTED_BASE = [
    "Lean 4.33 kernel; axioms limited to propext, Classical.choice, Quot.sound (audited per theorem by #print axioms on every run)",
    "Mathlib v4.33 lemmas imported by the proof modules",
    "hand-written Lean model of the crate (lean/NdInterp/Model), tied to /repo by the exact-rational correspondence run of this check",
    "correspondence harness: Rust exact rational scalar Q (cross-checked value-by-value against Lean Rat), line protocol, textual diff",
    "compiled Lean driver (Lean compiler/runtime for Rat and Float, not the kernel)",
    "ndarray 0.16 (Zip, indexing, views), num-traits casts, Rust type system: modelled, not verified",
    "the translators that regenerate lean/NdInterp/Gen/* from /repo/src on every run (source facts; arithmetic kernels and decision tables; "
    "statement-level control flow of 22 functions): their reading of Rust (evaluation order, checked reads / usize subtraction / casts, the "
    "try_fold and Zip idioms) is trusted, their failure mode is 'unavailable', never 'assumed equal'; the FT_* theorems are what ties their output to the model",
]


def log(*a):
    print(*a, file=sys.stderr, flush=True)


# ------------------------------------------------------------------ scalars

def fq(x):
    """protocol text of a rational"""
    x = Fraction(x)
    return str(x.numerator) if x.denominator == 1 else f"{x.numerator}/{x.denominator}"


def f64_bits(x):
    return struct.unpack("<Q", struct.pack("<d", x))[0]


def bits_f64(b):
    return struct.unpack("<d", struct.pack("<Q", b))[0]


def ff(x):
    """protocol text of an f64 (16 hex digits of its bits)"""
    return f"{f64_bits(float(x)):016x}"


def ff_bits(b):
    return f"{b:016x}"


def f32_round(x):
    """the f32 nearest to x, as a Python float (exactly representable in f32)"""
    try:
        return struct.unpack("<f", struct.pack("<f", x))[0]
    except OverflowError:
        import math
        return math.copysign(math.inf, x)


def f32_bits(x):
    return struct.unpack("<I", struct.pack("<f", x))[0]


def bits_f32(b):
    return struct.unpack("<f", struct.pack("<I", b))[0]


def ff32(x):
    """protocol text of an f32 (8 hex digits of its bits); x must already be an f32 value"""
    return f"{f32_bits(float(x)):08x}"


def next_up32(x):
    b = f32_bits(x)
    if x != x or x == float("inf"):
        return x
    if x == 0.0:
        return bits_f32(1)
    return bits_f32(b + 1) if x > 0 else bits_f32(b - 1)


def next_down32(x):
    return -next_up32(-x)


def next_up(x):
    import math
    return math.nextafter(x, math.inf)


def next_down(x):
    import math
    return math.nextafter(x, -math.inf)


def shape_size(shape):
    n = 1
    for d in shape:
        n *= d
    return n


# ------------------------------------------------------------------ protocol text builders

def t_list(vals, fmt):
    return " ".join([str(len(vals))] + [fmt(v) for v in vals])


def t_shape(shape):
    return " ".join([str(len(shape))] + [str(d) for d in shape])


def t_vec(vals, fmt, lay="c"):
    return f"{lay} {t_list(vals, fmt)}"


def t_ndarr(shape, flat, fmt, lay="c"):
    assert len(flat) == shape_size(shape), (shape, len(flat))
    return f"{lay} {t_shape(shape)} {t_list(flat, fmt)}"


def t_buf(shape, lay="c"):
    return f"{lay} {t_shape(shape)}"


def t_xspec(x, fmt, lay="c"):
    return "defx" if x is None else "x " + t_vec(x, fmt, lay)


def t_sb(sb, fmt):
    if isinstance(sb, str):
        return sb
    return f"{sb[0]} {fmt(sb[1])}"


def t_rb(rb, fmt):
    if isinstance(rb, str):
        return rb
    return f"mix {t_sb(rb[0], fmt)} {t_sb(rb[1], fmt)}"


def t_strat(strat, fmt):
    """strat: ('lin', ext) | ('spl', ext, bc); bc: 'nak'|'nat'|'cla'|'per'|('ind', shape, [rb])"""
    if strat[0] == "lin":
        return f"lin {int(strat[1])}"
    bc = strat[2]
    if isinstance(bc, str):
        return f"spl {int(strat[1])} {bc}"
    _, shape, rbs = bc
    return f"spl {int(strat[1])} ind {t_shape(shape)} {len(rbs)} " + " ".join(t_rb(r, fmt) for r in rbs)


# ------------------------------------------------------------------ result parsing

class Result:
    __slots__ = ("kind", "shape", "vals", "extra", "raw", "payload")

    def __init__(self, raw):
        self.raw = raw
        self.shape = None
        self.vals = None
        self.extra = ""
        self.payload = ""
        toks = raw.split()
        self.kind = toks[0] if toks else "empty"
        if self.kind == "ok":
            r = int(toks[1])
            self.shape = [int(t) for t in toks[2:2 + r]]
            rest = toks[2 + r:]
            if rest and rest[0] == "-":
                self.vals = None
                rest = rest[1:]
            else:
                n = int(rest[0])
                self.vals = rest[1:1 + n]
                rest = rest[1 + n:]
            self.extra = " ".join(rest)
        elif self.kind in ("berr", "idx", "mono"):
            self.extra = " ".join(toks[1:])
        elif self.kind == "oob":
            # `oob <coordinate> <value>`: what the error message names; `!flags`: buffer accounting
            self.payload = " ".join(t for t in toks[1:] if not t.startswith("!"))
            self.extra = " ".join(t for t in toks[1:] if t.startswith("!"))

    def outcome(self):
        """outcome kind + shape, without values"""
        if self.kind == "ok":
            return f"ok {self.shape} {self.extra}".strip()
        return self.raw

    def fractions(self):
        return [Fraction(v) for v in self.vals]

    def floats(self):
        return [float("nan") if v == "nan" else (bits_f32(int(v, 16)) if len(v) == 8 else bits_f64(int(v, 16))) for v in self.vals]

    def bits(self):
        return [int(v, 16) for v in self.vals]


# ------------------------------------------------------------------ building

class BuildError(Exception):
    pass


def _lock():
    os.makedirs(WORK, exist_ok=True)
    f = open(os.path.join(WORK, "build.lock"), "w")
    fcntl.flock(f, fcntl.LOCK_EX)
    return f


def sh(cmd, cwd=None, timeout=3600, env=None):
    e = dict(os.environ)
    e["CARGO_NET_OFFLINE"] = "true"
    if env:
        e.update(env)
    p = subprocess.run(cmd, cwd=cwd, shell=isinstance(cmd, str), stdout=subprocess.PIPE,
                       stderr=subprocess.STDOUT, text=True, timeout=timeout, env=e)
    return p.returncode, p.stdout


def lake_build(targets):
    """returns (ok, output)"""
    lk = _lock()
    try:
        rc, out = sh(["lake", "build"] + targets, cwd=LEAN)
    finally:
        lk.close()
    return rc == 0, out


def cargo_build(bins=RUNNER_BINS):
    """builds the protocol runner (and the scenario binaries a property needs) against /repo's working tree.  One binary per
    scenario, built separately: a change that stops one scenario from compiling leaves the others usable."""
    lk = _lock()
    try:
        if not os.path.exists(os.path.join(HARNESS, "Cargo.lock")):
            sh(["cp", os.path.join(REPO, "Cargo.lock"), os.path.join(HARNESS, "Cargo.lock")])
        cmd = ["cargo", "build", "--release", "--offline"]
        bins = list(bins)
        if "vharness" in bins:
            bins += [b for b in RUNNER_BINS if b not in bins]
        for b in bins:
            cmd += ["--bin", b]
        rc, out = sh(cmd, cwd=HARNESS)
    finally:
        lk.close()
    return rc == 0, out


def strip_lean_comments(src):
    out = []
    i, n, depth = 0, len(src), 0
    while i < n:
        if src.startswith("/-", i):
            depth += 1
            i += 2
        elif depth > 0 and src.startswith("-/", i):
            depth -= 1
            i += 2
        elif depth > 0:
            if src[i] == "\n":
                out.append("\n")
            i += 1
        elif src.startswith("--", i):
            while i < n and src[i] != "\n":
                i += 1
        else:
            out.append(src[i])
            i += 1
    return "".join(out)


FORBIDDEN = re.compile(r"\b(sorry|admit|native_decide|bv_decide|implemented_by|unsafe)\b|^\s*axiom\s|maxHeartbeats\s+0", re.M)


def src_fingerprint():
    """sha256 per file of /repo/src with comments and whitespace removed (doc examples and formatting do not count)"""
    import hashlib
    out = {}
    for root, _, files in os.walk(os.path.join(REPO, "src")):
        for fn in sorted(files):
            if fn.endswith(".rs"):
                p_ = os.path.join(root, fn)
                t = open(p_, errors="replace").read()
                t = re.sub(r"/\*.*?\*/", "", t, flags=re.S)
                t = re.sub(r"//[^\n]*", "", t)
                t = re.sub(r"\s+", "", t)
                out[os.path.relpath(p_, REPO)] = hashlib.sha256(t.encode()).hexdigest()[:16]
    return out


def src_changed_files():
    """files of /repo/src whose code differs from the tree the model was last validated against (baseline_src.json)"""
    try:
        base = json.load(open(os.path.join(VERIF, "baseline_src.json")))["files"]
    except Exception:
        return ["<no baseline>"]
    now = src_fingerprint()
    return sorted(f for f in set(base) | set(now) if base.get(f) != now.get(f))


def source_audit():
    """forbidden constructs in any Lean source of the project (comments stripped)"""
    hits = []
    for root, _, files in os.walk(LEAN):
        if ".lake" in root:
            continue
        for f in files:
            if f.endswith(".lean"):
                p = os.path.join(root, f)
                code = strip_lean_comments(open(p).read())
                for m in FORBIDDEN.finditer(code):
                    line = code.count("\n", 0, m.start()) + 1
                    hits.append(f"{os.path.relpath(p, LEAN)}:{line}: {m.group(0).strip()}")
    return hits


def theorem_names(module_file, prefix):
    """names of the theorems of a property file whose name starts with the property id"""
    code = strip_lean_comments(open(os.path.join(LEAN, module_file)).read())
    return re.findall(r"^\s*theorem\s+(" + re.escape(prefix) + r"[A-Za-z0-9_']*)", code, re.M)


def axiom_audit(prop, modules, theorems):
    """#print axioms for each theorem; returns dict name -> sorted axiom list (or error string)"""
    os.makedirs(os.path.join(WORK, prop), exist_ok=True)
    path = os.path.join(WORK, prop, "Audit.lean")
    with open(path, "w") as f:
        for m in modules:
            f.write(f"import {m}\n")
        f.write("open NdInterp\n")
        for t in theorems:
            f.write(f"#print axioms {t}\n")
    lk = _lock()
    try:
        rc, out = sh(["lake", "env", "lean", path], cwd=LEAN)
    finally:
        lk.close()
    res = {}
    cur = None
    for m in re.finditer(r"'(\S+)' (depends on axioms: \[([^\]]*)\]|does not depend on any axioms)", out.replace("\n", " ")):
        name = m.group(1).split(".")[-1]
        axs = [a.strip() for a in (m.group(3) or "").split(",") if a.strip()]
        res[name] = sorted(axs)
    for t in theorems:
        if t not in res:
            res[t] = "not-found: " + out[-400:]
    return res


# ------------------------------------------------------------------ running cases

def run_impl_stream(lines):
    """the implementation side: every record goes to the runner binary serving its scalar type (ids = positions in `lines`,
    which also select among equivalent call orders / layouts inside the runner); the three runners work concurrently"""
    from concurrent.futures import ThreadPoolExecutor
    groups = {}
    for i, l in enumerate(lines):
        groups.setdefault(RUNNER_OF.get(l.split(" ", 1)[0], "vharness"), []).append(i)
    out = ["missing"] * len(lines)
    raws = []

    def one(item):
        exe, idx = item
        res, raw = run_stream([os.path.join(HARNESS, "target", "release", exe), "run"], [lines[i] for i in idx], "impl", ids=idx)
        return idx, res, raw
    with ThreadPoolExecutor(max_workers=3) as ex:
        for idx, res, raw in ex.map(one, sorted(groups.items())):
            for i, r in zip(idx, res):
                out[i] = r
            raws.append(raw)
    return out, "".join(raws)


def run_stream(cmd, lines, name, max_crashes=40, ids=None):
    """feed `id line` records to a runner and collect `id result` lines.  A runner that dies (signal, abort) is restarted after the
    record it died on; that record's result is `crash <rc>` (the crate brought the process down on this input)."""
    res = {}
    start = 0
    crashes = 0
    raw = []
    n = len(lines)
    ids = list(ids) if ids is not None else list(range(n))
    pos = {ident: k for k, ident in enumerate(ids)}
    while start < n:
        text = "".join(f"{ids[i]} {lines[i]}\n" for i in range(start, n))
        p = subprocess.run(cmd, input=text, stdout=subprocess.PIPE, stderr=subprocess.PIPE, text=True)
        raw.append(p.stdout)
        for l in p.stdout.splitlines():
            sp = l.split(" ", 1)
            if len(sp) == 2 and sp[0].isdigit() and int(sp[0]) in pos:
                res[pos[int(sp[0])]] = sp[1]
        if p.returncode == 0:
            break
        if name == "model":
            raise BuildError(f"model runner failed rc={p.returncode}: {p.stderr[-2000:]}")
        first_missing = next((i for i in range(start, n) if i not in res), None)
        if first_missing is None:
            break
        crashes += 1
        res[first_missing] = f"crash rc={p.returncode} {p.stderr.strip().splitlines()[-1][:120] if p.stderr.strip() else ''}".strip()
        start = first_missing + 1
        if crashes >= max_crashes:
            for i in range(start, n):
                res.setdefault(i, "crash-skipped")
            break
    return [res.get(i, "missing") for i in range(n)], "".join(raw)


def run_cases(prop, lines, tag="cases"):
    """lines: list of protocol lines WITHOUT id.  returns (model_results, impl_results) raw strings"""
    d = os.path.join(WORK, prop)
    os.makedirs(d, exist_ok=True)
    cases_path = os.path.join(d, f"{tag}.txt")
    with open(cases_path, "w") as f:
        for i, l in enumerate(lines):
            f.write(f"{i} {l}\n")
    outs = []
    for exe, name in ((DRIVER, "model"), (None, "impl")):
        out, raw = run_stream([exe], lines, name) if exe else run_impl_stream(lines)
        outs.append(out)
        with open(os.path.join(d, f"{tag}.{name}.txt"), "w") as f:
            f.write(raw)
    return outs[0], outs[1]


def run_impl_only(prop, lines, tag="oracle"):
    d = os.path.join(WORK, prop)
    os.makedirs(d, exist_ok=True)
    cases_path = os.path.join(d, f"{tag}.txt")
    with open(cases_path, "w") as f:
        for i, l in enumerate(lines):
            f.write(f"{i} {l}\n")
    out, _ = run_impl_stream(lines)
    return out


def run_sub(args, timeout=3600):
    """run a scenario binary, return its stdout lines.  If the process dies (signal / abort inside the crate) the lines printed so far
    are kept and a `FAIL process-died …` line is appended: what was reported before the crash is still evidence."""
    exe = os.path.join(HARNESS, "target", "release", SCENARIO_BIN[args[0]])
    p = subprocess.run([exe] + [str(a) for a in args[1:]], stdout=subprocess.PIPE, stderr=subprocess.PIPE, text=True,
                       timeout=timeout)
    lines = p.stdout.splitlines()
    if p.returncode != 0:
        tail = p.stderr.strip().splitlines()[-1][:200] if p.stderr.strip() else ""
        lines.append(f"FAIL process-died rc={p.returncode} after {len(lines)} lines: {tail}")
    return lines


def fcanon(vals):
    """f64 result tokens with every NaN mapped to one token"""
    out = []
    for v in vals:
        if v != "nan":
            b = int(v, 16)
            if len(v) == 8:
                if (b >> 23) & 0xFF == 0xFF and b & ((1 << 23) - 1):
                    v = "nan"
            elif (b >> 52) & 0x7FF == 0x7FF and b & ((1 << 52) - 1):
                v = "nan"
        out.append(v)
    return out


def fclass(vals):
    """coarse class of f64 result tokens: nan / +inf / -inf / finite"""
    out = []
    for v in fcanon(vals):
        out.append(v if v in ("nan", "7ff0000000000000", "fff0000000000000", "7f800000", "ff800000") else "fin")
    return out


F_STATS = {"bitwise_equal": 0, "spline_not_bitwise": 0, "compared": 0}


def same(line, model, impl):
    """correspondence relation of two result lines.
    Q: the texts are equal (exact rationals).  F: the model executed at IEEE double (Lean `Float`, same operations in the same
    order as the crate) must give the same outcome and shape; Linear/Bilinear values must agree bit for bit (all NaNs equal);
    CubicSpline values must agree in class (NaN / +-inf / finite) — the crate squares with `powf(x, 2.0)`, the model with `x*x`, which
    a libm may round differently in the last place, so bitwise agreement there is recorded as a statistic, not required."""
    if line.split(" ", 1)[0] in ("F", "G"):      # f64 / f32
        rm, ri = Result(model), Result(impl)
        if rm.outcome() != ri.outcome():
            return False
        if rm.kind != "ok" or rm.vals is None or ri.vals is None:
            return True
        F_STATS["compared"] += 1
        eq = fcanon(rm.vals) == fcanon(ri.vals)
        if eq:
            F_STATS["bitwise_equal"] += 1
            return True
        if " spl " in line:
            F_STATS["spline_not_bitwise"] += 1
            return fclass(rm.vals) == fclass(ri.vals)
        return False
    return model == impl


# ------------------------------------------------------------------ exact helpers

def lin_bracket(xs, q):
    """bracket index by linear scan, as the property text defines it"""
    n = len(xs)
    if q <= xs[0]:
        return 0
    if q >= xs[-1]:
        return n - 2
    for i in range(n - 1):
        if xs[i] <= q < xs[i + 1]:
            return i
    raise AssertionError("no bracket")


def lagrange_eval(pts, x):
    """value at x of the polynomial through pts [(xi, yi)] (exact)"""
    tot = Fraction(0)
    for i, (xi, yi) in enumerate(pts):
        t = Fraction(yi)
        for j, (xj, _) in enumerate(pts):
            if i != j:
                t *= Fraction(x - xj, xi - xj)
        tot += t
    return tot


def poly_from_points(pts):
    """coefficients [c0, c1, ...] (ascending) of the polynomial through the points"""
    n = len(pts)
    # Newton / solve Vandermonde exactly
    A = [[Fraction(x) ** k for k in range(n)] + [Fraction(y)] for x, y in pts]
    for c in range(n):
        p = next(r for r in range(c, n) if A[r][c] != 0)
        A[c], A[p] = A[p], A[c]
        A[c] = [v / A[c][c] for v in A[c]]
        for r in range(n):
            if r != c and A[r][c] != 0:
                f = A[r][c]
                A[r] = [a - f * b for a, b in zip(A[r], A[c])]
    return [A[i][n] for i in range(n)]


def poly_eval(c, x, d=0):
    """d-th derivative of polynomial c (ascending coefficients) at x"""
    c = list(c)
    for _ in range(d):
        c = [k * c[k] for k in range(1, len(c))]
    tot = Fraction(0)
    for k in reversed(range(len(c))):
        tot = tot * x + c[k]
    return tot
