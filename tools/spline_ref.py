"""Independent exact reference for cubic splines: the slopes are obtained by Gaussian elimination
on the *conditions of the property text* (C2 at interior knots + end conditions), written with
the derivative formulas of a Hermite cubic — not with the rows the crate assembles."""
from fractions import Fraction as Fr


def solve(A, b):
    n = len(A)
    M = [list(map(Fr, A[i])) + [Fr(b[i])] for i in range(n)]
    for c in range(n):
        p = next((r for r in range(c, n) if M[r][c] != 0), None)
        if p is None:
            raise ZeroDivisionError("singular")
        M[c], M[p] = M[p], M[c]
        pv = M[c][c]
        M[c] = [v / pv for v in M[c]]
        for r in range(n):
            if r != c and M[r][c] != 0:
                f = M[r][c]
                M[r] = [a - f * bb for a, bb in zip(M[r], M[c])]
    return [M[i][n] for i in range(n)]


def d2_left(h, d, kl, kr):
    """S''(xl) of the Hermite cubic with slopes kl, kr, secant slope d, length h, as (c_kl, c_kr, const)"""
    return (Fr(-4) / h, Fr(-2) / h, 6 * d / h)


def d2_right(h, d):
    return (Fr(2) / h, Fr(4) / h, -6 * d / h)


def d3(h, d):
    """S''' = 6 (kl + kr - 2 d) / h^2"""
    return (Fr(6) / h ** 2, Fr(6) / h ** 2, -12 * d / h ** 2)


def slopes(xs, ys, left, right):
    """left/right: 'nak' | 'nat' | 'cla' | ('fd', v) | ('sd', v) ; or left == 'per' (periodic)"""
    n = len(xs)
    h = [xs[i + 1] - xs[i] for i in range(n - 1)]
    d = [Fr(ys[i + 1] - ys[i]) / h[i] for i in range(n - 1)]
    A, b = [], []

    def row():
        return [Fr(0)] * n

    # C2 at interior knots: d2_right(piece i-1) = d2_left(piece i)
    for i in range(1, n - 1):
        r = row()
        a1, a2, c1 = d2_right(h[i - 1], d[i - 1])
        b1, b2, c2 = d2_left(h[i], d[i], None, None)
        r[i - 1] += a1
        r[i] += a2 - b1
        r[i + 1] += -b2
        A.append(r)
        b.append(c2 - c1)
    if left == "per":
        r = row(); r[0] = 1; r[n - 1] = -1
        A.append(r); b.append(0)
        r = row()
        b1, b2, c2 = d2_left(h[0], d[0], None, None)
        a1, a2, c1 = d2_right(h[n - 2], d[n - 2])
        r[0] += b1; r[1] += b2; r[n - 2] -= a1; r[n - 1] -= a2
        A.append(r); b.append(c1 - c2)
        return solve(A, b)
    if n == 3 and left == "nak" and right == "nak":
        # the parabola: both third derivatives vanish (one of them is implied by C2 + the other)
        r = row(); a1, a2, c = d3(h[0], d[0]); r[0], r[1] = a1, a2
        A.append(r); b.append(-c)
        r = row(); a1, a2, c = d3(h[1], d[1]); r[1], r[2] = a1, a2
        A.append(r); b.append(-c)
        # C2 at the middle knot + two vanishing cubic terms: 3 independent equations
        return solve(A, b)
    for side, cond in (("l", left), ("r", right)):
        cond = {"nat": ("sd", Fr(0)), "cla": ("fd", Fr(0))}.get(cond, cond) if isinstance(cond, str) else cond
        r = row()
        if cond == "nak":
            if side == "l":
                a1, a2, c1 = d3(h[0], d[0]); b1, b2, c2 = d3(h[1], d[1])
                r[0] += a1; r[1] += a2 - b1; r[2] -= b2
            else:
                a1, a2, c1 = d3(h[n - 3], d[n - 3]); b1, b2, c2 = d3(h[n - 2], d[n - 2])
                r[n - 3] += a1; r[n - 2] += a2 - b1; r[n - 1] -= b2
            A.append(r); b.append(c2 - c1)
        elif cond[0] == "fd":
            r[0 if side == "l" else n - 1] = 1
            A.append(r); b.append(Fr(cond[1]))
        else:
            if side == "l":
                b1, b2, c2 = d2_left(h[0], d[0], None, None)
                r[0], r[1] = b1, b2
            else:
                b1, b2, c2 = d2_right(h[n - 2], d[n - 2])
                r[n - 2], r[n - 1] = b1, b2
            A.append(r); b.append(Fr(cond[1]) - c2)
    return solve(A, b)


def piece_coeffs(xl, xr, yl, yr, kl, kr):
    """ascending coefficients in (x - xl)"""
    h = xr - xl
    d = Fr(yr - yl) / h
    return [Fr(yl), Fr(kl), (3 * d - 2 * kl - kr) / h, (kl + kr - 2 * d) / h ** 2]


def evaluate(xs, ys, ks, q, periodic=False):
    from vlib import lin_bracket
    if periodic and not (xs[0] <= q <= xs[-1]):
        P = xs[-1] - xs[0]
        import math
        k = (q - xs[0]) / P
        q = q - P * (k.numerator // k.denominator)
    i = lin_bracket(xs, q)
    c = piece_coeffs(xs[i], xs[i + 1], ys[i], ys[i + 1], ks[i], ks[i + 1])
    t = q - xs[i]
    return c[0] + c[1] * t + c[2] * t * t + c[3] * t ** 3
