"""C01 — Linear 1-D interpolation returns the exact piecewise-linear interpolant."""
import math
from fractions import Fraction as Fr

import gen
import vlib
from gen import i1_line, e_scalar, e_single, e_array, e_ainto, e_into
from vlib import lin_bracket

ID = "C01"
LEAN_MODULES = ["NdInterp.Props.C01", "NdInterp.Props.RatTie", "NdInterp.Props.FormulaTie.Lin", "NdInterp.Props.FormulaTie.Rng", "NdInterp.Props.FormulaTie.Ctl"]
THEOREM_FILES = [("NdInterp/Props/C01.lean", "C01_"), ("NdInterp/Props/FormulaTie/Lin.lean", "FT_lin_"), ("NdInterp/Props/FormulaTie/Lin.lean", "FT_idx_"), ("NdInterp/Props/FormulaTie/Rng.lean", "FT_rng_"), ("NdInterp/Props/FormulaTie/Ctl.lean", "FT_ctl_")]
RULE = ("Linear (no extrapolation) at Q, exact: n=2..40, all axis kinds, 0..3 trailing axes, default vs explicit axis, "
        "static and dynamic dims, all layouts, every entry point; queries at knots, next to knots, ends, random. f64 runs "
        "judged against the exact rational interpolant of the float inputs with the proved bound (13u+12u^2)*max|y|. "
        "non-trivial = at least one query strictly between two knots; distinct = distinct case line")
PARTIAL = ["rounding magnitude is proved under the standard model of fp arithmetic only (C01_rounding); overflow/underflow excluded; "
           "f32 is run through the protocol (model at IEEE binary32) and held to the same bound with u = 2^-24"]
ASSUMPTIONS = ["standard model of floating-point arithmetic for the rounding bound", "axis length < 2^64"]
U = Fr(1, 2 ** 53)
BOUND = 13 * U + 12 * U * U
U32 = Fr(1, 2 ** 24)
BOUND32 = 13 * U32 + 12 * U32 * U32


def gen_case_q(rng, ext=False):
    n = rng.choice([2, 2, 3, 4, 5, 7, 12, 40]) if rng.random() < 0.9 else rng.randint(2, 40)
    trailing = gen.trailing_shape(rng)
    shape = [n] + trailing
    defx = rng.random() < 0.3
    xs = [Fr(i) for i in range(n)] if defx else gen.axis_q(rng, n)
    flat = gen.vals_q(rng, gen.shape_size(shape))
    qs = gen.queries_q(rng, xs, rng.randint(2, 10), ext=ext)
    return n, shape, defx, xs, flat, qs


def build_line(rng, S, shape, defx, xs, flat, qs, ext):
    r = len(shape)
    single_ok = True
    ent = rng.choice(["array", "array", "ainto", "single", "into", "scalar"])
    if ent == "scalar" and r != 1:
        ent = "array"
    qrank = 1
    dtag, qtag = gen.pick_dims(rng, r, qrank)
    if ent == "scalar":
        dtag = "sta"
    x = None if defx else xs
    xlay = rng.choice(gen.LAYS_1D)
    dlay = rng.choice(gen.LAYS_ND)
    strat = ("lin", ext)
    meta = {"xs": xs, "shape": shape, "flat": flat, "ext": ext}
    if ent in ("scalar", "single", "into"):
        q = qs[0]
        meta["qs"] = [q]
        meta["qshape"] = []
        e = {"scalar": lambda: e_scalar(S, q), "single": lambda: e_single(S, q),
             "into": lambda: e_into(S, q, shape[1:], rng.choice(gen.LAYS_ND))}[ent]()
    else:
        # query arrays of rank 0..4
        qshape = gen.query_shape(rng, len(qs))
        (ql,) = gen.fill_shape(rng, qshape, qs) if len(qshape) != 1 else (qs,)
        dtag, qtag = gen.pick_dims(rng, r, len(qshape))
        meta["qs"] = ql
        meta["qshape"] = qshape
        if ent == "array":
            e = e_array(S, qshape, ql, qtag=qtag, lay=rng.choice(gen.LAYS_ND))
        else:
            e = e_ainto(S, qshape, qshape + shape[1:], ql, qtag=qtag, lay=rng.choice(gen.LAYS_ND),
                        blay=rng.choice(gen.LAYS_ND))
    meta["entry"] = ent
    return {"line": i1_line(S, x, shape, flat, strat, e, dtag=dtag, xlay=xlay, dlay=dlay), "meta": meta}


def gen_case_f(rng):
    n = rng.choice([2, 3, 4, 6, 10, 25, 40])
    trailing = gen.trailing_shape(rng, 2)
    shape = [n] + trailing
    defx = rng.random() < 0.25
    xs = [float(i) for i in range(n)] if defx else gen.axis_f(rng, n, rng.choice(["unit", "uniform", "geometric", "log", "ulps", "random", "evenish", "even", "nearly_even", "indexlike", "tail", "tail"]))
    flat = [rng.uniform(-1, 1) * 10.0 ** rng.randint(-3, 6) for _ in range(gen.shape_size(shape))]
    if not defx and rng.random() < 0.1:
        # large samples of one sign lying close together over a finely spaced axis: every |y| / h overflows although every secant slope
        # (y2 - y1) / h is an ordinary number (seed C01-r10m1: the slope written as y2/dx - y1/dx)
        h_ = 2.0 ** -rng.randint(8, 16)
        a_ = rng.uniform(-3, 3)
        xs = [a_ + i * h_ * rng.choice([1, 1, 2]) for i in range(n)]
        xs = sorted(set(xs))
        if len(xs) == n:
            big_ = rng.choice([1.0e305, -1.0e305, 3.0e304])
            flat = [big_ * (1.0 + rng.uniform(-1, 1) * 2.0 ** -12) for _ in range(gen.shape_size(shape))]
        else:
            xs = [float(i) for i in range(n)]
    qs = [q for q in gen.queries_f(rng, xs, 10, special=False) if xs[0] <= q <= xs[-1]]
    return shape, defx, xs, flat, qs


def gen_case_g(rng):
    """f32 elements: every value is an f32 (held in a Python float)"""
    r32 = vlib.f32_round
    for _ in range(50):
        n = rng.choice([2, 3, 4, 6, 10, 25])
        trailing = gen.trailing_shape(rng, 2)
        shape = [n] + trailing
        defx = rng.random() < 0.25
        kind = rng.choice(["unit", "uniform", "random", "geometric", "ulps", "big"])
        if defx or kind == "unit":
            xs = [float(i) for i in range(n)]
        elif kind == "uniform":
            a, h = r32(rng.uniform(-50, 50)), r32(rng.uniform(0.01, 9))
            xs = [r32(a + i * h) for i in range(n)]
        elif kind == "geometric":
            a, st, r = r32(rng.uniform(-5, 5)), rng.uniform(0.01, 2), rng.choice([2.0, 1.5, 0.5, 3.0])
            xs = [a]
            for _ in range(n - 1):
                xs.append(r32(xs[-1] + st)); st *= r
        elif kind == "ulps":
            xs = [r32(rng.uniform(-100, 100))]
            for _ in range(n - 1):
                v = xs[-1]
                for _ in range(rng.choice([1, 1, 2, 3, 50])):
                    v = vlib.next_up32(v)
                xs.append(v)
        elif kind == "big":
            # magnitudes where f32 has no fractional part left (>= 2^24): consecutive representable values are >= 2 apart
            b = rng.choice([2.0 ** 24, 2.0 ** 26, -2.0 ** 25, 3.0e9])
            xs = [r32(b)]
            for _ in range(n - 1):
                v = xs[-1]
                for _ in range(rng.choice([1, 2, 5, 40])):
                    v = vlib.next_up32(v)
                xs.append(v)
        else:
            xs = sorted({r32(rng.uniform(-300, 300)) for _ in range(3 * n)})[:n]
        if len(xs) < n or any(not a < b for a, b in zip(xs, xs[1:])):
            continue
        flat = [r32(rng.uniform(-1, 1) * 10.0 ** rng.randint(-3, 6)) for _ in range(gen.shape_size(shape))]
        qs = list(xs)
        for a, b in zip(xs, xs[1:]):
            qs += [vlib.next_up32(a), vlib.next_down32(b), r32(a + (b - a) * rng.random()), r32((a + b) / 2)]
        qs = [q for q in qs if xs[0] <= q <= xs[-1]]
        rng.shuffle(qs)
        return shape, defx, xs, flat, [xs[0], xs[-1]] + qs[:8]
    return None


def normal_range(v):
    """finite, and not so small that the standard model (relative error u per operation) could fail"""
    a = abs(Fr(v))
    return a == 0 or (Fr(2) ** -1000 < a < Fr(2) ** 1000)


def gen_case_extreme(rng):
    """data and axis of extreme but independent magnitudes such that every intermediate of the
    reference evaluation order dy=(y2-y1), dx=(x2-x1), m=dy/dx, t=(x-x1), p=m*t, p+y1 stays in the
    normal range (checked exactly): the proved bound then applies"""
    for _ in range(50):
        n = rng.choice([2, 3, 5])
        ex = rng.choice([-250, -120, -30, 0, 40, 150, 280])
        ey = rng.choice([-250, -120, -30, 0, 40, 150, 280])
        xs = sorted({rng.uniform(1, 10) * rng.choice([-1, 1]) for _ in range(n * 3)})[:n]
        xs = [x * 10.0 ** ex for x in xs]
        if len(xs) < n or any(not a < b for a, b in zip(xs, xs[1:])):
            continue
        flat = [rng.uniform(-10, 10) * 10.0 ** ey for _ in range(n)]
        qs = []
        for a, b in zip(xs, xs[1:]):
            qs += [a + (b - a) * rng.random(), a, b]
        qs = [q for q in qs if xs[0] <= q <= xs[-1]]
        ok = True
        for q in qs:
            i = lin_bracket(xs, q)
            x1, x2, y1, y2 = Fr(xs[i]), Fr(xs[i + 1]), Fr(flat[i]), Fr(flat[i + 1])
            dy, dx, t = y2 - y1, x2 - x1, Fr(q) - x1
            m = dy / dx
            vals = [dy, dx, m, t, m * t, m * t + y1, y1, y2]
            # differences must not cancel catastrophically into the subnormal range
            if not all(normal_range(v) for v in vals) or (dy != 0 and abs(dy) < Fr(2) ** -900):
                ok = False
                break
        span = xs[-1] - xs[0]
        if ok and math.isfinite(span) and span > 0 and math.isfinite((n - 1) / span):
            return [n], False, xs, flat, qs
    return None


def generate(rng, tier):
    cases = []
    for _ in range(gen.N(tier, 80, 2000)):
        g = gen_case_extreme(rng)
        if g:
            shape, defx, xs, flat, qs = g
            c = build_line(rng, "F", shape, defx, xs, flat, qs, False)
            c["meta"]["extreme"] = True
            cases.append(c)
    nq = gen.N(tier, 500, 12000)
    nf = gen.N(tier, 300, 6000)
    for _ in range(nq):
        n, shape, defx, xs, flat, qs = gen_case_q(rng)
        cases.append(build_line(rng, "Q", shape, defx, xs, flat, qs, False))
    for _ in range(nf):
        shape, defx, xs, flat, qs = gen_case_f(rng)
        cases.append(build_line(rng, "F", shape, defx, xs, flat, qs, False))
    # f32 elements (model executed at IEEE binary32; held to the proved bound with u = 2^-24)
    for _ in range(gen.N(tier, 120, 3000)):
        g = gen_case_g(rng)
        if g:
            shape, defx, xs, flat, qs = g
            cases.append(build_line(rng, "G", shape, defx, xs, flat, qs, False))
    # i32 elements (same integer semantics as i64, narrower casts)
    for _ in range(gen.N(tier, 40, 800)):
        n = rng.choice([2, 3, 4, 6, 10])
        shape = [n] + gen.trailing_shape(rng, 1)
        xs = gen.axis_i(rng, n, rng.choice(["unit", "uniform", "random", "gappy", "small", "evenish"]))
        flat = [rng.randint(-1000, 1000) for _ in range(gen.shape_size(shape))]
        c = build_line(rng, "J", shape, False, xs, flat, list(gen.queries_i(rng, xs, 8)), False)
        c["meta"]["int"] = True
        cases.append(c)
    # i64 elements: the crate's integer semantics (truncating slope) are not the property's real-number statement, so these cases are
    # judged by the model correspondence only (model executed at Z64 = i64 arithmetic)
    for _ in range(gen.N(tier, 60, 1500)):
        n = rng.choice([2, 3, 4, 6, 10])
        shape = [n] + gen.trailing_shape(rng, 1)
        xs = gen.axis_i(rng, n, rng.choice(["unit", "uniform", "random", "gappy", "small", "evenish"]))
        flat = [rng.randint(-1000, 1000) for _ in range(gen.shape_size(shape))]
        qs = [q for q in gen.queries_i(rng, xs, 8)]
        c = build_line(rng, "I", shape, False, xs, flat, qs, False)
        c["meta"]["int"] = True
        cases.append(c)
    return cases


def nontrivial(case, res):
    m = case["meta"]
    return any(m["xs"][0] < q < m["xs"][-1] and q not in m["xs"] for q in m["qs"])


def expected_exact(m):
    xs = [Fr(x) for x in m["xs"]]
    rows = gen.rows_of(m["shape"], [Fr(v) for v in m["flat"]])
    out = []
    br = []
    for q in m["qs"]:
        i, vals = gen.exact_linear(xs, rows, Fr(q))
        out += vals
        br.append(i)
    return out, br, rows


def oracle(case, res):
    m = case["meta"]
    if res.kind != "ok":
        return f"in-range query must be answered, got {res.raw}"
    if res.extra:
        return f"buffer accounting: {res.extra}"
    want_shape = m["qshape"] + m["shape"][1:] if m["entry"] != "scalar" else []
    if res.shape != want_shape:
        return f"result shape must be {want_shape}, got {res.shape}"
    if m.get("int"):
        return None
    exact, br, rows = expected_exact(m)
    if case["line"].startswith("Q "):
        got = res.fractions()
        if got != exact:
            k = next(i for i, (a, b) in enumerate(zip(got, exact)) if a != b)
            return f"value #{k} must be the exact linear interpolant {exact[k]}, got {got[k]}"
        return None
    got = res.floats()
    bound = BOUND32 if case["line"].startswith("G ") else BOUND
    L = gen.lanes_of(m["shape"])
    for k, (g, e) in enumerate(zip(got, exact)):
        qi, lane = divmod(k, L) if L else (0, 0)
        i = br[qi]
        M = max(abs(rows[i][lane]), abs(rows[i + 1][lane]))
        if not math.isfinite(g):
            return f"value #{k} not finite: {g}"
        if abs(Fr(g) - e) > bound * M + Fr(1, 2 ** 1000):
            return f"value #{k}: |computed - exact| = {float(abs(Fr(g) - e)):.3e} exceeds the proved bound {float(bound * M):.3e}"
    return None
