"""C14 — *_into calls fill exactly the caller's buffer or reject a wrongly shaped one."""
from fractions import Fraction as Fr

import gen
from gen import i1_line, i2_line, e_into, e_ainto, e_array, t_ndarr, t_buf
from props import c04
from vlib import fq, ff

ID = "C14"
LEAN_MODULES = ["NdInterp.Props.C14"]
THEOREM_FILES = [("NdInterp/Props/C14.lean", "C14_")]
RULE = ("every entry point with a buffer (interp_into, interp_array_into; Interp1D Linear/CubicSpline, Interp2D Bilinear), query ranks 0..3 "
        "static and dynamic, data ranks 1..4; buffer shapes: the required one, each axis -1 / +1, trailing axes permuted, leading (query) "
        "axes permuted, one axis merged/split with equal element count, shapes the required one broadcasts to (length-1 axis made longer, "
        "extra leading axis), wrong rank (dynamic only); half of the groups query exactly on knots / grid lines; buffers are C/F/strided/reversed/"
        "permuted views and windows into a larger poisoned array. The runner reports poison left inside the view (`!unwritten`) and "
        "non-poison outside (`!outside`). Oracle: correct shape => Ok, nothing unwritten, nothing outside touched (values = model = "
        "allocating variant); any other shape => never Ok (panic, or OutOfBounds for interp_into with an out-of-range query) and nothing "
        "outside touched; 2-D x/y query arrays of different shapes => panic. corpus: D2/D3 witnesses. non-trivial = wrongly shaped buffer")
PARTIAL = ["'memory outside the view is untouched' is proved for the model's memory (C14_all_written / C14_frame); for real memory it rests on "
           "safe Rust + ndarray and is exercised through the poisoned windows"]
ASSUMPTIONS = ["ndarray's Zip / index_axis pair equal logical indices whatever the strides"]


def wrong_shapes(rng, qshape, trailing, dyn):
    req = qshape + trailing
    out = []
    for ax in range(len(req)):
        for d in (-1, 1):
            s = list(req); s[ax] += d
            if s[ax] >= 0:
                out.append(s)
    if len(trailing) >= 2 and trailing[-1] != trailing[-2]:
        s = list(req); s[-1], s[-2] = s[-2], s[-1]; out.append(s)
    if len(qshape) >= 2 and qshape[0] != qshape[1]:
        s = list(req); s[0], s[1] = s[1], s[0]; out.append(s)
    if len(qshape) >= 1 and trailing and qshape[-1] != trailing[0]:
        s = list(req); i = len(qshape); s[i - 1], s[i] = s[i], s[i - 1]; out.append(s)
    # equal element count, different factorisation
    if len(req) >= 2 and req[0] % 2 == 0 and req[0] > 0:
        s = list(req); s[0] //= 2; s[1] *= 2; out.append(s)
    # shapes the required one broadcasts to: a length-1 axis made longer, extra leading axes (dynamic only)
    for ax in range(len(req)):
        if req[ax] == 1:
            s = list(req); s[ax] = rng.choice([2, 3]); out.append(s)
    if dyn:
        out.append([rng.choice([1, 2])] + req)
        out.append(req + [1])
        if len(req) >= 2:
            out.append([req[0] * req[1]] + req[2:])
        if req:
            out.append(req[1:])
    return [s for s in out if s != req]


def generate(rng, tier):
    cases = []
    reps = gen.N(tier, 90, 2500)
    for _ in range(reps):
        S = rng.choice(["Q", "F"])
        two_d = rng.random() < 0.3
        k = 2 if two_d else 1
        trailing = [rng.choice([1, 2, 3]) for _ in range(rng.choice([0, 1, 1, 2, 3]))]
        qrank = rng.choice([0, 1, 1, 2, 3])
        qshape = [rng.choice([1, 2, 3]) for _ in range(qrank)]
        nq = gen.shape_size(qshape)
        dyn_q = rng.random() < 0.4
        dyn_d = rng.random() < 0.4
        dtag, qtag = ("dyn" if dyn_d else "sta"), ("dyn" if dyn_q else "sta")
        if two_d:
            nx, ny = 2, 3
            shape = [nx, ny] + trailing
            if S == "Q":
                xs, ys = gen.axis_q(rng, nx), gen.axis_q(rng, ny); flat = gen.vals_q(rng, gen.shape_size(shape))
                qx = [rng.choice(gen.queries_q(rng, xs, 5)) for _ in range(nq)]; qy = [rng.choice(gen.queries_q(rng, ys, 5)) for _ in range(nq)]
            else:
                xs, ys = gen.axis_f(rng, nx, "uniform"), gen.axis_f(rng, ny, "random")
                flat = [rng.uniform(-2, 2) for _ in range(gen.shape_size(shape))]
                qx = [rng.uniform(xs[0], xs[-1]) for _ in range(nq)]; qy = [rng.uniform(ys[0], ys[-1]) for _ in range(nq)]
            if rng.random() < 0.5:      # queries exactly on grid lines (shortcuts for sample points must keep the shape checks)
                qx = [rng.choice(xs) for _ in qx]; qy = [rng.choice(ys) for _ in qy]
            mk = lambda e: i2_line(S, xs, ys, shape, flat, False, e, dtag=dtag, dlay=rng.choice(gen.LAYS_ND))
            qargs = (qx, qy)
        else:
            n = 3
            shape = [n] + trailing
            if S == "Q":
                xs = gen.axis_q(rng, n); flat = gen.vals_q(rng, gen.shape_size(shape))
                qs = [rng.choice(gen.queries_q(rng, xs, 5)) for _ in range(nq)]
            else:
                xs = gen.axis_f(rng, n, "random"); flat = [rng.uniform(-2, 2) for _ in range(gen.shape_size(shape))]
                qs = [rng.uniform(xs[0], xs[-1]) for _ in range(nq)]
            if rng.random() < 0.5:      # queries exactly on knots
                qs = [rng.choice(xs) for _ in qs]
            strat = rng.choice([("lin", False), ("spl", False, "nak")])
            mk = lambda e: i1_line(S, xs, shape, flat, strat, e, dtag=dtag, dlay=rng.choice(gen.LAYS_ND))
            qargs = (qs,)
        req = qshape + trailing
        blay = lambda: rng.choice(["w", "w", "c", "f", "s2", "rev", "perm"])
        # correct buffer
        cases.append({"line": mk(e_ainto(S, qshape, req, *qargs, qtag=qtag, blay=blay())), "meta": {"ok": True}})
        # correct buffer, but one rejected query element in front of accepted ones: the call must not return Ok (and a row
        # it never wrote must not be reported as written)
        if nq >= 2 and (rng.random() < 0.5 or (two_d and len(qshape) == 1)):
            pos = rng.randrange(nq - 1)
            qb = [list(a) for a in qargs]
            axq = rng.randrange(len(qb))
            axis_v = (xs if axq == 0 else ys) if two_d else xs
            span = axis_v[-1] - axis_v[0]
            qb[axq][pos] = axis_v[-1] + span
            cases.append({"line": mk(e_ainto(S, qshape, req, *qb, qtag=qtag, blay=blay())), "meta": {"ok": "oob"}})
        # wrongly shaped buffers
        ws = wrong_shapes(rng, qshape, trailing, dyn_q or dyn_d)
        rng.shuffle(ws)
        for s in ws[:4]:
            if len(s) != len(req) and not (dyn_q or dyn_d):
                continue
            # the Output dim type is dynamic iff Dq or D::Smaller is dynamic (or combined rank > 6)
            if len(s) != len(req) and not (dyn_q or dyn_d):
                continue
            cases.append({"line": mk(e_ainto(S, qshape, s, *qargs, qtag=qtag, blay=blay())), "meta": {"ok": False}})
        # interp_into with single query
        if nq >= 1:
            q1 = [a[0] for a in qargs]
            cases.append({"line": mk(e_into(S, q1, trailing, blay())), "meta": {"ok": True}})
            for s in wrong_shapes(rng, [], trailing, dyn_d)[:8]:
                if len(s) != len(trailing) and not dyn_d:
                    continue
                cases.append({"line": mk(e_into(S, q1, s, blay())), "meta": {"ok": False}})
        # 2-D: x / y query arrays of different shapes
        if two_d and qrank >= 1 and nq >= 2:
            fmt = fq if S == "Q" else ff
            qshape2 = list(qshape); qshape2[0] += 1
            qy2 = (qy * 3)[:gen.shape_size(qshape2)]
            e = f"ainto {qtag} {t_ndarr(qshape, qx, fmt)} {t_ndarr(qshape2, qy2, fmt)} {t_buf(req, 'w')}"
            cases.append({"line": mk(e), "meta": {"ok": False}})
            e = f"array {qtag} {t_ndarr(qshape, qx, fmt)} {t_ndarr(qshape2, qy2, fmt)}"
            cases.append({"line": mk(e), "meta": {"ok": False}})
    return cases


def nontrivial(case, res):
    return case["meta"]["ok"] is not True


def oracle(case, res):
    ok = case["meta"]["ok"]
    if "!outside" in res.raw:
        return f"memory outside the buffer view was modified: {res.raw[-40:]}"
    if ok == "oob":
        return None if res.kind == "oob" else f"a batch with a rejected element must return OutOfBounds, got {res.raw[:100]}"
    if ok:
        if res.kind != "ok":
            return f"a correctly shaped buffer must be accepted, got {res.raw[:80]}"
        if "!unwritten" in res.raw:
            return f"Ok returned but elements of the buffer were not overwritten: {res.raw[-40:]}"
        return None
    if res.kind == "ok":
        return f"a wrongly shaped buffer (or x/y shape mismatch) must never produce Ok, got {res.raw[:100]}"
    return None


def extra(rng, tier):
    """'the buffer equals what the allocating variant returns': every *_into call next to its allocating twin (interp / interp_into,
    interp_array / interp_array_into) on the same interpolator and query, in every element type — identical output, bit for bit at
    f64/f32, exactly at Q and i64/i32 (seed C14-r5m2: an allocating `interp` with its own, differently rounded formula)."""
    import vlib
    pairs = []
    for _ in range(gen.N(tier, 120, 3000)):
        S = rng.choice(["Q", "F", "F", "I", "G", "J"])
        two_d = rng.random() < 0.3 and S in ("Q", "F", "I")
        ext = rng.random() < 0.4
        trailing = [rng.choice([1, 2, 3]) for _ in range(rng.choice([0, 1, 1, 2]))]
        def axis(n):
            if S == "Q":
                return gen.axis_q(rng, n)
            if S == "F":
                return gen.axis_f(rng, n, rng.choice(["random", "uniform", "geometric", "evenish"]))
            if S == "G":
                v = sorted({vlib.f32_round(rng.uniform(-40, 40)) for _ in range(4 * n)})
                return v[::max(1, len(v) // n)][:n]
            return gen.axis_i(rng, n, rng.choice(["uniform", "random", "gappy"]))
        def vals(k):
            if S == "Q":
                return gen.vals_q(rng, k)
            if S == "F":
                return [rng.uniform(-9, 9) for _ in range(k)]
            if S == "G":
                return [vlib.f32_round(rng.uniform(-9, 9)) for _ in range(k)]
            return [rng.randint(-1000, 1000) for _ in range(k)]
        def pick(ax):
            lo, hi = ax[0], ax[-1]
            span = hi - lo
            if S in ("I", "J"):
                return rng.randint(lo - (span if ext else 0), hi + (span if ext else 0))
            if S == "Q":
                return lo + span * Fr(rng.randint(-16 if ext else 0, 32 if ext else 16), 16)
            v = rng.uniform(lo - (span if ext else 0), hi + (span if ext else 0))
            v = min(max(v, lo), hi) if not ext else v
            return vlib.f32_round(v) if S == "G" else v
        qshape = rng.choice([[], [2], [3], [2, 2], [1, 3]])
        nq = max(1, gen.shape_size(qshape))
        qtag = rng.choice(["sta", "dyn"])
        if two_d:
            nx, ny = rng.choice([2, 3]), rng.choice([2, 4])
            xs, ys = axis(nx), axis(ny)
            if len(xs) < nx or len(ys) < ny:
                continue
            shape = [nx, ny] + trailing
            flat = vals(gen.shape_size(shape))
            qx, qy = [pick(xs) for _ in range(nq)], [pick(ys) for _ in range(nq)]
            mk = lambda e: i2_line(S, xs, ys, shape, flat, ext, e, dlay=rng.choice(gen.LAYS_ND))
            qa = (qx, qy)
        else:
            n = rng.choice([2, 3, 5])
            xs = axis(n)
            if len(xs) < n:
                continue
            shape = [n] + trailing
            flat = vals(gen.shape_size(shape))
            strat = ("lin", ext) if S in ("I", "J") or rng.random() < 0.7 or n < 3 else ("spl", ext, rng.choice(["nak", "nat", "cla"]))
            qs = [pick(xs) for _ in range(nq)]
            mk = lambda e: i1_line(S, xs, shape, flat, strat, e, dlay=rng.choice(gen.LAYS_ND))
            qa = (qs,)
        q1 = [a[0] for a in qa]
        blay = lambda: rng.choice(["w", "c", "f", "s2", "rev"])
        pairs.append((mk(gen.e_single(S, *q1)), mk(e_into(S, q1, trailing, blay()))))
        pairs.append((mk(e_array(S, qshape, *[a[:gen.shape_size(qshape)] for a in qa], qtag=qtag)),
                      mk(e_ainto(S, qshape, qshape + trailing, *[a[:gen.shape_size(qshape)] for a in qa], qtag=qtag, blay=blay()))))
    outs = vlib.run_impl_only(ID, [l for p in pairs for l in p], tag="twins")
    fails = []
    for k, (a, b) in enumerate(pairs):
        ra, rb = outs[2 * k], outs[2 * k + 1]
        if ra != rb:
            fails.append({"line": b, "impl": rb[:300], "required": f"the buffer must equal what the allocating variant `{a[:300]}` returns: {ra[:300]}"})
    return {"evaluations": len(outs), "failures": fails, "hist": {"alloc_into_pairs": len(pairs)}}
