"""C11 — segment lookup returns the bracketing interval for every axis and query."""
import math
from fractions import Fraction as Fr

import gen
from vlib import t_vec, fq, ff, lin_bracket

ID = "C11"
LEAN_MODULES = ["NdInterp.Props.C11", "NdInterp.Props.C11Fl", "NdInterp.Props.RatTie", "NdInterp.Props.IntTie", "NdInterp.Props.FormulaTie.Lin", "NdInterp.Props.FormulaTie.Ctl"]
THEOREM_FILES = [("NdInterp/Props/C11.lean", "C11_"), ("NdInterp/Props/C11Fl.lean", "C11_"), ("NdInterp/Props/IntTie.lean", "C11_"), ("NdInterp/Props/FormulaTie/Lin.lean", "FT_idx_"), ("NdInterp/Props/FormulaTie/Lin.lean", "FT_lin_calc_frac"), ("NdInterp/Props/FormulaTie/Ctl.lean", "FT_ctl_")]
RULE = ("get_lower_index at Q (exact) and f64 (index compared): axes n=2..40 (thorough ..2000) of kinds unit/uniform/geometric/"
        "clustered/log/ulps-apart/mixed-magnitude/even-grid-with-moved-interior, and i64 axes (unit/uniform/gappy/above 2^53); queries at every knot, neighbouring floats, midpoints, +-inf, +-MAX, +-0, outside; "
        "plus the constructed family: for every n<=N (quick 12, thorough 40), every guess position g and every rank r an axis on "
        "[0,n-1] whose O(1) guess is g and whose bracket is r ((n-1)^2 pairs per n, exhaustive). non-trivial = query strictly "
        "inside the range; distinct = distinct case line")
PARTIAL = ["for f64/f32 the arithmetic fact 'the O(1) guess lands inside the axis' (GuessOK) is proved in exact arithmetic (C11_guess) and "
           "under the standard model of fp arithmetic without overflow/underflow for axes of fewer than 1/(7u+6u^2) points "
           "(C11_guess_rounding, C11_float_stdmodel; the bound on n is needed in that model: C11_guess_rounding_sharp); longer axes and "
           "under/overflowing intermediates are exercised by this run only — C11_bracket then covers every guess that is an index",
           "i32 axes: covered by C11_bracket (any linear order, any guess); i64 and i32 are both run through the protocol (model at Z64; the i32 inputs "
           "are chosen so that no intermediate leaves the i32 range, where the two integer types agree)"]
ASSUMPTIONS = ["axis length < 2^64 (usize)", "non-NaN f64 comparison is a linear order"]


def case_q(xs, q, lay="c"):
    return {"line": f"Q lower {t_vec(xs, fq, lay)} {fq(q)}", "meta": {"xs": xs, "q": q}}


def case_i(xs, q, lay="c"):
    return {"line": f"I lower {t_vec(xs, gen.fi, lay)} {gen.fi(q)}", "meta": {"xs": xs, "q": q}}


def case_g(xs, q, lay="c"):
    import vlib
    return {"line": f"G lower {t_vec(xs, vlib.ff32, lay)} {vlib.ff32(q)}", "meta": {"xs": xs, "q": q}}


def case_j(xs, q, lay="c"):
    return {"line": f"J lower {t_vec(xs, gen.fi, lay)} {gen.fi(q)}", "meta": {"xs": xs, "q": q}}


def case_f(xs, q, lay="c"):
    return {"line": f"F lower {t_vec(xs, ff, lay)} {ff(q)}", "meta": {"xs": xs, "q": q}}


def generate(rng, tier):
    cases = []
    reps = gen.N(tier, 60, 1500)
    for _ in range(reps):
        n = rng.choice([2, 2, 3, 3, 4, 5, 6, 8, 13, 21, 40])
        xs = gen.axis_q(rng, n)
        for q in gen.queries_q(rng, xs, 12, ext=True):
            cases.append(case_q(xs, q, rng.choice(gen.LAYS_1D)))
    for _ in range(reps):
        n = rng.choice([2, 2, 3, 4, 5, 7, 10, 17, 40])
        xs = gen.axis_f(rng, n)
        for q in gen.queries_f(rng, xs, 14):
            cases.append(case_f(xs, q, rng.choice(gen.LAYS_1D)))
    # i64 axes (integer division in the O(1) guess, integer casts): every kind incl. gaps and magnitudes above 2^53
    for _ in range(reps):
        n = rng.choice([2, 3, 4, 5, 7, 10, 17])
        xs = gen.axis_i(rng, n)
        for q in gen.queries_i(rng, xs, 10, ext=True):
            cases.append(case_i(xs, q, rng.choice(gen.LAYS_1D)))
    # f32 and i32 axes
    from props import c01
    import vlib
    for _ in range(reps):
        g = c01.gen_case_g(rng)
        if g:
            xs = g[2]
            span = xs[-1] - xs[0]
            qs = g[4] + [vlib.f32_round(xs[0] - span), vlib.f32_round(xs[-1] + span), math.inf, -math.inf, 3.0e38, -3.0e38]
            for q in qs:
                cases.append(case_g(xs, q, rng.choice(gen.LAYS_1D)))
        n = rng.choice([2, 3, 4, 5, 7, 10, 17])
        xi = gen.axis_i(rng, n, rng.choice(["unit", "uniform", "random", "evenish", "gappy", "small"]))
        for q in gen.queries_i(rng, xi, 8, ext=True):
            cases.append(case_j(xi, q, rng.choice(gen.LAYS_1D)))
        a, b = -rng.randint(2 ** 29, 2 ** 30 - 1), rng.randint(2 ** 29, 2 ** 30 - 1)      # span < 2^31, products by n-1 are not
        xi = sorted({a, b} | {rng.randint(a + 1, b - 1) for _ in range(n - 2)})
        for q in [xi[0], xi[-1]] + [rng.randint(a, b) for _ in range(4)]:
            cases.append(case_j(xi, q, rng.choice(gen.LAYS_1D)))
    # extreme magnitudes: the span of the axis is close to the largest finite value of the element type (but finite), so anything
    # computed as (q - first) * (n - 1), q * n, first + last ... overflows, while span, offsets and their quotients do not
    for _ in range(reps):
        n = rng.choice([3, 4, 5, 7, 10, 17])
        big = 1.7976931348623157e308
        a, b = -rng.uniform(0.2, 0.45) * big, rng.uniform(0.2, 0.45) * big
        cuts = sorted(rng.uniform(0.02, 0.98) for _ in range(n - 2))
        xs = [a] + [a + (b - a) * c for c in cuts] + [b]
        if all(x < y for x, y in zip(xs, xs[1:])):
            for q in gen.queries_f(rng, xs, 8):
                cases.append(case_f(xs, q, rng.choice(gen.LAYS_1D)))
        a, b = -rng.randint(2 ** 61, 2 ** 62 - 1), rng.randint(2 ** 61, 2 ** 62 - 1)
        xi = sorted({a, b} | {rng.randint(a + 1, b - 1) for _ in range(n - 2)})
        for q in [xi[0], xi[-1]] + [rng.randint(a, b) for _ in range(6)] + [x + d for x in xi[1:-1] for d in (-1, 0, 1)][:9]:
            cases.append(case_i(xi, q, rng.choice(gen.LAYS_1D)))
    # integer axes of one sign and large magnitude (epoch seconds in i32, nanosecond timestamps in i64, axes ending at the largest value):
    # span and quotient are small, but `first + last`, `2 * q`, `q * n` do not fit the type (seed C11-r9m1: the guess anchored at the end
    # nearer to the query, decided by `x < (first + last) / 2` in the element type)
    for _ in range(reps):
        n = rng.choice([3, 4, 6, 10, 25])
        for tag, mk, base in (("J", case_j, rng.choice([1_700_000_000, 2 ** 31 - 1 - 3600 * 30, -(2 ** 31) + 5, -1_900_000_000])),
                              ("I", case_i, rng.choice([4_700_000_000_000_000_000, 2 ** 63 - 1 - 10 ** 6, -(2 ** 63) + 7, -(2 ** 62) - 12345]))):
            step = rng.choice([1, 60, 3600]) if tag == "J" else rng.choice([1, 1000, 10 ** 4])
            xs = [base]
            for _ in range(n - 1):
                xs.append(xs[-1] + step * rng.choice([1, 1, 2, 5]))
            lim = 2 ** 31 - 1 if tag == "J" else 2 ** 63 - 1
            if xs[-1] > lim:
                continue
            qs = [xs[0], xs[-1]] + [rng.randint(xs[0], xs[-1]) for _ in range(5)] + [xs[k] for k in (1, n // 2, n - 2)]
            for q in qs:
                cases.append(mk(xs, q, rng.choice(gen.LAYS_1D)))
    # tiny scales: the quotient (n-1)/span is close to the largest finite value (but finite), knots a few subnormal steps apart inside
    # wide gaps — anything that forms the quotient of a *sub-range* (a second interpolated guess, say) overflows (seed C11-r8m1)
    for _ in range(reps):
        n = rng.choice([4, 6, 8, 12])
        big = 1.7976931348623157e308
        span = (n - 1) / big * rng.uniform(1.05, 1.9)
        d = 5e-324 * rng.choice([1, 1, 2, 7, 1000])
        a = span * rng.uniform(0.2, 0.6)
        xs = [0.0] + [a + k * d for k in range(n - 2)] + [span]
        if not all(p_ < q_ for p_, q_ in zip(xs, xs[1:])) or not math.isfinite((n - 1) / (xs[-1] - xs[0])):
            continue
        qs = list(xs) + [a + (k + 0.5) * d for k in range(n - 2)] + [a / 2, (a + span) / 2, span * 2, -span]
        for q in qs:
            cases.append(case_f(xs, q, rng.choice(gen.LAYS_1D)))
    # consecutive lookups through one interpolator (`Interp1D::get_index_left_of`, `Interp2D::get_index_left_of`): each answer is the
    # bracket of its own query, whatever was asked before (sweeps through the knots, repeats, jumps)
    for _ in range(reps):
        S = rng.choice(["Q", "F", "I"])
        two = rng.random() < 0.3
        def axis(n):
            return gen.axis_q(rng, n) if S == "Q" else gen.axis_f(rng, n, rng.choice(["random", "uniform", "geometric", "unit", "indexlike", "tail"])) if S == "F" else gen.axis_i(rng, n)
        def sweep(ax):
            qs = []
            for a, b in zip(ax, ax[1:]):
                mid = (a + b) / 2 if S != "I" else (a + b) // 2
                qs += [a, mid, b] if rng.random() < 0.7 else [mid, b, a]
            if rng.random() < 0.4:
                qs = qs[::-1]
            if rng.random() < 0.4:
                rng.shuffle(qs)
            span = ax[-1] - ax[0]
            return qs + [ax[0] - span, ax[-1], ax[-1] + span, ax[0], ax[1]]
        n = rng.choice([3, 4, 5, 8])
        xs = axis(n)
        if two:
            ys = axis(rng.choice([2, 3, 5]))
            qx, qy = sweep(xs), sweep(ys)
            m = min(len(qx), len(qy), 16)
            rng.shuffle(qy)
            flat = [0] * (len(xs) * len(ys))
            z = [Fr(0)] * len(flat) if S == "Q" else [0.0] * len(flat) if S == "F" else flat
            line = gen.i2_line(S, xs, ys, [len(xs), len(ys)], z, True, gen.e_idx(S, *[v for p in zip(qx[:m], qy[:m]) for v in p]))
            cases.append({"line": line, "meta": {"seq": [(xs, qx[:m]), (ys, qy[:m])]}})
        else:
            qs = sweep(xs)[:24]
            z = [Fr(i) for i in range(n)] if S == "Q" else [float(i) for i in range(n)] if S == "F" else list(range(n))
            line = gen.i1_line(S, xs, [n], z, ("lin", True), gen.e_idx(S, *qs))
            cases.append({"line": line, "meta": {"seq": [(xs, qs)]}})
    # long uneven axes (seed C11-r5m2: a coarse pre-search on every 8th knot only shows with 64+ intervals left after the O(1) guess
    # and only for queries in the last few intervals of the remaining range): every interval of the axis is queried through one
    # interpolator (`idx` sweep), the intervals at both ends and next to the multiples of 8 / 64 also through `get_lower_index`
    for _ in range(max(3, reps // 8)):
        S = rng.choice(["Q", "Q", "F", "I"])
        n = rng.choice([66, 71, 100, 130, 200, 257, 300])
        xs = gen.long_axis(rng, rng.choice(gen.LONG_KINDS), n, S)
        mids = [(a + b) / 2 if S != "I" else (a + b) // 2 for a, b in zip(xs, xs[1:])]
        sweep = [v for p in zip(xs, mids) for v in p] + [xs[-1]]
        if rng.random() < 0.5:
            sweep = sweep[::-1]
        z = [Fr(0)] * n if S == "Q" else [0.0] * n if S == "F" else [0] * n
        line = gen.i1_line(S, xs, [n], z, ("lin", True), gen.e_idx(S, *sweep))
        cases.append({"line": line, "meta": {"seq": [(xs, sweep)]}})
        hot = set(range(0, 10)) | set(range(n - 11, n - 1)) | {i for i in range(n - 1) if i % 8 in (0, 7) and rng.random() < 0.3} \
            | {rng.randrange(n - 1) for _ in range(6)}
        mk = {"Q": case_q, "F": case_f, "I": case_i}[S]
        for i in sorted(hot):
            cases.append(mk(xs, mids[i], rng.choice(gen.LAYS_1D)))
            if rng.random() < 0.3:
                cases.append(mk(xs, xs[i], rng.choice(gen.LAYS_1D)))
    if tier == "thorough":
        for n in (500, 2000):
            for kind in ("uniform", "geometric", "ulps", "log"):
                xs = gen.axis_f(rng, n, kind if kind != "geometric" else "uniform")
                for q in gen.queries_f(rng, xs, 40):
                    cases.append(case_f(xs, q))
    # constructed family: every (length, guess position, rank)
    N = 12 if tier == "quick" else 40
    for n in range(2, N + 1):
        for g in range(0, n - 1):
            q = Fr(g) + Fr(1, 2)
            for r in range(0, n - 1):
                # interior knots 1..n-2: r of them at or below q, the rest above
                below = [q * Fr(k, r + 1) for k in range(1, r + 1)] if r > 0 else []
                above_cnt = (n - 2) - r
                top = Fr(n - 1)
                above = [q + (top - q) * Fr(k, above_cnt + 1) for k in range(1, above_cnt + 1)]
                if r > 0 and rng.random() < 0.3:
                    below[-1] = q  # query exactly on a knot reached by the search
                xs = [Fr(0)] + below + above + [top]
                assert len(xs) == n and all(a < b for a, b in zip(xs, xs[1:])), (n, g, r, xs)
                c = case_q(xs, q)
                c["meta"]["family"] = (n, g, r)
                cases.append(c)
    return cases


def nontrivial(case, res):
    if "seq" in case["meta"]:
        return True
    xs, q = case["meta"]["xs"], case["meta"]["q"]
    return xs[0] < q < xs[-1]


def oracle(case, res):
    if "seq" in case["meta"]:
        seq = case["meta"]["seq"]
        toks = res.raw.split()
        if not toks or toks[0] != "idxs":
            return f"consecutive lookups must all return an index, got {res.raw[:80]}"
        got = [int(t) for t in toks[2:]]
        want = []
        for k in range(len(seq[0][1])):
            for ax, qs in seq:
                want.append(lin_bracket(ax, qs[k]))
        if got != want:
            return f"consecutive lookups on one interpolator must each return the bracket of their own query: {want}, got {got}"
        return None
    xs, q = case["meta"]["xs"], case["meta"]["q"]
    if isinstance(q, float) and math.isnan(q):
        return None
    if res.kind != "idx":
        return f"lookup must return an index, got {res.raw}"
    want = lin_bracket(xs, q)
    fam = case["meta"].get("family")
    if fam and want != fam[2]:
        return f"generator bug: constructed rank {fam[2]} but bracket is {want}"
    if int(res.extra) != want:
        return f"index must be {want} (bracket by linear scan), got {res.extra}"
    return None
