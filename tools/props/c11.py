"""C11 — segment lookup returns the bracketing interval for every axis and query."""
import math
from fractions import Fraction as Fr

import gen
from vlib import t_vec, fq, ff, lin_bracket

ID = "C11"
LEAN_MODULES = ["NdInterp.Props.C11", "NdInterp.Props.RatTie", "NdInterp.Props.IntTie", "NdInterp.Props.FormulaTie.Lin"]
THEOREM_FILES = [("NdInterp/Props/C11.lean", "C11_"), ("NdInterp/Props/IntTie.lean", "C11_"), ("NdInterp/Props/FormulaTie/Lin.lean", "FT_idx_"), ("NdInterp/Props/FormulaTie/Lin.lean", "FT_lin_calc_frac")]
RULE = ("get_lower_index at Q (exact) and f64 (index compared): axes n=2..40 (thorough ..2000) of kinds unit/uniform/geometric/"
        "clustered/log/ulps-apart/mixed-magnitude/even-grid-with-moved-interior, and i64 axes (unit/uniform/gappy/above 2^53); queries at every knot, neighbouring floats, midpoints, +-inf, +-MAX, +-0, outside; "
        "plus the constructed family: for every n<=N (quick 12, thorough 40), every guess position g and every rank r an axis on "
        "[0,n-1] whose O(1) guess is g and whose bracket is r ((n-1)^2 pairs per n, exhaustive). non-trivial = query strictly "
        "inside the range; distinct = distinct case line")
PARTIAL = ["for f64 the arithmetic fact 'the O(1) guess lands inside the axis' (GuessOK) is proved in exact arithmetic only "
           "(C11_guess); for floats it is exercised by this run, C11_bracket then covers every guess",
           "i32 axes: covered by C11_bracket (any linear order, any guess); i64 is run through the protocol (model at Z64), i32 is not"]
ASSUMPTIONS = ["axis length < 2^64 (usize)", "non-NaN f64 comparison is a linear order"]


def case_q(xs, q, lay="c"):
    return {"line": f"Q lower {t_vec(xs, fq, lay)} {fq(q)}", "meta": {"xs": xs, "q": q}}


def case_i(xs, q, lay="c"):
    return {"line": f"I lower {t_vec(xs, gen.fi, lay)} {gen.fi(q)}", "meta": {"xs": xs, "q": q}}


def case_f(xs, q, lay="c"):
    return {"line": f"F lower {t_vec(xs, ff, lay)} {ff(q)}", "meta": {"xs": xs, "q": q}}


def generate(rng, tier):
    cases = []
    reps = gen.N(tier, 60, 1500)
    for _ in range(reps):
        n = rng.choice([2, 2, 3, 3, 4, 5, 6, 8, 13, 21, 40])
        xs = gen.axis_q(rng, n)
        for q in gen.queries_q(rng, xs, 12, ext=True):
            cases.append(case_q(xs, q, rng.choice(gen.LAYS_1D)))
    for _ in range(reps):
        n = rng.choice([2, 2, 3, 4, 5, 7, 10, 17, 40])
        xs = gen.axis_f(rng, n)
        for q in gen.queries_f(rng, xs, 14):
            cases.append(case_f(xs, q, rng.choice(gen.LAYS_1D)))
    # i64 axes (integer division in the O(1) guess, integer casts): every kind incl. gaps and magnitudes above 2^53
    for _ in range(reps):
        n = rng.choice([2, 3, 4, 5, 7, 10, 17])
        xs = gen.axis_i(rng, n)
        for q in gen.queries_i(rng, xs, 10, ext=True):
            cases.append(case_i(xs, q, rng.choice(gen.LAYS_1D)))
    if tier == "thorough":
        for n in (500, 2000):
            for kind in ("uniform", "geometric", "ulps", "log"):
                xs = gen.axis_f(rng, n, kind if kind != "geometric" else "uniform")
                for q in gen.queries_f(rng, xs, 40):
                    cases.append(case_f(xs, q))
    # constructed family: every (length, guess position, rank)
    N = 12 if tier == "quick" else 40
    for n in range(2, N + 1):
        for g in range(0, n - 1):
            q = Fr(g) + Fr(1, 2)
            for r in range(0, n - 1):
                # interior knots 1..n-2: r of them at or below q, the rest above
                below = [q * Fr(k, r + 1) for k in range(1, r + 1)] if r > 0 else []
                above_cnt = (n - 2) - r
                top = Fr(n - 1)
                above = [q + (top - q) * Fr(k, above_cnt + 1) for k in range(1, above_cnt + 1)]
                if r > 0 and rng.random() < 0.3:
                    below[-1] = q  # query exactly on a knot reached by the search
                xs = [Fr(0)] + below + above + [top]
                assert len(xs) == n and all(a < b for a, b in zip(xs, xs[1:])), (n, g, r, xs)
                c = case_q(xs, q)
                c["meta"]["family"] = (n, g, r)
                cases.append(c)
    return cases


def nontrivial(case, res):
    xs, q = case["meta"]["xs"], case["meta"]["q"]
    return xs[0] < q < xs[-1]


def oracle(case, res):
    xs, q = case["meta"]["xs"], case["meta"]["q"]
    if isinstance(q, float) and math.isnan(q):
        return None
    if res.kind != "idx":
        return f"lookup must return an index, got {res.raw}"
    want = lin_bracket(xs, q)
    fam = case["meta"].get("family")
    if fam and want != fam[2]:
        return f"generator bug: constructed rank {fam[2]} but bracket is {want}"
    if int(res.extra) != want:
        return f"index must be {want} (bracket by linear scan), got {res.extra}"
    return None
