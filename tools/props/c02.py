"""C02 — the cubic spline passes through the data and is a C2 piecewise cubic."""
import math
from fractions import Fraction as Fr

import gen
import vlib
from gen import i1_line, e_array
from vlib import poly_from_points, poly_eval, Result

ID = "C02"
LEAN_MODULES = ["NdInterp.Props.C02Fl", "NdInterp.Props.C02", "NdInterp.Props.C03", "NdInterp.Props.RatTie", "NdInterp.Props.FormulaTie.SplSys", "NdInterp.Props.FormulaTie.SplEval", "NdInterp.Props.FormulaTie.PerSys", "NdInterp.Props.FormulaTie.TabSpec", "NdInterp.Props.FormulaTie.Ctl"]
THEOREM_FILES = [("NdInterp/Props/C02Fl.lean", "C02_"), ("NdInterp/Props/C02.lean", "C02_"), ("NdInterp/Props/FormulaTie/SplSys.lean", "FT_spl_"), ("NdInterp/Props/FormulaTie/SplEval.lean", "FT_spl_"), ("NdInterp/Props/FormulaTie/PerSys.lean", "FT_per_three"), ("NdInterp/Props/FormulaTie/PerSys.lean", "FT_per_rows"), ("NdInterp/Props/FormulaTie/PerSys.lean", "FT_per_combine"), ("NdInterp/Props/FormulaTie/TabSpec.lean", "FT_tab_"), ("NdInterp/Props/FormulaTie/Ctl.lean", "FT_ctl_")]
RULE = ("CubicSpline at Q, exact: n=3..12 (thorough ..40), axis kinds incl. mesh ratios up to 2^6, dyadic and rational data, every "
        "boundary selection (NotAKnot, Natural, Clamped, Periodic, Individual arrays with any Mixed pair incl. FirstDeriv/SecondDeriv "
        "values, different per lane), 0..2 trailing axes, static/dynamic dims, layouts. Queries: every knot and 5 samples per interval. "
        "Oracle on the implementation's exact outputs: value at knots = data; the 5th sample of every interval lies on the cubic "
        "through the other 4; first and second derivatives of neighbouring fitted cubics agree at the common knot. f64 runs compared "
        "with the exact run of the same float inputs under a generous conditioning-scaled tolerance (a test, not a bound). "
        "non-trivial = every case (all have >= 2 intervals)")
PARTIAL = ["rounding: the evaluation of a segment from given coefficients is bounded under the standard model of fp arithmetic (C02_eval_rounding: "
           "102*u*max(|y_l|,|y_r|,|a|,|b|) inside the interval, 13 rounded operations); no bound is proved for the tridiagonal solve that "
           "produces the coefficients (it depends on the conditioning of the system): the f64 comparison is a test with tolerance 2^-26 * scale", "periodic boundary: C2 at the interior knots and matching S', S'' at the ends are C03_periodic / "
           "C03_periodic3 (unique: C03_periodic_unique); evaluation and wrapping in Props/C07",
           "lanes: single-lane theorems; C08_spline_build_lanes carries them to every lane"]
ASSUMPTIONS = ["axis length < 2^64"]

SB = ["nak", "nat", "cla", "fd", "sd"]


def rand_sb(rng, S):
    k = rng.choice(SB)
    if k in ("fd", "sd"):
        v = Fr(rng.randint(-8, 8), rng.choice([1, 2, 4])) if S == "Q" else float(rng.randint(-8, 8)) / rng.choice([1, 2, 4])
        return (k, v)
    return k


def rand_bc(rng, S, L, trailing, allow_per=True):
    """returns (bc for the protocol, per-lane (left,right) list or 'per')"""
    c = rng.choice(["nak", "nat", "cla", "per", "ind", "ind", "ind"] if allow_per else ["nak", "nat", "cla", "ind", "ind"])
    if c == "per":
        return "per", "per"
    if c != "ind":
        return c, [(c, c)] * L
    rbs, lanes = [], []
    for _ in range(L):
        k = rng.choice(["nak", "nat", "cla", "mix", "mix", "mix"])
        if k == "mix":
            l, r = rand_sb(rng, S), rand_sb(rng, S)
            rbs.append((l, r)); lanes.append((l, r))
        else:
            rbs.append(k); lanes.append((k, k))
    # structured assignments: blocks of lanes sharing one condition while the rest differ (a shortcut for "uniform" boundary
    # arrays must look at every lane)
    m = rng.random()
    blk = trailing[-1] if trailing else 1
    if L >= 2 and m < 0.25:
        for q in range(min(blk, L)):
            rbs[q], lanes[q] = rbs[0], lanes[0]
    elif L >= 2 and m < 0.4:
        for q in range(L - 1):
            rbs[q], lanes[q] = rbs[0], lanes[0]
    elif L >= 2 and m < 0.5:
        for q in range(0, L, blk):
            rbs[q], lanes[q] = rbs[0], lanes[0]
    return ("ind", [1] + trailing, rbs), lanes


def gen_spline(rng, S, tier, allow_per=True, nmax=None):
    nmax = nmax or (12 if tier == "quick" else 40)
    n = rng.choice([3, 3, 4, 4, 5, 6, 8, nmax])
    trailing = gen.trailing_shape(rng, 2)
    if n <= 8 and rng.random() < 0.12:
        # a last axis as long as the x axis, or one shorter (seeds C02-r10m1, C16-r10m1: a per-interval / per-knot vector `broadcast` against
        # the data aligns with the *trailing* axis whenever the lengths happen to agree)
        trailing = rng.choice([[n], [n - 1], [2, n], [n - 1, 1]])
    shape = [n] + trailing
    L = gen.lanes_of(shape)
    if S == "Q":
        xs = gen.axis_q(rng, n, rng.choice(["unit", "uniform", "geometric", "random", "dyadic", "mesh64", "mesh64", "evenish", "evenish", "nearly_even", "nearly_even", "indexlike"]))
        flat = gen.vals_q(rng, n * L, rng.choice(["int", "dyadic", "rational"]))
    else:
        xs = gen.axis_f(rng, n, rng.choice(["unit", "uniform", "random", "geometric", "evenish", "nearly_even", "indexlike"]))
        flat = [rng.uniform(-4, 4) for _ in range(n * L)]
    flat = gen.degenerate(rng, n, L, flat, 0.12)
    bc, lanes = rand_bc(rng, S, L, trailing, allow_per)
    if S == "F" and rng.random() < 0.15:
        # the same axis in a very small / very large unit (interval lengths 2^-470 .. 2^470): squares of interval lengths are
        # still finite, anything of third order is not.  Boundaries without derivative values (those have units of their own).
        k = rng.choice([-1, 1]) * rng.randint(340, 470)
        xs = [x * 2.0 ** k for x in xs]
        c = rng.choice(["nak", "nat", "cla"] + (["per"] if allow_per else []))
        bc, lanes = (c, "per") if c == "per" else (c, [(c, c)] * L)
    elif S == "F" and rng.random() < 0.12:
        # units beyond that (interval lengths 2^-640 .. 2^-520 and 2^520 .. 2^640: already their squares / pairwise products leave
        # the number range; seed C02-r5m2): the rows of Clamped and Periodic systems only ever hold first powers
        k = rng.choice([-1, 1]) * rng.randint(520, 640)
        xs = [x * 2.0 ** k for x in xs]
        c = rng.choice(["cla", "cla"] + (["per"] if allow_per and n >= 4 else []))      # (the 3-point periodic closed form squares)
        bc, lanes = (c, "per") if c == "per" else (c, [(c, c)] * L)
    if bc == "per":
        flat[(n - 1) * L:] = flat[:L]
    return shape, xs, flat, bc, lanes


def sample_queries(xs, S):
    qs = []
    for a, b in zip(xs, xs[1:]):
        h = b - a
        if S == "Q":
            qs += [a, a + h / 5, a + h * 2 / 5, a + h * 3 / 5, a + h * 4 / 5]
        else:
            qs += [a, a + h * 0.2, a + h * 0.4, a + h * 0.6, a + h * 0.8]
    qs.append(xs[-1])
    return qs


def generate(rng, tier):
    cases = []
    for _ in range(gen.N(tier, 260, 6000)):
        S = "Q" if rng.random() < 0.8 else "F"
        shape, xs, flat, bc, lanes = gen_spline(rng, S, tier)
        if rng.random() < 0.08:
            # three points with NotAKnot written as a Mixed pair on every lane (the parabola case in its other spelling)
            n_, L_ = 3, gen.lanes_of(shape)
            xs, flat = xs[:3], flat[:3 * L_]
            shape = [3] + shape[1:]
            bc, lanes = ("ind", [1] + shape[1:], [("nak", "nak")] * L_), [("nak", "nak")] * L_
        qs = sample_queries(xs, S)
        dtag, qtag = gen.pick_dims(rng, len(shape), 1)
        if isinstance(bc, tuple) and dtag == "sta" and False:
            pass
        if rng.random() < 0.3:
            # through interp_array_into: the caller's buffer holds arbitrary old contents (the runner pre-fills it with a poison value)
            ent = gen.e_ainto(S, [len(qs)], [len(qs)] + shape[1:], qs, qtag=qtag, lay=rng.choice(gen.LAYS_ND), blay=rng.choice(gen.LAYS_ND))
        else:
            ent = e_array(S, [len(qs)], qs, qtag=qtag, lay=rng.choice(gen.LAYS_ND))
        line = i1_line(S, xs, shape, flat, ("spl", False, bc), ent,
                       dtag=dtag, xlay=rng.choice(gen.LAYS_1D), dlay=rng.choice(gen.LAYS_ND))
        cases.append({"line": line, "meta": {"xs": xs, "shape": shape, "flat": flat, "bc": bc, "lanes": lanes, "qs": qs, "S": S}})
    # long, unevenly spaced axes in exact arithmetic (64 .. 96 points; seed C02-r11m1: a different elimination order for systems of 64 rows
    # or more, wrong only where a_low != a_up, i.e. on non-uniform axes)
    for _ in range(gen.N(tier, 3, 24)):
        n = rng.choice([64, 66, 70, 96])
        xs = gen.long_axis(rng, rng.choice(gen.LONG_KINDS), n, "Q")
        L = rng.choice([1, 1, 2])
        shape = [n] + ([] if L == 1 else [L])
        flat = gen.vals_q(rng, n * L, "int")
        bc, lanes = rand_bc(rng, "Q", L, shape[1:], True)
        if bc == "per":
            flat[(n - 1) * L:] = flat[:L]
        qs = sample_queries(xs, "Q")
        line = i1_line("Q", xs, shape, flat, ("spl", False, bc), e_array("Q", [len(qs)], qs))
        cases.append({"line": line, "meta": {"xs": xs, "shape": shape, "flat": flat, "bc": bc, "lanes": lanes, "qs": qs, "S": "Q"}})
    return cases


def nontrivial(case, res):
    return res.kind == "ok"


def check_shape(m, res):
    if res.kind != "ok":
        return f"in-range queries must be answered, got {res.raw[:80]}"
    want = [len(m["qs"])] + m["shape"][1:]
    if res.shape != want:
        return f"result shape must be {want}, got {res.shape}"
    return None


def oracle(case, res):
    m = case["meta"]
    bad = check_shape(m, res)
    if bad:
        return bad
    if m["S"] != "Q":
        return None
    xs, n = m["xs"], len(m["xs"])
    L = gen.lanes_of(m["shape"])
    v = res.fractions()
    rows = gen.rows_of(m["shape"], m["flat"])
    for lane in range(L):
        val = lambda qi: v[qi * L + lane]
        cubics = []
        for i in range(n - 1):
            base = 5 * i
            pts = [(m["qs"][base + k], val(base + k)) for k in range(5)]
            if val(base) != rows[i][lane]:
                return f"lane {lane}: S(x[{i}]) must be the data value {rows[i][lane]}, got {val(base)}"
            nxt = (m["qs"][base + 5], val(base + 5))
            c = poly_from_points([pts[0], pts[1], pts[2], nxt])
            for k in (3, 4):
                if poly_eval(c, pts[k][0]) != pts[k][1]:
                    return f"lane {lane}: not a single cubic on interval {i}: sample at {pts[k][0]} is {pts[k][1]}, the cubic through 4 other samples gives {poly_eval(c, pts[k][0])}"
            cubics.append(c)
        if val(5 * (n - 1)) != rows[n - 1][lane]:
            return f"lane {lane}: S(x[{n-1}]) must be the data value"
        for i in range(1, n - 1):
            for d in (1, 2):
                a, b = poly_eval(cubics[i - 1], xs[i], d), poly_eval(cubics[i], xs[i], d)
                if a != b:
                    return f"lane {lane}: derivative {d} jumps at interior knot x[{i}]={xs[i]}: {a} vs {b}"
    return None


def extra(rng, tier):
    """f64 vs the exact run on the same (float) inputs"""
    lines, metas = [], []
    for _ in range(gen.N(tier, 80, 2000)):
        shape, xs, flat, bc, lanes = gen_spline(rng, "F", tier, nmax=12)
        qs = sample_queries(xs, "F")
        fl = i1_line("F", xs, shape, flat, ("spl", False, bc), e_array("F", [len(qs)], qs))

        def conv(b):
            if isinstance(b, str):
                return b
            return ("ind", b[1], [r if isinstance(r, str) else tuple(s if isinstance(s, str) else (s[0], Fr(s[1])) for s in r) for r in b[2]])
        ql = i1_line("Q", [Fr(x) for x in xs], shape, [Fr(v) for v in flat], ("spl", False, conv(bc)),
                     e_array("Q", [len(qs)], [Fr(q) for q in qs]))
        lines += [fl, ql]
        hs = [b - a for a, b in zip(xs, xs[1:])]
        unit = 2.0 ** (math.frexp(max(hs))[1] if not (-300 < math.frexp(max(hs))[1] < 300) else 0)   # axes in extreme units: compare in that unit
        metas.append((max(abs(v) for v in flat) + 10.0, max(hs) / min(hs), max(hs) / unit))
    # lanes of very different magnitude, lanes holding inf / NaN (seed C02-r5m1: a right-hand side normalised by its largest entry over
    # ALL lanes): every finite lane of the n-d spline must be the spline of that lane alone
    lane_lines, lane_checks = [], []
    for _ in range(gen.N(tier, 40, 800)):
        n, L = rng.choice([3, 4, 5, 7]), rng.choice([2, 3, 4])
        xs = gen.axis_f(rng, n, rng.choice(["unit", "uniform", "random", "geometric"]))
        bc = rng.choice(["nak", "nat", "cla"])
        fac = [rng.choice([1.0, 1.0, 1e300, 1e-25, 1e-300, "inf", "nan", 1e150]) for _ in range(L)]
        if all(f == 1.0 for f in fac):
            fac[rng.randrange(L)] = rng.choice([1e300, "inf", "nan"])
        cols = []
        for f in fac:
            col = [rng.uniform(-4, 4) for _ in range(n)]
            if f == "inf":
                col[rng.randrange(n)] = rng.choice([math.inf, -math.inf])
            elif f == "nan":
                col[rng.randrange(n)] = math.nan
            else:
                col = [v * f for v in col]
            cols.append(col)
        flat = [cols[j][i] for i in range(n) for j in range(L)]
        qs = sample_queries(xs, "F")
        ext = rng.random() < 0.3
        trailing = [L] if L != 4 or rng.random() < 0.5 else [2, 2]
        b = len(lane_lines)
        lane_lines.append(i1_line("F", xs, [n] + trailing, flat, ("spl", ext, bc), e_array("F", [len(qs)], qs), dlay=rng.choice(gen.LAYS_ND)))
        for j, f in enumerate(fac):
            if f in ("inf", "nan"):
                continue
            lane_lines.append(i1_line("F", xs, [n], cols[j], ("spl", ext, bc), e_array("F", [len(qs)], qs)))
            lane_checks.append((b, len(lane_lines) - 1, j, L, max(abs(v) for v in cols[j])))
    lane_outs = vlib.run_impl_only(ID, lane_lines, tag="f64lanes")
    lane_fails = []
    for b, s, j, L, scale in lane_checks:
        rb, rs = Result(lane_outs[b]), Result(lane_outs[s])
        if rb.kind != "ok" or rs.kind != "ok":
            lane_fails.append({"line": lane_lines[b], "impl": lane_outs[b][:200], "required": f"n-d spline and the spline of lane {j} alone (`{lane_lines[s][:200]}`) must both answer: {lane_outs[s][:80]}"})
            continue
        got, want = rb.floats()[j::L], rs.floats()
        for k_, (g, w) in enumerate(zip(got, want)):
            if not (math.isfinite(g) and abs(g - w) <= 1e-9 * scale) and not (g != g and w != w) and g != w:
                lane_fails.append({"line": lane_lines[b], "impl": lane_outs[b][:300],
                                   "required": f"lane {j} (finite data) of the n-d spline must be the spline of that lane alone (`{lane_lines[s][:300]}`): sample {k_} is {g}, alone {w}"})
                break
    outs = vlib.run_impl_only(ID, lines, tag="f64")
    fails = list(lane_fails)
    worst = 0.0
    for k, (scale, ratio, hmax) in enumerate(metas):
        rf, rq = Result(outs[2 * k]), Result(outs[2 * k + 1])
        if rf.kind != "ok" or rq.kind != "ok":
            fails.append({"line": lines[2 * k], "impl": outs[2 * k][:200], "required": f"f64 and exact runs must both answer; exact: {outs[2*k+1][:100]}"})
            continue
        tol = 2.0 ** -26 * scale * max(1.0, ratio) ** 2 * max(1.0, hmax) ** 2
        for g, e in zip(rf.floats(), rq.fractions()):
            err = abs(g - float(e))
            worst = max(worst, err / tol)
            if not math.isfinite(g) or err > tol:
                fails.append({"line": lines[2 * k], "impl": outs[2 * k][:200],
                              "required": f"f64 value {g} differs from the exact value {float(e)} by {err:.3e} > tolerance {tol:.3e}"})
                break
    return {"evaluations": len(lines) + len(lane_lines), "failures": fails, "hist": {"f64_vs_exact_pairs": len(metas), "f64_lane_vs_alone": len(lane_checks)},
            "notes": [f"worst f64 error / tolerance = {worst:.3e}"]}
