"""C09 — all query entry points agree and results have shape query ++ trailing data dims."""
from fractions import Fraction as Fr

import gen
import vlib
from gen import i1_line, i2_line, e_array, e_ainto, e_single, e_scalar, e_into
from props import c02, c04
from vlib import Result

ID = "C09"
HARNESS_BINS = ["vharness_custom"]
LEAN_MODULES = ["NdInterp.Props.C09", "NdInterp.Props.C14"]
THEOREM_FILES = [("NdInterp/Props/C09.lean", "C09_")]
RULE = ("instantiations Dq in {Ix0..Ix4 static, IxDyn rank 0..3} x D in {Ix1..Ix6 static, IxDyn} for Interp1D (Linear, CubicSpline) and "
        "Interp2D (Bilinear), incl. zero-length query axes and zero-length trailing data axes, combined rank > 6 (dynamic result). Each group (query arrays and buffers in every memory layout: C, F, strided, reversed, permuted, window) "
        "runs interp_array, interp_array_into, and interp / interp_into / interp_scalar per element on the real code; oracle: shape = query "
        "shape ++ trailing dims and block k of the batch == single result of element k, exactly at Q and bit for bit at f64; every case also "
        "goes through the model correspondence. f64 groups with special data (inf, NaN, +-1e308 next to each other) and queries exactly on "
        "knots compare every entry point; three in ten of the 1-D groups contain one rejected element (outside the range, NaN, inf) at a random position: batch and single entry points must agree on the rejection. f64 special groups compare every entry point incl. interp_into and interp_scalar bit for bit (all NaNs equal). non-trivial = batch with >= 2 elements or an empty axis")
PARTIAL = []
ASSUMPTIONS = []


def qshape_for(rng, rank, allow_zero):
    dims = []
    for _ in range(rank):
        dims.append(rng.choice([1, 2, 3] + ([0] if allow_zero else [])))
    return dims


def special_data(rng, flat):
    """f64 data where a strategy does not reproduce the samples bit for bit at the knots: infinities, NaN, differences that overflow"""
    import math
    pool = [math.inf, -math.inf, math.nan, 1e308, -1e308, 1.7e308, -1.7e308, 5e-324, 0.0, -0.0]
    out = list(flat)
    for i in range(len(out)):
        if rng.random() < 0.5:
            out[i] = rng.choice(pool)
    return out


def generate(rng, tier):
    return build_groups(rng, tier)[0]


def build_groups(rng, tier):
    cases, groups = [], []
    reps = gen.N(tier, 110, 2500)
    forced_n = gen.N(tier, 40, 600)
    for rep in range(reps + forced_n):
        bad_pos = None
        bad_set = set()
        forced = rep >= reps        # dedicated family: rank-1 f64 data with non-finite / huge samples, queries on the knots
        S = "F" if forced else rng.choice(["Q", "F"])
        special = forced or (S == "F" and rng.random() < 0.35)
        two_d = (not forced) and rng.random() < 0.35
        drank = rng.choice([2, 2, 3, 4, 5, 6, 7] if two_d else [1, 1, 2, 3, 4, 5, 6, 7])
        if forced:
            drank = rng.choice([1, 1, 1, 2])
        allow_zero = rng.random() < 0.25
        k = 2 if two_d else 1
        trailing = [rng.choice([1, 2] + ([0] if allow_zero else [])) for _ in range(drank - k)]
        qrank = rng.choice([0, 1, 1, 2, 3, 4])
        if forced:
            allow_zero = False
            qrank = rng.choice([1, 1, 2])
        qshape = qshape_for(rng, qrank, allow_zero)
        # results of 13 and more axes (seed C18-r7m1: the dynamic result shape collected into a fixed array of 12 entries): dynamic data of
        # 8..9 axes queried with dynamic arrays of 5..6 axes, most axes of length 1
        bigrank = (not forced) and rng.random() < 0.06
        if bigrank:
            drank = rng.choice([8, 9, 10])
            trailing = [rng.choice([1, 1, 1, 2]) for _ in range(drank - k)]
            trailing[-1] = 2
            qrank = rng.choice([5, 6])
            qshape = [rng.choice([1, 1, 2]) for _ in range(qrank)]
        if forced:
            qshape[0] = 3
        want_oob = (not forced) and (not two_d) and rng.random() < 0.3
        if want_oob and rng.random() < 0.6:
            qrank, qshape = 1, [3]      # the static rank-1 fast path with the rejected element in front of accepted ones
        dtag = "sta" if drank <= 6 and rng.random() < 0.7 else "dyn"
        qtag = "sta" if rng.random() < 0.7 and not bigrank else "dyn"
        if want_oob and qshape == [3]:
            qtag = "sta" if rng.random() < 0.8 else "dyn"
        if qtag == "dyn" and qrank > 3 and not bigrank:
            qshape = qshape[:3]
        nq = gen.shape_size(qshape)
        if two_d:
            nx, ny = rng.choice([2, 3]), rng.choice([2, 3])
            shape = [nx, ny] + trailing
            size = gen.shape_size(shape)
            if S == "Q":
                xs, ys = gen.axis_q(rng, nx), gen.axis_q(rng, ny)
                flat = gen.vals_q(rng, size)
                qx = [rng.choice(gen.queries_q(rng, xs, 6)) for _ in range(nq)]
                qy = [rng.choice(gen.queries_q(rng, ys, 6)) for _ in range(nq)]
            else:
                xs, ys = gen.axis_f(rng, nx, "uniform"), gen.axis_f(rng, ny, "random")
                flat = [rng.uniform(-3, 3) for _ in range(size)]
                qx = [rng.uniform(xs[0], xs[-1]) for _ in range(nq)]
                qy = [rng.uniform(ys[0], ys[-1]) for _ in range(nq)]
                if special:
                    flat = special_data(rng, flat)
                    qx = [rng.choice(xs) if rng.random() < 0.6 else q for q in qx]
                    qy = [rng.choice(ys) if rng.random() < 0.6 else q for q in qy]
            if nq >= 2 and rng.random() < 0.2:
                # one coordinate the same for every point, the other varying (a mesh line): the constant array is handed over as a
                # broadcast view with all strides 0 half of the time (seed C09-r10m1: a "broadcast query" shortcut in Interp2D decided
                # from the strides of xs alone, applied to ys too)
                if rng.random() < 0.5:
                    qx = [qx[0]] * nq
                else:
                    qy = [qy[0]] * nq
            # just outside / far outside coordinates: with extrapolation every entry point continues the border cell identically,
            # without it every entry point rejects the same element (x before y)
            ext2 = rng.random() < 0.3
            def outside(ax):
                span = ax[-1] - ax[0]
                if S == "F":
                    v = rng.choice([vlib.next_up(ax[-1]), vlib.next_down(ax[0]), ax[-1] + span * 1e-13, ax[0] - span * 1e-13,
                                    ax[-1] + span, ax[0] - span / 3] + ([] if ext2 else [float("nan"), float("inf"), float("-inf")]))
                    return v if (v != v or v > ax[-1] or v < ax[0]) else vlib.next_up(ax[-1])
                return rng.choice([ax[-1] + Fr(1, 10 ** 14), ax[0] - Fr(1, 10 ** 14), ax[-1] + span, ax[0] - span / 3])
            if ext2 and nq >= 1:
                for k_ in range(nq):
                    if rng.random() < 0.5:
                        if rng.random() < 0.5:
                            qx[k_] = outside(xs)
                        else:
                            qy[k_] = outside(ys)
            elif nq >= 1 and rng.random() < 0.3:
                pos = rng.randrange(nq) if rng.random() < 0.4 else rng.randrange(max(1, nq - 1))
                if rng.random() < 0.5:
                    qx[pos] = outside(xs)
                else:
                    qy[pos] = outside(ys)
                bad_pos = pos
                bad_set.add(pos)
                if qshape == [nq] and rng.random() < 0.7:
                    qtag = "sta" if rng.random() < 0.8 else "dyn"
            mk = lambda e, dt=dtag: i2_line(S, xs, ys, shape, flat, ext2, e, dtag=dt)
            batch = mk(e_array(S, qshape, qx, qy, qtag=qtag, lay=rng.choice(gen.LAYS_ND)))
            into = mk(e_ainto(S, qshape, qshape + trailing, qx, qy, qtag=qtag, lay=rng.choice(gen.LAYS_ND), blay=rng.choice(gen.LAYS_ND)))
            singles = [(mk(e_single(S, a, b)), k_) for k_, (a, b) in enumerate(zip(qx, qy))][:6]
            if not trailing and dtag == "sta":
                singles += [(mk(e_scalar(S, a, b)), k_) for k_, (a, b) in enumerate(zip(qx, qy))][:3]
        else:
            n = rng.choice([3, 4])
            shape = [n] + trailing
            size = gen.shape_size(shape)
            L = gen.shape_size(trailing)
            spl = rng.random() < 0.4
            if S == "Q":
                xs = gen.axis_q(rng, n); flat = gen.vals_q(rng, size)
                qs = [rng.choice(gen.queries_q(rng, xs, 6)) for _ in range(nq)]
            else:
                xs = gen.axis_f(rng, n, "random"); flat = [rng.uniform(-3, 3) for _ in range(size)]
                qs = [rng.uniform(xs[0], xs[-1]) for _ in range(nq)]
                if special:
                    flat = special_data(rng, flat)
                    qs = [rng.choice(xs) if rng.random() < 0.6 else q for q in qs]
            # extrapolating configurations, incl. the periodic spline (seed C09-r5m1: a batch hook of the Ix1 fast path that wraps
            # every query of a periodic, extrapolating spline — in-range ones too — where the single-point path leaves them alone)
            ext1 = (not want_oob) and (not special) and rng.random() < 0.45
            bcn = rng.choice(["nak", "nat", "cla", "per", "per"]) if not special else rng.choice(["nak", "nat", "cla"])
            if spl and bcn == "per":
                flat[(n - 1) * L:] = flat[:L]
            if ext1 and nq >= 1:
                span = xs[-1] - xs[0]
                for k_ in range(nq):
                    if rng.random() < 0.3:
                        u_ = rng.choice([-3, -1, 2, 5])
                        qs[k_] = xs[0] + span * (Fr(u_ * 4 + 1, 4) if S == "Q" else u_ + 0.25)
            strat = ("spl", ext1, bcn) if spl else ("lin", ext1)
            if want_oob and nq >= 1:
                # one rejected element (out of range / NaN at f64) at a random position: every entry point must agree on the rejection
                pos = rng.randrange(nq) if rng.random() < 0.4 else rng.randrange(max(1, nq - 1))
                span = xs[-1] - xs[0]
                qs[pos] = rng.choice([xs[-1] + span, xs[0] - span / 3] + ([float("nan"), float("inf"), vlib.next_up(xs[-1]), vlib.next_down(xs[0]),
                                                                             vlib.next_up(xs[-1] + span * 1e-13)] if S == "F" else [xs[-1] + Fr(1, 10 ** 14)]))
                bad_pos = pos
                if pos + 1 < nq and rng.random() < 0.5:
                    pos2 = rng.randrange(pos + 1, nq)
                    qs[pos2] = xs[0] - span * 2      # a later, different rejected element
                    bad_set.add(pos2)
                bad_set.add(pos)
            mk = lambda e, dt=dtag: i1_line(S, xs, shape, flat, strat, e, dtag=dt)
            batch = mk(e_array(S, qshape, qs, qtag=qtag, lay=rng.choice(gen.LAYS_ND)))
            into = mk(e_ainto(S, qshape, qshape + trailing, qs, qtag=qtag, lay=rng.choice(gen.LAYS_ND), blay=rng.choice(gen.LAYS_ND)))
            singles = [(mk(e_single(S, q)), k_) for k_, q in enumerate(qs)][:6]
            singles += [(mk(e_into(S, q, trailing, rng.choice(gen.LAYS_ND))), k_) for k_, q in enumerate(qs)][:2]
            if not trailing:
                singles += [(mk(e_scalar(S, q), "sta"), k_) for k_, q in enumerate(qs)][:3]
        want_shape = qshape + trailing
        base = len(cases)
        cases.append({"line": batch, "meta": {"shape": want_shape, "nq": nq, "special": special, "oob": bad_pos is not None}})
        cases.append({"line": into, "meta": {"shape": want_shape, "nq": nq, "special": special, "oob": bad_pos is not None}})
        for s_, _k in singles:
            cases.append({"line": s_, "meta": {"shape": None, "nq": 1, "special": special, "oob": _k in bad_set}})
        groups.append((base, base + 1, [(base + 2 + j, k_) for j, (_s, k_) in enumerate(singles)], gen.shape_size(trailing), nq, (bad_pos, bad_set) if bad_pos is not None else None))
    # periodic, extrapolating splines queried inside and outside the range through the static rank-1 fast path, every element also
    # through interp(): ordinary axes not starting at 0 and axes whose first knot lies far from the others, so that a wrap
    # `(x - x0) rem P + x0` applied to an in-range query is visibly not the identity (seed C09-r5m1); f64 and f32
    for _ in range(gen.N(tier, 30, 500)):
        S = rng.choice(["F", "F", "G"])
        rd = (lambda v: v) if S == "F" else vlib.f32_round
        n = rng.choice([4, 5, 6])
        if rng.random() < 0.5:
            far = 1e16 if S == "F" else 1000.0
            step = rng.choice([1.0, 0.25]) if S == "F" else 1e-4
            xs = [-far] + [rd(i * step) for i in range(n - 2)] + [far]
            lo, hi = xs[1], xs[-2]
        else:
            xs = gen.axis_f(rng, n, rng.choice(["random", "uniform"])) if S == "F" else sorted({rd(rng.uniform(0.1, 9)) for _ in range(3 * n)})[:n]
            lo, hi = xs[0], xs[-1]
        if len(xs) < n or any(not a < b for a, b in zip(xs, xs[1:])):
            continue
        trailing = rng.choice([[], [], [2]])
        L = gen.shape_size(trailing)
        flat = [rd(rng.uniform(-3, 3)) for _ in range(n * L)]
        flat[(n - 1) * L:] = flat[:L]
        nq = rng.choice([12, 12, 40])          # long batches too (a fast path that works in blocks of 32 queries: seed C19-r8m1)
        qs = [rd(rng.uniform(lo, hi)) for _ in range(nq)]
        if rng.random() < 0.5:
            qs[rng.randrange(nq)] = rd(xs[-1] + (xs[-1] - xs[0]) * 0.375)
            qs[rng.randrange(nq)] = rd(xs[0] - (xs[-1] - xs[0]) * 2.25)
        strat = ("spl", True, "per")
        mk = lambda e, dt="sta": i1_line(S, xs, [n] + trailing, flat, strat, e, dtag=dt)
        base = len(cases)
        meta = {"shape": [nq] + trailing, "nq": nq, "special": False, "oob": False}
        cases.append({"line": mk(e_array(S, [nq], qs, qtag="sta", lay=rng.choice(["c", "rev", "s2"]))), "meta": dict(meta)})
        cases.append({"line": mk(e_ainto(S, [nq], [nq] + trailing, qs, qtag="sta", blay=rng.choice(gen.LAYS_ND))), "meta": dict(meta)})
        singles = [(mk(e_single(S, q)), k_) for k_, q in enumerate(qs)]
        for s_, _k in singles:
            cases.append({"line": s_, "meta": {"shape": None, "nq": 1, "special": False, "oob": False}})
        groups.append((base, base + 1, [(base + 2 + j, k_) for j, (_s, k_) in enumerate(singles)], L, nq, None))
    return cases, groups


def canon(vals):
    """f64 results are compared bit for bit except that every NaN counts as the same value"""
    out = []
    for v in vals:
        if isinstance(v, str) and len(v) == 16 and "/" not in v:
            try:
                b = int(v, 16)
                if (b >> 52) & 0x7FF == 0x7FF and b & ((1 << 52) - 1):
                    v = "nan"
            except ValueError:
                pass
        out.append(v)
    return out


def nontrivial(case, res):
    return case["meta"]["nq"] != 1


def oracle(case, res):
    m = case["meta"]
    if m.get("oob"):
        return None if res.kind == "oob" else f"a rejected element (out of range / NaN) must reject the whole call with OutOfBounds, got {res.raw[:80]}"
    if res.kind != "ok":
        return f"in-range query must be answered, got {res.raw[:80]}"
    if res.extra:
        return f"buffer accounting: {res.extra}"
    if m["shape"] is not None and res.shape != m["shape"]:
        return f"result shape must be query shape ++ trailing dims = {m['shape']}, got {res.shape}"
    return None


def extra(rng, tier):
    import random
    rng2 = random.Random(rng.random())
    cases, groups = build_groups(rng2, tier)
    lines = [c["line"] for c in cases]
    outs = vlib.run_impl_only(ID, lines, tag="agree")
    fails, checked = [], 0
    for b, i, singles, L, nq, bad_pos in groups:
        rb, ri = Result(outs[b]), Result(outs[i])
        if bad_pos is not None:
            bad_pos, bad_set = bad_pos
            # the element at bad_pos is rejected by the single-point entry points; so must the batch be, in both variants
            for idx_, nm in ((b, "interp_array"), (i, "interp_array_into")):
                if Result(outs[idx_]).kind != "oob":
                    fails.append({"line": lines[idx_], "impl": outs[idx_][:200],
                                  "required": f"{nm}: element #{bad_pos} is rejected by interp(), so the batch must return OutOfBounds"})
            for s, idx in singles:
                want_k = "oob" if idx in bad_set else "ok"
                if Result(outs[s]).kind != want_k:
                    fails.append({"line": lines[s], "impl": outs[s][:200], "required": f"single query must be `{want_k}`"})
            checked += 1
            continue
        if rb.kind != "ok":
            fails.append({"line": lines[b], "impl": outs[b][:200], "required": "in-range batch must be answered"})
            continue
        if outs[i].split("!")[0].strip() != outs[b]:
            fails.append({"line": lines[i], "impl": outs[i][:200], "required": f"interp_array_into must write exactly what interp_array returns: {outs[b][:200]}"})
        for s, idx in singles:
            rs = Result(outs[s])
            if rs.kind != "ok":
                fails.append({"line": lines[s], "impl": outs[s][:200], "required": "in-range single query must be answered"})
                continue
            if rs.extra:
                fails.append({"line": lines[s], "impl": outs[s][:200], "required": "buffer accounting: " + rs.extra})
                continue
            checked += 1
            want = canon(rb.vals[idx * L:(idx + 1) * L])
            if canon(rs.vals) != want:
                fails.append({"line": lines[b], "impl": outs[b][:300],
                              "required": f"block {idx} of interp_array must equal interp(q[{idx}]) = {rs.vals} (case `{lines[s][:200]}`), got {want}"})
    # entry-point agreement for *user-defined* strategies (seed C09-r9m1: an up-front range validation of n-d batches keyed on a new trait
    # method with a default body — strategies implemented outside the crate that answer out-of-range queries get OutOfBounds from the
    # n-d / dynamic batch entry points only): the recording-strategy scenario drives every entry point with the same queries
    nc = gen.N(tier, 150, 4000)
    seed_c = rng.randint(1, 2 ** 31)
    out_c = vlib.run_sub(["custom", seed_c, nc])
    summ = None
    for l in out_c:
        if l.startswith("FAIL"):
            fails.append({"line": f"vharness_custom {seed_c} {nc}", "impl": l[:800],
                          "required": "every entry point must hand a user-defined strategy's answers (or its error) through unchanged, one call per query element"})
        elif l.startswith("SUMMARY"):
            summ = l
    if summ is None:
        fails.append({"line": f"vharness_custom {seed_c} {nc}", "impl": "no SUMMARY", "required": "the custom-strategy scenario must complete"})
    return {"nontrivial": checked, "evaluations": len(lines) + nc, "failures": fails[:20],
            "hist": {"groups": len(groups), "element_comparisons": checked, "custom_strategy_cases": nc}}
