"""C13 — results do not depend on the memory layout or ownership of any array argument."""
import re

from fractions import Fraction as Fr

import gen
import vlib
from gen import i1_line, i2_line, e_array, e_ainto, e_single, e_into
from props import c02, c04

ID = "C13"
LEAN_MODULES = ["NdInterp.Props.C13"]
THEOREM_FILES = [("NdInterp/Props/C13.lean", "C13_"), ("NdInterp/Props/C14.lean", "C13_")]
RULE = ("for each of data / x / y / query / buffer independently: owned C order, owned F order, strided view (every 2nd / 3rd element of a "
        "larger array), reversed-stride view, permuted axes, window into a larger array; x all entry points x query ranks 0..3 static and "
        "dynamic x data ranks 1..4 static and dynamic; Linear, CubicSpline (incl. Individual boundaries), Bilinear. The model ignores the "
        "layout tags, so every case must return the model's result (exact at Q); extra: each case is re-run with all layouts set to owned C "
        "order and the two outputs must be identical (bit for bit at f64). corpus: the D2 witnesses. non-trivial = case with at least one "
        "non-C layout")
PARTIAL = ["stride-correctness of ndarray's own indexing (Zip, index_axis, windows, indexed_iter) is trusted and exercised, not proved"]
ASSUMPTIONS = ["ndarray pairs equal logical indices whatever the strides"]

LAY = re.compile(r"(?<= )(f|s2|s3|revl|rev|perm|w|neg|bc)(?= \d)")


def to_c(line):
    return LAY.sub("c", line)


def generate(rng, tier):
    cases = []
    for _ in range(gen.N(tier, 170, 4000)):
        S = rng.choice(["Q", "F"])
        oob = False
        rej = False
        L1, LN = gen.LAYS_1D, gen.LAYS_ND
        kind = rng.choice(["lin", "spl", "bil"])
        qrank = rng.choice([0, 1, 1, 2, 3])
        qshape = [rng.choice([1, 2, 3]) for _ in range(qrank)]
        nq = gen.shape_size(qshape)
        trailing = [rng.choice([1, 2, 3]) for _ in range(rng.choice([0, 1, 2, 3]))]
        if kind == "bil":
            trailing = trailing[:2]
            nx, ny = rng.choice([2, 3]), rng.choice([2, 4])
            shape = [nx, ny] + trailing
            if S == "Q":
                xs, ys = gen.axis_q(rng, nx), gen.axis_q(rng, ny); flat = gen.vals_q(rng, gen.shape_size(shape))
                qx = [rng.choice(gen.queries_q(rng, xs, 5)) for _ in range(nq)]; qy = [rng.choice(gen.queries_q(rng, ys, 5)) for _ in range(nq)]
            else:
                xs, ys = gen.axis_f(rng, nx, "random"), gen.axis_f(rng, ny, "uniform")
                flat = [rng.uniform(-2, 2) for _ in range(gen.shape_size(shape))]
                qx = [rng.uniform(xs[0], xs[-1]) for _ in range(nq)]; qy = [rng.uniform(ys[0], ys[-1]) for _ in range(nq)]
            dtag, qtag = gen.pick_dims(rng, len(shape), qrank)
            ent = rng.choice(["array", "ainto", "single", "into"])
            if nq >= 2 and rng.random() < 0.25:
                # one coordinate the same for every point (the line protocol then hands that query over as a broadcast view with
                # all strides 0 half of the time), the other varying
                if rng.random() < 0.5:
                    qx = [qx[0]] * nq
                else:
                    qy = [qy[0]] * nq
            if nq >= 2 and ent in ("array", "ainto") and rng.random() < 0.3:
                # a failing call: two different rejected elements; which one the error names must not depend on any layout
                p1, p2 = rng.sample(range(nq), 2)
                qx[p1] = xs[-1] + (xs[-1] - xs[0]); qy[p2] = ys[0] - (ys[-1] - ys[0]) * 2
                oob = True
            lays2 = None
            if ent in ("array", "ainto") and not oob and rng.random() < 0.25:
                # the square-mesh idiom `interp_array(&q, &q.t())`: the y query array is the x query array with its last two axes
                # exchanged, and the runner hands both over as two views of ONE allocation (x in standard order, y = x.swap_axes)
                # — same first element, same shape, other strides (seed C13-r8m1: "the same array" decided by pointer and shape);
                # the all-C twin of the case stores them separately
                k_ = rng.choice([2, 3])
                lo_, hi_ = max(xs[0], ys[0]), min(xs[-1], ys[-1])
                if lo_ < hi_:
                    qshape = rng.choice([[k_, k_], [2, k_, k_]])
                    nq = gen.shape_size(qshape)
                    qx = [lo_ + (hi_ - lo_) * Fr(rng.randint(0, 16), 16) for _ in range(nq)] if S == "Q" else [rng.uniform(lo_, hi_) for _ in range(nq)]
                    qy = gen.transpose_last2(qshape, qx)
                    lays2 = ("c", "perm")
                    dtag, qtag = gen.pick_dims(rng, len(shape), len(qshape))
            if ent == "array":
                e = e_array(S, qshape, qx, qy, qtag=qtag, lay=rng.choice(LN), lays=lays2)
            elif ent == "ainto":
                e = e_ainto(S, qshape, qshape + trailing, qx, qy, qtag=qtag, lay=rng.choice(LN), blay=rng.choice(LN), lays=lays2)
            elif ent == "single" or nq == 0:
                e = e_single(S, qx[0] if nq else xs[0], qy[0] if nq else ys[0])
            else:
                e = e_into(S, [qx[0], qy[0]], trailing, rng.choice(LN))
            line = i2_line(S, xs, ys, shape, flat, False, e, dtag=dtag, xlay=rng.choice(L1), ylay=rng.choice(L1), dlay=rng.choice(LN))
        else:
            n = rng.choice([3, 4, 6])
            shape = [n] + trailing
            Ln = gen.shape_size(trailing)
            if S == "Q":
                xs = gen.axis_q(rng, n); flat = gen.vals_q(rng, gen.shape_size(shape))
                qs = [rng.choice(gen.queries_q(rng, xs, 5)) for _ in range(nq)]
            else:
                xs = gen.axis_f(rng, n, "random"); flat = [rng.uniform(-2, 2) for _ in range(gen.shape_size(shape))]
                qs = [rng.uniform(xs[0], xs[-1]) for _ in range(nq)]
            if kind == "spl":
                bc, _ = c02.rand_bc(rng, S, Ln, trailing)
                if bc == "per":
                    flat[(n - 1) * Ln:] = flat[:Ln]
                    if Ln >= 1 and rng.random() < 0.4:
                        # first and last row differ in one lane: rejected, in whatever layout the data is stored
                        jj = rng.randrange(Ln)
                        flat[(n - 1) * Ln + jj] = flat[jj] + (1 if S == "Q" else 0.5)
                        rej = True
                strat = ("spl", False, bc)
            else:
                strat = ("lin", False)
            dtag, qtag = gen.pick_dims(rng, len(shape), qrank)
            ent = rng.choice(["array", "ainto", "single", "into"])
            if nq >= 2 and ent in ("array", "ainto") and rng.random() < 0.3:
                p1, p2 = rng.sample(range(nq), 2)
                qs[p1] = xs[-1] + (xs[-1] - xs[0]); qs[p2] = xs[0] - (xs[-1] - xs[0]) * 2
                oob = True
            if ent == "array":
                e = e_array(S, qshape, qs, qtag=qtag, lay=rng.choice(LN))
            elif ent == "ainto":
                e = e_ainto(S, qshape, qshape + trailing, qs, qtag=qtag, lay=rng.choice(LN), blay=rng.choice(LN))
            elif ent == "single" or nq == 0:
                e = e_single(S, qs[0] if nq else xs[0])
            else:
                e = e_into(S, qs[0], trailing, rng.choice(LN))
            line = i1_line(S, xs, shape, flat, strat, e, dtag=dtag, xlay=rng.choice(L1), dlay=rng.choice(LN))
        cases.append({"line": line, "meta": {"oob": oob, "rej": rej}})
    # long lanes of huge, sign-alternating finite samples (seed C13-r7m1: a NaN guard built on `data.sum()` — ndarray sums memory-contiguous
    # arrays with eight interleaved accumulators and strided ones sequentially, so whether the partial sums overflow to +inf + -inf = NaN
    # depends on the layout): whatever the crate does with such data, it must do the same in every layout
    for _ in range(gen.N(tier, 30, 300)):
        n = rng.choice([16, 17, 24, 32])
        big = rng.choice([1.0e308, 1.7e308, 9.0e307])
        col = [rng.uniform(-2, 2) for _ in range(n)]
        ph = rng.randrange(8)
        for j in range(n):
            if j % 8 == ph:
                col[j] = big
            elif j % 8 == (ph + 1) % 8:
                col[j] = -big
        trailing = rng.choice([[], [], [2]])
        L = gen.shape_size(trailing)
        flat = [col[i] if l == 0 else rng.uniform(-2, 2) for i in range(n) for l in range(L)]
        xs = gen.axis_f(rng, n, rng.choice(["unit", "uniform", "random"]))
        qs = [rng.uniform(xs[0], xs[-1]) for _ in range(3)]
        strat = rng.choice([("spl", False, "nak"), ("spl", False, "nat"), ("spl", True, "cla"), ("lin", False)])
        e = e_array("F", [3], qs, qtag=rng.choice(["sta", "dyn"]), lay=rng.choice(gen.LAYS_ND)) if rng.random() < 0.7 else "build"
        line = i1_line("F", xs, [n] + trailing, flat, strat, e, dtag=rng.choice(["sta", "dyn"]), xlay=rng.choice(gen.LAYS_1D),
                       dlay=rng.choice(["s2", "s2", "s3", "w", "rev", "f", "perm", "neg"]))
        cases.append({"line": line, "meta": {"oob": False, "rej": False, "any": True}})
    # failing calls on scalar-lane data with rank-2 queries in non-C layouts: the element at (0,1) and the one at (1,0) are both
    # rejected, with different values; row-major order reaches (0,1) first, column-major order would reach (1,0) first
    for _ in range(gen.N(tier, 16, 300)):
        S = rng.choice(["Q", "F"])
        qshape = rng.choice([[2, 3], [3, 2], [2, 2]])
        nq = gen.shape_size(qshape)
        lay_q, lay_b = rng.choice(["f", "f", "perm", "rev"]), rng.choice(["f", "f", "s2", "perm", "c"])
        ent = rng.choice(["array", "ainto"])
        i01, i10 = 1, qshape[1]
        if rng.random() < 0.5:
            n = 4
            xs = gen.axis_q(rng, n) if S == "Q" else gen.axis_f(rng, n, "random")
            flat = gen.vals_q(rng, n) if S == "Q" else [rng.uniform(-2, 2) for _ in range(n)]
            span = xs[-1] - xs[0]
            qs = [xs[0] + span / 2 for _ in range(nq)]
            qs[i01], qs[i10] = xs[-1] + span, xs[0] - span * 2
            e = e_array(S, qshape, qs, qtag=rng.choice(["sta", "dyn"]), lay=lay_q) if ent == "array" else \
                e_ainto(S, qshape, qshape, qs, qtag=rng.choice(["sta", "dyn"]), lay=lay_q, blay=lay_b)
            line = i1_line(S, xs, [n], flat, ("lin", False), e, dtag=rng.choice(["sta", "dyn"]))
        else:
            nx, ny = 3, 3
            xs = gen.axis_q(rng, nx) if S == "Q" else gen.axis_f(rng, nx, "random")
            ys = gen.axis_q(rng, ny) if S == "Q" else gen.axis_f(rng, ny, "uniform")
            flat = gen.vals_q(rng, nx * ny) if S == "Q" else [rng.uniform(-2, 2) for _ in range(nx * ny)]
            sx, sy = xs[-1] - xs[0], ys[-1] - ys[0]
            qx = [xs[0] + sx / 2 for _ in range(nq)]; qy = [ys[0] + sy / 2 for _ in range(nq)]
            qx[i01] = xs[-1] + sx
            qy[i10] = ys[0] - sy * 2
            e = e_array(S, qshape, qx, qy, qtag=rng.choice(["sta", "dyn"]), lay=lay_q) if ent == "array" else \
                e_ainto(S, qshape, qshape, qx, qy, qtag=rng.choice(["sta", "dyn"]), lay=lay_q, blay=lay_b)
            line = i2_line(S, xs, ys, [nx, ny], flat, False, e, dtag=rng.choice(["sta", "dyn"]))
        cases.append({"line": line, "meta": {"oob": True}})
    return cases


def nontrivial(case, res):
    return to_c(case["line"]) != case["line"]


def oracle(case, res):
    if case["meta"].get("rej"):
        return None if res.raw.startswith("berr ValueError") else f"data whose first and last rows differ must be rejected for the Periodic boundary whatever the layout, got {res.raw[:80]}"
    if case["meta"].get("oob"):
        return None if res.kind == "oob" else f"a batch with rejected elements must return OutOfBounds whatever the layout, got {res.raw[:80]}"
    if case["meta"].get("any"):
        return None if res.kind in ("ok", "built") else f"data of huge finite samples must be built and answered whatever the layout, got {res.raw[:80]}"
    if res.kind != "ok":
        return f"in-range query with correctly shaped arguments must be answered whatever the layout, got {res.raw[:80]}"
    if res.extra:
        return f"buffer accounting: {res.extra}"
    return None


def extra(rng, tier):
    import random
    cases = generate(random.Random(rng.random()), tier)
    lines = []
    for c in cases:
        lines += [c["line"], to_c(c["line"])]
    outs = vlib.run_impl_only(ID, lines, tag="layouts")
    fails, changed = [], 0
    for k in range(len(cases)):
        a, b = outs[2 * k], outs[2 * k + 1]
        if lines[2 * k] != lines[2 * k + 1]:
            changed += 1
        if a != b:
            fails.append({"line": lines[2 * k], "impl": a[:200],
                          "required": f"result must be identical to that with every array owned in C order: {b[:200]}"})
    return {"nontrivial": changed, "evaluations": len(lines), "failures": fails[:20], "hist": {"pairs": len(cases), "non_c_layout_pairs": changed}}
