"""C06 — extrapolation continues the end polynomial and never rejects a finite query."""
import math
from fractions import Fraction as Fr

import gen
import vlib
from gen import i1_line, i2_line, e_array
from props import c04
from vlib import Result, poly_from_points, poly_eval

ID = "C06"
LEAN_MODULES = ["NdInterp.Props.C06SplFl", "NdInterp.Props.C06Fl", "NdInterp.Props.C06", "NdInterp.Props.C02", "NdInterp.Props.RatTie", "NdInterp.Props.FormulaTie.Lin", "NdInterp.Props.FormulaTie.Bil", "NdInterp.Props.FormulaTie.SplEval", "NdInterp.Props.FormulaTie.TabExt", "NdInterp.Props.FormulaTie.Ctl"]
THEOREM_FILES = [("NdInterp/Props/C06SplFl.lean", "C06_"), ("NdInterp/Props/C06Fl.lean", "C06_"), ("NdInterp/Props/C06.lean", "C06_"), ("NdInterp/Props/C02.lean", "C06_"), ("NdInterp/Props/FormulaTie/Lin.lean", "FT_lin_"), ("NdInterp/Props/FormulaTie/Bil.lean", "FT_bil_"), ("NdInterp/Props/FormulaTie/SplEval.lean", "FT_spl_coeffs"), ("NdInterp/Props/FormulaTie/SplEval.lean", "FT_spl_eval"), ("NdInterp/Props/FormulaTie/TabExt.lean", "FT_tab_"), ("NdInterp/Props/FormulaTie/Ctl.lean", "FT_ctl_")]
RULE = ("extrapolate=true for Linear, Bilinear and non-periodic CubicSpline at Q (exact): queries inside and up to 50 spans "
        "outside on either side (2-D: outside in x, in y, in both). Linear/Bilinear judged against the exact end line / border-cell "
        "form; spline: the end cubic is recovered from 4 exact in-range samples of the end interval and evaluated at the outside "
        "query. extra: results with the flag on and off compared for in-range queries (exact at Q, bit-for-bit at f64, incl. the "
        "floats adjacent to the range ends). non-trivial = case with a query outside the range")
PARTIAL = ["'up to rounding' outside the range: for Linear it is C06_linear_rounding ((7u+6u^2)*(|slope*(x-x1)|+|y1|)), for Bilinear "
           "C06_bilinear_rounding (three nested calc_frac at any query, also beyond a corner) and for the spline C06_spline_eval_rounding "
           "(132*u*M*K^3 for the evaluation of the end cubic from given coefficients, K >= 1 bounding |t| and |1-t|), all under the standard "
           "model of fp arithmetic (overflow/underflow excluded); the rounding of the solve that produces the spline coefficients is not "
           "bounded by a theorem, so float spline results are compared with the exact continuation within a scaled tolerance; the f64 runs "
           "compare Linear and Bilinear bit for bit with the model; the exact statement is proved over ordered fields and checked exactly at Q"]
ASSUMPTIONS = ["non-NaN f64 comparison is a linear order"]

SPL_BCS = ["nak", "nat", "cla"]


def gen_1d(rng, S, spline):
    n = rng.choice([3, 4, 5, 7, 12]) if spline else rng.choice([2, 3, 5, 9])
    trailing = gen.trailing_shape(rng, 2)
    shape = [n] + trailing
    if S == "Q":
        xs = gen.axis_q(rng, n, rng.choice(["unit", "uniform", "geometric", "random", "dyadic", "mesh64", "evenish", "nearly_even", "indexlike"]))
        flat = gen.vals_q(rng, gen.shape_size(shape), rng.choice(["int", "dyadic", "rational"]))
    else:
        xs = gen.axis_f(rng, n, rng.choice(["unit", "uniform", "geometric", "random", "evenish", "even", "nearly_even", "indexlike"]))
        flat = [rng.uniform(-5, 5) for _ in range(gen.shape_size(shape))]
    return shape, xs, flat


def spline_strat(rng, S, ext, L, trailing):
    bc = rng.choice(SPL_BCS + ["mixed"])
    if bc == "mixed":
        cv = (lambda v: Fr(v)) if S == "Q" else float
        opts = ["nak", "nat", "cla", ("fd", cv(rng.randint(-3, 3))), ("sd", cv(rng.randint(-3, 3)))]
        return ("spl", ext, ("ind", [1] + trailing, [(rng.choice(opts), rng.choice(opts)) for _ in range(L)]))
    return ("spl", ext, bc)


def generate(rng, tier):
    cases = []
    reps = gen.N(tier, 350, 9000)
    for _ in range(reps):
        S = "Q" if rng.random() < 0.75 else "F"
        kind = rng.choice(["lin", "bil", "spl"])
        if kind == "bil":
            shape, defx, defy, xs, ys, flat = c04.gen_grid(rng, S)
            qx, qy = c04.queries2(rng, xs, ys, rng.randint(3, 8), S, ext=True)
            c = c04.build_line(rng, S, shape, defx, defy, xs, ys, flat, qx, qy, True)
            c["meta"]["kind"] = "bil"
            cases.append(c)
            continue
        shape, xs, flat = gen_1d(rng, S, kind == "spl")
        L = gen.lanes_of(shape)
        strat = ("lin", True) if kind == "lin" else spline_strat(rng, S, True, L, shape[1:])
        # the builders' default index axis (no `.x()` call): 0, 1, .., n-1 (seed C06-r6m1: an O(1) lookup on the default axis whose
        # usize cast fails for finite queries >= 2^64 and then falls back to the *first* interval)
        defx = rng.random() < 0.25
        if defx:
            xs = [Fr(i) for i in range(shape[0])] if S == "Q" else [float(i) for i in range(shape[0])]
        if S == "Q":
            qs = gen.queries_q(rng, xs, rng.randint(4, 10), ext=True)
            qs += [xs[-1] + Fr(2) ** rng.choice([53, 63, 64, 65, 100]), xs[0] - Fr(2) ** rng.choice([63, 64, 70])]
        else:
            span = xs[-1] - xs[0]
            qs = [xs[0] - span * k for k in (1e-9, 0.5, 3.0, 50.0)] + [xs[-1] + span * k for k in (1e-9, 0.5, 3.0, 50.0)]
            qs += [vlib.next_down(xs[0]), vlib.next_up(xs[-1]), xs[0], xs[-1], 1.0e300, -1.0e300]
            qs += [2.0 ** 63, 2.0 ** 64, 1.9e19, -(2.0 ** 64), 3.0e19, 2.0 ** 53 + 2.0, 4.0e9, 1.0e25]
        dtag, qtag = gen.pick_dims(rng, len(shape), 1)
        line = i1_line(S, None if defx else xs, shape, flat, strat, e_array(S, [len(qs)], qs, qtag=qtag, lay=rng.choice(gen.LAYS_ND)),
                       dtag=dtag, dlay=rng.choice(gen.LAYS_ND))
        cases.append({"line": line, "meta": {"kind": kind, "xs": xs, "shape": shape, "flat": flat, "qs": qs, "strat": strat}})
    return cases


def nontrivial(case, res):
    m = case["meta"]
    if m["kind"] == "bil":
        return any(x < m["xs"][0] or x > m["xs"][-1] or y < m["ys"][0] or y > m["ys"][-1] for x, y in zip(m["qx"], m["qy"]))
    return any(q < m["xs"][0] or q > m["xs"][-1] for q in m["qs"])


def oracle(case, res):
    m = case["meta"]
    if res.kind != "ok":
        return f"with extrapolation no finite query may be rejected, got {res.raw[:80]}"
    if case["line"].startswith("F ") and m["kind"] == "lin":
        # f64 Linear: the continuation of the end line within rounding (4 operations: relative to |slope * offset| + |y|)
        xs = [Fr(v) for v in m["xs"]]
        rows = gen.rows_of(m["shape"], [Fr(v) for v in m["flat"]])
        got = res.floats()
        L = max(1, gen.lanes_of(m["shape"]))
        for qi, q in enumerate(m["qs"]):
            i, exact = gen.exact_linear(xs, rows, Fr(q))
            for lane, e in enumerate(exact):
                g = got[qi * L + lane]
                scale = abs(e - rows[i][lane]) + abs(rows[i][lane])
                if scale > Fr(10) ** 290:
                    continue            # the true value is near / beyond the largest finite f64
                if not math.isfinite(g) or abs(Fr(g) - e) > Fr(1, 10 ** 9) * scale:
                    return f"value #{qi * L + lane} at q={q}: f64 {g} must continue the end line, exact {float(e)}"
        return None
    if not case["line"].startswith("Q "):
        return None
    if m["kind"] == "bil":
        return c04.oracle(case, res, ext=True)
    if m["kind"] == "lin":
        xs = m["xs"]
        rows = gen.rows_of(m["shape"], m["flat"])
        exact = []
        for q in m["qs"]:
            exact += gen.exact_linear(xs, rows, q)[1]
        got = res.fractions()
        if got != exact:
            k = next(i for i, (a, b) in enumerate(zip(got, exact)) if a != b)
            return f"value #{k} must continue the end line: {exact[k]}, got {got[k]}"
    return None


def extra(rng, tier):
    fails, lines, checks = [], [], []
    reps = gen.N(tier, 60, 1500)
    # (a) spline: outside value = end cubic recovered from 4 in-range samples
    for _ in range(reps):
        shape, xs, flat = gen_1d(rng, "Q", True)
        L = gen.lanes_of(shape)
        strat = spline_strat(rng, "Q", True, L, shape[1:])
        span = xs[-1] - xs[0]
        h0, h1 = xs[1] - xs[0], xs[-1] - xs[-2]
        left_s = [xs[0] + h0 * Fr(k, 4) for k in (0, 1, 2, 3)]
        right_s = [xs[-2] + h1 * Fr(k, 4) for k in (1, 2, 3, 4)]
        outs_l = [xs[0] - span * k for k in (Fr(1, 1000), Fr(1, 2), 3, 50)]
        outs_r = [xs[-1] + span * k for k in (Fr(1, 1000), Fr(1, 2), 3, 50)]
        qs = left_s + right_s + outs_l + outs_r
        lines.append(i1_line("Q", xs, shape, flat, strat, e_array("Q", [len(qs)], qs)))
        checks.append(("spl", L, left_s, right_s, outs_l, outs_r))
    n_a = len(lines)
    # (b) flag on vs off on in-range queries: exact at Q, bitwise at f64
    pairs = []
    for _ in range(reps):
        S = rng.choice(["Q", "F", "G"])
        kind = rng.choice(["lin", "spl", "bil"])
        if S == "G":
            # f32 elements (seed C06-r11m1: the extrapolating spline evaluating its segments in f64 — a no-op for f64 data)
            kind = rng.choice(["lin", "spl", "spl"])
            r32 = vlib.f32_round
            shape, xs, flat = gen_1d(rng, "F", kind == "spl")
            xs, flat = [r32(x) for x in xs], [r32(v) for v in flat]
            if any(a >= b for a, b in zip(xs, xs[1:])):
                continue
            L = gen.lanes_of(shape)
            qs = [r32(q) for q in gen.queries_f(rng, xs, 8, special=False)]
            qs = [q for q in qs if xs[0] <= q <= xs[-1]] + [xs[0], xs[-1], vlib.next_up32(xs[0]), vlib.next_down32(xs[-1])]
            st0 = ("lin", False) if kind == "lin" else spline_strat(rng, "F", False, L, shape[1:])
            for ext in (False, True):
                st = (st0[0], ext) + tuple(st0[2:])
                lines.append(i1_line(S, xs, shape, flat, st, e_array(S, [len(qs)], qs)))
            pairs.append(len(lines) - 2)
            continue
        if kind == "bil":
            shape, defx, defy, xs, ys, flat = c04.gen_grid(rng, S)
            qx, qy = c04.queries2(rng, xs, ys, 6, S)
            if S == "F":
                qx = (qx + [xs[0], xs[-1], vlib.next_up(xs[0]), vlib.next_down(xs[-1])])[-6:] if len(qx) >= 2 else qx
                qy = qy[:len(qx)]
                qx = qx[:len(qy)]
            for ext in (False, True):
                lines.append(i2_line(S, xs, ys, shape, flat, ext, e_array(S, [len(qx)], qx, qy)))
        else:
            shape, xs, flat = gen_1d(rng, S, kind == "spl")
            L = gen.lanes_of(shape)
            if S == "Q":
                qs = [q for q in gen.queries_q(rng, xs, 8)]
            else:
                qs = [q for q in gen.queries_f(rng, xs, 8, special=False) if xs[0] <= q <= xs[-1]]
                qs += [xs[0], xs[-1], vlib.next_up(xs[0]), vlib.next_down(xs[-1])]
            st0 = ("lin", False) if kind == "lin" else spline_strat(rng, S, False, L, shape[1:])
            for ext in (False, True):
                st = (st0[0], ext) + tuple(st0[2:])
                lines.append(i1_line(S, xs, shape, flat, st, e_array(S, [len(qs)], qs)))
        pairs.append(len(lines) - 2)
    # (c) f64 / f32 splines on axes in ordinary and in extreme units (interval lengths whose third power leaves the number range while
    # their square does not: 2^+-(340..470) at f64, 2^+-(44..60) at f32; seed C06-r5m1), queried up to one span outside: compared with
    # the exact continuation of the end cubic computed by the same crate at Q on the same (float) inputs, tolerance scaled
    fl_lines, fl_meta = [], []
    for _ in range(gen.N(tier, 50, 1200)):
        S = rng.choice(["F", "G"])
        n = rng.choice([3, 4, 5, 7])
        rd = (lambda v: v) if S == "F" else vlib.f32_round
        us = sorted({rng.randint(-64, 64) / 8 for _ in range(3 * n)})
        if len(us) < n:
            continue
        i0 = rng.randrange(len(us) - n + 1)
        us = us[i0:i0 + n]
        kk = rng.choice([0, 0, 1, -1]) * (rng.randint(340, 470) if S == "F" else rng.randint(44, 60))
        unit = 2.0 ** kk
        xs = [u * unit for u in us]
        flat = [rd(rng.uniform(-4, 4)) for _ in range(n)]
        bc = rng.choice(SPL_BCS)
        span = us[-1] - us[0]
        vs = [us[0] - span * k_ for k_ in (1 / 64, 0.25, 1.0)] + [us[-1] + span * k_ for k_ in (1 / 64, 0.25, 1.0)] + [us[0], us[-1], (us[0] + us[1]) / 2]
        qs = [v * unit for v in vs]
        if any(rd(x) != x for x in xs + qs):
            continue
        fl_lines.append(i1_line(S, xs, [n], flat, ("spl", True, bc), e_array(S, [len(qs)], qs)))
        fl_lines.append(i1_line("Q", [Fr(x) for x in xs], [n], [Fr(v) for v in flat], ("spl", True, bc), e_array("Q", [len(qs)], [Fr(q) for q in qs])))
        hs = [b - a for a, b in zip(us, us[1:])]
        fl_meta.append((S, (max(hs) / min(hs)) ** 2))
    fl_outs = vlib.run_impl_only(ID, fl_lines, tag="extra_fl")
    worst = 0.0
    for k, (S, ratio) in enumerate(fl_meta):
        rf, rq = Result(fl_outs[2 * k]), Result(fl_outs[2 * k + 1])
        if rf.kind != "ok" or rq.kind != "ok":
            fails.append({"line": fl_lines[2 * k], "impl": fl_outs[2 * k][:200], "required": f"extrapolating spline must answer at {S} and exactly: {fl_outs[2 * k + 1][:100]}"})
            continue
        got = rf.floats()
        for g, e in zip(got, rq.fractions()):
            tol = (2.0 ** -30 if S == "F" else 2.0 ** -10) * ratio * (abs(float(e)) + 40.0)
            err = abs(g - float(e))
            worst = max(worst, err / tol) if math.isfinite(err) else worst
            if not math.isfinite(g) or err > tol:
                fails.append({"line": fl_lines[2 * k], "impl": fl_outs[2 * k][:300],
                              "required": f"{'f64' if S == 'F' else 'f32'} value {g} must continue the end cubic: exact value {float(e)} (error {err:.3e} > tolerance {tol:.3e})"})
                break
    outs = vlib.run_impl_only(ID, lines, tag="extra")
    for k in range(n_a):
        r = Result(outs[k])
        _, L, left_s, right_s, outs_l, outs_r = checks[k]
        if r.kind != "ok":
            fails.append({"line": lines[k], "impl": outs[k], "required": "extrapolating spline must answer every finite query"})
            continue
        v = r.fractions()
        val = lambda qi, lane: v[qi * L + lane]
        for lane in range(L):
            pl = poly_from_points([(x, val(i, lane)) for i, x in enumerate(left_s)])
            pr = poly_from_points([(x, val(4 + i, lane)) for i, x in enumerate(right_s)])
            bad = None
            for i, q in enumerate(outs_l):
                if poly_eval(pl, q) != val(8 + i, lane):
                    bad = (q, poly_eval(pl, q), val(8 + i, lane), "first")
            for i, q in enumerate(outs_r):
                if poly_eval(pr, q) != val(12 + i, lane):
                    bad = (q, poly_eval(pr, q), val(12 + i, lane), "last")
            if bad:
                fails.append({"line": lines[k], "impl": outs[k][:200],
                              "required": f"lane {lane}: at q={bad[0]} the value must be that of the cubic of the {bad[3]} interval, {bad[1]}, got {bad[2]}"})
                break
    for p in pairs:
        a, b = outs[p], outs[p + 1]
        if a != b or not a.startswith("ok"):
            fails.append({"line": lines[p + 1], "impl": b[:200],
                          "required": f"in-range results must be identical with extrapolation off: {a[:200]}"})
    return {"evaluations": len(lines) + len(fl_lines), "failures": fails, "hist": {"spline_end_cubic": n_a, "on_off_pairs": len(pairs), "float_vs_exact_extrapolation": len(fl_meta)},
            "notes": [f"worst float extrapolation error / tolerance = {worst:.3e}"]}
