"""C15 — results are independent of the units of the axis and linear in the data."""
import math
from fractions import Fraction as Fr

import gen
import vlib
from gen import i1_line, i2_line, e_array
from props import c02, c04
from vlib import Result

ID = "C15"
LEAN_MODULES = ["NdInterp.Props.C15", "NdInterp.Props.RatTie", "NdInterp.Props.FormulaTie.Lin", "NdInterp.Props.FormulaTie.Bil", "NdInterp.Props.FormulaTie.SplSys", "NdInterp.Props.FormulaTie.SplEval", "NdInterp.Props.FormulaTie.PerSys", "NdInterp.Props.FormulaTie.PerWrap", "NdInterp.Props.FormulaTie.Ctl"]
THEOREM_FILES = [("NdInterp/Props/C15.lean", "C15_"), ("NdInterp/Props/FormulaTie/Lin.lean", "FT_lin_"), ("NdInterp/Props/FormulaTie/Bil.lean", "FT_bil_"), ("NdInterp/Props/FormulaTie/SplSys.lean", "FT_spl_"), ("NdInterp/Props/FormulaTie/SplEval.lean", "FT_spl_"), ("NdInterp/Props/FormulaTie/PerSys.lean", "FT_per_"), ("NdInterp/Props/FormulaTie/PerWrap.lean", "FT_per_"), ("NdInterp/Props/FormulaTie/Ctl.lean", "FT_ctl_")]
RULE = ("metamorphic pairs on the real code. At Q (exact equality of rationals): data x c (any rational c, boundary derivative values "
        "x c), axis and queries x c>0 (FirstDeriv v/c, SecondDeriv v/c^2), common shift, superposition of two data sets (boundary values "
        "added); Linear, Bilinear (independent factors for x and y), every spline boundary configuration incl. Periodic and per-lane "
        "Mixed; in range and extrapolated; a Periodic family with queries and shifts many periods away from the origin. At f64 bit-for-bit: data x 2^k (k in -20..20), negation, axis x 2^k, shifts on a common dyadic "
        "grid; superpositions within tolerance. base cases also go through the model correspondence. non-trivial = pair whose two cases "
        "differ")
PARTIAL = ["spline, proved end to end (assembly + solve + evaluation) for every non-periodic boundary pair: data x c (C15_spline_scale_data), "
           "superposition (C15_spline_add), common shift (C15_spline_shift), axis x c>0 with converted boundary values (C15_spline_scale_axis, "
           "by uniqueness C03_unique); Periodic boundary with n >= 4: C15_periodic_scale_data / _add / _shift / _scale_axis (slopes; by "
           "uniqueness of the periodic spline); 3-point Periodic: C15_periodic3_scale_data / _add / _shift / _scale_axis on the closed form",
           "bit-for-bit at f64 rests on exact power-of-two scaling absent over/underflow (C15_hom_linear_data states the data-flow part)"]
ASSUMPTIONS = ["no overflow/underflow for the f64 bitwise runs (magnitudes kept moderate)"]


def scale_bc(bc, fd, sd):
    """scale the derivative values of a boundary spec: FirstDeriv by fd, SecondDeriv by sd"""
    if isinstance(bc, str):
        return bc
    def sb(s):
        if isinstance(s, str):
            return s
        return (s[0], s[1] * (fd if s[0] == "fd" else sd))
    return ("ind", bc[1], [r if isinstance(r, str) else (sb(r[0]), sb(r[1])) for r in bc[2]])


def add_bc(b1, b2):
    def sb(s, t):
        return s if isinstance(s, str) else (s[0], s[1] + t[1])
    return ("ind", b1[1], [r if isinstance(r, str) else (sb(r[0], t[0]), sb(r[1], t[1])) for r, t in zip(b1[2], b2[2])])


def generate(rng, tier):
    cases = []
    for _ in range(gen.N(tier, 80, 2000)):
        shape, xs, flat, bc, lanes = c02.gen_spline(rng, "Q", tier, nmax=8)
        qs = gen.queries_q(rng, xs, 5, ext=True)
        ext = bc != "per" or True
        meta = {}
        if bc == "per" and rng.random() < 0.5:
            # almost periodic: one lane's last value misses its first value by a tiny amount (of any size): never periodic
            L = gen.lanes_of(shape)
            j = rng.randrange(L)
            flat[(shape[0] - 1) * L + j] = flat[j] + Fr(rng.choice([1, -1]), 10 ** rng.randint(4, 30))
            meta = {"near": True}
        cases.append({"line": i1_line("Q", xs, shape, flat, ("spl", True, bc), e_array("Q", [len(qs)], qs)), "meta": meta})
    return cases


def nontrivial(case, res):
    return res.kind == "ok"


def oracle(case, res):
    if case["meta"].get("near"):
        return None if res.raw.startswith("berr ValueError") else f"first and last values differ: the Periodic boundary must be rejected with ValueError, got {res.raw[:80]}"
    return None if res.kind == "ok" else f"extrapolating spline must answer, got {res.raw[:80]}"


def extra(rng, tier):
    lines, checks = [], []   # checks: (idx_a, idx_b, transform on values of a, description, bitwise/exact/tol)

    def push(a, b, f, what, tol=None):
        lines.append(a); lines.append(b)
        checks.append((len(lines) - 2, len(lines) - 1, f, what, tol))

    reps = gen.N(tier, 70, 1800)
    for _ in range(reps):
        S = rng.choice(["Q", "Q", "F"])
        kind = rng.choice(["lin", "bil", "spl", "spl"])
        ext = rng.random() < 0.5
        if S == "Q":
            c = Fr(rng.randint(1, 40), rng.randint(1, 9)) * rng.choice([1, -1])
            cx = Fr(rng.randint(1, 30), rng.randint(1, 7))
            cy = Fr(rng.randint(1, 30), rng.randint(1, 7))
            d = Fr(rng.randint(-50, 50), rng.randint(1, 6))
        else:
            c = 2.0 ** rng.randint(-20, 20) * rng.choice([1, -1])
            cx, cy = 2.0 ** rng.randint(-20, 20), 2.0 ** rng.randint(-20, 20)
            d = float(rng.randint(-64, 64)) / 16
        if kind == "bil":
            if S == "Q":
                shape, _, _, xs, ys, flat = c04.gen_grid(rng, "Q")
                qx, qy = c04.queries2(rng, xs, ys, 4, "Q", ext=ext)
                flat2 = gen.vals_q(rng, len(flat))
            else:
                nx, ny = rng.choice([2, 3, 5]), rng.choice([2, 4])
                shape = [nx, ny] + gen.trailing_shape(rng, 1)
                xs = sorted({float(rng.randint(-200, 200)) / 16 for _ in range(nx * 3)})[:nx]
                ys = sorted({float(rng.randint(-200, 200)) / 16 for _ in range(ny * 3)})[:ny]
                if len(xs) < nx or len(ys) < ny:
                    continue
                flat = [float(rng.randint(-999, 999)) / 8 for _ in range(gen.shape_size(shape))]
                flat2 = [float(rng.randint(-999, 999)) / 8 for _ in range(len(flat))]
                qx = [float(rng.randint(int(xs[0] * 16) - (32 if ext else 0), int(xs[-1] * 16) + (32 if ext else 0))) / 16 for _ in range(4)]
                qy = [float(rng.randint(int(ys[0] * 16) - (32 if ext else 0), int(ys[-1] * 16) + (32 if ext else 0))) / 16 for _ in range(4)]
            k = min(len(qx), len(qy)); qx, qy = qx[:k], qy[:k]
            if k == 0:
                continue
            mk = lambda X, Y, Fl, QX, QY: i2_line(S, X, Y, shape, Fl, ext, e_array(S, [k], QX, QY))
            base = mk(xs, ys, flat, qx, qy)
            push(base, mk(xs, ys, [v * c for v in flat], qx, qy), lambda v, c=c: v * c, f"data x {c}")
            push(base, mk([x * cx for x in xs], [y * cy for y in ys], flat, [q * cx for q in qx], [q * cy for q in qy]),
                 lambda v: v, f"x axis x {cx}, y axis x {cy}")
            push(base, mk([x + d for x in xs], [y - d for y in ys], flat, [q + d for q in qx], [q - d for q in qy]),
                 lambda v: v, f"axes shifted by {d}, {-d}")
            if S == "F":
                # extreme units on data and axes at once (seed C15-r5m2: `(y2-y1)*(x-x1)` formed before the division leaves the
                # number range although every quantity of the problem and the result stay far inside it)
                sg = rng.choice([1, -1])
                c2, cx2, cy2 = (2.0 ** (sg * rng.randint(520, 900)) for _ in range(3))
                push(base, mk([x * cx2 for x in xs], [y * cy2 for y in ys], [v * c2 for v in flat], [q * cx2 for q in qx], [q * cy2 for q in qy]),
                     lambda v, c2=c2: v * c2, f"data x {c2}, x axis x {cx2}, y axis x {cy2}")
            b2 = mk(xs, ys, flat2, qx, qy)
            s = mk(xs, ys, [a + b for a, b in zip(flat, flat2)], qx, qy)
            lines += [base, b2, s]
            checks.append((len(lines) - 3, len(lines) - 2, len(lines) - 1, "superposition", 1e-9 if S == "F" else None))
            continue
        # 1-D
        if S == "Q":
            shape, xs, flat, bc, lanes = c02.gen_spline(rng, "Q", tier, nmax=8)
            flat2 = gen.vals_q(rng, len(flat))
            qs = gen.queries_q(rng, xs, 5, ext=ext)
        else:
            n = rng.choice([3, 4, 6])
            trailing = gen.trailing_shape(rng, 1)
            shape = [n] + trailing
            L = gen.lanes_of(shape)
            xs = sorted({float(rng.randint(-300, 300)) / 16 for _ in range(n * 3)})[:n]
            if len(xs) < n:
                continue
            if rng.random() < 0.25:
                xs = gen.axis_f(rng, n, "indexlike")       # 0 .. n-1 at the ends, uneven (dyadic) in between: looks like the default axis
            flat = [float(rng.randint(-999, 999)) / 8 for _ in range(n * L)]
            flat2 = [float(rng.randint(-999, 999)) / 8 for _ in range(n * L)]
            bc, lanes = c02.rand_bc(rng, "F", L, trailing)
            qs = [float(rng.randint(int(xs[0] * 16) - (40 if ext else 0), int(xs[-1] * 16) + (40 if ext else 0))) / 16 for _ in range(5)]
        L = gen.lanes_of(shape)
        if kind == "spl" and rng.random() < 0.3:
            # periodic family: extrapolating periodic spline, queries many periods away, shifts by many periods (the wrap must be
            # relative to the axis, not to the origin)
            bc, ext = "per", True
            P = xs[-1] - xs[0]
            kk = rng.choice([-1000, -37, -5, -2, 2, 3, 11, 640])
            if S == "Q":
                d = P * kk + Fr(rng.randint(-8, 8), 4)
                qs = qs + [xs[0] + P * Fr(rng.randint(-300, 300), 7) for _ in range(3)]
            else:
                d = float(int(P * 16) * kk) / 16
                qs = qs + [float(int((xs[0] + P * rng.randint(-300, 300) / 7) * 16)) / 16 for _ in range(3)]
        if kind == "lin":
            bc = None
        elif bc == "per":
            flat[(shape[0] - 1) * L:] = flat[:L]
            flat2[(shape[0] - 1) * L:] = flat2[:L]
            if L >= 1 and rng.random() < 0.4:
                # almost periodic data (the end values of one lane differ by a tiny amount of any size): accepted or rejected, the
                # decision must be the same for the scaled, shifted and superposed problem (units do not matter)
                j = rng.randrange(L)
                k0 = (shape[0] - 1) * L + j
                if S == "Q":
                    flat[k0] = flat[j] + Fr(rng.choice([1, -1]), 10 ** rng.randint(4, 30))
                    c = c * rng.choice([1, 1000, Fr(1, 1000), 10 ** 6, Fr(1, 10 ** 6)])
                else:
                    v = flat[j] if flat[j] != 0.0 else 1.0
                    for _ in range(rng.choice([1, 2, 7, 300, 10 ** 5])):
                        v = vlib.next_up(v)
                    flat[j] = flat[j] if flat[j] != 0.0 else 1.0
                    flat[k0] = v
                    c = 2.0 ** rng.randint(-60, 60) * rng.choice([1, -1])
        one = Fr(1) if S == "Q" else 1.0
        def mk(X, Fl, Q, B):
            st = ("lin", ext) if kind == "lin" else ("spl", ext, B)
            return i1_line(S, X, shape, Fl, st, e_array(S, [len(Q)], Q))
        base = mk(xs, flat, qs, bc)
        push(base, mk(xs, [v * c for v in flat], qs, scale_bc(bc, c, c) if bc else None), lambda v, c=c: v * c, f"data x {c}")
        push(base, mk([x * cx for x in xs], flat, [q * cx for q in qs], scale_bc(bc, one / cx, one / (cx * cx)) if bc else None),
             lambda v: v, f"axis and queries x {cx}")
        push(base, mk([x + d for x in xs], flat, [q + d for q in qs], bc), lambda v: v, f"axis and queries shifted by {d}")
        if S == "F" and kind == "spl" and isinstance(bc, str) and bc in ("nak", "nat", "cla", "per"):
            # units in which the mean knot distance lies next to a round decimal magnitude (1e-18 .. 1e18), changed by a small power of two
            # that carries it across (seed C15-r8m1: an axis normalised before the solve only beyond a threshold on the mean spacing — one
            # of the two problems is solved on another axis, the results differ in the last bits)
            m_ = rng.choice([-18, -15, -12, -9, -6, 6, 9, 12, 15, 18])
            hbar = (xs[-1] - xs[0]) / (len(xs) - 1)
            k0 = round(math.log2(10.0 ** m_ / hbar)) + rng.choice([-1, 0, 0, 1])
            u0 = 2.0 ** k0
            cxx = 2.0 ** rng.choice([-6, -3, -2, -1, 1, 2, 3, 6])
            push(mk([x * u0 for x in xs], flat, [q * u0 for q in qs], bc), mk([x * u0 * cxx for x in xs], flat, [q * u0 * cxx for q in qs], bc),
                 lambda v: v, f"axis in units of 2^{k0}, then axis and queries x {cxx}")
        if S == "F" and kind == "lin":
            sg = rng.choice([1, -1])
            c2, cx2 = (2.0 ** (sg * rng.randint(520, 900)) for _ in range(2))
            push(base, mk([x * cx2 for x in xs], [v * c2 for v in flat], [q * cx2 for q in qs], None),
                 lambda v, c2=c2: v * c2, f"data x {c2}, axis and queries x {cx2}")
        # superposition (needs numeric boundary values on both: use the same kind with values added)
        if kind == "lin" or isinstance(bc, str):
            b2 = mk(xs, flat2, qs, bc)
            s = mk(xs, [a + b for a, b in zip(flat, flat2)], qs, bc)
            if isinstance(bc, str) and bc in ("nak", "nat", "cla", "per") or kind == "lin":
                lines += [base, b2, s]
                checks.append((len(lines) - 3, len(lines) - 2, len(lines) - 1, "superposition", 1e-9 if S == "F" else None))
        else:
            bc2 = scale_bc(bc, 3 * one, -2 * one)
            b2 = mk(xs, flat2, qs, bc2)
            s = mk(xs, [a + b for a, b in zip(flat, flat2)], qs, add_bc(bc, bc2))
            if True:
                lines += [base, b2, s]
                checks.append((len(lines) - 3, len(lines) - 2, len(lines) - 1, "superposition", 1e-9 if S == "F" else None))
    outs = vlib.run_impl_only(ID, lines, tag="extra")
    fails, changed = [], 0
    for ch in checks:
        if ch[3] == "superposition":
            ia, ib, isum, what, tol = ch
            ra, rb, rs = Result(outs[ia]), Result(outs[ib]), Result(outs[isum])
            if not (ra.kind == rb.kind == rs.kind == "ok"):
                if not (ra.kind == rs.kind or rb.kind == rs.kind):
                    fails.append({"line": lines[isum], "impl": outs[isum][:200], "required": f"superposition: outcomes {ra.kind}, {rb.kind} vs {rs.kind}"})
                continue
            changed += 1
            if tol is None:
                want = [a + b for a, b in zip(ra.fractions(), rb.fractions())]
                if want != rs.fractions():
                    fails.append({"line": lines[isum], "impl": outs[isum][:200],
                                  "required": f"result for the sum of two data sets must be the sum of the results of `{lines[ia][:200]}` and `{lines[ib][:200]}`"})
            else:
                for a, b, s in zip(ra.floats(), rb.floats(), rs.floats()):
                    if abs((a + b) - s) > tol * (abs(a) + abs(b) + 1):
                        fails.append({"line": lines[isum], "impl": outs[isum][:200], "required": f"superposition within tolerance: {a}+{b} vs {s}"})
                        break
            continue
        ia, ib, f, what, _ = ch
        ra, rb = Result(outs[ia]), Result(outs[ib])
        if lines[ia] != lines[ib]:
            changed += 1
        if ra.kind != rb.kind:
            fails.append({"line": lines[ib], "impl": outs[ib][:200], "required": f"{what}: outcome must stay `{ra.kind}` as for `{lines[ia][:300]}`"})
            continue
        if ra.kind != "ok":
            continue
        if lines[ia].startswith("Q "):
            want = [f(v) for v in ra.fractions()]
            if want != rb.fractions():
                fails.append({"line": lines[ib], "impl": outs[ib][:200], "required": f"{what}: values must be exactly {[str(w) for w in want][:6]}... (from `{lines[ia][:300]}`)"})
        else:
            # bit for bit, except that the sign of an exact zero is not compared: IEEE gives (-a) - (-a) = +0 = a - a, so a negative
            # factor maps a result +0 to +0 where the transformed value would be -0 (found by the thorough tier; the crate is right)
            nz = lambda b: 0 if b == 0x8000000000000000 else b
            want = [nz(vlib.f64_bits(f(v))) for v in ra.floats()]
            if want != [nz(b) for b in rb.bits()]:
                fails.append({"line": lines[ib], "impl": outs[ib][:200], "required": f"{what}: values must be bit-identical transforms of those of `{lines[ia][:300]}`: {outs[ia][:200]}"})
    return {"evaluations": len(lines), "failures": fails, "hist": {"pairs": len(checks), "changed_pairs": changed}}
