"""C10 — build() accepts exactly the valid inputs and reports the rest as BuilderError."""
import itertools
import math
from fractions import Fraction as Fr

import gen
import vlib
from gen import i1_line, i2_line

ID = "C10"
LEAN_MODULES = ["NdInterp.Props.C10", "NdInterp.Props.C12", "NdInterp.Props.FormulaTie.TabBuild", "NdInterp.Props.FormulaTie.Ctl"]
THEOREM_FILES = [("NdInterp/Props/C10.lean", "C10_"), ("NdInterp/Props/FormulaTie/TabBuild.lean", "FT_tab_"), ("NdInterp/Props/FormulaTie/Ctl.lean", "FT_ctl_")]
RULE = ("the decision table of the statement, through model and real code (`build` entry): data rank (0, 1, 2, 3; static and dynamic), "
        "length vs the strategy's minimum (0..min+2), axis length (n-1, n, n+1), axis pattern (increasing; tie / swap / NaN at every position; "
        "decreasing; single element; default axis), boundary-array shape (ok / wrong leading / wrong trailing / wrong rank), periodic ends "
        "(equal / unequal in one lane), x and y independently in 2-D, combinations of simultaneous violations; Linear, CubicSpline "
        "(whole-data-set, Periodic, Individual), Bilinear. Oracle: an independent re-implementation of `Valid`: valid => built; otherwise a "
        "BuilderError whose kind is in the set of violated requirements; never a panic. corpus: the D4 witnesses (rank-0 / rank-1 dynamic "
        "data). non-trivial = case with at least one violated requirement")
PARTIAL = ["CubicSpline: C10_spline shows build() = validation followed by the strategy's own build with its error passed through; that this "
           "build succeeds (no error, no panic) on validated data for every lane is C08_spline_build_lanes (non-periodic pairs) and C03_periodic "
           "(single lane), carried to every lane of n-d data by C08_periodic_lanes / C08_periodic_reject"]
ASSUMPTIONS = ["non-NaN comparison is a linear order (C10_nan covers NaN without that assumption)"]


def axis_variants(rng, S, n):
    """(axis or None, ok?) variants for a data axis of length n"""
    cv = (lambda v: Fr(v)) if S == "Q" else float
    base = [cv(3 * i + (i * i) % 3) for i in range(max(n, 1) + 2)]
    out = [(None, n >= 2), ([], False)]      # incl. an explicitly supplied axis without any element (seed C10-r9m1: cached end points read x[0])
    for m in (n - 1, n, n + 1):
        if m < 0:
            continue
        ax = base[:m]
        out.append((ax, m == n and m >= 2))
        if m >= 2:
            for pos in {p for p in (0, m // 2, m - 2) if 0 <= p <= m - 2}:
                t = list(ax); t[pos + 1] = t[pos]
                out.append((t, False))                      # tie
                t = list(ax); t[pos], t[pos + 1] = t[pos + 1], t[pos]
                out.append((t, False))                      # swap
                if S == "F":
                    for p in {pos, m - 1}:
                        t = list(ax); t[p] = math.nan
                        out.append((t, False))              # NaN
            out.append((list(reversed(ax)), False))          # decreasing
    return out


def violated_1d(shape, ax, min_len):
    v = set()
    if len(shape) < 1:
        return {"ShapeError"}
    n = shape[0]
    if n < min_len:
        v.add("NotEnoughData")
    xs = ax if ax is not None else list(range(n))
    strict = len(xs) >= 2 and all((not (isinstance(a, float) and math.isnan(a))) and (not (isinstance(b, float) and math.isnan(b))) and a < b
                                  for a, b in zip(xs, xs[1:]))
    if not strict:
        v.add("Monotonic")
    if len(xs) != n:
        v.add("ShapeError")
    return v


def generate(rng, tier):
    cases = []
    full = tier != "quick"
    for S in ("Q", "F"):
        fmt_v = (lambda v: Fr(v)) if S == "Q" else float
        # ---------------- 1-D
        for strat_name, min_len in (("lin", 2), ("spl", 3)):
            for n in range(0, min_len + 3):
                for trailing in ([], [2], [2, 1], [0], [2, 0], [3, 1], [2, 3]) if (full or n >= min_len - 1) else ([], [0]):
                    shape = [n] + trailing
                    L = gen.shape_size(trailing)
                    flat = [fmt_v((i * 7) % 5 - 2) for i in range(n * L)]
                    for ax, _ in axis_variants(rng, S, n):
                        if not full and rng.random() < 0.5:
                            continue
                        bcs = [None]
                        if strat_name == "spl":
                            ok_shape = [1] + trailing
                            bcs = ["nak", "per", ("ind", ok_shape, ["nat"] * L)]
                            if full or rng.random() < 0.3:
                                bcs += [("ind", [2] + trailing, ["nat"] * (2 * L)),
                                        ("ind", [1] + trailing + [1], ["nat"] * L) if True else None,
                                        ("ind", [1] + [t + 1 for t in trailing], ["nat"] * gen.shape_size([t + 1 for t in trailing])) if trailing else
                                        ("ind", [2], ["nat"] * 2)]
                                # shapes that merely broadcast to (1, trailing): all-ones, lower rank, 0-d
                                more = [[1] + [1] * len(trailing), list(trailing), []] if trailing else [[], [1, 1]]
                                if len(trailing) == 2:
                                    more += [[1, trailing[0], 1] if trailing[0] != 1 or trailing[1] != 1 else [1, 1, 2], [trailing[1]]]
                                if len(trailing) == 2:
                                    # right rank, leading 1 and right element count, but permuted / regrouped trailing extents (seed
                                    # C10-r8m1: a shape check by rank, leading length and number of entries)
                                    more += [[1, trailing[1], trailing[0]], [1, trailing[0] * trailing[1], 1], [1, 1, trailing[0] * trailing[1]]]
                                for shp in more:
                                    if shp != ok_shape:
                                        bcs.append(("ind", shp, ["nat"] * gen.shape_size(shp)))
                        for bc in bcs:
                            fl = list(flat)
                            per_equal = True
                            if bc == "per" and n >= 1:
                                r_ = rng.random()
                                if r_ < 0.7:
                                    fl[(n - 1) * L:] = fl[:L]
                                if 0.4 <= r_ < 0.7 and n >= 2 and L >= 1:
                                    # almost periodic: one lane's last value is off by the smallest possible amount (another lane may
                                    # be huge: the comparison must be exact and per lane)
                                    j_ = rng.randrange(L)
                                    if S == "Q":
                                        fl[(n - 1) * L + j_] = fl[j_] + Fr(1, 2 ** 70)
                                    else:
                                        fl[j_] = fl[(n - 1) * L + j_] = 1e-6
                                        fl[(n - 1) * L + j_] = vlib.next_up(fl[j_])
                                    if L >= 2:
                                        o_ = (j_ + 1) % L
                                        big_ = Fr(10 ** 9) if S == "Q" else 1e9
                                        fl[o_] = fl[(n - 1) * L + o_] = big_
                                per_equal = fl[(n - 1) * L:] == fl[:L] if n >= 2 else True
                            viol = violated_1d(shape, ax, min_len)
                            extra_viol = set()
                            if strat_name == "spl" and not viol:
                                if isinstance(bc, tuple) and bc[1] != [1] + trailing:
                                    extra_viol.add("ShapeError")
                                if bc == "per" and not per_equal:
                                    extra_viol.add("ValueError")
                            strat = ("lin", False) if strat_name == "lin" else ("spl", False, bc)
                            dtag = "dyn"
                            if len(shape) <= 6 and not (isinstance(bc, tuple) and len(bc[1]) != len(shape)) and rng.random() < 0.4:
                                dtag = "sta"
                            cases.append({"line": i1_line(S, ax, shape, fl, strat, "build", dtag=dtag, xlay=rng.choice(gen.LAYS_1D)),
                                          "meta": {"viol": viol, "extra": extra_viol}})
        # rank-0 data (only dynamic)
        cases.append({"line": i1_line(S, None, [], [fmt_v(1)], ("lin", False), "build"), "meta": {"viol": {"ShapeError"}, "extra": set()}})
        cases.append({"line": i1_line(S, [fmt_v(0), fmt_v(1)], [], [fmt_v(1)], ("spl", False, "nak"), "build"),
                      "meta": {"viol": {"ShapeError"}, "extra": set()}})
        # ---------------- 2-D
        for nx, ny in itertools.product(range(0, 4), range(0, 4)):
            if not full and rng.random() < 0.4:
                continue
            shape = [nx, ny] + rng.choice([[], [], [2], [1], [3], [2, 3], [0]])
            flat = [fmt_v((i * 3) % 7) for i in range(gen.shape_size(shape))]
            xv = axis_variants(rng, S, nx)
            yv = axis_variants(rng, S, ny)
            picks = [(rng.choice(xv)[0], rng.choice(yv)[0]) for _ in range(6 if not full else 40)]
            # the default axes (no .x()/.y() call) in every combination: their lengths are those of data axes 0 and 1
            picks += [(None, None), (None, rng.choice(yv)[0]), (rng.choice(xv)[0], None)]
            for ax, ay in picks:
                viol = set()
                if nx < 2 or ny < 2:
                    viol.add("NotEnoughData")
                vx = violated_1d([nx], ax, 0) - {"NotEnoughData"}
                vy = violated_1d([ny], ay, 0) - {"NotEnoughData"}
                viol |= vx | vy
                cases.append({"line": i2_line(S, ax, ay, shape, flat, False, "build", dtag=rng.choice(["sta", "dyn"])),
                              "meta": {"viol": viol, "extra": set()}})
        for shape in ([], [3]):
            cases.append({"line": i2_line(S, None, None, shape, [fmt_v(1)] * gen.shape_size(shape), False, "build"),
                          "meta": {"viol": {"ShapeError"}, "extra": set()}})
    # Periodic splines whose end rows hold non-finite values (seed C10-r5m2: an error path that ranks the lanes by |first - last| panics
    # on a NaN difference): NaN in an end row never equals anything, +inf equals +inf, -0.0 equals 0.0 — rejected with ValueError or
    # built, never a panic; one or several lanes, 3-point and general periodic path, static and dynamic rank
    for _ in range(gen.N(tier, 60, 600)):
        n = rng.choice([3, 3, 4, 5])
        trailing = rng.choice([[], [2], [3], [2, 2], [1], [4]])
        L = gen.shape_size(trailing)
        xs = gen.axis_f(rng, n, rng.choice(["unit", "uniform", "random"]))
        fl = [rng.uniform(-5, 5) for _ in range(n * L)]
        fl[(n - 1) * L:] = fl[:L]
        specials = [math.nan, math.inf, -math.inf, 0.0, -0.0, 1e308]
        for _ in range(rng.choice([1, 1, 2, 3])):
            j = rng.randrange(L)
            how = rng.choice(["both", "both", "first", "last", "differ"])
            v = rng.choice(specials)
            if how in ("both", "first"):
                fl[j] = v
            if how in ("both", "last"):
                fl[(n - 1) * L + j] = v
            if how == "differ":
                fl[(n - 1) * L + j] = fl[j] + rng.choice([1.0, -1e-9, 1e300])
        equal = all(a == b for a, b in zip(fl[:L], fl[(n - 1) * L:]))
        dtag = rng.choice(["sta", "dyn"])
        cases.append({"line": i1_line("F", xs, [n] + trailing, fl, ("spl", rng.random() < 0.5, "per"), "build", dtag=dtag, dlay=rng.choice(gen.LAYS_ND)),
                      "meta": {"viol": set(), "extra": set() if equal else {"ValueError"}}})
    # integer element types (i64, i32): axes reaching the ends of the type — neighbours whose difference does not fit — valid
    # (strictly increasing) and invalid (ties, reversals) ones; f32 axes one ulp apart
    for S, lo, hi in (("I", -(2 ** 63), 2 ** 63 - 1), ("J", -(2 ** 31), 2 ** 31 - 1)):
        pool = [lo, lo + 1, lo // 2, -7, -1, 0, 1, 5, hi // 2, hi - 1, hi]
        for _ in range(gen.N(tier, 40, 400)):
            n = rng.choice([2, 3, 4])
            ax = [rng.choice(pool) for _ in range(n)]
            r_ = rng.random()
            if r_ < 0.55:
                ax = sorted(set(ax))
                if len(ax) < 2:
                    continue
                n = len(ax)
            elif r_ < 0.7:
                ax = sorted(ax, reverse=True)
            viol = violated_1d([n], ax, 2)
            cases.append({"line": i1_line(S, ax, [n], list(range(n)), ("lin", False), "build", xlay=rng.choice(gen.LAYS_1D)),
                          "meta": {"viol": viol, "extra": set()}})
            ay = sorted({rng.choice(pool) for _ in range(3)})
            if len(ay) >= 2:
                v2 = (violated_1d([n], ax, 0) | violated_1d([len(ay)], ay, 0)) - {"NotEnoughData"}
                cases.append({"line": i2_line(S, ax, ay, [n, len(ay)], list(range(n * len(ay))), False, "build"),
                              "meta": {"viol": v2, "extra": set()}})
    for _ in range(gen.N(tier, 20, 200)):
        n = rng.choice([2, 3, 5])
        ax = [vlib.f32_round(rng.uniform(-100, 100))]
        for _ in range(n - 1):
            ax.append(rng.choice([vlib.next_up32(ax[-1]), vlib.next_up32(ax[-1]), ax[-1], vlib.next_down32(ax[-1]), float("nan")])
                      if rng.random() < 0.5 else vlib.next_up32(vlib.next_up32(ax[-1])))
        viol = violated_1d([n], ax, 2)
        cases.append({"line": i1_line("G", ax, [n], [float(i) for i in range(n)], ("lin", False), "build"), "meta": {"viol": viol, "extra": set()}})
    return cases


def nontrivial(case, res):
    return bool(case["meta"]["viol"] or case["meta"]["extra"])


def oracle(case, res):
    m = case["meta"]
    allowed = m["viol"] | m["extra"]
    if res.kind == "panic":
        return "constructing and building must never panic"
    if not allowed:
        return None if res.kind == "built" else f"valid inputs must build, got {res.raw[:80]}"
    if res.kind != "berr":
        return f"invalid inputs (violated: {sorted(allowed)}) must be rejected with a BuilderError, got {res.raw[:80]}"
    if res.extra not in allowed:
        return f"BuilderError kind {res.extra} does not name a violated requirement {sorted(allowed)}"
    return None
