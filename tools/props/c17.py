"""C17 — an interpolator is immutable: answers do not depend on history or concurrency."""
import gen
import vlib
from gen import i1_line, e_array
from props import c02

ID = "C17"
LEAN_MODULES = ["NdInterp.Props.C17"]
THEOREM_FILES = [("NdInterp/Props/C17.lean", "C17_")]
HARNESS_BINS = ["vharness_hist"]
RULE = ("`vharness_hist <seed> <n>`: n random histories (20..200 operations mixing interp_scalar, interp, interp_into, interp_array, "
        "interp_array_into, in-range / out-of-range / NaN queries and rejected buffers caught by catch_unwind) on Linear, every spline "
        "boundary and Bilinear over owned and shared (ArcArray) storage; reference answer of every operation from a fresh interpolator; "
        "replayed in order, permuted on the same object, and split round-robin and in chunks over 2..16 threads behind a barrier (3 "
        "repetitions), compared bit for bit incl. error/panic messages and partial buffer contents; compile-time Send+Sync assertions "
        "for owned/view/shared storage. non-trivial = every history")
PARTIAL = ["the step from the source facts (all query methods take &self, no interior mutability / global state) to immutability is Rust's "
           "guarantee for shared references (trusted); data races inside the runtime cannot be exhibited by a model — the thread replays exercise them"]
ASSUMPTIONS = ["Rust aliasing rules for &self", "the translator's extraction of receivers, fields and forbidden constructs (checked by C17_facts on every run)"]


def build_failure_witness(out):
    """the scenario asserts `Send + Sync` for every interpolator over thread-safe storage at compile time and shares interpolators
    between scoped threads: a compile error about thread safety names a type that violates the last sentence of C17"""
    import re
    m = re.search(r"`([^`]+)` cannot be (shared|sent) between threads safely", out)
    if m:
        return f"an interpolator over thread-safe storage is not {'Sync' if m.group(2) == 'shared' else 'Send'}: it contains `{m.group(1)}`"
    return None


def generate(rng, tier):
    # a few base cases through the correspondence so that the evaluated interpolators are the modelled ones
    cases = []
    for _ in range(20 if tier == "quick" else 200):
        shape, xs, flat, bc, lanes = c02.gen_spline(rng, "Q", tier, nmax=6)
        qs = gen.queries_q(rng, xs, 4, ext=False)
        cases.append({"line": i1_line("Q", xs, shape, flat, ("spl", False, bc), e_array("Q", [len(qs)], qs)), "meta": {}})
    return cases


def nontrivial(case, res):
    return True


def oracle(case, res):
    return None


def extra(rng, tier):
    n = 40 if tier == "quick" else 600
    seed = rng.randint(1, 2 ** 31)
    out = vlib.run_sub(["history", seed, n])
    fails, summary, hists = [], None, 0
    for l in out:
        if l.startswith("FAIL"):
            fails.append({"line": f"vharness_hist {seed} {n}", "impl": l[:600],
                          "required": "every operation's answer must equal the answer of a fresh interpolator, in any order and under any interleaving"})
        elif l.startswith("hist "):
            hists += 1
        elif l.startswith("SUMMARY"):
            summary = l
    ops = 0
    if summary:
        kv = dict(t.split("=", 1) for t in summary.split()[1:])
        ops = int(kv.get("ops", 0))
        if int(kv.get("failures", 1)) != len([f for f in fails]):
            pass
    else:
        fails.append({"line": f"vharness_hist {seed} {n}", "impl": "no SUMMARY", "required": "the run must complete"})
    return {"nontrivial": hists, "evaluations": ops, "failures": fails[:20], "hist": {"histories": hists, "operations_replayed": ops},
            "notes": [summary or "", f"seed={seed}"] + [l for l in out if l.startswith("STATS")]}
