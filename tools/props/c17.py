"""C17 — an interpolator is immutable: answers do not depend on history or concurrency."""
import gen
import vlib
from gen import i1_line, e_array
from props import c02

ID = "C17"
LEAN_MODULES = ["NdInterp.Props.C17"]
THEOREM_FILES = [("NdInterp/Props/C17.lean", "C17_")]
HARNESS_BINS = ["vharness_hist"]
RULE = ("`vharness_hist <seed> <n>`: n random histories (20..200 operations mixing interp_scalar, interp, interp_into, interp_array, "
        "interp_array_into, in-range / out-of-range / NaN queries and rejected buffers caught by catch_unwind) on Linear, every spline "
        "boundary and Bilinear over owned and shared (ArcArray) storage; reference answer of every operation from a fresh interpolator; "
        "replayed in order, permuted on the same object, and split round-robin and in chunks over 2..16 threads behind a barrier (3 "
        "repetitions), compared bit for bit incl. error/panic messages and partial buffer contents; compile-time Send+Sync assertions "
        "for owned/view/shared storage. non-trivial = every history")
PARTIAL = ["the step from the source facts (all query methods take &self, no interior mutability / global state) to immutability is Rust's "
           "guarantee for shared references (trusted); data races inside the runtime cannot be exhibited by a model — the thread replays exercise them"]
ASSUMPTIONS = ["Rust aliasing rules for &self", "the translator's extraction of receivers, fields and forbidden constructs (checked by C17_facts on every run)"]


def build_failure_witness(out):
    """the scenario asserts `Send + Sync` for every interpolator over thread-safe storage at compile time and shares interpolators
    between scoped threads: a compile error about thread safety names a type that violates the last sentence of C17"""
    import re
    m = re.search(r"`([^`]+)` cannot be (shared|sent) between threads safely", out)
    if m:
        return f"an interpolator over thread-safe storage is not {'Sync' if m.group(2) == 'shared' else 'Send'}: it contains `{m.group(1)}`"
    return None


def generate(rng, tier):
    # a few base cases through the correspondence so that the evaluated interpolators are the modelled ones
    cases = []
    for _ in range(gen.N(tier, 20, 200)):
        shape, xs, flat, bc, lanes = c02.gen_spline(rng, "Q", tier, nmax=6)
        qs = gen.queries_q(rng, xs, 4, ext=False)
        cases.append({"line": i1_line("Q", xs, shape, flat, ("spl", False, bc), e_array("Q", [len(qs)], qs)), "meta": {}})
        # the same query with rejected elements through the static rank-1 path, the dynamic path and a rank-2 spelling: the
        # answer (here: which element the error names) must not depend on the entry point
        span = xs[-1] - xs[0]
        bad = list(qs[:4]) + [xs[0]]
        bad[1], bad[3] = xs[-1] + span, xs[0] - span * 3
        for qtag, qshape in (("sta", [len(bad)]), ("dyn", [len(bad)]), ("sta", [1, len(bad)]), ("dyn", [len(bad), 1])):
            cases.append({"line": i1_line("Q", xs, shape, flat, ("spl", False, bc), e_array("Q", qshape, bad, qtag=qtag)),
                          "meta": {"oob": True}})
    return cases


def nontrivial(case, res):
    return True


def oracle(case, res):
    if case["meta"].get("oob"):
        return None if res.kind == "oob" else f"rejected elements: the call must return OutOfBounds, got {res.raw[:80]}"
    return None


def extra(rng, tier):
    n = gen.N(tier, 40, 600)
    seed = rng.randint(1, 2 ** 31)
    out = vlib.run_sub(["history", seed, n])
    fails, summary, hists = [], None, 0
    for l in out:
        if l.startswith("FAIL"):
            fails.append({"line": f"vharness_hist {seed} {n}", "impl": l[:600],
                          "required": "every operation's answer must equal the answer of a fresh interpolator, in any order and under any interleaving"})
        elif l.startswith("hist "):
            hists += 1
        elif l.startswith("SUMMARY"):
            summary = l
    ops = 0
    if summary:
        kv = dict(t.split("=", 1) for t in summary.split()[1:])
        ops = int(kv.get("ops", 0))
        if int(kv.get("failures", 1)) != len([f for f in fails]):
            pass
    else:
        fails.append({"line": f"vharness_hist {seed} {n}", "impl": "no SUMMARY", "required": "the run must complete"})
    # the same logical query through four spellings (static / dynamic rank 1, 1xn, nx1): identical answers, error answers included
    import random
    grp = [c for c in generate(random.Random(seed), tier) if c["meta"].get("oob")]
    outs = vlib.run_impl_only(ID, [c["line"] for c in grp], tag="spellings")
    for k in range(0, len(grp) - 3, 4):
        answers = [o.split(" ", 1)[0] + " " + " ".join(o.split()[-2:]) if o.startswith("oob") else o for o in outs[k:k + 4]]
        if len(set(answers)) != 1:
            fails.append({"line": grp[k]["line"], "impl": " | ".join(a[:80] for a in answers),
                          "required": "the same query values through static rank-1, dynamic rank-1, 1xn and nx1 query arrays must get the same answer "
                                      "(same rejected element named)"})
    return {"nontrivial": hists, "evaluations": ops, "failures": fails[:20], "hist": {"histories": hists, "operations_replayed": ops, "spelling_groups": len(grp) // 4},
            "notes": [summary or "", f"seed={seed}"] + [l for l in out if l.startswith("STATS")]}
