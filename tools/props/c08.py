"""C08 — every lane of n-dimensional data is interpolated independently."""
import random
from fractions import Fraction as Fr

import gen
import vlib
from gen import i1_line, i2_line, e_array
from props import c02, c04
from vlib import Result

ID = "C08"
LEAN_MODULES = ["NdInterp.Props.C08"]
THEOREM_FILES = [("NdInterp/Props/C08.lean", "C08_")]
RULE = ("groups on the real code: an n-d interpolator (data Ix1..Ix6 static and IxDyn; trailing shapes incl. non-square, length-1 and "
        "length-0 axes; Linear, CubicSpline with whole-data-set boundaries, Periodic and Individual arrays with a different condition per "
        "lane or blocks of lanes sharing one, Bilinear; all query shapes; n-d data in every memory layout incl. permuted/reversed trailing "
        "axes, a third of the groups through interp_array_into with a buffer of another layout) against (a) the 1-D / 2-D interpolator built from each single lane with that lane's boundary — "
        "lane j of the n-d result must be identical (exact at Q, bit for bit at f64), which also checks the multi-index <-> lane flattening — "
        "and (b) the same n-d interpolator with every other lane (values and boundary conditions) replaced at random: lane j unchanged. "
        "The n-d cases also go through the model correspondence. non-trivial = data with >= 2 lanes")
PARTIAL = ["the flattening of the trailing multi-index of the real ndarray into the lane number (row-major) is checked by the runs, not modelled"]
ASSUMPTIONS = []


def lane_bc(bc, lanes, j):
    if bc == "per":
        return "per"
    l, r = lanes[j]
    if l == r and isinstance(l, str) and l in ("nak", "nat", "cla"):
        return l
    return ("ind", [1], [(l, r)])


def build(rng, tier):
    lines, groups = [], []   # group: (idx_nd, [(lane, idx_1d)], [idx_variant], L, nq, lanesel)
    for _ in range(gen.N(tier, 120, 1500)):
        S = rng.choice(["Q", "F"])
        kind = rng.choice(["lin", "spl", "spl", "bil"])
        ext = rng.random() < 0.3
        trailing = [rng.choice([1, 2, 3]) for _ in range(rng.choice([1, 1, 2, 3, 4]))]
        if rng.random() < 0.1:
            trailing[rng.randrange(len(trailing))] = 0
        elif rng.random() < 0.22:
            # many lanes along the last axis (blocked / chunked lane loops must not lose a remainder)
            trailing = trailing[:1] + [rng.choice([9, 10, 11, 13, 17, 19])] if rng.random() < 0.5 else [rng.choice([9, 10, 11, 13, 17, 19])]
        L = gen.shape_size(trailing)
        qshape = rng.choice([[3], [2, 2], [], [1, 3]])
        nq = gen.shape_size(qshape)
        if kind == "bil":
            trailing = trailing[:3]
            L = gen.shape_size(trailing)
            nx, ny = rng.choice([2, 3]), rng.choice([2, 3])
            shape = [nx, ny] + trailing
            if S == "Q":
                xs, ys = gen.axis_q(rng, nx), gen.axis_q(rng, ny); flat = gen.vals_q(rng, nx * ny * L)
                qx = [rng.choice(gen.queries_q(rng, xs, 5, ext=ext)) for _ in range(nq)]; qy = [rng.choice(gen.queries_q(rng, ys, 5, ext=ext)) for _ in range(nq)]
            else:
                xs, ys = gen.axis_f(rng, nx, "random"), gen.axis_f(rng, ny, "uniform")
                flat = [rng.uniform(-2, 2) for _ in range(nx * ny * L)]
                qx = [rng.uniform(xs[0], xs[-1]) for _ in range(nq)]; qy = [rng.uniform(ys[0], ys[-1]) for _ in range(nq)]
            dtag = "sta" if len(shape) <= 6 and rng.random() < 0.6 else "dyn"
            nd = len(lines)
            lines.append(i2_line(S, xs, ys, shape, flat, ext, e_array(S, qshape, qx, qy), dtag=dtag, dlay=rng.choice(gen.LAYS_ND)))
            singles = []
            for j in range(L):
                col = [flat[(p * L) + j] for p in range(nx * ny)]
                singles.append((j, len(lines)))
                lines.append(i2_line(S, xs, ys, [nx, ny], col, ext, e_array(S, qshape, qx, qy)))
            variants = []
            if L >= 2:
                j = rng.randrange(L)
                for _ in range(2):
                    f2 = [v if (p % L) == j else (rng.uniform(-9, 9) if S == "F" else gen.vals_q(rng, 1)[0]) for p, v in enumerate(flat)]
                    variants.append(len(lines))
                    lines.append(i2_line(S, xs, ys, shape, f2, ext, e_array(S, qshape, qx, qy), dtag=dtag))
                groups.append((nd, singles, variants, L, nq, j))
            else:
                groups.append((nd, singles, [], L, nq, 0))
            continue
        n = rng.choice([3, 4, 5])
        shape = [n] + trailing
        if S == "Q":
            xs = gen.axis_q(rng, n); flat = gen.vals_q(rng, n * L)
            qs = [rng.choice(gen.queries_q(rng, xs, 6, ext=ext)) for _ in range(nq)]
        else:
            xs = gen.axis_f(rng, n, "random"); flat = [rng.uniform(-2, 2) for _ in range(n * L)]
            qs = [rng.uniform(xs[0], xs[-1]) for _ in range(nq)]
        flat = gen.degenerate(rng, n, L, flat, 0.12)
        near = None
        if kind == "spl":
            bc, lanes = c02.rand_bc(rng, S, L, trailing)
            if L >= 9 and rng.random() < 0.6:
                # a wide table, most lanes with the default condition and a few overrides after them (seed C08-r11m1: the default lanes of
                # an `Individual` array solved in one block when there are 16 or more lanes, with the per-lane pass ending — instead of
                # continuing — at the first default lane)
                rbs = ["nak"] * L
                lanes = [("nak", "nak")] * L
                for q in sorted(rng.sample(range(1, L), min(L - 1, rng.choice([1, 2, 3, 5])))):
                    k = rng.choice(["nat", "cla", "mix"])
                    if k == "mix":
                        l_, r_ = c02.rand_sb(rng, S), c02.rand_sb(rng, S)
                        rbs[q], lanes[q] = (l_, r_), (l_, r_)
                    else:
                        rbs[q], lanes[q] = k, (k, k)
                bc = ("ind", [1] + trailing, rbs)
            if L >= 2 and rng.random() < 0.12:
                bc, lanes = "per", "per"
            if bc == "per":
                flat[(n - 1) * L:] = flat[:L]
                if L >= 2 and rng.random() < 0.6:
                    # almost periodic: lane `near` misses periodicity by the smallest amount while another lane is huge; the
                    # end-value test is exact and per lane, so the build is rejected because of that lane alone
                    near = rng.randrange(L)
                    big = (near + 1) % L
                    if S == "Q":
                        flat[(n - 1) * L + near] = flat[near] + Fr(1, 2 ** 70)
                        flat[big] = flat[(n - 1) * L + big] = Fr(10 ** 9)
                    else:
                        flat[near] = 1e-6
                        flat[(n - 1) * L + near] = vlib.next_up(1e-6)
                        flat[big] = flat[(n - 1) * L + big] = 1e9
        else:
            bc, lanes = None, None
        dirty = None
        if S == "F" and L >= 2 and near is None and rng.random() < 0.2:
            # one lane holds non-finite / overflowing samples (interior rows only, so a periodic end test is not affected):
            # every other lane must be what it is without that lane
            dirty = rng.randrange(L)
            for i in range(1, n - 1) if n > 2 else []:
                if rng.random() < 0.7:
                    flat[i * L + dirty] = rng.choice([float("nan"), float("inf"), float("-inf"), 1.5e308, -1.7e308])
        if S == "F" and L >= 2 and near is None and dirty is None and rng.random() < 0.2:
            # lanes in units many orders of magnitude apart (all finite, far from overflow within each lane): 1e-30 next to 1e295 —
            # any scaling decided over the whole block (seed C08-r7m1: a right-hand side "balanced" by its largest entry over all
            # lanes) flushes the small lane; each lane must still be what it is alone
            facs = [rng.choice([1.0, 1e295, 1e-30, 1e-290, 1e150, 2.0 ** -500]) for _ in range(L)]
            if len(set(facs)) == 1:
                facs[0], facs[1] = 1e295, 1e-30
            for i in range(n):
                for j in range(L):
                    flat[i * L + j] *= facs[j]
        def mk(sh, fl, b, dt="dyn", nd_=False):
            # the n-d interpolator is exercised with every data layout (permuted / reversed trailing axes included) and, for a
            # third of the groups, through interp_array_into with a buffer of another layout
            e = e_array(S, qshape, qs)
            dl = "c"
            if nd_:
                dl = rng.choice(gen.LAYS_ND)
                if rng.random() < 0.35:
                    e = gen.e_ainto(S, qshape, qshape + sh[1:], qs, blay=rng.choice(gen.LAYS_ND))
            return i1_line(S, xs, sh, fl, ("lin", ext) if kind == "lin" else ("spl", ext, b), e, dtag=dt, dlay=dl)
        dtag = "sta" if len(shape) <= 6 and rng.random() < 0.6 else "dyn"
        nd = len(lines)
        lines.append(mk(shape, flat, bc, dtag, True))
        singles = []
        for j in range(L):
            col = [flat[i * L + j] for i in range(n)]
            singles.append((j, len(lines)))
            lines.append(mk([n], col, lane_bc(bc, lanes, j) if kind == "spl" else None))
        variants = []
        j = rng.randrange(L) if L else 0
        if dirty is not None:
            singles = [(q, i_) for q, i_ in singles if q != dirty]
            j = rng.choice([q for q in range(L) if q != dirty])
        if near is not None:
            groups.append((nd, singles, [], L, nq, ("near", near)))
            continue
        if L >= 2:
            for _ in range(2):
                f2 = [v if (p % L) == j else (rng.uniform(-9, 9) if S == "F" else gen.vals_q(rng, 1)[0]) for p, v in enumerate(flat)]
                b2 = bc
                if kind == "spl":
                    if bc == "per":
                        f2[(n - 1) * L:] = f2[:L]
                    elif isinstance(bc, tuple):
                        rbs = [r if q == j else (c02.rand_sb(rng, S), c02.rand_sb(rng, S)) for q, r in enumerate(bc[2])]
                        b2 = ("ind", bc[1], rbs)
                variants.append(len(lines))
                lines.append(mk(shape, f2, b2, dtag, True))
        groups.append((nd, singles, variants, L, nq, j))
    return lines, groups


def generate(rng, tier):
    lines, groups = build(random.Random(rng.random()), tier)
    return [{"line": lines[g[0]], "meta": {"L": g[3], "near": isinstance(g[5], tuple)}} for g in groups]


def nontrivial(case, res):
    return case["meta"]["L"] >= 2


def oracle(case, res):
    if case["meta"].get("near"):
        return None if res.raw.startswith("berr ValueError") else f"a lane whose first and last values differ must be rejected with ValueError, got {res.raw[:80]}"
    return None if res.kind == "ok" else f"must be answered, got {res.raw[:80]}"


def extra(rng, tier):
    lines, groups = build(random.Random(rng.random()), tier)
    outs = vlib.run_impl_only(ID, lines, tag="lanes")
    fails, cmp_n = [], 0
    for nd, singles, variants, L, nq, jsel in groups:
        r = Result(outs[nd])
        if isinstance(jsel, tuple):
            # almost periodic lane: the n-d build and the build from that lane alone are rejected, every other lane alone builds
            nearj = jsel[1]
            cmp_n += 1
            if not outs[nd].startswith("berr ValueError"):
                fails.append({"line": lines[nd], "impl": outs[nd][:200],
                              "required": f"lane {nearj} is not periodic (its own first/last values differ): ValueError whatever the other lanes hold"})
            for j, idx in singles:
                want = "berr ValueError" if j == nearj else "ok"
                if not outs[idx].startswith(want):
                    fails.append({"line": lines[idx], "impl": outs[idx][:200], "required": f"lane {j} alone must give `{want}`"})
            continue
        if r.kind != "ok":
            fails.append({"line": lines[nd], "impl": outs[nd][:200], "required": "n-d interpolator must answer"})
            continue
        lane = lambda res, j: [res.vals[q * L + j] for q in range(nq)]
        for j, idx in singles:
            rs = Result(outs[idx])
            cmp_n += 1
            if rs.kind != "ok" or rs.vals != lane(r, j):
                fails.append({"line": lines[nd], "impl": outs[nd][:300],
                              "required": f"lane {j} must equal the interpolator built from that lane alone (`{lines[idx][:300]}`): {outs[idx][:200]}"})
        for v in variants:
            rv = Result(outs[v])
            cmp_n += 1
            if rv.kind != "ok" or lane(rv, jsel) != lane(r, jsel):
                fails.append({"line": lines[v], "impl": outs[v][:300],
                              "required": f"changing other lanes must leave lane {jsel} unchanged: base `{lines[nd][:300]}` gives {lane(r, jsel)}"})
    return {"nontrivial": cmp_n, "evaluations": len(lines), "failures": fails[:20], "hist": {"groups": len(groups), "lane_comparisons": cmp_n}}
