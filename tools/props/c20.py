"""C20 — Linear and Bilinear results depend only on the bracketing data points."""
import math
from fractions import Fraction as Fr

import gen
import vlib
from gen import i1_line, i2_line, e_array
from props import c04
from vlib import lin_bracket, Result

ID = "C20"
LEAN_MODULES = ["NdInterp.Props.C20", "NdInterp.Props.RatTie", "NdInterp.Props.FormulaTie.Lin", "NdInterp.Props.FormulaTie.Bil", "NdInterp.Props.FormulaTie.Ctl"]
THEOREM_FILES = [("NdInterp/Props/C20.lean", "C20_"), ("NdInterp/Props/FormulaTie/Lin.lean", "FT_lin_"), ("NdInterp/Props/FormulaTie/Bil.lean", "FT_bil_"), ("NdInterp/Props/FormulaTie/Lin.lean", "FT_idx_"), ("NdInterp/Props/FormulaTie/Ctl.lean", "FT_ctl_")]
RULE = ("metamorphic, on the real code: a base case (one query) and variants in which every non-bracketing data row/column is "
        "replaced by NaN, +-inf or random values, or every non-bracketing knot is moved within its neighbours; Linear and Bilinear, "
        "in range and extrapolated (queries incl. the floats adjacent to knots), all lanes, axes and data stored as plain, strided or reversed-stride views (one layout per group); results must be bit-identical at f64 and equal at Q. The base cases also run through "
        "the model correspondence. non-trivial = variant that changes at least one value; distinct = distinct variant line")
PARTIAL = []
ASSUMPTIONS = ["C20_*_axis is proved over ordered fields; for f64 the premise 'same bracket' is what the bitwise runs exercise"]


def generate(rng, tier):
    # base cases through the correspondence (exact at Q)
    cases = []
    for _ in range(gen.N(tier, 150, 3000)):
        ext = rng.random() < 0.5
        if rng.random() < 0.5:
            n = rng.choice([2, 3, 5, 9])
            shape = [n] + gen.trailing_shape(rng, 2)
            xs = gen.axis_q(rng, n)
            flat = gen.vals_q(rng, gen.shape_size(shape))
            qs = gen.queries_q(rng, xs, 5, ext=ext)
            cases.append({"line": i1_line("Q", xs, shape, flat, ("lin", ext), e_array("Q", [len(qs)], qs)), "meta": {}})
        else:
            shape, defx, defy, xs, ys, flat = c04.gen_grid(rng, "Q")
            qx, qy = c04.queries2(rng, xs, ys, 4, "Q", ext=ext)
            cases.append({"line": i2_line("Q", xs, ys, shape, flat, ext, e_array("Q", [len(qx)], qx, qy)), "meta": {}})
    for _ in range(max(3, gen.N(tier, 150, 3000) // 15)):
        n = rng.choice([20, 70, 200])
        xs = gen.long_axis(rng, rng.choice(gen.LONG_KINDS), n, "Q")
        qs = [(a + b) / 2 for a, b in zip(xs, xs[1:])]
        rng.shuffle(qs)
        cases.append({"line": i1_line("Q", xs, [n], gen.vals_q(rng, n), ("lin", False), e_array("Q", [12], qs[:10] + [xs[0], xs[-1]])), "meta": {}})
    return cases


def nontrivial(case, res):
    return res.kind == "ok"


def oracle(case, res):
    return None


def poison_vals(rng, S, k):
    if S == "F":
        c = rng.choice(["nan", "inf", "ninf", "rand"])
        return [{"nan": math.nan, "inf": math.inf, "ninf": -math.inf}.get(c, rng.uniform(-1e6, 1e6)) for _ in range(k)]
    return gen.vals_q(rng, k, "big")


def move_knots(rng, S, xs, keep):
    """move every knot not in `keep` strictly within its (moved) neighbours"""
    out = list(xs)
    n = len(xs)
    for i in range(n):
        if i in keep:
            continue
        lo = out[i - 1] if i > 0 else None
        hi = xs[i + 1] if i + 1 < n else None
        if S == "Q":
            if lo is None:
                out[i] = hi - (hi - xs[i]) * Fr(rng.randint(1, 9), 4)
            elif hi is None:
                out[i] = lo + (xs[i] - lo) * Fr(rng.randint(1, 9), 4)
            else:
                out[i] = lo + (hi - lo) * Fr(rng.randint(1, 9), 10)
        else:
            if lo is None:
                out[i] = hi - (hi - xs[i]) * rng.uniform(0.1, 3.0)
            elif hi is None:
                out[i] = lo + (xs[i] - lo) * rng.uniform(0.1, 3.0)
            else:
                out[i] = lo + (hi - lo) * rng.uniform(0.05, 0.95)
            if not ((lo is None or lo < out[i]) and (hi is None or out[i] < hi)):
                out[i] = xs[i]
    assert all(a < b for a, b in zip(out, out[1:])), out
    return out


def extra(rng, tier):
    lines, groups = [], []
    reps = gen.N(tier, 200, 5000)
    for _ in range(reps):
        S = rng.choice(["F", "F", "Q"])
        ext = rng.random() < 0.5
        # storage of the group (same for the base case and its variants): axes as plain, strided or reversed views, data in any layout
        lx, ly, ld = rng.choice(gen.LAYS_1D), rng.choice(gen.LAYS_1D), rng.choice(gen.LAYS_ND)
        if rng.random() < 0.5:
            n = rng.choice([3, 4, 6, 10])
            shape = [n] + gen.trailing_shape(rng, 2)
            L = gen.lanes_of(shape)
            if S == "Q":
                xs = gen.axis_q(rng, n)
                flat = gen.vals_q(rng, n * L)
                q = rng.choice(gen.queries_q(rng, xs, 8, ext=ext))
            else:
                xs = gen.axis_f(rng, n, rng.choice(["uniform", "geometric", "random", "evenish", "even", "even", "indexlike", "tail"]))
                flat = [rng.uniform(-9, 9) for _ in range(n * L)]
                span = xs[-1] - xs[0]
                kq = xs[rng.randrange(n)]
                q = rng.choice([rng.uniform(xs[0], xs[-1]), kq, vlib.next_down(kq), vlib.next_up(kq), vlib.next_down(vlib.next_down(kq))] +
                               ([xs[0] - span * 0.3, xs[-1] + span * 2] if ext else []))
                if not ext:
                    q = min(max(q, xs[0]), xs[-1])
            i = lin_bracket(xs, q)
            if S == "F" and rng.random() < 0.3:
                # a non-finite sample in a *bracketing* row (kept in every variant): the result may be NaN / inf, but it must still not
                # depend on any other row (seed C20-r7m1: an extrapolating Linear that walks inwards to the nearest all-finite interval)
                flat[rng.choice([i, i + 1]) * L + rng.randrange(L)] = rng.choice([math.nan, math.inf, -math.inf])
            base = len(lines)
            lines.append(i1_line(S, xs, shape, flat, ("lin", ext), e_array(S, [1], [q]), xlay=lx, dlay=ld))
            var = []
            for _ in range(3):
                f2 = list(flat)
                for r in range(n):
                    if r not in (i, i + 1):
                        f2[r * L:(r + 1) * L] = poison_vals(rng, S, L)
                lines.append(i1_line(S, xs, shape, f2, ("lin", ext), e_array(S, [1], [q]), xlay=lx, dlay=ld))
                var.append(len(lines) - 1)
            for _ in range(2):
                x2 = move_knots(rng, S, xs, {i, i + 1})
                lines.append(i1_line(S, x2, shape, flat, ("lin", ext), e_array(S, [1], [q]), xlay=lx, dlay=ld))
                var.append(len(lines) - 1)
            groups.append((base, var))
        else:
            shape, _, _, xs, ys, flat = c04.gen_grid(rng, S)
            nx, ny = shape[0], shape[1]
            L = gen.lanes_of(shape, 2)
            qx, qy = c04.queries2(rng, xs, ys, 8, S, ext=ext)
            if not qx:
                continue
            x, y = rng.choice(qx), rng.choice(qy)      # any cell of the grid, not only the first one
            i, j = lin_bracket(xs, x), lin_bracket(ys, y)
            if S == "F" and L >= 1 and rng.random() < 0.3:
                flat[(rng.choice([i, i + 1]) * ny + rng.choice([j, j + 1])) * L + rng.randrange(L)] = rng.choice([math.nan, math.inf, -math.inf])
            base = len(lines)
            lines.append(i2_line(S, xs, ys, shape, flat, ext, e_array(S, [1], [x], [y]), xlay=lx, ylay=ly, dlay=ld))
            var = []
            for _ in range(3):
                f2 = list(flat)
                for a in range(nx):
                    for b in range(ny):
                        if not (a in (i, i + 1) and b in (j, j + 1)):
                            f2[(a * ny + b) * L:(a * ny + b + 1) * L] = poison_vals(rng, S, L)
                lines.append(i2_line(S, xs, ys, shape, f2, ext, e_array(S, [1], [x], [y]), xlay=lx, ylay=ly, dlay=ld))
                var.append(len(lines) - 1)
            for _ in range(2):
                x2 = move_knots(rng, S, xs, {i, i + 1})
                y2 = move_knots(rng, S, ys, {j, j + 1})
                lines.append(i2_line(S, x2, y2, shape, flat, ext, e_array(S, [1], [x], [y]), xlay=lx, ylay=ly, dlay=ld))
                var.append(len(lines) - 1)
            groups.append((base, var))
    # long unevenly spaced axes (seed C20-r5m2: a search window next to the first guess only matters when the guess is more than
    # 16 intervals off, i.e. on axes much denser at one end): every row but the bracketing two is poisoned / every other knot moved
    for _ in range(max(4, reps // 10)):
        S = rng.choice(["F", "F", "Q"])
        ext = rng.random() < 0.3
        n = rng.choice([20, 40, 70, 120, 200])
        xs = gen.long_axis(rng, rng.choice(gen.LONG_KINDS), n, S)
        lx, ld = rng.choice(gen.LAYS_1D), rng.choice(gen.LAYS_ND)
        two = rng.random() < 0.35
        for _ in range(4):
            i = rng.randrange(n - 1)
            q = (xs[i] + xs[i + 1]) / 2 if rng.random() < 0.7 else xs[i]
            base = len(lines)
            var = []
            if not two:
                flat = gen.vals_q(rng, n) if S == "Q" else [rng.uniform(-9, 9) for _ in range(n)]
                lines.append(i1_line(S, xs, [n], flat, ("lin", ext), e_array(S, [1], [q]), xlay=lx, dlay=ld))
                for _ in range(2):
                    f2 = list(flat)
                    for r in range(n):
                        if r not in (i, i + 1):
                            f2[r:r + 1] = poison_vals(rng, S, 1)
                    lines.append(i1_line(S, xs, [n], f2, ("lin", ext), e_array(S, [1], [q]), xlay=lx, dlay=ld))
                    var.append(len(lines) - 1)
                x2 = move_knots(rng, S, xs, {i, i + 1})
                lines.append(i1_line(S, x2, [n], flat, ("lin", ext), e_array(S, [1], [q]), xlay=lx, dlay=ld))
                var.append(len(lines) - 1)
            else:
                # Bilinear: short even x axis, long y axis
                xa = [Fr(0), Fr(1), Fr(2)] if S == "Q" else [0.0, 1.0, 2.0]
                qa = Fr(1, 2) if S == "Q" else 0.5
                flat = gen.vals_q(rng, 3 * n) if S == "Q" else [rng.uniform(-9, 9) for _ in range(3 * n)]
                lines.append(i2_line(S, xa, xs, [3, n], flat, ext, e_array(S, [1], [qa], [q]), ylay=lx, dlay=ld))
                for _ in range(2):
                    f2 = list(flat)
                    for a in range(3):
                        for b in range(n):
                            if not (a in (0, 1) and b in (i, i + 1)):
                                f2[a * n + b:a * n + b + 1] = poison_vals(rng, S, 1)
                    lines.append(i2_line(S, xa, xs, [3, n], f2, ext, e_array(S, [1], [qa], [q]), ylay=lx, dlay=ld))
                    var.append(len(lines) - 1)
            groups.append((base, var))
    # several queries through ONE interpolator in one batch (seed C20-r6m1: a "previous interval" hint with a closed upper bound
    # answers a query that is exactly a knot from the interval of the preceding query): element j of the batch must not change when every
    # row outside the bracket of query j alone is poisoned — the other elements of the batch may change, they are not compared
    elem_groups = []
    for _ in range(max(6, reps // 5)):
        S = rng.choice(["F", "F", "Q"])
        ext = rng.random() < 0.3
        n = rng.choice([4, 5, 7, 10])
        lx, ld = rng.choice(gen.LAYS_1D), rng.choice(gen.LAYS_ND)
        xs = gen.axis_q(rng, n) if S == "Q" else gen.axis_f(rng, n, rng.choice(["uniform", "random", "geometric", "even"]))
        mid = lambda a, b: (a + b) / 2
        k = rng.randrange(n - 2)
        qs = rng.choice([[mid(xs[k], xs[k + 1]), xs[k + 1]], [xs[k], xs[k + 1], xs[k + 2]], [mid(xs[k + 1], xs[k + 2]), xs[k + 1], xs[k]],
                         [xs[k + 1], mid(xs[k], xs[k + 1]), xs[k + 1]]])
        if rng.random() < 0.4:
            # a long non-decreasing batch (more queries than knots) that visits every knot exactly (seed C20-r8m1: a kernel for rising
            # batches that finds the run of queries per interval with `<= x[i+1]`)
            qs = sorted(list(xs) + [mid(a_, b_) for a_, b_ in zip(xs, xs[1:])])
        two = rng.random() < 0.35
        if not two:
            flat = gen.vals_q(rng, n) if S == "Q" else [rng.uniform(-9, 9) for _ in range(n)]
            base = len(lines)
            lines.append(i1_line(S, xs, [n], flat, ("lin", ext), e_array(S, [len(qs)], qs, qtag=rng.choice(["sta", "dyn"])), xlay=lx, dlay=ld))
            for j, q in (list(enumerate(qs)) if len(qs) <= 4 else rng.sample(list(enumerate(qs)), 4)):
                i = lin_bracket(xs, q)
                f2 = list(flat)
                for r in range(n):
                    if r not in (i, i + 1):
                        f2[r:r + 1] = poison_vals(rng, S, 1)
                lines.append(i1_line(S, xs, [n], f2, ("lin", ext), e_array(S, [len(qs)], qs, qtag=rng.choice(["sta", "dyn"])), xlay=lx, dlay=ld))
                elem_groups.append((base, len(lines) - 1, j, len(qs)))
        else:
            ya = gen.axis_q(rng, 3) if S == "Q" else gen.axis_f(rng, 3, "uniform")
            qy = [mid(ya[0], ya[1])] * len(qs)
            flat = gen.vals_q(rng, 3 * n) if S == "Q" else [rng.uniform(-9, 9) for _ in range(3 * n)]
            base = len(lines)
            lines.append(i2_line(S, xs, ya, [n, 3], flat, ext, e_array(S, [len(qs)], qs, qy, qtag=rng.choice(["sta", "dyn"])), xlay=lx, dlay=ld))
            for j, q in (list(enumerate(qs)) if len(qs) <= 4 else rng.sample(list(enumerate(qs)), 4)):
                i = lin_bracket(xs, q)
                f2 = list(flat)
                for a in range(n):
                    for b in range(3):
                        if not (a in (i, i + 1) and b in (0, 1)):
                            f2[a * 3 + b:a * 3 + b + 1] = poison_vals(rng, S, 1)
                lines.append(i2_line(S, xs, ya, [n, 3], f2, ext, e_array(S, [len(qs)], qs, qy, qtag=rng.choice(["sta", "dyn"])), xlay=lx, dlay=ld))
                elem_groups.append((base, len(lines) - 1, j, len(qs)))
    outs = vlib.run_impl_only(ID, lines, tag="extra")
    fails = []
    changed = 0
    for base, var in groups:
        for v in var:
            if lines[v] != lines[base]:
                changed += 1
            if outs[v] != outs[base] or not outs[base].startswith("ok"):
                fails.append({"line": lines[v], "impl": outs[v][:200],
                              "required": f"result must be identical to that of the unmodified case `{lines[base][:300]}`: {outs[base][:200]}"})
    for base, v, j, nq in elem_groups:
        rb, rv = Result(outs[base]), Result(outs[v])
        changed += 1
        if rb.kind != "ok" or rv.kind != "ok" or len(rb.vals) != nq or len(rv.vals) != nq:
            fails.append({"line": lines[v], "impl": outs[v][:200], "required": f"batch must be answered like the unmodified case `{lines[base][:300]}`: {outs[base][:200]}"})
        elif rb.vals[j] != rv.vals[j]:
            fails.append({"line": lines[v], "impl": outs[v][:200],
                          "required": f"element {j} of the batch must be identical to that of the unmodified case `{lines[base][:300]}` ({rb.vals[j]}): only rows outside its own bracket were changed"})
    return {"evaluations": len(lines), "failures": fails, "hist": {"groups": len(groups), "changed_variants": changed, "per_element_variants": len(elem_groups)}}
