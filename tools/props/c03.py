"""C03 — the cubic spline honours the selected boundary conditions (unique spline)."""
from fractions import Fraction as Fr

import gen
import spline_ref
import vlib
from gen import i1_line, e_array
from props import c02
from vlib import poly_from_points, poly_eval

ID = "C03"
LEAN_MODULES = ["NdInterp.Props.C03", "NdInterp.Props.C02", "NdInterp.Props.RatTie", "NdInterp.Props.FormulaTie.SplSys", "NdInterp.Props.FormulaTie.SplEval", "NdInterp.Props.FormulaTie.PerSys", "NdInterp.Props.FormulaTie.TabSpec", "NdInterp.Props.FormulaTie.Ctl"]
THEOREM_FILES = [("NdInterp/Props/C03.lean", "C03_"), ("NdInterp/Props/FormulaTie/SplSys.lean", "FT_spl_"), ("NdInterp/Props/FormulaTie/SplEval.lean", "FT_spl_"), ("NdInterp/Props/FormulaTie/PerSys.lean", "FT_per_three"), ("NdInterp/Props/FormulaTie/PerSys.lean", "FT_per_rows"), ("NdInterp/Props/FormulaTie/PerSys.lean", "FT_per_combine"), ("NdInterp/Props/FormulaTie/TabSpec.lean", "FT_tab_"), ("NdInterp/Props/FormulaTie/Ctl.lean", "FT_ctl_")]
RULE = ("CubicSpline at Q, exact: every ordered pair (left,right) of the 5 single-end conditions x n in {3,4,5,6,9,..} x axis kinds "
        "(non-uniform, mesh ratio up to 2^6), Periodic, whole-data-set and per-lane Individual/Mixed assignments with derivative values. "
        "Oracle 1: residual of the selected end condition on the cubic fitted to 4 exact samples of each end piece (S'(end)=v, S''(end)=v, "
        "S'''_0=S'''_1, parabola for 3-point NotAKnot/NotAKnot, S'/S'' equal at both ends for Periodic) is exactly 0. Oracle 2 "
        "(uniqueness): every value equals that of an independent exact spline obtained by Gaussian elimination on the conditions of the "
        "property text. corpus: the D1 witness. non-trivial = every case")
PARTIAL = ["rounding: exact statement proved/checked; f64 closeness is tested in C02's extra run",
           "theorems are single-lane; C08_spline_build_lanes / C08_individual carry them to every lane of n-d data and to per-lane boundaries"]
ASSUMPTIONS = ["axis length < 2^64"]
PAIRS = [(l, r) for l in c02.SB for r in c02.SB]


def with_val(rng, k):
    return (k, Fr(rng.randint(-6, 6), rng.choice([1, 2, 3]))) if k in ("fd", "sd") else k


def generate(rng, tier):
    cases = []
    reps = gen.N(tier, 2, 40)
    for _ in range(reps):
        for (l0, r0) in PAIRS + [("per", "per")]:
            for n in (3, 4, 5, rng.choice([6, 9, 12])):
                trailing = gen.trailing_shape(rng, 1)
                if rng.random() < 0.35:
                    # n-d data: per-lane conditions over two or three trailing axes, incl. axes of length 1
                    trailing = rng.choice([[2, 1], [1, 2], [3, 1], [2, 2], [1, 3, 1], [2, 1, 2]])
                shape = [n] + trailing
                L = gen.lanes_of(shape)
                xs = gen.axis_q(rng, n, rng.choice(["uniform", "geometric", "random", "dyadic", "mesh64", "mesh64", "evenish", "nearly_even", "indexlike"]))
                if n >= 4 and rng.random() < 0.2:
                    # strongly graded axes: every interval 3 .. 5 times the one before it, or the mirror image (seed C03-r11m1: a solve with
                    # row swaps — partial pivoting — that goes wrong only when two consecutive steps swap)
                    f_ = rng.choice([Fr(3), Fr(4), Fr(7, 2), Fr(5)])
                    st_ = [f_ ** i for i in range(n - 1)]
                    if rng.random() < 0.5:
                        st_.reverse()
                    xs = [Fr(rng.randint(-5, 5))]
                    for s_ in st_:
                        xs.append(xs[-1] + s_ * Fr(1, rng.choice([1, 2, 8])))
                flat = gen.degenerate(rng, n, L, gen.vals_q(rng, n * L, rng.choice(["int", "dyadic", "rational"])))
                if rng.random() < 0.2:
                    # very fine / very coarse axes (mean interval 2^-30 .. 2^-17 or 2^17 .. 2^30; exact at Q): prescribed second derivatives
                    # are in units of 1/x^2, prescribed first derivatives in 1/x (seed C03-r10m1: an axis rescaled inside the solve with the
                    # user's SecondDeriv value converted like a first derivative)
                    sc_ = Fr(2) ** (rng.choice([-1, 1]) * rng.randint(17, 30))
                    xs = [x * sc_ for x in xs]
                if l0 == "per":
                    bc, lanes = "per", "per"
                    flat[(n - 1) * L:] = flat[:L]
                else:
                    lane_conds = []
                    for j in range(L):
                        if j == 0:
                            lane_conds.append((with_val(rng, l0), with_val(rng, r0)))
                        else:
                            a, b = rng.choice(PAIRS)
                            lane_conds.append((with_val(rng, a), with_val(rng, b)))
                    if L >= 1 and l0 == r0 and l0 in ("nak", "nat", "cla") and rng.random() < 0.5:
                        bc, lanes = l0, [(l0, l0)] * L
                    else:
                        bc, lanes = ("ind", [1] + trailing, lane_conds), lane_conds
                qs = c02.sample_queries(xs, "Q")
                dtag, qtag = gen.pick_dims(rng, len(shape), 1)
                line = i1_line("Q", xs, shape, flat, ("spl", False, bc), e_array("Q", [len(qs)], qs, qtag=qtag), dtag=dtag,
                               dlay=rng.choice(gen.LAYS_ND))
                cases.append({"line": line, "meta": {"xs": xs, "shape": shape, "flat": flat, "bc": bc, "lanes": lanes, "qs": qs, "S": "Q"}})
    return cases


def nontrivial(case, res):
    return res.kind == "ok"


def end_residual(cond, side, cubs, xs):
    """exact residual of one end condition on the fitted end cubics"""
    n = len(xs)
    cond = {"nat": ("sd", Fr(0)), "cla": ("fd", Fr(0))}.get(cond, cond) if isinstance(cond, str) else cond
    if cond == "nak":
        a, b = (cubs[0], cubs[1]) if side == "l" else (cubs[n - 3], cubs[n - 2])
        return poly_eval(a, xs[0], 3) - poly_eval(b, xs[0], 3), "third derivative continuous across the first/last interior knot"
    x = xs[0] if side == "l" else xs[-1]
    c = cubs[0] if side == "l" else cubs[n - 2]
    if cond[0] == "fd":
        return poly_eval(c, x, 1) - cond[1], f"S'({x}) = {cond[1]}"
    return poly_eval(c, x, 2) - cond[1], f"S''({x}) = {cond[1]}"


def oracle(case, res):
    m = case["meta"]
    bad = c02.check_shape(m, res)
    if bad:
        return bad
    xs, n = m["xs"], len(m["xs"])
    L = gen.lanes_of(m["shape"])
    v = res.fractions()
    rows = gen.rows_of(m["shape"], m["flat"])
    for lane in range(L):
        val = lambda qi: v[qi * L + lane]
        cubs = []
        for i in range(n - 1):
            base = 5 * i
            cubs.append(poly_from_points([(m["qs"][base + k], val(base + k)) for k in range(4)]))
        ys = [rows[i][lane] for i in range(n)]
        if m["lanes"] == "per":
            for d in (1, 2):
                a, b = poly_eval(cubs[0], xs[0], d), poly_eval(cubs[n - 2], xs[-1], d)
                if a != b:
                    return f"lane {lane}: periodic spline must have equal derivative {d} at both ends: {a} vs {b}"
            ks = spline_ref.slopes(xs, ys, "per", "per")
        else:
            left, right = m["lanes"][lane]
            if n == 3 and left == "nak" and right == "nak":
                for c in cubs:
                    if poly_eval(c, xs[0], 3) != 0:
                        return f"lane {lane}: 3-point NotAKnot/NotAKnot must be the parabola through the points (cubic term {c[3]})"
            else:
                for side, cond in (("l", left), ("r", right)):
                    r, what = end_residual(cond, side, cubs, xs)
                    if r != 0:
                        return f"lane {lane}: end condition violated ({what}); residual {r}"
            ks = spline_ref.slopes(xs, ys, left, right)
        for qi, q in enumerate(m["qs"]):
            want = spline_ref.evaluate(xs, ys, ks, q)
            if val(qi) != want:
                return f"lane {lane}: S({q}) must equal the unique spline's value {want}, got {val(qi)}"
    return None


def extra(rng, tier):
    """long axes at f64 / f32 (seed C03-r8m1: a forward sweep evaluated as a scaled running sum whose scale — the product of the
    elimination multipliers, about 0.27^i — underflows after ~540 rows at f64 and ~70 at f32: every slope becomes NaN).  Exact
    arithmetic cannot show this and the exact families stop at 40 points, so: 600 / 1500 points at f64, 120 / 300 at f32, every
    boundary selection, queried on knots, between knots and next to both ends; the interpolant must be finite, pass through the
    data and meet a Natural / Clamped end condition (read off four equally spaced samples in the end interval)."""
    import math
    import vlib
    from gen import i1_line, e_array
    lines, metas = [], []
    for _ in range(gen.N(tier, 6, 40)):
        S = rng.choice(["F", "G"])
        rd = (lambda v: v) if S == "F" else vlib.f32_round
        n = rng.choice([600, 1500] if S == "F" else [120, 300])
        kind = rng.choice(["unit", "uneven"])
        xs, cur = [], rd(rng.uniform(-3, 3))
        for i in range(n):
            xs.append(cur)
            cur = rd(cur + (1.0 if kind == "unit" else rng.choice([0.25, 0.5, 1.0, 2.0])))
        ys = [rd(math.sin(0.37 * i) + 0.01 * rng.uniform(-1, 1)) for i in range(n)]
        bc = rng.choice(["nat", "cla", "nak", "per", ("ind", [1], [(rng.choice(["nat", "cla", "nak"]), rng.choice(["nat", "cla", ("fd", rd(0.5))]))])])
        if bc == "per":
            ys[-1] = ys[0]
        ks = sorted({0, 1, n - 2, n - 1} | {rng.randrange(n) for _ in range(8)})
        h0, h1 = xs[1] - xs[0], xs[-1] - xs[-2]
        qs = [xs[k] for k in ks] + [rd((xs[k] + xs[k + 1]) / 2) for k in ks if k + 1 < n]
        ends = [rd(xs[0] + h0 * j / 4) for j in range(4)] + [rd(xs[-1] - h1 * j / 4) for j in range(4)]
        lines.append(i1_line(S, xs, [n], ys, ("spl", False, bc), e_array(S, [len(qs) + 8], qs + ends)))
        metas.append((S, bc, [ys[k] for k in ks], len(qs), h0, h1))
    outs = vlib.run_impl_only(ID, lines, tag="long")
    fails = []
    for line, out, (S, bc, knots, nq, h0, h1) in zip(lines, outs, metas):
        r = vlib.Result(out)
        tol = 1e-9 if S == "F" else 2e-3
        if r.kind != "ok":
            fails.append({"line": line[:400], "impl": out[:200], "required": "in-range queries on a long axis must be answered"})
            continue
        v = r.floats()
        bad = None
        if any(not math.isfinite(x) for x in v):
            bad = f"every value on a long axis must be finite, got {[x for x in v if not math.isfinite(x)][:3]}"
        else:
            for g, y in zip(v, knots):
                if abs(g - y) > tol:
                    bad = f"the spline must pass through the data: {y}, got {g}"
                    break
            side = lambda b, i: b if isinstance(b, str) else (b[2][0][i] if isinstance(b[2][0][i], str) else b[2][0][i][0])
            for i, (smp, h) in enumerate(((v[nq:nq + 4], h0 / 4), (v[nq + 4:nq + 8], -h1 / 4))):
                c = side(bc, i)
                d1 = (-11 * smp[0] + 18 * smp[1] - 9 * smp[2] + 2 * smp[3]) / (6 * h)        # exact for a cubic
                d2 = (2 * smp[0] - 5 * smp[1] + 4 * smp[2] - smp[3]) / (h * h)
                if not bad and c == "cla" and abs(d1) > (1e-6 if S == "F" else 0.05):
                    bad = f"Clamped end {i}: S' must be 0, read off the samples: {d1}"
                if not bad and c == "nat" and abs(d2) > (1e-5 if S == "F" else 0.5):
                    bad = f"Natural end {i}: S'' must be 0, read off the samples: {d2}"
        if bad:
            fails.append({"line": line[:400], "impl": out[:200], "required": bad})
    return {"evaluations": len(lines), "failures": fails[:20], "hist": {"long_axis_float_splines": len(lines)}}
