"""C19 — the unchecked type cast of the 1-D fast path only ever relabels identical types."""
from fractions import Fraction as Fr

import gen
import vlib
from gen import i1_line, i2_line, e_array, e_ainto
from props import c04

ID = "C19"
LEAN_MODULES = ["NdInterp.Props.C19", "NdInterp.Props.C09"]
THEOREM_FILES = [("NdInterp/Props/C19.lean", "C19_"), ("NdInterp/Props/C09.lean", "C09_fast_eq_general")]
HARNESS_BINS = ["vharness_casts"]
RULE = ("finite, enumerated: `vharness_casts` instantiates the real crate (hooks on) for every data dimension type (Ix1..Ix6, IxDyn; 2-D: "
        "Ix2..Ix6, IxDyn) x element type (f64, f32, i32, i64) x storage (owned, view, shared) x (Interp1D, Interp2D) with an Ix1 query (standard layout and stride -1) "
        "(fast path) and for query types Ix0, Ix2, Ix3, IxDyn rank 1/2 (general path): the hook compares type_name/size/align of source "
        "and destination of every cast, the counter shows the fast path was taken exactly where expected, type_name of ndarray's actual "
        "`<Ix1 as DimAdd<D::Smaller>>::Output` is compared with `D`, fast vs general vs single-query results are compared bit for bit. "
        "Protocol cases: the same rank-1 query through static Ix1 (fast) and IxDyn (general) against the model, exact at Q.")
PARTIAL = ["undefined behaviour as such is not observable; the argument is type identity: theorem over the dimension-type table + "
           "guard/type-expression facts extracted from the source on every run + the hook's runtime type_name comparison"]
ASSUMPTIONS = ["Rust's TypeId equality implies type identity", "the translator's reading of the cast sites (its output is data the theorem checks)"]
EXHAUSTIVE = True


def generate(rng, tier):
    cases = []
    for _ in range(gen.N(tier, 60, 600)):
        S = rng.choice(["Q", "F"])
        if rng.random() < 0.5:
            n = rng.choice([2, 3, 5])
            shape = [n] + gen.trailing_shape(rng, 3)
            if S == "Q":
                xs = gen.axis_q(rng, n); flat = gen.vals_q(rng, gen.shape_size(shape)); qs = gen.queries_q(rng, xs, 4)
            else:
                xs = gen.axis_f(rng, n, "uniform"); flat = [rng.uniform(-3, 3) for _ in range(gen.shape_size(shape))]
                qs = [rng.uniform(xs[0], xs[-1]) for _ in range(4)]
            ql = rng.choice(["c", "rev", "s2", "rev"])      # the query array's memory layout (stride -1 is contiguous too)
            oob = rng.random() < 0.3
            if oob:
                # a failing call: two different rejected elements; fast and general path must stop at, and name, the same one
                span = xs[-1] - xs[0]
                qs = list(qs)
                qs[0], qs[2] = xs[-1] + span, xs[0] - span * 2
                if S == "F" and rng.random() < 0.5:
                    qs[rng.choice([0, 2])] = rng.choice([float("nan"), float("inf"), float("-inf")])
                if rng.random() < 0.5:
                    qs[0], qs[1] = qs[1], qs[0]
                if rng.random() < 0.3:
                    qs[0], qs[3] = qs[3], qs[0]     # the first element is fine, the rejected ones come later
                if S == "F" and rng.random() < 0.35:
                    # NaN is the only rejected element (seed C19-r5m2: a fast path that lets NaN query points through as NaN results)
                    qs = [rng.uniform(xs[0], xs[-1]) for _ in range(4)]
                    qs[rng.randrange(4)] = float("nan")
            # the caller's buffer in every memory layout (seed C19-r6m1: a "contiguous buffer" shortcut of the rank-1 fast path cuts the
            # memory-order slice into rows: wrong for F-order, permuted and negative-stride views)
            bl_ok = rng.choice(["w", "c", "f", "rev", "neg", "perm", "s2", "revl"])
            for qtag in ("sta", "dyn"):
                for ent in ("array", "ainto"):
                    e = e_array(S, [len(qs)], qs, qtag=qtag, lay=ql) if ent == "array" else e_ainto(S, [len(qs)], [len(qs)] + shape[1:], qs, qtag=qtag, lay=ql, blay=bl_ok)
                    cases.append({"line": i1_line(S, xs, shape, flat, ("lin", False), e, dtag=rng.choice(["sta", "dyn"])), "meta": {"oob": oob}})
            bad = rng.choice([[len(qs) + 1] + shape[1:], [len(qs) - 1] + shape[1:], [len(qs)] + shape[1:] + [1],
                              [len(qs)] + [d + 1 for d in shape[1:]] if shape[1:] else [len(qs), 1]])
            bl = rng.choice(["c", "w", "f"])
            for qtag in ("sta", "dyn"):
                cases.append({"line": i1_line(S, xs, shape, flat, ("lin", False), e_ainto(S, [len(qs)], bad, qs, qtag=qtag, lay=ql, blay=bl),
                                              dtag="dyn"), "meta": {"badbuf": True}})
        else:
            shape, _, _, xs, ys, flat = c04.gen_grid(rng, S)
            qx, qy = c04.queries2(rng, xs, ys, 4, S)
            if not qx:
                continue
            ql = rng.choice(["c", "rev", "s2", "rev"])
            oob = len(qx) >= 3 and rng.random() < 0.35
            if oob:
                # failing call: an early element rejected on y, a later one on x (x is tested before y *per element*)
                qx, qy = list(qx), list(qy)
                qy[0] = ys[-1] + (ys[-1] - ys[0])
                qx[2] = xs[0] - (xs[-1] - xs[0]) * 2
                if S == "F" and rng.random() < 0.5:
                    if rng.random() < 0.5:
                        qy[0] = float("nan")
                    else:
                        qx[2] = rng.choice([float("nan"), float("inf")])
                if rng.random() < 0.4:
                    qx[0], qx[1] = qx[1], qx[0]; qy[0], qy[1] = qy[1], qy[0]   # a good first element, rejected ones later
                if S == "F" and rng.random() < 0.35:
                    qx = [rng.uniform(xs[0], xs[-1]) for _ in qx]; qy = [rng.uniform(ys[0], ys[-1]) for _ in qy]
                    (qx if rng.random() < 0.5 else qy)[rng.randrange(len(qx))] = float("nan")      # NaN is the only rejected element
            bl_ok2 = rng.choice(["w", "c", "f", "rev", "neg", "perm", "s2", "revl"])
            for qtag in ("sta", "dyn"):
                cases.append({"line": i2_line(S, xs, ys, shape, flat, False, e_array(S, [len(qx)], qx, qy, qtag=qtag, lay=ql),
                                              dtag=rng.choice(["sta", "dyn"])), "meta": {"oob": oob}})
                cases.append({"line": i2_line(S, xs, ys, shape, flat, False,
                                              e_ainto(S, [len(qx)], [len(qx)] + shape[2:], qx, qy, qtag=qtag, lay=ql, blay=bl_ok2),
                                              dtag=rng.choice(["sta", "dyn"])), "meta": {"oob": oob}})
            # caller's buffer of the wrong shape (one query row too many / too few, wrong trailing axis): both paths must reject it
            bad = rng.choice([[len(qx) + 1] + shape[2:], [max(len(qx) - 1, 0)] + shape[2:], [len(qx)] + shape[2:] + [1],
                              [len(qx)] + [d + 1 for d in shape[2:]] if shape[2:] else [len(qx), 1]])
            bl = rng.choice(["c", "w", "f"])
            for qtag in ("sta", "dyn"):
                cases.append({"line": i2_line(S, xs, ys, shape, flat, False, e_ainto(S, [len(qx)], bad, qx, qy, qtag=qtag, lay=ql, blay=bl),
                                              dtag="dyn"), "meta": {"badbuf": True}})
    # long batches (seed C19-r8m1: a fast path that looks the interval indices of 32 queries up in one block — with the index of the *raw*
    # query where a periodic, extrapolating spline evaluates at the wrapped position): 33 .. 70 queries, in and out of range, every strategy
    for _ in range(gen.N(tier, 24, 240)):
        n = rng.choice([4, 5, 7])
        xs = gen.axis_f(rng, n, rng.choice(["uniform", "random"]))
        trailing = rng.choice([[], [], [2]])
        L = gen.shape_size(trailing)
        flat = [rng.uniform(-3, 3) for _ in range(n * L)]
        strat = rng.choice([("spl", True, "per"), ("spl", True, "per"), ("spl", True, "nak"), ("lin", True), ("spl", False, "nat")])
        if strat[0] == "spl" and strat[2] == "per":
            flat[(n - 1) * L:] = flat[:L]
        nq = rng.choice([33, 40, 64, 70])
        span = xs[-1] - xs[0]
        qs = [rng.uniform(xs[0], xs[-1]) for _ in range(nq)]
        if strat[1]:
            for _ in range(rng.randint(1, 6)):
                qs[rng.randrange(nq)] = xs[0] + span * rng.uniform(-4, 5)
        ql = rng.choice(["c", "rev", "s2"])
        for qtag in ("sta", "dyn"):
            cases.append({"line": i1_line("F", xs, [n] + trailing, flat, strat, e_array("F", [nq], qs, qtag=qtag, lay=ql), dtag=rng.choice(["sta", "dyn"])),
                          "meta": {"oob": False}})
    # signed zeros (seed C19-r7m1: a fast path that copies the previous result row when the next query compares equal to the previous
    # one — +0.0 == -0.0, but the two queries give results that differ in the sign of a zero): a knot at exactly 0, samples -0.0 / 0.0 there,
    # neighbouring queries 0.0, -0.0 in both orders, and plain repeated queries
    for _ in range(gen.N(tier, 30, 300)):
        n = rng.choice([2, 3, 4])
        k0 = rng.randrange(n)
        h = rng.choice([1.0, 0.5, 3.0])
        xs = [(i - k0) * h for i in range(n)]
        trailing = rng.choice([[], [], [2]])
        L = gen.shape_size(trailing)
        flat = [rng.choice([-0.0, 0.0, 1.5, -2.0]) for _ in range(n * L)]
        for l in range(L):
            flat[k0 * L + l] = rng.choice([-0.0, -0.0, 0.0])
        qs = rng.choice([[0.0, -0.0], [-0.0, 0.0], [0.0, -0.0, 0.0, 0.0], [xs[0], xs[0], -0.0, 0.0], [-0.0, -0.0, 0.0]])
        qs = [q for q in qs if xs[0] <= q <= xs[-1]]
        if len(qs) < 2:
            continue
        two = rng.random() < 0.3
        for qtag in ("sta", "dyn"):
            if not two:
                cases.append({"line": i1_line("F", None if (k0 == 0 and h == 1.0 and rng.random() < 0.5) else xs, [n] + trailing, flat, ("lin", False),
                                              e_array("F", [len(qs)], qs, qtag=qtag), dtag="dyn"), "meta": {"oob": False}})
            else:
                ya = [0.0, 1.0]
                cases.append({"line": i2_line("F", xs, ya, [n, 2] + trailing, [flat[i * L + l] for i in range(n) for _ in range(2) for l in range(L)],
                                              False, e_array("F", [len(qs)], qs, [0.0] * len(qs), qtag=qtag), dtag="dyn"), "meta": {"oob": False}})
    return cases


def nontrivial(case, res):
    return res.kind in ("ok", "panic", "oob")


def oracle(case, res):
    if case["meta"].get("badbuf"):
        return None if res.kind in ("panic", "bad-op") or "inexpressible" in res.raw else f"a buffer of the wrong shape must be rejected on the fast path and on the general path alike, got {res.raw[:80]}"
    if case["meta"].get("oob"):
        return None if res.kind == "oob" else f"a batch with rejected elements must return OutOfBounds, got {res.raw[:80]}"
    return None if res.kind == "ok" else f"in-range batch must be answered, got {res.raw[:80]}"


def want_ty(d, smaller):
    if d == "IxDyn":
        return "ndarray::dimension::dim::Dim<ndarray::dimension::dynindeximpl::IxDynImpl>"
    n = int(d[2:]) - (1 if smaller else 0)
    return f"ndarray::dimension::dim::Dim<[usize;{n}]>"


def extra(rng, tier):
    out = vlib.run_sub(["casts"])
    fails, n, fast = [], 0, 0
    # protocol pairs: the same rank-1 query as static Ix1 (fast path) and as IxDyn (general path) must give the same answer,
    # error answers (which rejected element is named) included
    import random
    cs = generate(random.Random(rng.random()), tier)
    ls = [c["line"] for c in cs]
    outs = vlib.run_impl_only(ID, ls, tag="pairs")
    by = {}
    for l, o in zip(ls, outs):
        by.setdefault(l.replace(" array sta ", " array Q ").replace(" array dyn ", " array Q ").replace(" ainto sta ", " ainto Q ").replace(" ainto dyn ", " ainto Q "), []).append((l, o))
    for key, v in by.items():
        if len(v) >= 2 and len({o for _, o in v}) != 1:
            fails.append({"line": v[0][0], "impl": " | ".join(o[:100] for _, o in v),
                          "required": "fast path (static Ix1 query) and general path (IxDyn query) must return identical answers"})
    summary = None
    for l in out:
        if l.startswith("cast "):
            n += 1
            kv = dict(t.split("=", 1) for t in l.split()[1:] if "=" in t)
            if kv.get("Dq") in ("Ix1", "Ix1rev"):
                fast += 1
                w = want_ty(kv["D"], kv["interp"] == "2d")
                if kv.get("out_ty") != w or kv.get("want_ty") != w:
                    fails.append({"line": l, "impl": l, "required": f"the DimAdd output type must be {w} (table of C19_table)"})
        elif l.startswith("FAIL") or l.startswith("MISMATCH"):
            fails.append({"line": l, "impl": l, "required": "cast_unchecked must relabel identical types; fast path == general path bit for bit"})
        elif l.startswith("SUMMARY"):
            summary = l
    if summary is None or n < 200:
        fails.append({"line": "vharness_casts", "impl": str(summary), "required": "the enumeration must complete (>= 200 instantiations)"})
    # most informative first: recorded cast mismatches / disagreeing instantiations, then protocol pairs, then "did not complete"
    rank = lambda f: 0 if f["impl"].startswith(("MISMATCH", "FAIL cast")) else (2 if "must complete" in f["required"] or "process-died" in f["impl"] else 1)
    for f in fails:
        f["rank"] = rank(f)
    fails.sort(key=rank)
    return {"nontrivial": n, "evaluations": n, "failures": fails, "hist": {"instantiations": n, "fast_path_instantiations": fast},
            "notes": [summary or "no summary"]}
