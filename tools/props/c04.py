"""C04 — Bilinear 2-D interpolation returns the exact bilinear blend of the cell."""
import math
from fractions import Fraction as Fr

import gen
import vlib
from gen import i2_line, e_scalar, e_single, e_array, e_ainto, e_into
from vlib import lin_bracket, Result

ID = "C04"
LEAN_MODULES = ["NdInterp.Props.C04Fl", "NdInterp.Props.C04", "NdInterp.Props.RatTie", "NdInterp.Props.FormulaTie.Lin", "NdInterp.Props.FormulaTie.Bil", "NdInterp.Props.FormulaTie.Rng", "NdInterp.Props.FormulaTie.Ctl"]
THEOREM_FILES = [("NdInterp/Props/C04Fl.lean", "C04_"), ("NdInterp/Props/C04.lean", "C04_"), ("NdInterp/Props/FormulaTie/Lin.lean", "FT_lin_calc_frac"), ("NdInterp/Props/FormulaTie/Bil.lean", "FT_bil_"), ("NdInterp/Props/FormulaTie/Lin.lean", "FT_idx_"), ("NdInterp/Props/FormulaTie/Rng.lean", "FT_rng_"), ("NdInterp/Props/FormulaTie/Ctl.lean", "FT_ctl_")]
RULE = ("Bilinear (no extrapolation) at Q, exact: grids 2x2..12x9 incl. non-square, all axis kinds, 0..2 trailing axes "
        "(data rank 2..4, static and dynamic, all layouts), default / explicit axes, every entry point; queries at nodes, on "
        "grid lines, on cell borders, random. f64 runs against the exact blend with 3x the proved calc_frac bound. "
        "extra: transposition metamorphic test at Q (exact equality). non-trivial = a query strictly inside a cell")
PARTIAL = ["rounding is proved under the standard model of fp arithmetic only (C04_rounding: (2B+B^2)*max|z|, B = 13u+12u^2, three nested "
           "calc_frac; the tolerance of the float runs, 3B(1+4B)*max|z|, is implied: C04_rounding_check_bound); overflow/underflow excluded"]
ASSUMPTIONS = ["standard model of floating-point arithmetic for the rounding bound", "axis lengths < 2^64"]
U = Fr(1, 2 ** 53)
B1 = 13 * U + 12 * U * U
BOUND = 3 * B1 * (1 + 4 * B1)
U32 = Fr(1, 2 ** 24)
B32 = 13 * U32 + 12 * U32 * U32
BOUND32 = 3 * B32 * (1 + 4 * B32)


def blend(xs, ys, grid, x, y):
    """exact bilinear form of the cell of (x, y) (extrapolating with the border cell); grid[i][j] = lane list"""
    i, j = lin_bracket(xs, x), lin_bracket(ys, y)
    s = Fr(x - xs[i]) / Fr(xs[i + 1] - xs[i])
    t = Fr(y - ys[j]) / Fr(ys[j + 1] - ys[j])
    out = []
    for l in range(len(grid[i][j])):
        z11, z12, z21, z22 = grid[i][j][l], grid[i][j + 1][l], grid[i + 1][j][l], grid[i + 1][j + 1][l]
        out.append(z11 * (1 - s) * (1 - t) + z21 * s * (1 - t) + z12 * (1 - s) * t + z22 * s * t)
    return (i, j), out


def grid_of(shape, flat):
    L = gen.lanes_of(shape, 2)
    nx, ny = shape[0], shape[1]
    return [[flat[(i * ny + j) * L:(i * ny + j + 1) * L] for j in range(ny)] for i in range(nx)]


def queries2(rng, xs, ys, count, S, ext=False):
    if S == "Q":
        qx = gen.queries_q(rng, xs, count, ext=ext)
        qy = gen.queries_q(rng, ys, count, ext=ext)
    else:
        qx = [q for q in gen.queries_f(rng, xs, count * 2, special=False) if ext or xs[0] <= q <= xs[-1]][:count]
        qy = [q for q in gen.queries_f(rng, ys, count * 2, special=False) if ext or ys[0] <= q <= ys[-1]][:count]
    k = min(len(qx), len(qy))
    qx, qy = qx[:k], qy[:k]
    rng.shuffle(qy)
    return qx, qy


def gen_grid(rng, S, deep=False):
    nx = rng.choice([2, 2, 3, 4, 5, 12])
    ny = rng.choice([2, 3, 3, 5, 9])
    trailing = gen.trailing_shape(rng, 2)
    if deep and rng.random() < 0.06:
        # data of 7 .. 9 dimensions (only dynamic-dimensional arrays go that far; seed C04-r11m1: per-rank kernels for the lanes with a
        # fallback arm for lane rank >= 5 that takes the corners in another order)
        trailing = rng.choice([[2, 1, 2, 1, 2], [1, 2, 2, 1, 1, 2], [2, 2, 1, 1, 2, 1], [2, 1, 1, 1, 1, 1, 2], [1, 1, 2, 1, 3]])
        nx, ny = min(nx, 4), min(ny, 3)
    shape = [nx, ny] + trailing
    defx, defy = rng.random() < 0.3, rng.random() < 0.3
    if S == "Q":
        xs = [Fr(i) for i in range(nx)] if defx else gen.axis_q(rng, nx)
        ys = [Fr(i) for i in range(ny)] if defy else gen.axis_q(rng, ny)
        flat = gen.vals_q(rng, gen.shape_size(shape))
    else:
        xs = [float(i) for i in range(nx)] if defx else gen.axis_f(rng, nx, rng.choice(["uniform", "geometric", "random", "ulps", "evenish", "even", "indexlike"]))
        ys = [float(i) for i in range(ny)] if defy else gen.axis_f(rng, ny, rng.choice(["uniform", "geometric", "random", "log", "evenish", "indexlike"]))
        flat = [rng.uniform(-1, 1) * 10.0 ** rng.randint(-3, 5) for _ in range(gen.shape_size(shape))]
        if not defx and not defy and rng.random() < 0.2:
            # data and both axes in extreme units of the same direction (seed C04-r5m1: a rise multiplied by the offset before the
            # division by the run leaves the number range; every quantity of the problem and of the result stays well inside it)
            sg = rng.choice([1, -1])
            kx, ky, kz = (2.0 ** (sg * rng.randint(520, 900)) for _ in range(3))
            xs, ys, flat = [x * kx for x in xs], [y * ky for y in ys], [v * kz for v in flat]
    flat = gen.structured_grid(rng, nx, ny, gen.lanes_of(shape, 2), flat)
    return shape, defx, defy, xs, ys, flat


def build_line(rng, S, shape, defx, defy, xs, ys, flat, qx, qy, ext):
    r = len(shape)
    ent = rng.choice(["array", "array", "ainto", "single", "into", "scalar"])
    if ent == "scalar" and r != 2:
        ent = "array"
    meta = {"xs": xs, "ys": ys, "shape": shape, "flat": flat, "ext": ext, "entry": ent}
    dlay = rng.choice(gen.LAYS_ND)
    xl, yl = rng.choice(gen.LAYS_1D), rng.choice(gen.LAYS_1D)
    if ent in ("scalar", "single", "into"):
        meta["qx"], meta["qy"], meta["qshape"] = qx[:1], qy[:1], []
        dtag = "sta" if ent == "scalar" else gen.pick_dims(rng, r)[0]
        e = {"scalar": lambda: e_scalar(S, qx[0], qy[0]), "single": lambda: e_single(S, qx[0], qy[0]),
             "into": lambda: e_into(S, [qx[0], qy[0]], shape[2:], rng.choice(gen.LAYS_ND))}[ent]()
    else:
        qshape = gen.query_shape(rng, len(qx))
        lx, ly = gen.fill_shape(rng, qshape, qx, qy) if len(qshape) != 1 else (qx, qy)
        dtag, qtag = gen.pick_dims(rng, r, len(qshape))
        meta["qx"], meta["qy"], meta["qshape"] = lx, ly, qshape
        ql = rng.choice(gen.LAYS_ND)
        if ent == "array":
            e = e_array(S, qshape, lx, ly, qtag=qtag, lay=ql)
        else:
            e = e_ainto(S, qshape, qshape + shape[2:], lx, ly, qtag=qtag, lay=ql, blay=rng.choice(gen.LAYS_ND))
    line = i2_line(S, None if defx else xs, None if defy else ys, shape, flat, ext, e, dtag=dtag, xlay=xl, ylay=yl, dlay=dlay)
    return {"line": line, "meta": meta}


def generate(rng, tier):
    cases = []
    nq = gen.N(tier, 400, 10000)
    nf = gen.N(tier, 250, 5000)
    for S, cnt in (("Q", nq), ("F", nf)):
        for _ in range(cnt):
            shape, defx, defy, xs, ys, flat = gen_grid(rng, S, deep=True)
            qx, qy = queries2(rng, xs, ys, rng.randint(2, 8), S)
            cases.append(build_line(rng, S, shape, defx, defy, xs, ys, flat, qx, qy, False))
    # f32 elements: every value an f32; model at IEEE binary32 (bit for bit), held to the composed bound with u = 2^-24
    from props import c01
    import vlib
    for _ in range(gen.N(tier, 100, 2500)):
        gx, gy = c01.gen_case_g(rng), c01.gen_case_g(rng)
        if not gx or not gy:
            continue
        xs, ys = gx[2][:rng.choice([2, 3, 5, 12])], gy[2][:rng.choice([2, 3, 4, 9])]
        if len(xs) < 2 or len(ys) < 2:
            continue
        shape = [len(xs), len(ys)] + gen.trailing_shape(rng, 1)
        flat = [vlib.f32_round(rng.uniform(-1, 1) * 10.0 ** rng.randint(-3, 5)) for _ in range(gen.shape_size(shape))]
        qx = [q for q in gx[4] if xs[0] <= q <= xs[-1]][:6]
        qy = [q for q in gy[4] if ys[0] <= q <= ys[-1]][:6]
        k = min(len(qx), len(qy))
        if k == 0:
            continue
        rng.shuffle(qy)
        cases.append(build_line(rng, "G", shape, False, False, xs, ys, flat, qx[:k], qy[:k], False))
    # i32 elements
    for _ in range(gen.N(tier, 30, 600)):
        nx, ny = rng.choice([2, 3, 4, 7]), rng.choice([2, 3, 5])
        shape = [nx, ny] + gen.trailing_shape(rng, 1)
        xs = gen.axis_i(rng, nx, rng.choice(["unit", "uniform", "random", "gappy", "small"]))
        ys = gen.axis_i(rng, ny, rng.choice(["unit", "uniform", "random", "gappy", "small"]))
        flat = [rng.randint(-1000, 1000) for _ in range(gen.shape_size(shape))]
        k = rng.randint(2, 6)
        qx = [rng.choice(gen.queries_i(rng, xs, 8)) for _ in range(k)]
        qy = [rng.choice(gen.queries_i(rng, ys, 8)) for _ in range(k)]
        c = build_line(rng, "J", shape, False, False, xs, ys, flat, qx, qy, False)
        c["meta"]["int"] = True
        cases.append(c)
    # i64 elements: judged by the model correspondence only (integer division is not the real-number statement)
    for _ in range(gen.N(tier, 50, 1200)):
        nx, ny = rng.choice([2, 3, 4, 7]), rng.choice([2, 3, 5])
        shape = [nx, ny] + gen.trailing_shape(rng, 1)
        xs = gen.axis_i(rng, nx, rng.choice(["unit", "uniform", "random", "gappy", "small"]))
        ys = gen.axis_i(rng, ny, rng.choice(["unit", "uniform", "random", "gappy", "small"]))
        flat = [rng.randint(-1000, 1000) for _ in range(gen.shape_size(shape))]
        k = rng.randint(2, 6)
        qx = [rng.choice(gen.queries_i(rng, xs, 8)) for _ in range(k)]
        qy = [rng.choice(gen.queries_i(rng, ys, 8)) for _ in range(k)]
        c = build_line(rng, "I", shape, False, False, xs, ys, flat, qx, qy, False)
        c["meta"]["int"] = True
        cases.append(c)
    return cases


def nontrivial(case, res):
    m = case["meta"]
    return any(x not in m["xs"] and y not in m["ys"] for x, y in zip(m["qx"], m["qy"]))


def oracle(case, res, ext=False):
    m = case["meta"]
    if res.kind != "ok":
        return f"query must be answered, got {res.raw}"
    if res.extra:
        return f"buffer accounting: {res.extra}"
    want_shape = m["qshape"] + m["shape"][2:] if m["entry"] != "scalar" else []
    if res.shape != want_shape:
        return f"result shape must be {want_shape}, got {res.shape}"
    if m.get("int"):
        return None
    xs, ys = [Fr(v) for v in m["xs"]], [Fr(v) for v in m["ys"]]
    grid = grid_of(m["shape"], [Fr(v) for v in m["flat"]])
    exact, cells = [], []
    for x, y in zip(m["qx"], m["qy"]):
        c, v = blend(xs, ys, grid, Fr(x), Fr(y))
        exact += v
        cells.append(c)
    if case["line"].startswith("Q "):
        got = res.fractions()
        if got != exact:
            k = next(i for i, (a, b) in enumerate(zip(got, exact)) if a != b)
            return f"value #{k} must be the exact bilinear blend {exact[k]}, got {got[k]}"
        return None
    got = res.floats()
    L = gen.lanes_of(m["shape"], 2)
    bound_ = BOUND32 if case["line"].startswith("G ") else BOUND
    for k, (g, e) in enumerate(zip(got, exact)):
        qi, lane = divmod(k, L) if L else (0, 0)
        i, j = cells[qi]
        M = max(abs(grid[a][b][lane]) for a in (i, i + 1) for b in (j, j + 1))
        if not math.isfinite(g) or abs(Fr(g) - e) > bound_ * M:
            return f"value #{k}: computed {g} vs exact {float(e)} exceeds the bound {float(bound_ * M):.3e}"
    return None


def extra(rng, tier):
    """transposition: data^T with swapped axes and coordinates gives exactly the same values at Q"""
    pairs = []
    for _ in range(gen.N(tier, 60, 1500)):
        shape, defx, defy, xs, ys, flat = gen_grid(rng, "Q")
        nx, ny = shape[0], shape[1]
        L = gen.lanes_of(shape, 2)
        g = grid_of(shape, flat)
        flatT = [v for j in range(ny) for i in range(nx) for v in g[i][j]]
        shapeT = [ny, nx] + shape[2:]
        qx, qy = queries2(rng, xs, ys, 5, "Q")
        a = i2_line("Q", xs, ys, shape, flat, False, e_array("Q", [len(qx)], qx, qy))
        b = i2_line("Q", ys, xs, shapeT, flatT, False, e_array("Q", [len(qx)], qy, qx))
        pairs.append((a, b))
    outs = vlib.run_impl_only(ID, [l for p in pairs for l in p], tag="transpose")
    fails = []
    for k, (a, b) in enumerate(pairs):
        ra, rb = outs[2 * k], outs[2 * k + 1]
        if ra != rb or not ra.startswith("ok"):
            fails.append({"line": a, "impl": ra, "required": f"transposed problem `{b}` must give identical values, got {rb}"})
    return {"evaluations": len(outs), "failures": fails, "hist": {"transpose_pairs": len(pairs)}}
