"""C18 — custom strategies get validated inputs, correct targets, faithful accessors."""
import gen
import vlib

ID = "C18"
LEAN_MODULES = ["NdInterp.Props.C18", "NdInterp.Props.FormulaTie.Ctl"]
THEOREM_FILES = [("NdInterp/Props/C18.lean", "C18_"), ("NdInterp/Props/FormulaTie/Ctl.lean", "FT_ctl_")]
HARNESS_BINS = ["vharness_custom"]
RULE = ("`vharness_custom <seed> <n>`: recording / failing user strategies (declared minimum 0..4) for Interp1D and Interp2D over static and "
        "dynamic data dims; valid and invalid builder inputs (tie, swap, NaN, decreasing, wrong length +-1, single element, too few points, "
        "missing axis); every entry point incl. the rank-1 fast path, query ranks 0..3; failure injected at every call index of a batch. "
        "Oracle (in the harness): strategy.build invoked iff the inputs are valid, exactly once, with the unmodified axis/axes and data; "
        "recorded interp_into calls = the query elements in logical order, bit for bit, stopping after the failing call; target shape = data "
        "shape minus the interpolated axes; index_point / is_in_range / get_index_left_of checked inside the strategy; errors reach the "
        "caller with the same variant and message. non-trivial = every case")
PARTIAL = ["the target shape handed to a custom strategy is not part of the Lean model (rows are lists): checked by the harness only"]
ASSUMPTIONS = []


def generate(rng, tier):
    return []


def nontrivial(case, res):
    return True


def oracle(case, res):
    return None


def extra(rng, tier):
    n = gen.N(tier, 400, 20000)
    seed = rng.randint(1, 2 ** 31)
    out = vlib.run_sub(["custom", seed, n])
    fails, summary, hist = [], None, {}
    for l in out:
        if l.startswith("FAIL"):
            fails.append({"line": f"vharness_custom {seed} {n}", "impl": l[:800],
                          "required": "custom strategies must only see validated, unmodified inputs, one call per query element in order, errors passed through"})
        elif l.startswith("SUMMARY"):
            summary = l
        elif l.startswith("HIST"):
            hist = {k: int(v) for k, v in (t.split("=", 1) for t in l.split()[1:])}
    if summary is None:
        fails.append({"line": f"vharness_custom {seed} {n}", "impl": "no SUMMARY", "required": "the run must complete"})
    return {"nontrivial": n, "evaluations": n, "failures": fails[:20], "hist": hist, "notes": [summary or "", f"seed={seed}"]}
