"""C16 — polynomials of the strategy's degree are reproduced exactly."""
from fractions import Fraction as Fr

import gen
from gen import i1_line, i2_line, e_array
from vlib import poly_eval

ID = "C16"
LEAN_MODULES = ["NdInterp.Props.C16", "NdInterp.Props.RatTie", "NdInterp.Props.IntTie", "NdInterp.Props.FormulaTie.Lin", "NdInterp.Props.FormulaTie.Bil", "NdInterp.Props.FormulaTie.SplSys", "NdInterp.Props.FormulaTie.SplEval", "NdInterp.Props.FormulaTie.TabSpec", "NdInterp.Props.FormulaTie.Ctl"]
THEOREM_FILES = [("NdInterp/Props/C16.lean", "C16_"), ("NdInterp/Props/IntTie.lean", "C16_"), ("NdInterp/Props/FormulaTie/Lin.lean", "FT_lin_"), ("NdInterp/Props/FormulaTie/Bil.lean", "FT_bil_"), ("NdInterp/Props/FormulaTie/SplSys.lean", "FT_spl_"), ("NdInterp/Props/FormulaTie/SplEval.lean", "FT_spl_"), ("NdInterp/Props/FormulaTie/TabSpec.lean", "FT_tab_"), ("NdInterp/Props/FormulaTie/Ctl.lean", "FT_ctl_")]
RULE = ("exact at Q: random polynomials with dyadic coefficients, all axis kinds, n from the strategy's minimum upwards, lanes holding "
        "different polynomials, dense in-range and extrapolated queries (up to 3 spans outside). Linear/affine, Bilinear/bilinear, "
        "NotAKnot/cubic (n>=4) and parabola (n=3), Natural/lines, Mixed with FirstDeriv p'(end) / SecondDeriv p''(end) / NotAKnot per "
        "lane and side / cubic. Oracle: every returned value equals p(q) exactly. corpus: the D1 witness. non-trivial = polynomial of "
        "full degree for the strategy")
PARTIAL = ["'up to rounding' for f64 is covered by the closeness test of C02/C01; reproduction itself is proved and checked exactly"]
ASSUMPTIONS = ["axis length < 2^64"]


def rpoly(rng, deg):
    c = [Fr(rng.randint(-16, 16), rng.choice([1, 2, 4, 8])) for _ in range(deg + 1)]
    if c[-1] == 0:
        c[-1] = Fr(1, 2)
    return c


def dense(rng, xs, ext):
    qs = gen.queries_q(rng, xs, 6, ext=False)
    span = xs[-1] - xs[0]
    if ext:
        qs += [xs[0] - span * Fr(k, 7) for k in (1, 9, 21)] + [xs[-1] + span * Fr(k, 5) for k in (1, 6, 15)]
    return qs


def generate(rng, tier):
    cases = []
    for _ in range(gen.N(tier, 260, 6000)):
        kind = rng.choice(["lin", "bil", "nak", "nak", "nat", "mix", "mix", "par"])
        ext = rng.random() < 0.6
        if kind == "bil":
            nx, ny = rng.choice([2, 3, 5]), rng.choice([2, 4])
            trailing = gen.trailing_shape(rng, 1)
            L = gen.shape_size(trailing)
            xs, ys = gen.axis_q(rng, nx), gen.axis_q(rng, ny)
            coef = [[Fr(rng.randint(-8, 8), rng.choice([1, 2, 4])) for _ in range(4)] for _ in range(L)]
            f = lambda c, x, y: c[0] + c[1] * x + c[2] * y + c[3] * x * y
            flat = [f(coef[l], x, y) for x in xs for y in ys for l in range(L)]
            qx, qy = dense(rng, xs, ext), dense(rng, ys, ext)
            k = min(len(qx), len(qy)); qx, qy = qx[:k], qy[:k]; rng.shuffle(qy)
            want = [f(coef[l], x, y) for x, y in zip(qx, qy) for l in range(L)]
            line = i2_line("Q", xs, ys, [nx, ny] + trailing, flat, ext, e_array("Q", [k], qx, qy), dlay=rng.choice(gen.LAYS_ND))
            cases.append({"line": line, "meta": {"want": want, "full": all(c[3] != 0 for c in coef)}})
            continue
        trailing = gen.trailing_shape(rng, 1)
        rowwise = False
        if kind == "mix" and rng.random() < 0.4:
            # 3-D data whose polynomial (and hence per-lane boundary values) depends on the first trailing index only: the
            # boundary array is constant along its last axis but not along the one before
            trailing = rng.choice([[2, 2], [3, 2], [2, 1], [2, 3]])
            rowwise = True
        L = gen.shape_size(trailing)
        deg = {"lin": 1, "nat": 1, "par": 2}.get(kind, 3)
        nmin = {"lin": 2, "par": 3, "nak": 4}.get(kind, 3)
        n = 3 if kind == "par" else rng.choice([nmin, nmin, nmin + 1, nmin + 3, 9])
        if not rowwise and n <= 9 and rng.random() < 0.15:
            trailing = rng.choice([[n], [n - 1], [2, n - 1]])        # a last axis as long as the x axis or the number of intervals
            L = gen.shape_size(trailing)
        xs = gen.axis_q(rng, n, rng.choice(["uniform", "geometric", "random", "dyadic", "mesh64", "clustered", "evenish", "nearly_even", "nearly_even", "indexlike"]))
        polys = [rpoly(rng, deg) for _ in range(L)]
        if rowwise:
            per_row = [rpoly(rng, deg) for _ in range(trailing[0])]
            polys = [per_row[l // trailing[1]] for l in range(L)]
        flat = [poly_eval(polys[l], x) for x in xs for l in range(L)]
        if kind == "lin":
            strat = ("lin", ext)
        elif kind in ("nak", "par"):
            strat = ("spl", ext, "nak")
            if rng.random() < 0.5:
                # the same condition spelled per lane: the named NotAKnot row, or the explicit pair Mixed{NotAKnot, NotAKnot} (seed C16-r7m1:
                # the 3-point parabola case keyed on the named variant only; the general rows are singular for three points)
                strat = ("spl", ext, ("ind", [1] + trailing, [rng.choice([("nak", "nak"), ("nak", "nak"), "nak"]) for _ in range(L)]))
        elif kind == "nat":
            strat = ("spl", ext, "nat")
            if rng.random() < 0.5:
                # the same condition spelled per lane and per side (Mixed{Natural, Natural}), or with an explicit zero second derivative
                sp = rng.choice([("nat", "nat"), (("sd", Fr(0)), "nat"), ("nat", ("sd", Fr(0)))])
                strat = ("spl", ext, ("ind", [1] + trailing, [sp] * L))
        else:
            rbs = []
            row_kinds = {}
            for l in range(L):
                key = l // trailing[1] if rowwise else l
                if key not in row_kinds:
                    row_kinds[key] = (rng.choice(["nak", "fd", "sd"]), rng.choice(["nak", "fd", "sd"]))
                def side(x, c):
                    return c if c == "nak" else (c, poly_eval(polys[l], x, 1 if c == "fd" else 2))
                rbs.append((side(xs[0], row_kinds[key][0]), side(xs[-1], row_kinds[key][1])))
            if n == 3:
                # avoid the 3-point NotAKnot/NotAKnot parabola special case for cubic data
                rbs = [(("fd", poly_eval(polys[l], xs[0], 1)), r) if (lft == "nak" and r == "nak") else (lft, r)
                       for l, (lft, r) in enumerate(rbs)]
            strat = ("spl", ext, ("ind", [1] + trailing, rbs))
        qs = dense(rng, xs, ext)
        want = [poly_eval(polys[l], q) for q in qs for l in range(L)]
        dtag, qtag = gen.pick_dims(rng, 1 + len(trailing), 1)
        # a third of the cases through interp_array_into: the caller's buffer holds old contents (the runner pre-fills it), which must
        # not leak into the result (seed C16-r8m1: a spline evaluation that accumulates into its target)
        ent = e_array("Q", [len(qs)], qs, qtag=qtag) if rng.random() < 0.67 else \
            gen.e_ainto("Q", [len(qs)], [len(qs)] + trailing, qs, qtag=qtag, blay=rng.choice(gen.LAYS_ND))
        line = i1_line("Q", xs, [n] + trailing, flat, strat, ent, dtag=dtag, dlay=rng.choice(gen.LAYS_ND))
        cases.append({"line": line, "meta": {"want": want, "full": True}})
    # i64 elements: affine / bilinear functions with integer coefficients are reproduced exactly in integer arithmetic too (every
    # secant slope is an exact integer quotient), in range and extrapolated
    for _ in range(gen.N(tier, 40, 800)):
        ext = rng.random() < 0.6
        trailing = gen.trailing_shape(rng, 1)
        L = gen.shape_size(trailing)
        if rng.random() < 0.5:
            n = rng.choice([2, 3, 5, 8])
            xs = gen.axis_i(rng, n, rng.choice(["uniform", "random", "gappy", "small", "evenish"]))
            ab = [(rng.randint(-50, 50), rng.randint(-9, 9)) for _ in range(L)]
            flat = [a + b * x for x in xs for a, b in ab]
            qs = gen.queries_i(rng, xs, 8, ext=ext)
            want = [Fr(a + b * q) for q in qs for a, b in ab]
            line = i1_line("I", xs, [n] + trailing, flat, ("lin", ext), e_array("I", [len(qs)], qs), dlay=rng.choice(gen.LAYS_ND))
        else:
            nx, ny = rng.choice([2, 3, 5]), rng.choice([2, 4])
            xs, ys = gen.axis_i(rng, nx, rng.choice(["uniform", "random", "gappy", "small"])), gen.axis_i(rng, ny, rng.choice(["uniform", "random", "small"]))
            coef = [[rng.randint(-6, 6) for _ in range(4)] for _ in range(L)]
            f = lambda c, x, y: c[0] + c[1] * x + c[2] * y + c[3] * x * y
            flat = [f(coef[l], x, y) for x in xs for y in ys for l in range(L)]
            k = 6
            qx = [rng.choice(gen.queries_i(rng, xs, 8, ext=ext)) for _ in range(k)]
            qy = [rng.choice(gen.queries_i(rng, ys, 8, ext=ext)) for _ in range(k)]
            want = [Fr(f(coef[l], x, y)) for x, y in zip(qx, qy) for l in range(L)]
            line = i2_line("I", xs, ys, [nx, ny] + trailing, flat, ext, e_array("I", [k], qx, qy), dlay=rng.choice(gen.LAYS_ND))
        cases.append({"line": line, "meta": {"want": want, "full": True}})
    return cases


def nontrivial(case, res):
    return case["meta"].get("full", False)


def extra(rng, tier):
    """f64: cubics with small integer coefficients in the variable u = x / unit, sampled at dyadic u (exact samples), on axes in
    ordinary and in extreme units (unit = 2^k, |k| up to 470: squares of interval lengths stay finite, third powers do not).
    NotAKnot reproduces the cubic, Natural / Linear the straight line, up to rounding: held to a generous relative tolerance."""
    import math
    import vlib
    lines, wants, tols = [], [], []
    for _ in range(gen.N(tier, 60, 1500)):
        kind = rng.choice(["nak", "nak", "nat", "lin"])
        deg = 3 if kind == "nak" else 1
        n = rng.choice([4, 5, 7, 9]) if kind == "nak" else rng.choice([2, 3, 5]) if kind == "lin" else rng.choice([3, 4, 6])
        us = sorted({rng.randint(-64, 64) / 8 for _ in range(3 * n)})
        if len(us) < n:
            continue
        i0 = rng.randrange(len(us) - n + 1)
        us = us[i0:i0 + n]
        k = rng.choice([0, 0, 0, rng.randint(100, 340), -rng.randint(100, 340), rng.randint(340, 470), -rng.randint(340, 470)])
        unit = 2.0 ** k
        coef = [rng.randint(-5, 5) for _ in range(deg + 1)]
        P = lambda u: sum(c * u ** i for i, c in enumerate(coef))
        # axes far from the origin relative to their spacing (seed C16-r5m1: a local coordinate computed as x*scale - shift cancels
        # catastrophically there, (x - x_left)/dx does not): u -> off + h*u with every axis value and query exactly representable
        off, h_ = 0.0, 1.0
        if k == 0 and rng.random() < 0.5:
            off, h_ = rng.choice([2.0 ** 42, -(2.0 ** 40), 3.0e12, 2.0 ** 36 + 5.0]), rng.choice([1.0, 3.0, 5.0])
        xs = [off + u * h_ * unit for u in us]
        flat = [float(P(Fr(u))) for u in us]
        ext = rng.random() < 0.5
        span = us[-1] - us[0]
        vs = [us[0] + span * rng.randint(0, 64) / 64 for _ in range(5)] + ([us[0] - span / 4, us[-1] + span / 8] if ext else [])
        qs = [off + v * h_ * unit for v in vs]
        if off != 0.0 and any(Fr(x) != Fr(off) + Fr(w) * Fr(h_) for x, w in list(zip(xs, us)) + list(zip(qs, vs))):
            continue        # not exactly representable: not a sample of the polynomial
        strat = ("lin", ext) if kind == "lin" else ("spl", ext, kind)
        lines.append(i1_line("F", xs, [n], flat, strat, e_array("F", [len(qs)], qs)))
        wants.append([float(P(Fr(v))) for v in vs])
        hs = [b - a for a, b in zip(us, us[1:])]
        tols.append(1e-9 * (max(abs(v) for v in flat) + 1.0) * (max(hs) / min(hs)) ** 2 * (1 + 100 * ext))
    # long axes (seed C16-r11m1: an elimination whose row scale factors grow like (3.7*dx)^i and are never renormalised — they leave the
    # number range after ~540 rows at unit spacing, ~100 rows at spacings of 2^+-10, ~70 rows at f32): a cubic in u = (x - x0)/(xn - x0)
    n_short = len(lines)
    for _ in range(gen.N(tier, 6, 60)):
        S = rng.choice(["F", "F", "G"])
        rd = (lambda v: v) if S == "F" else vlib.f32_round
        h = rng.choice([1.0, 1024.0, 1.0 / 1024])
        n = (rng.choice([600, 900]) if h == 1.0 else rng.choice([110, 130, 200])) if S == "F" else rng.choice([80, 120])
        steps = [h * (1.0 if rng.random() < 0.85 else rng.choice([0.5, 2.0])) for _ in range(n - 1)]
        xs = [0.0]
        for s_ in steps:
            xs.append(xs[-1] + s_)
        kind = rng.choice(["nak", "nak", "nat"])
        coef = [rng.randint(-5, 5) for _ in range(4 if kind == "nak" else 2)]
        span = xs[-1]
        P = lambda x: sum(c * (x / span) ** i for i, c in enumerate(coef))
        flat = [rd(P(x)) for x in xs]
        ks = sorted({0, 1, n // 2, n - 2} | {rng.randrange(n - 1) for _ in range(6)})
        qs = [xs[k] + (xs[k + 1] - xs[k]) * rng.choice([0.25, 0.5, 0.75]) for k in ks] + [xs[0], xs[-1]]
        lines.append(i1_line(S, xs, [n], flat, ("spl", False, kind), e_array(S, [len(qs)], qs)))
        wants.append([P(q) for q in qs])
        tols.append((1e-8 if S == "F" else 5e-3) * (max(abs(v) for v in flat) + 1.0))
    outs = vlib.run_impl_only(ID, lines, tag="f64poly")
    fails, worst = [], 0.0
    for line, out, want, tol in zip(lines, outs, wants, tols):
        r = vlib.Result(out)
        if r.kind != "ok":
            fails.append({"line": line, "impl": out[:200], "required": "queries must be answered"})
            continue
        for g, w in zip(r.floats(), want):
            err = abs(g - w)
            if not math.isfinite(g) or err > tol:
                fails.append({"line": line, "impl": out[:200],
                              "required": f"f64: the polynomial's value {w} must be reproduced up to rounding, got {g} (error {err:.3e} > tolerance {tol:.3e})"})
                break
            worst = max(worst, err / tol)
    return {"evaluations": len(lines), "nontrivial": len(lines), "failures": fails[:20], "hist": {"f64_polynomial_cases": n_short, "long_axis_polynomial_cases": len(lines) - n_short},
            "notes": [f"worst f64 error / tolerance = {worst:.3e}"]}


def oracle(case, res):
    want = case["meta"]["want"]
    if res.kind != "ok":
        return f"queries must be answered, got {res.raw[:80]}"
    got = res.fractions()
    if got != want:
        k = next(i for i, (a, b) in enumerate(zip(got, want)) if a != b)
        return f"value #{k} must reproduce the polynomial: {want[k]}, got {got[k]}"
    return None
