"""C05 — without extrapolation a query is answered iff it lies in the closed axis range."""
import math
from fractions import Fraction as Fr

import gen
from gen import i1_line, i2_line, e_scalar, e_single, e_array, e_ainto, e_into
from vlib import next_up, next_down

ID = "C05"
LEAN_MODULES = ["NdInterp.Props.C05", "NdInterp.Props.C02", "NdInterp.Props.RatTie", "NdInterp.Props.FormulaTie.Rng", "NdInterp.Props.FormulaTie.TabExt", "NdInterp.Props.FormulaTie.Ctl"]
THEOREM_FILES = [("NdInterp/Props/C05.lean", "C05_"), ("NdInterp/Props/C02.lean", "C05_"), ("NdInterp/Props/FormulaTie/Rng.lean", "FT_rng_"), ("NdInterp/Props/FormulaTie/TabExt.lean", "FT_tab_"), ("NdInterp/Props/FormulaTie/Ctl.lean", "FT_ctl_")]
RULE = ("extrapolate=false for Linear, CubicSpline (NotAKnot, Natural, Clamped, Periodic, Individual/Mixed) and Bilinear; every entry "
        "point (scalar, single, into, array, array_into; static and dynamic query dims, rank 0..3); queries at both range ends, the "
        "floats adjacent on both sides, +-inf, NaN, far outside, in range; batches with the offending element at every position, some with a "
        "second offending element (the model also predicts which element and coordinate the error message names). "
        "Q (exact) and f64 (outcome kinds). non-trivial = case containing an out-of-range or boundary element")
PARTIAL = ["NaN is outside the ordered-field theorems; C05_gate_nan covers it with no assumption on the comparisons, the f64 "
           "runs confirm the outcome on the real code"]
ASSUMPTIONS = ["non-NaN f64 comparison is a linear order"]

BCS = ["nak", "nat", "cla", "per", ("mix", "nat", ("fd", 1)), ("mix", ("sd", 2), "nak")]


def strat_of(rng, S, name, L, trailing):
    if name == "lin":
        return ("lin", False)
    bc = rng.choice(BCS)
    cv = (lambda v: Fr(v)) if S == "Q" else float
    if isinstance(bc, tuple):
        def sb(x):
            return x if isinstance(x, str) else (x[0], cv(x[1]))
        rb = (sb(bc[1]), sb(bc[2]))
        return ("spl", False, ("ind", [1] + trailing, [rb] * L))
    return ("spl", False, bc)


def make(rng, S, dims):
    """one interpolator + the classification inputs"""
    if dims == 1:
        name = rng.choice(["lin", "spl"])
        n = rng.choice([3, 4, 5, 8])
        trailing = gen.trailing_shape(rng, 2, allow_zero=rng.random() < 0.25)
        shape = [n] + trailing
    else:
        name = "bil"
        shape = [rng.choice([2, 3, 5]), rng.choice([2, 4])] + gen.trailing_shape(rng, 1, allow_zero=rng.random() < 0.25)
    size = gen.shape_size(shape)
    if S == "Q":
        axes = [gen.axis_q(rng, shape[k]) for k in range(dims)]
        flat = gen.vals_q(rng, size)
    else:
        axes = [gen.axis_f(rng, shape[k], rng.choice(["uniform", "geometric", "random", "unit"])) for k in range(dims)]
        flat = [rng.uniform(-5, 5) for _ in range(size)]
    strat = None
    if dims == 1:
        L = gen.lanes_of(shape)
        strat = strat_of(rng, S, name, L, shape[1:])
        if strat[0] == "spl" and strat[2] == "per":
            # periodic data: last row equals first row
            flat[(shape[0] - 1) * L:] = flat[:L]
    return shape, axes, flat, strat


def edge_queries(rng, S, xs):
    lo, hi = xs[0], xs[-1]
    if S == "Q":
        span = hi - lo
        eps = Fr(1, 2 ** 60)
        return [(lo, True), (hi, True), (lo - span * eps, False), (hi + span * eps, False),
                (lo + span * eps, True), (hi - span * eps, True), (lo - 100 * span, False), (hi + 1, False),
                (lo + span * Fr(rng.randint(1, 99), 100), True)]
    return [(lo, True), (hi, True), (next_down(lo), False), (next_up(hi), False), (next_up(lo), True),
            (next_down(hi), True), (math.inf, False), (-math.inf, False), (math.nan, False),
            (hi + abs(hi) + 1e9, False), (rng.uniform(lo, hi), True), (1.7976931348623157e308, False)]


def generate(rng, tier):
    cases = []
    reps = gen.N(tier, 110, 3000)
    for _ in range(reps):
        S = rng.choice(["Q", "F"])
        dims = rng.choice([1, 1, 2])
        shape, axes, flat, strat = make(rng, S, dims)
        r = len(shape)
        cand = [edge_queries(rng, S, a) for a in axes]
        inside = [[q for q, ok in c if ok] for c in cand]
        for _ in range(8):
            ent = rng.choice(["scalar", "single", "into", "array", "array", "ainto"])
            if ent == "scalar" and r != dims:
                ent = "single"
            if ent in ("scalar", "single", "into"):
                pick = [rng.choice(c) for c in cand]
                qs = [[p[0]] for p in pick]
                ok = all(p[1] for p in pick)
                qshape = []
            else:
                # a batch: all in range except (maybe) one offending element at a chosen position
                k = rng.choice([1, 2, 3, 5, 4, 6, 12])
                qs = [[rng.choice(ins) for _ in range(k)] for ins in inside]
                ok = True
                if rng.random() < 0.7:
                    pos = rng.randrange(k)
                    ax = rng.randrange(dims)
                    bad = rng.choice([q for q, good in cand[ax] if not good])
                    qs[ax][pos] = bad
                    ok = False
                    if k >= 2 and rng.random() < 0.4:
                        # a second, different rejected element elsewhere: the error must name the first one in logical order
                        pos2 = rng.choice([p for p in range(k) if p != pos])
                        ax2 = rng.randrange(dims)
                        others = [q for q, good in cand[ax2] if not good and q != bad and q == q]
                        if others:
                            qs[ax2][pos2] = rng.choice(others)
                if dims == 1 and rng.random() < 0.35:
                    # a long, *sorted* batch (at least as long as the axis) whose only rejected element is a NaN (or an out-of-range
                    # value) somewhere inside (seed C05-r6m1: a kernel for sorted batches that range-checks the first and last query
                    # only, with a sortedness test NaN slips through)
                    k = len(axes[0]) + rng.choice([0, 1, 3, 8])
                    srt = sorted(rng.choice(inside[0]) for _ in range(k))
                    if rng.random() < 0.3:
                        srt.reverse()
                    ok = True
                    if S == "F" and rng.random() < 0.7:
                        srt[rng.randrange(1, k - 1) if k > 2 and rng.random() < 0.8 else rng.randrange(k)] = float("nan")
                        ok = False
                    qs = [srt]
                qshape = rng.choice({4: [[4], [2, 2], [2, 1, 2]], 6: [[6], [2, 3], [3, 2], [1, 2, 3]],
                                     12: [[2, 3, 2], [3, 2, 2], [2, 2, 3], [12], [2, 3, 1, 2]]}.get(k, [[k], [k], [k], [1, k], [k, 1, 1]]))
            dtag, qtag = gen.pick_dims(rng, r, len(qshape))
            if ent == "scalar":
                dtag = "sta"
            trailing = shape[dims:]
            args = [q[0] for q in qs]
            e = {"scalar": lambda: e_scalar(S, *args), "single": lambda: e_single(S, *args),
                 "into": lambda: e_into(S, args, trailing, rng.choice(gen.LAYS_ND)),
                 "array": lambda: e_array(S, qshape, *qs, qtag=qtag, lay=rng.choice(gen.LAYS_ND)),
                 "ainto": lambda: e_ainto(S, qshape, qshape + trailing, *qs, qtag=qtag, blay=rng.choice(gen.LAYS_ND))}[ent]()
            if dims == 1:
                line = i1_line(S, axes[0], shape, flat, strat, e, dtag=dtag, dlay=rng.choice(gen.LAYS_ND))
            else:
                line = i2_line(S, axes[0], axes[1], shape, flat, False, e, dtag=dtag, dlay=rng.choice(gen.LAYS_ND))
            cases.append({"line": line, "meta": {"ok": ok, "entry": ent}})
    # axes whose last knot is +inf (a flat-tail table: strictly increasing, so the builders accept it; seed C05-r11m1: a "finite queries
    # only" guard in the range predicates): the query +inf equals the last knot and lies in the closed range, and so does every finite
    # value above the first knot; -inf, NaN and values below the first knot do not
    for _ in range(gen.N(tier, 12, 300)):
        dims = rng.choice([1, 1, 2])
        n = rng.choice([3, 4, 6])
        ax = sorted({rng.randint(-40, 40) / 4.0 for _ in range(3 * n)})[:n - 1] + [math.inf]
        if len(ax) != n:
            continue
        cand1 = [(math.inf, True), (1.7976931348623157e308, True), (ax[0], True), (ax[1], True), (ax[-2] + 1.0, True),
                 (-math.inf, False), (math.nan, False), (next_down(ax[0]), False)]
        if dims == 1:
            shape, axes, cand = [n] + gen.trailing_shape(rng, 1), [ax], [cand1]
        else:
            ay = [float(i) for i in range(3)]
            shape, axes = [n, 3] + gen.trailing_shape(rng, 1), [ax, ay]
            if rng.random() < 0.5:
                shape, axes = [3, n] + shape[2:], [ay, ax]
            candy = [(0.0, True), (2.0, True), (1.5, True), (2.5, False), (-0.5, False)]
            cand = [cand1, candy] if axes[0] is ax else [candy, cand1]
        flat = [rng.uniform(-5, 5) for _ in range(gen.shape_size(shape))]
        for _ in range(6):
            pick = [rng.choice(c) for c in cand]
            ok = all(p[1] for p in pick)
            ent = rng.choice(["single", "array"])
            args = [p[0] for p in pick]
            e = e_single("F", *args) if ent == "single" else e_array("F", [1], *[[a] for a in args])
            if dims == 1:
                line = i1_line("F", axes[0], shape, flat, ("lin", False), e)
            else:
                line = i2_line("F", axes[0], axes[1], shape, flat, False, e)
            cases.append({"line": line, "meta": {"ok": ok, "entry": ent}})
    return cases


def nontrivial(case, res):
    return True


def oracle(case, res):
    ok = case["meta"]["ok"]
    if ok and res.kind != "ok":
        return f"every element lies in the closed range: must be answered, got {res.raw}"
    if not ok and res.kind != "oob":
        return f"an element is outside the closed range (or NaN): must be OutOfBounds, got {res.raw[:80]}"
    if res.extra:
        return f"buffer accounting: {res.extra}"
    return None
