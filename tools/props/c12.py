"""C12 — monotonic_prop classifies every vector correctly and never calls NaN data rising."""
import itertools
import math
from fractions import Fraction as Fr

import gen
import vlib
from vlib import t_vec, fq, ff, Result

ID = "C12"
HARNESS_BINS = ["vharness_custom"]
LEAN_MODULES = ["NdInterp.Props.C12", "NdInterp.Props.RatTie", "NdInterp.Props.IntTie", "NdInterp.Props.FormulaTie.Ctl"]
THEOREM_FILES = [("NdInterp/Props/C12.lean", "C12_"), ("NdInterp/Props/IntTie.lean", "C12_"), ("NdInterp/Props/FormulaTie/Ctl.lean", "FT_ctl_")]
RULE = ("every word over {<,=,>} of consecutive-pair relations up to length L (quick 8, thorough 11), realised as "
        "rational, f64 and i64 (small and > 2^53) vectors in contiguous / strided / reversed views; every NaN placement in f64 vectors up to "
        "length 6 (quick) / 8 (thorough); random long vectors. non-trivial = vector of length >= 2; distinct = distinct case line")
PARTIAL = []
ASSUMPTIONS = ["IEEE comparison on non-NaN f64 is a linear order (C12_classify applies to NaN-free float data through that)",
               "NaN compares false with everything (C12_nan's BadPair hypothesis for pairs containing NaN)"]


def classify(v):
    """the class by the definition in the property text (NaN-free input)"""
    if len(v) < 2:
        return "Not"
    pairs = list(zip(v, v[1:]))
    lt = [a < b for a, b in pairs]
    eq = [a == b for a, b in pairs]
    gt = [a > b for a, b in pairs]
    if all(lt):
        return "RisingS"
    if all(gt):
        return "FallingS"
    if all(l or e for l, e in zip(lt, eq)) and any(eq) and any(lt):
        return "Rising"
    if all(g or e for g, e in zip(gt, eq)) and any(eq) and any(gt):
        return "Falling"
    return "Not"


def realise(word, start=0):
    v = [start]
    for r in word:
        v.append(v[-1] + {"<": 1, "=": 0, ">": -1}[r])
    return v


def generate(rng, tier):
    cases = []
    L = 8 if tier == "quick" else 11
    for n in range(0, L + 1):
        for word in itertools.product("<=>", repeat=n):
            v = realise(word, rng.randint(-3, 3))
            lay = rng.choice(gen.LAYS_1D)
            if rng.random() < 0.5:
                vals = [Fr(x, rng.choice([1, 1, 3])) for x in v] if False else [Fr(x) for x in v]
                cases.append({"line": "Q mono " + t_vec(vals, fq, lay), "meta": {"v": vals}})
            else:
                scale = rng.choice([1.0, 0.5, 1e-300, 1e300, 3.0])
                vals = [x * scale for x in v]
                cases.append({"line": "F mono " + t_vec(vals, ff, lay), "meta": {"v": vals}})
    # empty and singleton
    cases.append({"line": "Q mono " + t_vec([], fq), "meta": {"v": []}})
    cases.append({"line": "F mono " + t_vec([1.5], ff), "meta": {"v": [1.5]}})
    # NaN placements
    LN = 6 if tier == "quick" else 8
    base_patterns = [lambda i: float(i), lambda i: float(-i), lambda i: 1.0, lambda i: float(i // 2)]
    for n in range(1, LN + 1):
        for mask in range(1, 2 ** n):
            pat = base_patterns[(mask + n) % len(base_patterns)]
            vals = [math.nan if (mask >> i) & 1 else pat(i) for i in range(n)]
            cases.append({"line": "F mono " + t_vec(vals, ff, rng.choice(gen.LAYS_1D)), "meta": {"v": vals, "nan": True}})
    # infinities are ordinary ordered values
    for vals in ([-math.inf, 0.0, math.inf], [math.inf, math.inf], [-math.inf, -math.inf, 1.0], [0.0, -0.0, 1.0]):
        cases.append({"line": "F mono " + t_vec(vals, ff), "meta": {"v": vals}})
    # words realised with saturating extremes: ties between equal infinities / equal huge values, steps that overflow when
    # subtracted (a classification by the sign of the difference instead of by comparison goes wrong exactly here)
    ext_pool = [-math.inf, -1.7976931348623157e308, -1e308, -1.0, -5e-324, 0.0, 5e-324, 1.0, 1e308, 1.7976931348623157e308, math.inf]
    for n in range(2, 6):
        for word in itertools.product("<=>", repeat=n - 1):
            for _ in range(gen.N(tier, 2, 12)):
                i = rng.randrange(len(ext_pool))
                vals = [ext_pool[i]]
                ok = True
                for w in word:
                    if w == "<":
                        if i == len(ext_pool) - 1:
                            ok = False; break
                        i = rng.randint(i + 1, len(ext_pool) - 1)
                    elif w == ">":
                        if i == 0:
                            ok = False; break
                        i = rng.randint(0, i - 1)
                    vals.append(ext_pool[i])
                if ok:
                    cases.append({"line": "F mono " + t_vec(vals, ff, rng.choice(gen.LAYS_1D)), "meta": {"v": vals}})
    # i64 vectors: every word up to length 5 at small and at huge magnitude (neighbours closer than the f64 spacing above 2^53)
    for n in range(1, 6):
        for word in itertools.product("<=>", repeat=n):
            for base in (rng.randint(-3, 3), 2 ** 53 + rng.randint(0, 5), 2 ** 60, -(2 ** 58), 1_668_400_000_000_000_000):
                v = realise(word, base)
                if rng.random() < 0.5:
                    v = [base + (x - base) * rng.choice([1, 2, 100, 255]) for x in v]
                cases.append({"line": "I mono " + t_vec(v, gen.fi, rng.choice(gen.LAYS_1D)), "meta": {"v": v}})
    # f32 and i32 vectors: every word up to length 5; f32 also at magnitudes where neighbouring values are one f32-ulp apart
    # (closer than any f64 detour distinguishes after a narrowing cast) and with NaN / infinities; i32 near the ends of its range
    import vlib
    for n in range(1, 6):
        for word in itertools.product("<=>", repeat=n):
            for base in (rng.randint(-3, 3), 2 ** 24, -(2 ** 30), 2_000_000_000):
                v = realise(word, base if abs(base) < 2 ** 31 - 10 else base - 10)
                cases.append({"line": "J mono " + t_vec(v, gen.fi, rng.choice(gen.LAYS_1D)), "meta": {"v": v}})
            for start in (float(rng.randint(-3, 3)), 16777216.0, -3.0e9, 1.0e-40, 3.0e38):
                vals = [vlib.f32_round(start)]
                for w in word:
                    x = vals[-1]
                    vals.append(x if w == "=" else vlib.next_up32(x) if w == "<" else vlib.next_down32(x))
                cases.append({"line": "G mono " + t_vec(vals, vlib.ff32, rng.choice(gen.LAYS_1D)), "meta": {"v": vals}})
    for n in range(1, 5):
        for mask in range(1, 2 ** n):
            vals = [math.nan if (mask >> i) & 1 else float(i) for i in range(n)]
            cases.append({"line": "G mono " + t_vec(vals, vlib.ff32, rng.choice(gen.LAYS_1D)), "meta": {"v": vals, "nan": True}})
    # integer vectors reaching the ends of their type: neighbours further apart than the largest value (their difference overflows)
    for lo, hi, tag in ((-(2 ** 63), 2 ** 63 - 1, "I"), (-(2 ** 31), 2 ** 31 - 1, "J")):
        pool = [lo, lo + 1, lo // 2, -1, 0, 1, hi // 2, hi - 1, hi]
        for n in range(2, 5):
            for _ in range(gen.N(tier, 12, 60)):
                v = [rng.choice(pool) for _ in range(n)]
                if rng.random() < 0.5:
                    v = sorted(set(v)) if rng.random() < 0.7 else sorted(v, reverse=True)
                if len(v) >= 1:
                    cases.append({"line": f"{tag} mono " + t_vec(v, gen.fi, rng.choice(gen.LAYS_1D)), "meta": {"v": v}})
    for vals in ([-math.inf, 0.0, math.inf], [math.inf, math.inf], [0.0, -0.0, 1.0]):
        cases.append({"line": "G mono " + t_vec(vals, vlib.ff32), "meta": {"v": vals}})
    # random long vectors
    for _ in range(gen.N(tier, 60, 600)):
        n = rng.randint(10, 400)
        kind = rng.choice(["rise", "fall", "flat", "mixed"])
        v = [0]
        for _ in range(n - 1):
            step = {"rise": rng.choice([1, 1, 2, 0 if rng.random() < 0.05 else 1]),
                    "fall": -rng.choice([1, 1, 2, 0 if rng.random() < 0.05 else 1]),
                    "flat": 0 if rng.random() < 0.98 else 1,
                    "mixed": rng.choice([-1, 0, 1])}[kind]
            v.append(v[-1] + step)
        vals = [Fr(x, 3) for x in v]
        cases.append({"line": "Q mono " + t_vec(vals, fq, rng.choice(gen.LAYS_1D)), "meta": {"v": vals}})
    # long structured vectors (seed C12-r5m2: a coarse pre-scan of every 8th element misjudges vectors whose only strict steps lie
    # between two sampled positions): plateaus with one or two steps at every position, ramps ending / starting in a plateau, one
    # reversal anywhere, for lengths around the multiples of 8 / 64 — in both directions, in every element type
    def emit(v):
        S = rng.choice(["Q", "F", "I", "J", "G"])
        lay = rng.choice(gen.LAYS_1D)
        if S == "Q":
            vals = [Fr(x, 3) for x in v]
            cases.append({"line": "Q mono " + t_vec(vals, fq, lay), "meta": {"v": vals}})
        elif S == "F":
            vals = [x * 0.5 for x in v]
            cases.append({"line": "F mono " + t_vec(vals, ff, lay), "meta": {"v": vals}})
        elif S == "G":
            vals = [float(x) for x in v]
            cases.append({"line": "G mono " + t_vec(vals, vlib.ff32, lay), "meta": {"v": vals}})
        else:
            cases.append({"line": f"{S} mono " + t_vec(list(v), gen.fi, lay), "meta": {"v": list(v)}})
    # NaN in long, otherwise monotonic float vectors stored contiguously (seed C12-r6m1: a block-wise scan for long standard-layout
    # vectors that ORs comparison flags never sees a NaN pair): NaN first, last, next to the ends, at block borders, anywhere
    for n in ([33, 34, 40, 64, 65, 100, 257] if tier == "quick" else [33, 34, 40, 47, 64, 65, 66, 100, 128, 129, 257, 300, 1025]):
        spots = {0, 1, 2, n - 1, n - 2, n // 2, 31, 32, 33} | {rng.randrange(n) for _ in range(4)}
        for p_ in sorted(s_ for s_ in spots if 0 <= s_ < n):
            for shape_ in ("rise", "fall", "plateau-rise", "flat"):
                if shape_ == "rise":
                    v = [float(i) for i in range(n)]
                elif shape_ == "fall":
                    v = [float(-i) for i in range(n)]
                elif shape_ == "flat":
                    v = [1.0] * n
                else:
                    a = rng.randint(1, n - 1)
                    v = [0.0] * a + [float(i + 1) for i in range(n - a)]
                v[p_] = math.nan
                if rng.random() < 0.3:
                    v[rng.randrange(n)] = math.nan
                S = rng.choice(["F", "G"])
                lay = rng.choice(["c", "c", "c", "rev", "s2", "w"])
                cases.append({"line": f"{S} mono " + t_vec(v, ff if S == "F" else vlib.ff32, lay), "meta": {"v": v, "nan": True}})
    # plateaus that exactly fill blocks of 256 pairs inside long strictly monotonic vectors (seed C12-r8m1: block summaries merged with
    # "an all-ties block has no direction" lose the fact that a tie occurred)
    for n in ([513, 600, 770, 1025] if tier == "quick" else [513, 514, 600, 769, 770, 1025, 1281, 2049]):
        for start in range(0, n - 1, 256):
            for blocks in (1, 2):
                end = min(start + 256 * blocks, n - 1)          # pairs start .. end-1 are ties
                if end - start < 256 and end != n - 1:
                    continue
                for sgn in (1, -1):
                    v, cur = [], 0
                    for i in range(n):
                        v.append(cur)
                        if not (start <= i < end):
                            cur += sgn
                    emit(v)
                    if rng.random() < 0.3:
                        w = list(v)
                        k = rng.randrange(n)
                        w[k] += rng.choice([1, -1]) * 3       # plus one irregularity somewhere
                        emit(w)
    lens = [32, 33, 39, 40, 41, 64, 65, 100, 257, 300] if tier == "quick" else [32, 33, 34, 39, 40, 41, 47, 48, 49, 64, 65, 72, 100, 128, 129, 256, 257, 300, 513, 600]
    for n in lens:
        steps = set(range(0, min(n - 1, 10))) | set(range(max(0, n - 11), n - 1)) | {rng.randrange(n - 1) for _ in range(6)}
        if n <= 41 or tier != "quick":
            steps |= set(range(n - 1))
        for p_ in sorted(steps):
            for sgn in (1, -1):
                v = [0] * (p_ + 1) + [sgn] * (n - 1 - p_)                       # plateau, one step, plateau
                emit(v)
                if rng.random() < 0.4:
                    p2 = rng.randrange(n - 1)
                    w = list(v)
                    for i in range(p2 + 1, n):                                  # a second step, same or opposite direction
                        w[i] += rng.choice([sgn, sgn, -sgn])
                    emit(w)
        for _ in range(6):
            a = rng.randint(1, n - 2)
            sgn = rng.choice([1, -1])
            emit([0] * a + [sgn * (i + 1) for i in range(n - a)])               # plateau then ramp
            emit([sgn * i for i in range(a)] + [sgn * (a - 1)] * (n - a))       # ramp then plateau
            w = [sgn * i for i in range(n)]
            k = rng.randint(1, n - 1)
            w[k] = w[k - 1] - sgn * rng.choice([0, 1])                          # strict ramp with one tie / reversal
            emit(w)
    return cases


def nontrivial(case, res):
    return len(case["meta"].get("v", [])) >= 2


def oracle(case, res):
    v = case["meta"].get("v")
    if v is None:
        return None
    if res.kind != "mono":
        return f"monotonic_prop must return a class, got {res.raw}"
    if case["meta"].get("nan") or any(isinstance(x, float) and math.isnan(x) for x in v):
        if res.extra in ("RisingS", "Rising"):
            return f"vector containing NaN classified {res.extra}"
        return None
    want = classify(v)
    if res.extra != want:
        return f"class must be {want}, got {res.extra}"
    return None


def extra(rng, tier):
    """'such an axis can never pass builder validation' for *every* strategy: the built-in ones need two points, so an axis of a single
    NaN (or any one-element / empty axis) is only ever judged by the monotonicity step when a user-defined strategy declares a smaller
    minimum (seed C12-r9m1: a pairwise `a < b` test, vacuously true on fewer than two elements, in place of `monotonic_prop`).  The
    custom-strategy scenario builds with declared minima 0..4 and axes of every length, with NaN, ties and reversals."""
    n = gen.N(tier, 200, 5000)
    seed = rng.randint(1, 2 ** 31)
    out = vlib.run_sub(["custom", seed, n])
    fails, summ = [], None
    for l in out:
        if l.startswith("FAIL") and ("monotonic" in l.lower() or "build" in l.lower() or "valid" in l.lower()):
            fails.append({"line": f"vharness_custom {seed} {n}", "impl": l[:800],
                          "required": "an axis that monotonic_prop does not classify Rising{strict:true} (NaN, fewer than two points, ties, reversals) must be rejected by build() for every strategy"})
        elif l.startswith("SUMMARY"):
            summ = l
    if summ is None:
        fails.append({"line": f"vharness_custom {seed} {n}", "impl": "no SUMMARY", "required": "the custom-strategy scenario must complete"})
    return {"evaluations": n, "failures": fails[:20], "hist": {"custom_builder_cases": n}}
