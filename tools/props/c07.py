"""C07 — a periodic spline with extrapolation is evaluated as a periodic function."""
import math
from fractions import Fraction as Fr

import gen
import vlib
from gen import i1_line, e_array
from vlib import Result

ID = "C07"
LEAN_MODULES = ["NdInterp.Props.C07Fl", "NdInterp.Props.C07", "NdInterp.Props.RatTie", "NdInterp.Props.FormulaTie.SplEval", "NdInterp.Props.FormulaTie.PerWrap", "NdInterp.Props.FormulaTie.TabExt", "NdInterp.Props.FormulaTie.Ctl"]
THEOREM_FILES = [("NdInterp/Props/C07Fl.lean", "C07_"), ("NdInterp/Props/C02Fl.lean", "C02_eval_"), ("NdInterp/Props/C07.lean", "C07_"), ("NdInterp/Props/FormulaTie/SplEval.lean", "FT_spl_eval"), ("NdInterp/Props/FormulaTie/PerWrap.lean", "FT_per_wrap"), ("NdInterp/Props/FormulaTie/TabExt.lean", "FT_tab_"), ("NdInterp/Props/FormulaTie/Ctl.lean", "FT_ctl_")]
RULE = ("Periodic boundary + extrapolation at Q, exact: n=3..12, uniform and non-uniform axes, 0..2 trailing axes; each case queries "
        "x, x + kP for k in {+-1, +-2, +-7, +-10^3, +-10^6} for in-range x incl. both ends and points next to them; oracle: all values "
        "of one class are identical and the images of the range ends equal the first (= last) data row. f64: the same with a tolerance "
        "scaled by the derivative bound and |k| ulps of the wrapped argument. Without extrapolation the same spline must reject the "
        "outside images (mode selection). non-trivial = every case")
PARTIAL = ["'up to rounding of the wrapped argument': C07_segment_lipschitz bounds how far the segment value moves when the argument moves inside an "
           "interval (|dx|/h * (|y_r-y_l|+|a|+|b|)) and C02_eval_rounding the rounding of the evaluation itself; the size of the argument error "
           "(rem_euclid on floats, q - x0 many periods away) is not modelled, so the f64/f32 comparison stays a test with a tolerance",
           "the periodic system itself (C2 and equal end derivatives of the periodic spline) is covered by C02/C03's exact oracles"]
ASSUMPTIONS = ["rem_euclid on f64 behaves as documented (trusted); LawfulRemEuclid is proved for the Rat instance the driver executes"]
KS = [1, -1, 2, -2, 7, -7, 1000, -1000, 10 ** 6, -10 ** 6]


def make(rng, S):
    n = rng.choice([3, 3, 4, 5, 8, 12])
    trailing = gen.trailing_shape(rng, 2)
    shape = [n] + trailing
    L = gen.lanes_of(shape)
    if S == "Q":
        xs = gen.axis_q(rng, n, rng.choice(["unit", "uniform", "geometric", "random", "dyadic", "mesh64", "evenish", "nearly_even", "indexlike"]))
        flat = gen.vals_q(rng, n * L, rng.choice(["int", "dyadic", "rational"]))
        P = xs[-1] - xs[0]
        base = [xs[0], xs[-1], xs[0] + P * Fr(1, 2 ** 40), xs[-1] - P * Fr(1, 2 ** 40), xs[1], xs[0] + P * Fr(rng.randint(1, 99), 100)]
    elif S == "G":
        # f32 elements (seed C07-r9m1: a wrap that rounds the period count with a constant only exact for f64)
        r32 = vlib.f32_round
        a, h = r32(rng.randint(-40, 40) / 4.0), r32(rng.choice([0.25, 0.5, 1.0, 1.5, 3.0]))
        xs = [r32(a + i * h) for i in range(n)]
        flat = [r32(rng.uniform(-3, 3)) for _ in range(n * L)]
        P = r32(xs[-1] - xs[0])
        base = [xs[0], xs[-1], vlib.next_up32(xs[0]), vlib.next_down32(xs[-1]), xs[1], r32(rng.uniform(xs[0], xs[-1]))]
    else:
        xs = gen.axis_f(rng, n, rng.choice(["unit", "uniform", "random"]))
        if rng.random() < 0.5:
            # ends straddling zero for which re-basing rounds: fl(x0 + fl(xn - x0)) != xn (about 1 % of random axes, never dyadic ones), so
            # the wrapped image of a query a few floats below x0 lands a float *above* xn (seed C07-r11m1: a range check after the wrap)
            for _ in range(4000):
                a, b = -rng.uniform(0.05, 1.0), rng.uniform(0.05, 2.0)
                if a + (b - a) != b:
                    inner = sorted(rng.uniform(a, b) for _ in range(n - 2))
                    cand = [a] + inner + [b]
                    if all(u < v for u, v in zip(cand, cand[1:])):
                        xs = cand
                        break
        flat = [rng.uniform(-3, 3) for _ in range(n * L)]
        P = xs[-1] - xs[0]
        base = [xs[0], xs[-1], vlib.next_up(xs[0]), vlib.next_down(xs[-1]), xs[1], rng.uniform(xs[0], xs[-1])]
        # one and a few floats *outside* either range end (seed C07-r10m1: the wrapped value of a query an ulp below the first knot rounds
        # up to the last knot; a lookup that trusts "the wrapped query is inside the range" reads past the axis)
        lo_, hi_ = xs[0], xs[-1]
        for _ in range(rng.choice([1, 1, 2, 4])):
            lo_, hi_ = vlib.next_down(lo_), vlib.next_up(hi_)
        base += [lo_, hi_]
    flat[(n - 1) * L:] = flat[:L]
    return shape, xs, flat, P, base, L


def generate(rng, tier):
    cases = []
    for _ in range(gen.N(tier, 120, 3000)):
        S = rng.choice(["Q"] * 15 + ["F"] * 3 + ["G"] * 2)
        shape, xs, flat, P, base, L = make(rng, S)
        ks = [0] + (KS if S == "Q" else [1, -1, 2, -7, 1000] if S == "F" else [1, -1, 2, -3, 50])
        qs = [b + k * P for b in base for k in ks]
        if S == "G":
            qs = [vlib.f32_round(q) for q in qs]
        dtag, qtag = gen.pick_dims(rng, len(shape), 1)
        cases.append({"line": i1_line(S, xs, shape, flat, ("spl", True, "per"), e_array(S, [len(qs)], qs, qtag=qtag), dtag=dtag,
                                      dlay=rng.choice(gen.LAYS_ND)),
                      "meta": {"S": S, "nb": len(base), "nk": len(ks), "L": L, "first": flat[:L], "P": P, "ks": ks, "ext": True,
                               "scale": max(abs(v) for v in flat) + 1.0 if S != "Q" else None,
                               "hmin": min(b - a for a, b in zip(xs, xs[1:])) if S != "Q" else None, "xs": xs}})
        if S == "F" and rng.random() < 0.6:
            # far family: axis starting at 0 (so x - x0 is exact) and queries of huge magnitude; the wrapped argument fmod(x, P) is
            # exact, so S(x) must equal S(fmod(x, P)) bit for bit
            n2 = rng.choice([3, 4, 6, 12])
            steps = [rng.randint(1, 16) / 4.0 for _ in range(n2 - 1)]
            xs2 = [0.0]
            for h in steps:
                xs2.append(xs2[-1] + h)
            P2 = xs2[-1]
            fl2 = [rng.uniform(-3, 3) for _ in range(n2)]
            fl2[-1] = fl2[0]
            far = [1e16, 1e17, 3.0e18 + 1024, 2.0 ** 70 + 2.0 ** 20, 7.3e22, 1e100, 1e300, 1.7976931348623157e308,
                   float(rng.randint(10 ** 15, 10 ** 16)), float(rng.randint(2 ** 53, 2 ** 62))]
            qs2 = []
            for x in far:
                qs2 += [x, math.fmod(x, P2)]
            cases.append({"line": i1_line("F", xs2, [n2], fl2, ("spl", True, "per"), e_array("F", [len(qs2)], qs2)),
                          "meta": {"S": "F", "ext": True, "far": True}})
        if rng.random() < 0.3:
            # same spline without extrapolation: images outside the range are rejected
            q_out = [base[-1] + P, base[-1]]
            cases.append({"line": i1_line(S, xs, shape, flat, ("spl", False, "per"), e_array(S, [2], q_out)),
                          "meta": {"S": S, "ext": False}})
    return cases


def nontrivial(case, res):
    return True


def oracle(case, res):
    m = case["meta"]
    if not m["ext"]:
        return None if res.kind == "oob" else f"periodic boundary without extrapolation must reject outside queries, got {res.raw[:60]}"
    if res.kind != "ok":
        return f"periodic extrapolation must answer every finite query, got {res.raw[:80]}"
    if m.get("far"):
        b = res.bits()
        for k in range(0, len(b), 2):
            if b[k] != b[k + 1]:
                return (f"query #{k} is a whole number of periods away from query #{k + 1} (exactly, fmod): results must be "
                        f"identical, got {res.vals[k]} vs {res.vals[k + 1]}")
        return None
    L, nb, nk = m["L"], m["nb"], m["nk"]
    if m["S"] == "Q":
        v = res.fractions()
        for b in range(nb):
            ref = v[(b * nk) * L:(b * nk + 1) * L]
            for j in range(1, nk):
                got = v[(b * nk + j) * L:(b * nk + j + 1) * L]
                if got != ref:
                    return f"S(x + {m['ks'][j]}*P) must equal S(x) for base point #{b}: {[str(g) for g in got]} vs {[str(r) for r in ref]}"
        for b in (0, 1):
            if v[(b * nk) * L:(b * nk + 1) * L] != m["first"]:
                return f"range end #{b} must evaluate to the first (= last) data row"
        return None
    v = res.floats()
    P = m["P"]
    for b in range(nb):
        ref = v[(b * nk) * L:(b * nk + 1) * L]
        for j in range(1, nk):
            k = abs(m["ks"][j])
            # error of the wrapped argument ~ k ulps of the query magnitude; derivative bounded by ~ 20*scale/hmin
            xmag = max(abs(x) for x in m["xs"]) + k * P
            eps = 2.0 ** -52 if m["S"] == "F" else 2.0 ** -23
            tol = (20 * m["scale"] / m["hmin"]) * (k + 4) * xmag * eps + (1e-9 if m["S"] == "F" else 1e-4) * m["scale"]
            got = v[(b * nk + j) * L:(b * nk + j + 1) * L]
            for g, r in zip(got, ref):
                if not math.isfinite(g) or abs(g - r) > tol:
                    # a point next to a range end may wrap to the other end: compare with both end values
                    if b in (0, 1, 2, 3, 6, 7) and any(abs(g - e) <= tol for e in m["first"]):
                        continue
                    return f"S(x + {m['ks'][j]}*P) = {g} differs from S(x) = {r} by more than {tol:.3e}"
    return None
