#!/usr/bin/env python3
"""seed_eval.py <out-dir-of-agent> <seed-id> <property-id> [--checks C01,C02,...]

Confirms a seeded change produced by a sub-agent (patch.diff + demo.rs + NOTES.md):
  1. in a scratch worktree of /repo: with the patch the whole existing suite passes and the demo FAILS;
     without the patch the demo PASSES;
  2. applies the patch to /repo, runs the quick checks, records which report a violation (and whether
     with a concrete failing input), then undoes the patch (git checkout);
  3. stores everything under /verif/seeded/<seed-id>/ (patch.diff, demo.rs, NOTES.md, meta.json).
"""
import json
import os
import re
import shutil
import subprocess
import sys

VERIF = os.path.dirname(os.path.dirname(os.path.abspath(__file__)))
SCRATCH = os.environ.get("SEED_SCRATCH", "/tmp/seedeval")
ALL = [f"C{i:02d}" for i in range(1, 21)]


def sh(cmd, cwd=None, timeout=3600):
    e = dict(os.environ, CARGO_NET_OFFLINE="true")
    p = subprocess.run(cmd, cwd=cwd, shell=True, stdout=subprocess.PIPE, stderr=subprocess.STDOUT, text=True, timeout=timeout, env=e)
    return p.returncode, p.stdout


def run_checks(patch, checks):
    # the evidence files describe the unchanged tree: keep them aside while the checks run against the patched tree
    ev, bak = os.path.join(VERIF, "evidence"), os.path.join(VERIF, ".work", "evidence.unchanged")
    shutil.rmtree(bak, ignore_errors=True)
    os.makedirs(os.path.dirname(bak), exist_ok=True)
    shutil.copytree(ev, bak)
    rc, out = sh(f"git -C /repo apply {patch}")
    assert rc == 0, out
    caught = {}
    try:
        for c in checks:
            rc, out = sh(f"./check {c} --tier quick", cwd=VERIF, timeout=3600)
            v = [l for l in out.splitlines() if l.startswith("VIOLATION")]
            summ = [l for l in out.splitlines() if l.startswith(c + " tier=")]
            kind = "quiet"
            detail = ""
            if rc != 0 and v:
                kind = "no-failing-input-found" if v[0].rstrip().endswith("no-failing-input-found") else "violation-with-input"
                rp = re.search(r"replay=(\S+)", v[0])
                if rp and os.path.exists(rp.group(1)):
                    try:
                        r = json.load(open(rp.group(1)))
                        detail = (r.get("required") or r.get("what") or "")[:300]
                    except Exception:
                        pass
            elif rc != 0:
                kind = f"check-error rc={rc}"
                detail = out[-300:]
            caught[c] = {"result": kind, "detail": detail, "summary": summ[-1] if summ else ""}
            print(c, kind, detail[:120])
    finally:
        sh("git -C /repo checkout -- .")
        shutil.rmtree(ev, ignore_errors=True)
        shutil.copytree(bak, ev)
    return caught


def recheck(meta, patch, checks):
    caught = run_checks(patch, checks)
    meta.setdefault("checks", {}).update(caught)
    meta["caught_by"] = sorted(c for c, r in meta["checks"].items() if r["result"].startswith(("violation", "no-failing")))
    meta["caught_by_target_property"] = meta["property"] in meta["caught_by"]
    meta.setdefault("rechecked", []).append({"checks": checks, "machinery_commit": sh("git -C /verif rev-parse --short HEAD")[1].strip()})


def main():
    src, sid, pid = sys.argv[1], sys.argv[2], sys.argv[3]
    checks = ALL
    if "--checks" in sys.argv:
        checks = [c for c in sys.argv[sys.argv.index("--checks") + 1].split(",") if c and c != "none"]
    patch = os.path.join(src, "patch.diff")
    demo = os.path.join(src, "demo.rs")
    meta = {"seed": sid, "property": pid, "source": "fresh sub-agent given only the property text and a scratch worktree"}
    d_old = os.path.join(VERIF, "seeded", sid, "meta.json")
    if "--recheck" in sys.argv and os.path.exists(d_old):
        # already confirmed and kept: run (some of) the checks again with the current machinery and merge the results
        meta = json.load(open(d_old))
        patch = os.path.join(VERIF, "seeded", sid, "patch.diff")
        recheck(meta, patch, checks)
        json.dump(meta, open(d_old, "w"), indent=1)
        print("RECHECKED", sid, "caught by", meta["caught_by"])
        return
    # ---- 1 confirm in a scratch worktree
    if not os.path.isdir(SCRATCH):
        rc, out = sh(f"git -C /repo worktree add -q --detach {SCRATCH} HEAD")
        assert rc == 0, out
    sh("git checkout -q -- . && git clean -qfd tests src", cwd=SCRATCH)
    rc, out = sh(f"git apply --check {patch}", cwd=SCRATCH)
    if rc != 0:
        print("PATCH DOES NOT APPLY", out)
        sys.exit(2)
    sh(f"git apply {patch}", cwd=SCRATCH)
    shutil.copy(demo, os.path.join(SCRATCH, "tests", "zz_seed_demo.rs"))
    rc, out = sh("cargo test --offline --no-fail-fast 2>&1", cwd=SCRATCH)
    results = re.findall(r"test result: (\w+)\. (\d+) passed; (\d+) failed", out)
    # which binaries failed? the demo must fail, everything else must pass
    blocks = re.split(r"\n\s+Running |\n\s+Doc-tests ", out)
    demo_failed, others_failed = False, []
    for b in blocks:
        m = re.search(r"test result: (\w+)\. (\d+) passed; (\d+) failed", b)
        if not m:
            continue
        name = b.split("\n", 1)[0]
        if int(m.group(3)) > 0:
            if "zz_seed_demo" in name:
                demo_failed = True
            else:
                others_failed.append(name.strip()[:80])
    if "error[" in out or "could not compile" in out:
        others_failed.append("compile error")
    meta["with_patch"] = {"existing_suite_passes": not others_failed, "demo_fails": demo_failed, "failed_elsewhere": others_failed,
                          "totals": results}
    sh("git checkout -q -- src Cargo.toml", cwd=SCRATCH)
    rc, out = sh("cargo test --offline --test zz_seed_demo 2>&1", cwd=SCRATCH)
    m = re.search(r"test result: (\w+)\. (\d+) passed; (\d+) failed", out)
    meta["without_patch"] = {"demo_passes": bool(m and m.group(1) == "ok" and int(m.group(3)) == 0), "result": m.group(0) if m else out[-300:]}
    sh("git checkout -q -- . && git clean -qfd tests", cwd=SCRATCH)
    confirmed = meta["with_patch"]["existing_suite_passes"] and demo_failed and meta["without_patch"]["demo_passes"]
    meta["confirmed"] = confirmed
    print(json.dumps({k: meta[k] for k in ("with_patch", "without_patch", "confirmed")}, indent=1))
    if not confirmed:
        print("NOT CONFIRMED — not kept")
        sys.exit(1)
    # ---- 2 run the checks against the patched /repo (evidence files of the unchanged tree are preserved)
    caught = run_checks(patch, checks) if checks else {}
    meta["checks"] = caught
    meta["caught_by"] = sorted(c for c, r in caught.items() if r["result"].startswith(("violation", "no-failing")))
    meta["caught_by_target_property"] = pid in meta["caught_by"]
    notes = os.path.join(src, "NOTES.md")
    meta["needs_to_manifest"] = open(notes).read()[:1500] if os.path.exists(notes) else ""
    meta["ran"] = [f"scratch worktree: git apply patch.diff; cp demo.rs tests/; cargo test --offline --no-fail-fast",
                   "scratch worktree without patch: cargo test --offline --test zz_seed_demo",
                   f"/repo: git apply patch.diff; ./check <id> --tier quick for {','.join(checks)}; git checkout -- ."]
    d = os.path.join(VERIF, "seeded", sid)
    os.makedirs(d, exist_ok=True)
    shutil.copy(patch, os.path.join(d, "patch.diff"))
    shutil.copy(demo, os.path.join(d, "demo.rs"))
    if os.path.exists(notes):
        shutil.copy(notes, os.path.join(d, "NOTES.md"))
    json.dump(meta, open(os.path.join(d, "meta.json"), "w"), indent=1)
    print("KEPT", sid, "caught by", meta["caught_by"])


if __name__ == "__main__":
    main()
