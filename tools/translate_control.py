#!/usr/bin/env python3
"""Control-flow translator: reads `src/vector_extensions.rs` of the crate and regenerates
lean/NdInterp/Gen/Control.lean — the *control flow* (not only the arithmetic) of

  MonotonicState::update / short_circuit / finish     (the 18-transition automaton behind `monotonic_prop`)
  VectorExtensions::monotonic_prop                     (length guard, `windows(2).try_fold(..).map_or_else(..)`)
  VectorExtensions::get_lower_index                    (range clamps, O(1) guess, guess check with `&&`, bisection loop)

as Lean functions over the model's types, statement by statement: `match` arms become `match` arms, `if / else if / else` chains
stay chains with the comparisons in source order, early `return`s end the computation, `let mut range` becomes two shadowed
variables, the `while` loop a well-founded recursive function, every `self[i]` a checked read (out of range = panic), every `usize`
subtraction a checked subtraction (underflow = panic), `cast(..).unwrap_or_else(|| unimplemented!())` a checked conversion.
`NdInterp/Props/FormulaTie/Ctl.lean` proves the generated functions equal to the hand-written model (`MState.update`,
`MState.shortCircuit`, `MState.finish`, `monotonicProp`, `bisect`, `lowerIndex`) for every input.

A function that cannot be located or uses a construct outside the translated subset is emitted as *unavailable*
(`…_available = false`, body = the model's own function), never guessed; it is then tied by the correspondence runs only.

usage: translate_control.py [--src DIR] [--out FILE] [--all-unavailable]
"""
import json
import os
import re
import sys

HERE = os.path.dirname(os.path.abspath(__file__))
sys.path.insert(0, HERE)
from translate import strip_comments, match_brace  # noqa: E402
from translate_formulas import Unavailable, tokenize, fn_body  # noqa: E402

# ------------------------------------------------------------------------------------------------ parser


class Parser:
    """statements and expressions of the subset of Rust the three functions use"""

    def __init__(self, toks):
        self.t, self.i = toks, 0

    def peek(self, k=0):
        return self.t[self.i + k] if self.i + k < len(self.t) else ("eof", "")

    def at(self, v, k=0):
        return self.peek(k)[1] == v and self.peek(k)[0] != "num"

    def eat(self, v=None):
        tok = self.peek()
        if v is not None and tok[1] != v:
            raise Unavailable(f"expected {v!r}, got {tok[1]!r}")
        self.i += 1
        return tok

    # ---- blocks and statements
    def block(self):
        """after '{' up to and including '}' : (stmts, tail-expression or None)"""
        stmts, tail = [], None
        while not self.at("}"):
            if self.peek()[0] == "eof":
                raise Unavailable("unterminated block")
            if self.at(";"):
                self.eat()
                continue
            if self.at("use"):
                while not self.at(";"):
                    self.eat()
                self.eat(";")
                continue
            if self.at("let"):
                self.eat()
                mut = False
                if self.at("mut"):
                    self.eat(); mut = True
                pat = self.expr(no_struct=False)
                if self.at(":"):
                    self.eat()
                    ty = self.eat()[1]
                    while not self.at("="):          # a path / generic type: `Sd::Elem`, `Vec<T>`
                        ty += self.eat()[1]
                    pat = ("typed", pat, ty)
                self.eat("=")
                e = self.expr()
                self.eat(";")
                stmts.append(("let", pat, e, mut))
                continue
            if self.at("return"):
                self.eat()
                e = self.expr()
                if self.at(";"):
                    self.eat()
                stmts.append(("return", e))
                continue
            if self.at("while"):
                self.eat()
                c = self.expr(no_struct=True)
                self.eat("{")
                b = self.block()
                stmts.append(("while", c, b))
                continue
            e = self.expr()
            if self.at("=") and not self.at(">", 1):
                self.eat()
                rhs = self.expr()
                if not self.at("}"):
                    self.eat(";")
                stmts.append(("assign", e, rhs))
                continue
            if self.at(";"):
                self.eat()
                stmts.append(("expr", e))
                continue
            if self.at("}"):
                tail = e
                break
            if e[0] in ("if", "match"):      # block-like expression statement without ';'
                stmts.append(("expr", e))
                continue
            raise Unavailable(f"unexpected token {self.peek()[1]!r} after expression")
        self.eat("}")
        return ("block", stmts, tail)

    # ---- expressions
    def expr(self, no_struct=False):
        old = getattr(self, "no_struct", False)
        self.no_struct = no_struct
        try:
            a = self.p_and()
            if self.at(".."):
                self.eat()
                a = ("range", a, self.p_and())
            return a
        finally:
            self.no_struct = old

    def p_and(self):
        a = self.p_and1()
        while self.peek() == ("op", "||"):
            self.eat()
            a = ("or", a, self.p_and1())
        return a

    def p_and1(self):
        a = self.p_cmp()
        while self.peek() == ("op", "&&"):
            self.eat()
            a = ("and", a, self.p_cmp())
        return a

    def p_cmp(self):
        a = self.p_add()
        if self.peek()[0] == "op" and self.peek()[1] in ("<=", ">=", "<", ">", "==", "!="):
            op = self.eat()[1]
            a = ("cmp", op, a, self.p_add())
        return a

    def p_add(self):
        a = self.p_mul()
        while self.peek()[0] == "op" and self.peek()[1] in ("+", "-"):
            op = self.eat()[1]
            a = ("bin", op, a, self.p_mul())
        return a

    def p_mul(self):
        a = self.p_un()
        while self.peek()[0] == "op" and self.peek()[1] in ("*", "/"):
            op = self.eat()[1]
            a = ("bin", op, a, self.p_un())
        return a

    def p_un(self):
        if self.peek() in (("op", "*"), ("op", "&")):
            self.eat()
            if self.at("mut"):
                self.eat()
            return self.p_un()
        if self.peek() == ("op", "-"):
            self.eat()
            return ("neg", self.p_un())
        if self.peek() == ("op", "!"):
            self.eat()
            return ("not", self.p_un())
        return self.p_post()

    def skip_balanced(self, open_, close):
        depth = 0
        while True:
            tok = self.eat()
            if tok[0] == "eof":
                raise Unavailable("unbalanced")
            if tok[1] == open_:
                depth += 1
            elif tok[1] == close:
                depth -= 1
                if depth == 0:
                    return

    def args(self):
        out = []
        while not self.at(")"):
            out.append(self.expr())
            if self.at(","):
                self.eat()
        self.eat(")")
        return out

    def p_post(self):
        a = self.p_prim()
        while True:
            if self.at(".") and self.peek(1)[0] == "id":
                self.eat()
                name = self.eat()[1]
                if self.at("::"):
                    self.eat()
                    self.skip_balanced("<", ">")
                if self.at("("):
                    self.eat("(")
                    a = ("method", a, name, self.args())
                else:
                    a = ("field", a, name)
            elif self.at(".") and self.peek(1)[0] == "num":
                self.eat()
                a = ("field", a, self.eat()[1])
            elif self.at("["):
                self.eat()
                idx = self.expr()
                self.eat("]")
                a = ("index", a, idx)
            elif self.at("?"):
                self.eat()
                a = ("try", a)
            else:
                return a

    def p_prim(self):
        tok = self.peek()
        if tok[0] == "num":
            self.eat()
            if self.peek()[0] == "id" and self.peek()[1] in ("usize", "u64", "u32", "i64", "i32", "isize", "f64", "f32"):
                self.eat()          # literal suffix
            return ("num", tok[1])
        if tok == ("op", "("):
            self.eat()
            if self.at(")"):
                self.eat()
                return ("tuple", [])
            first = self.expr()
            if self.at(","):
                items = [first]
                while self.at(","):
                    self.eat()
                    if self.at(")"):
                        break
                    items.append(self.expr())
                self.eat(")")
                return ("tuple", items)
            self.eat(")")
            return first
        if tok[0] == "op" and tok[1].startswith('"'):
            self.eat()
            return ("str",)
        if tok in (("op", "|"), ("op", "||")):
            params = []
            if self.eat()[1] == "|":
                while not self.at("|"):
                    while self.at("&") or self.at("mut"):
                        self.eat()
                    params.append(self.eat()[1])
                    if self.at(","):
                        self.eat()
                self.eat("|")
            if self.at("{"):
                self.eat()
                body = self.block()
            else:
                body = ("block", [], self.expr())
            return ("closure", params, body)
        if tok[0] == "id":
            if tok[1] == "if":
                return self.p_if()
            if tok[1] == "match":
                return self.p_match()
            self.eat()
            if tok[1] in ("true", "false"):
                return ("bool", tok[1])
            path = [tok[1]]
            while self.at("::"):
                self.eat()
                if self.at("<"):
                    self.skip_balanced("<", ">")
                else:
                    path.append(self.eat()[1])
            name = "::".join(path)
            if self.at("!"):                       # macro: panic!/unimplemented!/unreachable! are panics
                self.eat()
                if path[-1] == "matches":
                    self.eat("(")
                    e1 = self.expr()
                    self.eat(",")
                    p1 = self.expr()
                    if self.at(","):
                        self.eat()
                    self.eat(")")
                    return ("matches", e1, p1)
                self.skip_balanced("(", ")")
                if path[-1] in ("panic", "unimplemented", "unreachable", "todo"):
                    return ("panic",)
                if path[-1] == "format":
                    return ("fmt",)
                raise Unavailable(f"macro {name}!")
            if self.at("("):
                self.eat()
                return ("call", name, self.args())
            if self.at("{") and not self.no_struct and path[-1][:1].isupper():
                self.eat()
                fields = []
                while not self.at("}"):
                    f = self.eat()[1]
                    if self.at(":"):
                        self.eat()
                        fields.append((f, self.expr()))
                    else:
                        fields.append((f, ("var", f)))
                    if self.at(","):
                        self.eat()
                self.eat("}")
                return ("struct", name, fields)
            return ("var", name)
        raise Unavailable(f"unexpected token {tok[1]!r}")

    def p_if(self):
        self.eat("if")
        c = self.expr(no_struct=True)
        self.eat("{")
        th = self.block()
        el = None
        if self.at("else"):
            self.eat()
            if self.at("if"):
                el = ("block", [], self.p_if())
            else:
                self.eat("{")
                el = self.block()
        return ("if", c, th, el)

    def p_match(self):
        self.eat("match")
        s = self.expr(no_struct=True)
        self.eat("{")
        arms = []
        while not self.at("}"):
            pat = self.expr()
            self.eat("=")
            self.eat(">")
            if self.at("{"):
                self.eat()
                body = self.block()
            else:
                body = ("block", [], self.expr())
            if self.at(","):
                self.eat()
            arms.append((pat, body))
        self.eat("}")
        return ("match", s, arms)


def fn_params(code, header_re):
    """names of the parameters of the *definition* matching header_re (without `self`)"""
    for m in re.finditer(header_re, code):
        j = m.end()
        while j < len(code) and code[j] not in "{;":
            j += 1
        if j < len(code) and code[j] == "{":
            k = code.index("(", m.start())
            depth, cur, parts = 0, "", []
            for ch in code[k + 1:]:
                if ch in "(<[":
                    depth += 1
                elif ch in ")>]":
                    if ch == ")" and depth == 0:
                        break
                    depth -= 1
                if ch == "," and depth == 0:
                    parts.append(cur); cur = ""
                else:
                    cur += ch
            parts.append(cur)
            names = []
            for p_ in parts:
                p_ = p_.strip()
                if not p_ or p_.replace("&", "").replace("mut ", "").strip() == "self":
                    continue
                names.append(p_.split(":")[0].replace("mut ", "").strip())
            return names
    raise Unavailable(f"no definition matching {header_re!r}")


def rename_vars(e, ren):
    """rename variables in a parsed tree (used to give the parameters of `interp_into` the names of the generated signature)"""
    if isinstance(e, tuple):
        if len(e) == 2 and e[0] == "var" and e[1] in ren:
            return ("var", ren[e[1]])
        return tuple(rename_vars(x, ren) for x in e)
    if isinstance(e, list):
        return [rename_vars(x, ren) for x in e]
    if isinstance(e, str) and False:
        return e
    return e


def parse_fn_as(code, header_re, want):
    """parse the definition and rename its parameters (in order, without self) to `want`"""
    names = fn_params(code, header_re)
    if len(names) != len(want):
        raise Unavailable(f"{len(names)} parameters, expected {len(want)}")
    ren = {a: b for a, b in zip(names, want) if a != b}
    clash = set(ren.values()) & set(names) - set(ren.keys())
    b = parse_fn(code, header_re)
    if ren:
        if clash:
            raise Unavailable("parameter names clash with the generated signature")
        b = rename_vars(b, ren)
    return b


def parse_fn(code, header_re):
    # the definition (a body follows), not a declaration inside a trait (`fn f(..) -> T;`)
    for m in re.finditer(header_re, code):
        j = m.end()
        while j < len(code) and code[j] not in "{;":
            j += 1
        if j < len(code) and code[j] == "{":
            code = code[m.start():]
            break
    else:
        raise Unavailable(f"no definition matching {header_re!r}")
    body = fn_body(code, header_re)
    p = Parser(tokenize(body + "}"))
    return p.block()


# ------------------------------------------------------------------------------------------------ the automaton

CTOR = {"Init": ("MState.init", 0), "NotStrict": ("MState.notStrict", 0), "Likely": ("MState.likely", 1),
        "Rising": ("Monotonic.rising", ["strict"]), "Falling": ("Monotonic.falling", ["strict"]), "NotMonotonic": ("Monotonic.notMonotonic", 0),
        "Ok": ("Except.ok", 1), "Err": ("Except.error", 1)}
CMP = {"<": "Cmp.lt", "<=": "Cmp.le", "==": "Cmp.eq", ">": "Cmp.gt", ">=": "Cmp.ge"}
METHODS = {"update": "mono_update", "short_circuit": "mono_short_circuit", "finish": "mono_finish"}
FALLIBLE = {"finish"}


def last(name):
    return name.split("::")[-1]


class Auto:
    """expression -> Lean for the automaton functions; `fallible`: the function's Lean type is `Except Fault _`
    (a `panic!` arm exists), so values in result position are wrapped in `.ok`"""

    def __init__(self, fallible, self_name="self"):
        self.fallible = fallible
        self.self_name = self_name

    def pat(self, p):
        if p[0] == "bool":
            return p[1]
        if p[0] == "var":
            n = last(p[1])
            if n == "_":
                return "_"
            if n in CTOR:
                return "." + CTOR[n][0].split(".")[1]
            return n
        if p[0] == "call":
            n = last(p[1])
            if n not in CTOR:
                raise Unavailable(f"pattern {n}")
            return "(." + CTOR[n][0].split(".")[1] + " " + " ".join(self.pat(a) for a in p[2]) + ")"
        if p[0] == "struct":
            n = last(p[1])
            c, fields = CTOR[n]
            got = dict(p[2])
            return "(." + c.split(".")[1] + " " + " ".join(self.pat(got[f]) if f in got else "_" for f in fields) + ")"
        raise Unavailable(f"pattern {p[0]}")

    def val(self, e):
        """a pure value"""
        k = e[0]
        if k == "var":
            n = last(e[1])
            if n in CTOR:
                return CTOR[n][0]
            return "self_" if n == "self" or e[1] == "Self" else n
        if k == "bool":
            return e[1]
        if k == "call":
            n = last(e[1])
            if n in CTOR:
                return "(" + CTOR[n][0] + " " + " ".join(self.val(a) for a in e[2]) + ")"
            if e[1] in ("MonotonicState::start", "Self::start"):
                return "mono_start"
            raise Unavailable(f"call {e[1]}")
        if k == "struct":
            c, fields = CTOR[last(e[1])]
            got = dict(e[2])
            return "(" + c + " " + " ".join(self.val(got[f]) for f in fields) + ")"
        if k == "cmp":
            if e[1] not in CMP:
                raise Unavailable(f"comparison {e[1]}")
            return f"({CMP[e[1]]} {self.val(e[2])} {self.val(e[3])})"
        if k == "and":
            return f"({self.val(e[1])} && {self.val(e[2])})"
        if k == "method" and e[2] in METHODS and e[2] not in FALLIBLE:
            return "(" + METHODS[e[2]] + " " + " ".join([self.val(e[1])] + [self.val(a) for a in e[3]]) + ")"
        raise Unavailable(f"value {k}")

    def res(self, e, ind):
        """expression in result position"""
        k = e[0]
        if k == "if":
            c = self.val(e[1])
            el = e[3]
            if el is None:
                raise Unavailable("if without else in result position")
            return f"if {c} then\n{ind}  {self.blk(e[2], ind + '  ')}\n{ind}else\n{ind}  {self.blk(el, ind + '  ')}"
        if k == "match":
            s = self.val(e[1])
            out = f"match {s} with"
            for p, b in e[2]:
                out += f"\n{ind}| {self.pat(p)} =>\n{ind}    {self.blk(b, ind + '    ')}"
            return out
        if k == "panic":
            if not self.fallible:
                raise Unavailable("panic in a function translated as total")
            return ".error .panic"
        if k == "method" and e[2] in FALLIBLE:
            if not self.fallible:
                raise Unavailable("fallible call in a function translated as total")
            return METHODS[e[2]] + " " + self.val(e[1])
        v = self.val(e)
        return f".ok {v}" if self.fallible else v

    def blk(self, b, ind):
        _, stmts, tail = b
        out = ""
        for s in stmts:
            if s[0] == "let" and s[1][0] == "var":
                out += f"let {s[1][1]} := {self.val(s[2])}\n{ind}"
            elif s[0] == "return" and s is stmts[-1] and tail is None:
                tail = s[1]
            elif s[0] == "expr" and s is stmts[-1] and tail is None:
                tail = s[1]
            else:
                raise Unavailable(f"statement {s[0]} in automaton function")
        if tail is None:
            raise Unavailable("block without value")
        return out + self.res(tail, ind)


def gen_update(code, out):
    b = parse_fn(code, r"fn\s+update\s*<")
    out.add("mono_update", "{α : Type} [Cmp α] (self_ : MState) (a b : α) : MState", Auto(False).blk(b, "  "),
            fallback="MState.update self_ a b")


def gen_short_circuit(code, out):
    b = parse_fn(code, r"fn\s+short_circuit\s*\(")
    out.add("mono_short_circuit", "(self_ : MState) : Except Monotonic MState", Auto(False).blk(b, "  "),
            fallback="MState.shortCircuit self_")


def gen_finish(code, out):
    b = parse_fn(code, r"fn\s+finish\s*\(")
    out.add("mono_finish", "(self_ : MState) : Except Fault Monotonic", Auto(True).blk(b, "  "), fallback="MState.finish self_")


def gen_start(code, out):
    b = parse_fn(code, r"fn\s+start\s*\(")
    out.add("mono_start", ": MState", Auto(False).blk(b, "  "), fallback="MState.init")


def gen_mono_prop(code, out):
    """`if self.len() <= 1 { return NotMonotonic; }; self.windows(2).into_iter().try_fold(INIT, |state, items| BODY).map_or_else(|m| A, |s| B)`"""
    b = parse_fn(code, r"fn\s+monotonic_prop\s*\(")
    _, stmts, tail = b
    stmts = [s for s in stmts if not (s[0] == "expr" and s[1] == ("tuple", []))]
    A = Auto(True)
    if len(stmts) != 1 or stmts[0][0] != "expr" or stmts[0][1][0] != "if":
        raise Unavailable("monotonic_prop: expected one guard statement")
    g = stmts[0][1]
    c = g[1]
    if not (c[0] == "cmp" and c[2] == ("method", ("var", "self"), "len", []) and c[3][0] == "num" and g[3] is None):
        raise Unavailable("monotonic_prop: guard is not a test of self.len() against a literal")
    ops = {"<=": "≤", "<": "<", "==": "=", ">=": "≥", ">": ">"}
    gb = g[2]
    if not (len(gb[1]) == 1 and gb[1][0][0] == "return"):
        raise Unavailable("monotonic_prop: guard body is not a return")
    guard_val = A.res(gb[1][0][1], "    ")
    # the fold idiom
    t = tail
    if not (t and t[0] == "method" and t[2] == "map_or_else" and len(t[3]) == 2 and all(x[0] == "closure" and len(x[1]) == 1 for x in t[3])):
        raise Unavailable("monotonic_prop: tail is not `.map_or_else(|..| .., |..| ..)`")
    f = t[1]
    if not (f[0] == "method" and f[2] == "try_fold" and len(f[3]) == 2 and f[3][1][0] == "closure" and len(f[3][1][1]) == 2):
        raise Unavailable("monotonic_prop: no `try_fold(init, |state, items| ..)`")
    it = f[1]
    if it[0] == "method" and it[2] == "into_iter":
        it = it[1]
    if it != ("method", ("var", "self"), "windows", [("num", "2")]):
        raise Unavailable("monotonic_prop: the fold does not run over `self.windows(2)`")
    init = Auto(False).val(f[3][0])
    st, items = f[3][1][1]
    body = f[3][1][2]

    def subst(e):
        if isinstance(e, tuple):
            if e[0] == "index" and e[1] == ("var", items) and e[2][0] == "num" and e[2][1] in ("0", "1"):
                return ("var", f"{items}_{e[2][1]}")
            if e == ("var", items):
                raise Unavailable("window used other than by items[0] / items[1]")
            return tuple(subst(x) for x in e)
        if isinstance(e, list):
            return [subst(x) for x in e]
        return e
    fold_body = Auto(False).blk(subst(body), "      ")
    (p_err,), b_err = t[3][0][1], t[3][0][2]
    (p_ok,), b_ok = t[3][1][1], t[3][1][2]
    text = (f"if xs.length {ops[c[1]]} {c[3][1]} then\n    {guard_val}\n  else\n"
            f"    match tryFoldPairs {init} (fun {st} {items}_0 {items}_1 =>\n      {fold_body}) xs with\n"
            f"    | .error {p_err} =>\n      {A.blk(b_err, '      ')}\n"
            f"    | .ok {p_ok} =>\n      {A.blk(b_ok, '      ')}")
    out.add("mono_prop", "{α : Type} [Cmp α] (xs : List α) : Except Fault Monotonic", text, fallback="monotonicProp xs")


# ------------------------------------------------------------------------------------------------ get_lower_index


class Lower:
    """statement compiler for `get_lower_index`: result type `Except Fault Nat`.  Variables of type usize / T are told apart
    so that comparisons become `<` on Nat or `Cmp.*` on the scalar, `cast` a `Nat` cast or a checked conversion to `usize`."""

    def __init__(self):
        self.ty = {"x": "T"}
        self.n = 0
        self.loops = []          # auxiliary definitions (the while loops)
        self.mut = []            # mutable scalar variables in scope, in declaration order (Lean names)

    def fresh(self, p):
        self.n += 1
        return f"{p}{self.n}"

    # ---- types
    def type_of(self, e):
        k = e[0]
        if k == "num":
            return "usize"
        if k == "var":
            return self.ty.get(e[1], "?")
        if k == "field":
            return self.ty.get(self.name(e), "?")
        if k == "index":
            return "T"
        if k == "method" and e[2] == "len":
            return "usize"
        if k == "bin":
            return self.type_of(e[2])
        if k == "call" and last(e[1]) == "calc_frac":
            return "T"
        if k == "method" and e[2] in ("unwrap_or_else", "unwrap", "expect"):
            return "?"
        return "?"

    def name(self, e):
        """Lean name of a variable / tuple field"""
        if e[0] == "var":
            return e[1]
        if e[0] == "field" and e[1][0] == "var":
            return f"{e[1][1]}_{e[2]}"
        raise Unavailable("place expression")

    # ---- pure expressions with hoisted effects: returns (effects, text); an effect is a function text -> text wrapping the rest
    def pure(self, e, want=None):
        k = e[0]
        if k == "num":
            return [], e[1]
        if k in ("var", "field"):
            return [], self.name(e)
        if k == "method" and e[2] == "len" and e[1] == ("var", "self"):
            return [], "xs.length"
        if k == "index" and e[1] == ("var", "self"):
            eff, i = self.pure(e[2])
            v = self.fresh("r")
            eff.append(lambda rest, ind, i=i, v=v: f"match xs[{i}]? with\n{ind}| none => .error .panic\n{ind}| some {v} =>\n{ind}  {rest(ind + '  ')}")
            return eff, v
        if k == "bin":
            ta = self.type_of(e[2])
            ea, a = self.pure(e[2])
            eb, b = self.pure(e[3])
            if ta != "usize":
                raise Unavailable("arithmetic on the element type outside calc_frac")
            if e[1] == "-":
                eff = ea + eb
                eff.append(lambda rest, ind, a=a, b=b: f"if {b} ≤ {a} then\n{ind}  {rest(ind + '  ')}\n{ind}else .error .panic")
                return eff, f"({a} - {b})"
            return ea + eb, f"({a} {e[1]} {b})"
        if k == "method" and e[2] in ("unwrap_or_else", "unwrap", "expect") and e[1][0] == "call" and last(e[1][1]) == "cast":
            if e[2] == "unwrap_or_else":
                cl = e[3][0]
                if not (cl[0] == "closure" and cl[2][2] == ("panic",)):
                    raise Unavailable("unwrap_or_else with a closure that does not panic")
            arg = e[1][2][0]
            ta = self.type_of(arg)
            eff, a = self.pure(arg)
            if want == "usize" or (want is None and ta == "T"):
                if ta != "T":
                    raise Unavailable("cast to usize of a non-scalar")
                v = self.fresh("c")
                eff.append(lambda rest, ind, a=a, v=v: f"match ToUsize.toUsize? {a} with\n{ind}| none => .error .panic\n{ind}| some {v} =>\n{ind}  {rest(ind + '  ')}")
                return eff, v
            if ta != "usize":
                raise Unavailable("cast to the element type of a non-usize")
            return eff, f"(({a} : Nat) : α)"       # cast(usize) always succeeds (the closure is unreachable)
        if k == "call" and last(e[1]) == "calc_frac" and len(e[2]) == 3:
            p1, p2, x = e[2]
            if not (p1[0] == "var" and p2[0] == "var"):
                raise Unavailable("calc_frac arguments are not tuple variables")
            eff, xv = self.pure(x)
            return eff, f"(calcFrac {p1[1]}_0 {p1[1]}_1 {p2[1]}_0 {p2[1]}_1 {xv})"
        raise Unavailable(f"expression {k}")

    def wrap(self, effs, inner, ind):
        """apply hoisted effects (in evaluation order) around `inner : indent -> text`"""
        def go(i, ind):
            if i == len(effs):
                return inner(ind)
            return effs[i](lambda ind2: go(i + 1, ind2), ind)
        return go(0, ind)

    def cond(self, c, th, el, ind):
        """`if c { th } else { el }` with Rust's evaluation order; th / el : indent -> text"""
        if c[0] == "and":
            return self.cond(c[1], lambda i2: self.cond(c[2], th, el, i2), el, ind)
        if c[0] == "or":
            return self.cond(c[1], th, lambda i2: self.cond(c[2], th, el, i2), ind)
        if c[0] == "not":
            return self.cond(c[1], el, th, ind)
        if c[0] != "cmp":
            raise Unavailable("condition is not a comparison")
        ta = self.type_of(c[2])
        ea, a = self.pure(c[2])
        eb, b = self.pure(c[3])
        if ta == "usize":
            test = f"{a} {c[1]} {b}"
            if c[1] not in ("<", "<=", ">", ">=", "=="):
                raise Unavailable("usize comparison")
            test = test.replace("<=", "≤").replace(">=", "≥").replace("==", "=")
            head = f"if _h{self.fresh('')} : {test} then"
        elif ta == "T":
            if c[1] not in CMP:
                raise Unavailable("scalar comparison")
            head = f"if {CMP[c[1]]} {a} {b} then"
        else:
            raise Unavailable("comparison of unknown type")
        return self.wrap(ea + eb, lambda i2: f"{head}\n{i2}  {th(i2 + '  ')}\n{i2}else\n{i2}  {el(i2 + '  ')}", ind)

    # ---- statements; k : indent -> text is what follows the statement list ("fall off the end")
    def stmts(self, ss, tail, k, ind):
        if not ss:
            if tail is not None and tail[0] == "if":
                return self.stmts([("expr", tail)], None, k, ind)
            if tail is not None:
                eff, v = self.pure(tail)
                return self.wrap(eff, lambda i2: f".ok {v}", ind)
            return k(ind)
        s, rest = ss[0], ss[1:]
        nxt = lambda i2: self.stmts(rest, tail, k, i2)
        if s[0] == "return":
            eff, v = self.pure(s[1])
            return self.wrap(eff, lambda i2: f".ok {v}", ind)
        if s[0] == "let":
            pat, e = s[1], s[2]
            want = None
            if pat[0] == "typed":
                want = pat[2]
                pat = pat[1]
            if pat[0] != "var":
                raise Unavailable("let pattern")
            nm = pat[1]
            if e[0] == "tuple":
                effs, parts = [], []
                for j, it in enumerate(e[1]):
                    ef, v = self.pure(it)
                    effs += ef
                    parts.append(v)
                    t = self.type_of(it)
                    if it[0] == "method" and it[1][0] == "call" and last(it[1][1]) == "cast":
                        t = "T" if self.type_of(it[1][2][0]) == "usize" else "usize"
                    self.ty[f"{nm}_{j}"] = t
                    if s[3]:
                        self.mut.append(f"{nm}_{j}")
                return self.wrap(effs, lambda i2: "".join(f"let {nm}_{j} := {v}\n{i2}" for j, v in enumerate(parts)) + nxt(i2), ind)
            eff, v = self.pure(e, want)
            t = want or self.type_of(e)
            if e[0] == "method" and e[1][0] == "call" and last(e[1][1]) == "cast" and want is None:
                t = "T" if self.type_of(e[1][2][0]) == "usize" else "usize"
            self.ty[nm] = t
            if s[3]:
                self.mut.append(nm)
            return self.wrap(eff, lambda i2: f"let {nm} := {v}\n{i2}" + nxt(i2), ind)
        if s[0] == "assign":
            nm = self.name(s[1])
            if nm not in self.mut:
                raise Unavailable(f"assignment to {nm}, which is not a `let mut` variable")
            eff, v = self.pure(s[2])
            return self.wrap(eff, lambda i2: f"let {nm} := {v}\n{i2}" + nxt(i2), ind)
        if s[0] == "expr" and s[1][0] == "if":
            _, c, th, el = s[1]
            th_f = lambda i2: self.stmts(th[1], th[2], nxt, i2)
            el_f = (lambda i2: self.stmts(el[1], el[2], nxt, i2)) if el is not None else nxt
            return self.cond(c, th_f, el_f, ind)
        if s[0] == "while":
            mut = list(self.mut)
            for nm_, _sig, _body, _mut, sid in self.loops:
                if sid == id(s):          # the same loop reached along another branch of the preceding statements
                    return f"{nm_} xs x {' '.join(mut)}"
            name = f"get_lower_index_loop{len(self.loops) + 1}"
            if len(mut) != 2:
                raise Unavailable("while loop over other than two mutable variables")
            call = f"{name} xs x {' '.join(mut)}"
            body = self.cond(s[1], lambda i2: self.stmts(s[2][1], s[2][2], lambda i3: call, i2), lambda i2: self.stmts(rest, tail, k, i2), "  ")
            self.loops.append((name, f"(xs : List α) (x : α) ({' '.join(mut)} : Nat) : Except Fault Nat", body, mut, id(s)))
            return call
        raise Unavailable(f"statement {s[0]}")


def gen_lower(code, out):
    b = parse_fn(code, r"fn\s+get_lower_index\s*\(")
    L = Lower()
    text = L.stmts(b[1], b[2], lambda ind: (_ for _ in ()).throw(Unavailable("function falls off its end")), "  ")
    if len(L.loops) != 1:
        raise Unavailable(f"{len(L.loops)} loops (expected the bisection loop)")
    name, sig, body, mut, _ = L.loops[0]
    out.add(name, "{α : Type} [Cmp α] " + sig, body, fallback="bisect xs x " + " ".join(mut),
            suffix=f"termination_by {mut[1]} - {mut[0]}\ndecreasing_by all_goals (simp_wf; omega)")
    out.add("get_lower_index", "{α : Type} [Cmp α] [Add α] [Sub α] [Mul α] [Div α] [NatCast α] [ToUsize α] (xs : List α) (x : α) : Except Fault Nat",
            text, fallback="lowerIndex xs x", depends=[name])


# ------------------------------------------------------------------------------------------------ accessors and strategies


def find_impl_fn(code, name, after_re=None):
    """source text starting at the definition of `fn name` (the first one after a match of after_re, if given)"""
    start = 0
    if after_re:
        m = re.search(after_re, code)
        if not m:
            raise Unavailable(f"anchor {after_re!r} not found")
        start = m.start()
    return code[start:]


class Strat:
    """statement compiler for the accessors of `Interp1D` / `Interp2D` and for `interp_into` of Linear / Bilinear.
    `arrays`: Rust place (e.g. `self.x`) -> Lean list name;  `calls`: method name -> (generated Lean function, leading Lean arguments)."""

    def __init__(self, arrays, calls, aliases=(), alias_arrays=None, strat_name="self"):
        self.arrays, self.calls = arrays, calls
        self.aliases = set(aliases)
        self.alias_arrays = alias_arrays or {}        # `interp.x` -> Lean list, for field reads through the interpolator
        self.n = 0
        self.usize = set()       # variables known to hold indices
        self.mut = set()
        self.consts = {}         # let-bound scalar constants (`cast(1.0)`)

    def fresh(self, p):
        self.n += 1
        return f"{p}{self.n}"

    def place(self, e):
        if e[0] == "field" and e[1] == ("var", "self") and e[2] in self.arrays:
            return self.arrays[e[2]]
        if e[0] == "field" and e[1][0] == "var" and e[1][1] in self.aliases and e[2] in self.alias_arrays:
            return self.alias_arrays[e[2]]
        return None

    def is_usize(self, e):
        k = e[0]
        if k == "num":
            return "." not in e[1]
        if k == "var":
            return e[1] in self.usize
        if k == "method" and e[2] == "len":
            return True
        if k == "bin":
            return self.is_usize(e[2]) or self.is_usize(e[3])
        return False

    # pure usize / scalar expressions with hoisted reads (as in `Lower.pure`), over named arrays
    def pure(self, e):
        k = e[0]
        if k == "num":
            return [], e[1]
        if k == "var" and e[1] in self.consts:
            return [], self.consts[e[1]]
        if k == "var":
            return [], e[1]
        if k == "method" and e[2] == "len" and self.place(e[1]):
            return [], f"{self.place(e[1])}.length"
        if k == "index" and self.place(e[1]):
            arr = self.place(e[1])
            eff, i = self.pure(e[2])
            v = self.fresh("r")
            eff.append(lambda rest, ind, i=i, v=v, arr=arr: f"match {arr}[{i}]? with\n{ind}| none => .error .panic\n{ind}| some {v} =>\n{ind}  {rest(ind + '  ')}")
            return eff, v
        if k == "var" and e[1] in self.consts:
            return [], self.consts[e[1]]
        if k == "bin" and not self.is_usize(e):
            ea, a = self.pure(e[2])
            eb, b = self.pure(e[3])
            return ea + eb, f"({a} {e[1]} {b})"
        if k == "method" and e[2] == "rem_euclid" and len(e[3]) == 1:
            ea, a = self.pure(e[1])
            eb, b = self.pure(e[3][0])
            return ea + eb, f"(RemEuclid.remEuclid {a} {b})"
        if k == "bin" and e[1] in "+-":
            ea, a = self.pure(e[2])
            eb, b = self.pure(e[3])
            if e[1] == "-":
                eff = ea + eb
                eff.append(lambda rest, ind, a=a, b=b: f"if {b} ≤ {a} then\n{ind}  {rest(ind + '  ')}\n{ind}else .error .panic")
                return eff, f"({a} - {b})"
            return ea + eb, f"({a} + {b})"
        if k == "method" and e[2] in ("index_axis", "index_axis_move") and len(e[3]) == 2:
            # `arr.index_axis(Axis(0), i)`: row i of the (remaining) leading axis
            ax = e[3][0]
            if not ((ax[0] == "call" and last(ax[1]) == "Axis" and ax[2] == [("num", "0")]) or ax == ("var", "AX0")):
                raise Unavailable("index_axis along an axis other than Axis(0)")
            base = self.place(e[1])
            if base is None:
                eff, base = self.pure(e[1])
            else:
                eff = []
            e2, i = self.pure(e[3][1])
            v = self.fresh("row")
            eff = eff + e2
            eff.append(lambda rest, ind, i=i, v=v, base=base: f"match {base}[{i}]? with\n{ind}| none => .error .panic\n{ind}| some {v} =>\n{ind}  {rest(ind + '  ')}")
            return eff, v
        if k == "method" and e[1][0] == "var" and (e[1][1] in self.aliases or e[1][1] == "self") and e[2] in self.calls:
            fn, lead = self.calls[e[2]]
            effs, args = [], []
            for a in e[3]:
                ef, v = self.pure(a)
                effs += ef
                args.append(v)
            v = self.fresh("v")
            effs.append(lambda rest, ind, fn=fn, lead=lead, args=args, v=v: f"match {fn} {' '.join(lead + args)} with\n{ind}| .error e => .error e\n{ind}| .ok {v} =>\n{ind}  {rest(ind + '  ')}")
            return effs, v
        if k == "method" and self.place(e[1]) and e[2] == "get_lower_index" and len(e[3]) == 1:
            ef, a = self.pure(e[3][0])
            v = self.fresh("i")
            ef.append(lambda rest, ind, arr=self.place(e[1]), a=a, v=v: f"match get_lower_index {arr} {a} with\n{ind}| .error e => .error e\n{ind}| .ok {v} =>\n{ind}  {rest(ind + '  ')}")
            return ef, v
        if k == "tuple":
            effs, parts = [], []
            for it in e[1]:
                ef, v = self.pure(it)
                effs += ef
                parts.append(v)
            return effs, "(" + ", ".join(parts) + ")"
        if k == "call" and last(e[1]) == "calc_frac" and len(e[2]) == 3 and all(a[0] == "tuple" and len(a[1]) == 2 for a in e[2][:2]):
            (p1, p2, x) = e[2]
            vals = []
            for it in (p1[1][0], p1[1][1], p2[1][0], p2[1][1], x):
                ef, v = self.pure(it)
                if ef:
                    raise Unavailable("effects inside calc_frac arguments")
                vals.append(v)
            return [], "(calcFrac " + " ".join(vals) + ")"
        raise Unavailable(f"expression {k}" + (f" .{e[2]}" if k == "method" else ""))

    def wrap(self, effs, inner, ind):
        def go(i, ind):
            if i == len(effs):
                return inner(ind)
            return effs[i](lambda ind2: go(i + 1, ind2), ind)
        return go(0, ind)

    def cond(self, c, th, el, ind):
        k = c[0]
        if k == "and":
            return self.cond(c[1], lambda i2: self.cond(c[2], th, el, i2), el, ind)
        if k == "or":
            return self.cond(c[1], th, lambda i2: self.cond(c[2], th, el, i2), ind)
        if k == "not":
            return self.cond(c[1], el, th, ind)
        if k == "field" and c[1] == ("var", "self") and c[2] == "extrapolate":
            return f"if ext then\n{ind}  {th(ind + '  ')}\n{ind}else\n{ind}  {el(ind + '  ')}"
        if k == "cmp":
            if c[1] not in CMP:
                raise Unavailable("comparison")
            ea, a = self.pure(c[2])
            eb, b = self.pure(c[3])
            return self.wrap(ea + eb, lambda i2: f"if {CMP[c[1]]} {a} {b} then\n{i2}  {th(i2 + '  ')}\n{i2}else\n{i2}  {el(i2 + '  ')}", ind)
        if k == "method":
            eff, v = self.pure(c)
            return self.wrap(eff, lambda i2: f"if {v} then\n{i2}  {th(i2 + '  ')}\n{i2}else\n{i2}  {el(i2 + '  ')}", ind)
        if k == "matches" and c[1] == ("field", ("var", "self"), "extrapolate") and c[2][0] == "var" and last(c[2][1]) in ("No", "Yes", "Periodic"):
            return f"if s.extrapolate == .{last(c[2][1]).lower()} then\n{ind}  {th(ind + '  ')}\n{ind}else\n{ind}  {el(ind + '  ')}"
        if k == "var":
            return f"if {c[1]} then\n{ind}  {th(ind + '  ')}\n{ind}else\n{ind}  {el(ind + '  ')}"
        raise Unavailable(f"condition {k}")

    def pat(self, p):
        if p[0] == "var":
            return p[1]
        if p[0] == "tuple":
            return "(" + ", ".join(self.pat(x) for x in p[1]) + ")"
        raise Unavailable("let pattern")

    def zip_stmt(self, e):
        """`Zip::from(a).and(b)….and(target).for_each(|&a, &b, …, t| { …; *t = EXPR })` -> (target name, Lean value)"""
        if not (e[0] == "method" and e[2] == "for_each" and len(e[3]) == 1 and e[3][0][0] == "closure"):
            return None
        srcs, cur = [], e[1]
        while cur[0] == "method" and cur[2] == "and" and len(cur[3]) == 1:
            srcs.append(cur[3][0])
            cur = cur[1]
        if not (cur[0] == "call" and cur[1] == "Zip::from" and len(cur[2]) == 1):
            return None
        srcs.append(cur[2][0])
        srcs.reverse()
        params, body = e[3][0][1], e[3][0][2]
        if len(params) != len(srcs) or not all(s[0] == "var" for s in srcs):
            raise Unavailable("Zip: parts and closure parameters do not match")
        tgt, tp = srcs[-1][1], params[-1]
        k = len(srcs) - 1
        if k not in (1, 2, 3, 4):
            raise Unavailable("Zip arity")
        _, stmts, tail = body
        stmts = list(stmts)
        if tail is not None:
            raise Unavailable("Zip closure with a value")
        if not stmts or stmts[-1][0] != "assign" or stmts[-1][1] != ("var", tp):
            raise Unavailable("Zip closure does not end by assigning its target element")
        txt = ""
        for s in stmts[:-1]:
            if s[0] != "let" or s[1][0] != "var":
                raise Unavailable("statement in Zip closure")
            ef, v = self.pure(s[2])
            if ef:
                raise Unavailable("effects in Zip closure")
            txt += f"let {s[1][1]} := {v}; "
        ef, v = self.pure(stmts[-1][2])
        if ef:
            raise Unavailable("effects in Zip closure")
        lean = f"Lanes.map{k} (fun {' '.join(params[:-1])} => {txt}{v}) {' '.join(s[1] for s in srcs[:-1])}"
        return tgt, lean

    def stmts(self, ss, tail, ind, result, k=None):
        """result(e) : text for the value of the function given the final expression; k : what follows when the block ends without one"""
        if not ss:
            if tail is None:
                if k is None:
                    raise Unavailable("function falls off its end")
                return k(ind)
            return result(tail, ind)
        s, rest = ss[0], ss[1:]
        nxt = lambda i2: self.stmts(rest, tail, i2, result, k)
        if s[0] == "let" and s[2][0] == "var" and s[2][1] in self.aliases and s[1][0] == "var":
            self.aliases.add(s[1][1])
            return nxt(ind)
        if s[0] == "let" and s[1][0] == "var" and s[2] == ("var", s[1][1]):
            if s[3]:
                self.mut.add(s[1][1])          # `let mut x = x;`
            return nxt(ind)
        if s[0] == "let" and s[1][0] == "typed" and s[2][0] == "method" and s[2][1][0] == "call" and last(s[2][1][1]) == "cast" \
                and s[2][1][2] and s[2][1][2][0][0] == "num" and s[2][1][2][0][1] in ("0.0", "1.0", "2.0", "3.0"):
            self.consts[s[1][1][1]] = "c" + s[2][1][2][0][1][0]      # `let one: T = cast(1.0).unwrap_or_else(..)`
            return nxt(ind)
        if s[0] == "let":
            eff, v = self.pure(s[2])
            if s[1][0] == "var" and (self.is_usize(s[2]) or (s[2][0] == "method" and s[2][2] in ("get_index_left_of", "get_lower_index"))):
                self.usize.add(s[1][1])
            if s[1][0] == "var" and s[3]:
                self.mut.add(s[1][1])
            return self.wrap(eff, lambda i2: f"let {self.pat(s[1])} := {v}\n{i2}" + nxt(i2), ind)
        if s[0] == "assign" and s[1][0] == "var" and s[1][1] in self.mut:
            eff, v = self.pure(s[2])
            return self.wrap(eff, lambda i2: f"let {s[1][1]} := {v}\n{i2}" + nxt(i2), ind)
        if s[0] == "return":
            return result(s[1], ind)
        if s[0] == "expr" and s[1][0] == "if":
            _, c, th, el = s[1]
            th_f = lambda i2: self.stmts(th[1], th[2], i2, result, nxt)
            el_f = (lambda i2: self.stmts(el[1], el[2], i2, result, nxt)) if el is not None else nxt
            return self.cond(c, th_f, el_f, ind)
        if s[0] == "expr":
            z = self.zip_stmt(s[1])
            if z:
                tgt, lean = z
                return f"let {tgt} := {lean}\n{ind}" + nxt(ind)
        raise Unavailable(f"statement {s[0]}")


def strat_result(target):
    def result(e, ind):
        if e[0] == "call" and last(e[1]) == "Ok" and e[2] == [("tuple", [])]:
            return f".ok {target}"
        if e[0] == "call" and last(e[1]) == "Err" and e[2] and e[2][0][0] == "call" and last(e[2][0][1]) == "OutOfBounds":
            return ".error .outOfBounds"
        raise Unavailable("result expression")
    return result


def bool_fn(S, b):
    """a `-> bool` accessor whose body is one Boolean expression"""
    _, stmts, tail = b
    if stmts or tail is None:
        raise Unavailable("accessor body is not a single expression")
    return S.cond(tail, lambda i: ".ok true", lambda i: ".ok false", "  ")


def value_fn(S, b):
    """an accessor returning a value built from reads"""
    def result(e, ind):
        eff, v = S.pure(e)
        return S.wrap(eff, lambda i2: f".ok {v}", ind)
    return S.stmts(b[1], b[2], "  ", result)


def gen_strategies(src_dir, out, all_unavailable=False):
    def rd(f):
        try:
            return strip_comments(open(os.path.join(src_dir, f)).read())
        except OSError as e:
            return None

    def add(name, sig, body, fallback, depends=()):
        try:
            if all_unavailable:
                raise Unavailable("translator output was rejected by Lean")
            txt = body()
            out.add(name, sig, txt, fallback=fallback, depends=depends)
            out.status[name] = "translated"
        except Unavailable as e:
            out.defs.append({"name": name, "sig": sig, "body": None, "fallback": fallback, "suffix": "", "depends": []})
            out.status[name] = f"unavailable: {e}"
        except (TypeError, AttributeError) as e:          # source file missing
            out.defs.append({"name": name, "sig": sig, "body": None, "fallback": fallback, "suffix": "", "depends": []})
            out.status[name] = f"unavailable: {e}"

    sig1 = "{α : Type} [Cmp α] [Add α] [Sub α] [Mul α] [Div α] [NatCast α] [ToUsize α]"
    # ---- Interp1D accessors
    c1 = rd("interp1d/mod.rs")
    A1 = {"x": "xs", "data": "ys"}
    add("acc1_is_in_range", "{α : Type} [Cmp α] (xs : List α) (x : α) : Except Fault Bool",
            lambda: bool_fn(Strat(A1, {}), parse_fn(c1, r"pub\s+fn\s+is_in_range\s*\(")), fallback="isInRange xs x")
    add("acc1_get_index_left_of", sig1 + " (xs : List α) (x : α) : Except Fault Nat",
            lambda: value_fn(Strat(A1, {}), parse_fn(c1, r"pub\s+fn\s+get_index_left_of\s*\(")), fallback="lowerIndex xs x", depends=["get_lower_index"])
    add("acc1_index_point", "{α V : Type} (xs : List α) (ys : List V) (index : Nat) : Except Fault (α × V)",
            lambda: value_fn(Strat(A1, {}), parse_fn(c1, r"pub\s+fn\s+index_point\s*\(")), fallback="(rd xs index).bind fun a => (rd ys index).bind fun v => .ok (a, v)")
    # ---- Linear::interp_into
    lin = rd("interp1d/strategies/linear.rs")
    calls1 = {"is_in_range": ("acc1_is_in_range", ["xs"]), "get_index_left_of": ("acc1_get_index_left_of", ["xs"]),
              "index_point": ("acc1_index_point", ["xs", "ys"])}
    add("linear_interp_into", "{α V : Type} [Cmp α] [Add α] [Sub α] [Mul α] [Div α] [NatCast α] [ToUsize α] [Lanes α V] (ext : Bool) (xs : List α) (ys : List V) (x : α) : Except Fault V",
            lambda: (lambda b: Strat({}, calls1, aliases=["interpolator"]).stmts(b[1], b[2], "  ", strat_result("target")))(parse_fn_as(lin, r"fn\s+interp_into\s*\(", ["interpolator", "target", "x"])),
            fallback="linearInterp ext xs ys x",
            depends=["acc1_is_in_range", "acc1_get_index_left_of", "acc1_index_point"])
    # ---- CubicSplineStrategy::interp_into
    cs = rd("interp1d/strategies/cubic_spline.rs")
    add("spline_interp_into", "{α V : Type} [Cmp α] [Add α] [Sub α] [Mul α] [Div α] [Neg α] [NatCast α] [ToUsize α] [RemEuclid α] [Lanes α V] (s : SplineStrat V) (xs : List α) (ys : List V) (x : α) : Except Fault V",
        lambda: (lambda b: Strat({"a": "s.a", "b": "s.b"}, calls1, aliases=["interp"], alias_arrays={"x": "xs", "data": "ys"}).stmts(b[1], b[2], "  ", strat_result("target")))(parse_fn_as(cs, r"fn\s+interp_into\s*\(", ["interp", "target", "x"])),
        fallback="splineInterp s xs ys x", depends=["acc1_is_in_range", "acc1_get_index_left_of", "acc1_index_point"])
    # ---- Interp2D accessors
    c2 = rd("interp2d/mod.rs")
    A2 = {"x": "xs", "y": "ys", "data": "zs"}
    add("acc2_is_in_x_range", "{α : Type} [Cmp α] (xs : List α) (x : α) : Except Fault Bool",
            lambda: bool_fn(Strat(A2, {}), parse_fn(c2, r"pub\s+fn\s+is_in_x_range\s*\(")), fallback="isInRange xs x")
    add("acc2_is_in_y_range", "{α : Type} [Cmp α] (ys : List α) (y : α) : Except Fault Bool",
            lambda: bool_fn(Strat(A2, {}), parse_fn(c2, r"pub\s+fn\s+is_in_y_range\s*\(")), fallback="isInRange ys y")
    add("acc2_get_index_left_of", sig1 + " (xs ys : List α) (x y : α) : Except Fault (Nat × Nat)",
            lambda: value_fn(Strat(A2, {}), parse_fn(c2, r"pub\s+fn\s+get_index_left_of\s*\(")),
            fallback="(lowerIndex xs x).bind fun i => (lowerIndex ys y).bind fun j => .ok (i, j)", depends=["get_lower_index"])
    add("acc2_index_point", "{α V : Type} (xs ys : List α) (zs : List (List V)) (x_idx y_idx : Nat) : Except Fault (α × α × V)",
            lambda: value_fn(Strat(A2, {}), parse_fn(c2, r"pub\s+fn\s+index_point\s*\(")),
            fallback="(rd xs x_idx).bind fun a => (rd ys y_idx).bind fun b => (rd zs x_idx).bind fun r => (rd r y_idx).bind fun v => .ok (a, b, v)")
    # ---- Bilinear::interp_into
    bil = rd("interp2d/strategies/bilinear.rs")
    calls2 = {"is_in_x_range": ("acc2_is_in_x_range", ["xs"]), "is_in_y_range": ("acc2_is_in_y_range", ["ys"]),
              "get_index_left_of": ("acc2_get_index_left_of", ["xs", "ys"]), "index_point": ("acc2_index_point", ["xs", "ys", "zs"])}
    add("bilinear_interp_into", "{α V : Type} [Cmp α] [Add α] [Sub α] [Mul α] [Div α] [NatCast α] [ToUsize α] [Lanes α V] (ext : Bool) (xs ys : List α) (zs : List (List V)) (x y : α) : Except Fault V",
            lambda: (lambda b: Strat({}, calls2, aliases=["interpolator"]).stmts(b[1], b[2], "  ", strat_result("target")))(parse_fn_as(bil, r"fn\s+interp_into\s*\(", ["interpolator", "target", "x", "y"])),
            fallback="bilinearInterp ext xs ys zs x y",
            depends=["acc2_is_in_x_range", "acc2_is_in_y_range", "acc2_get_index_left_of", "acc2_index_point"])


# ------------------------------------------------------------------------------------------------ builders

BKIND = {"ShapeError": ".shapeError", "NotEnoughData": ".notEnoughData", "Monotonic": ".monotonic", "ValueError": ".valueError"}


class Build:
    """the validation prefix of `Interp1DBuilder::build` / `Interp2DBuilder::build`: every statement up to the call of the strategy's
    own `build`.  `axes`: Rust variable -> Lean list (`x` -> `xs`); the data array is seen through its shape only."""

    def __init__(self, axes, result):
        self.axes, self.result = axes, result
        self.n = 0

    def fresh(self, p):
        self.n += 1
        return f"{p}{self.n}"

    def num(self, e):
        """usize expression -> (effects, text)"""
        k = e[0]
        if k == "num":
            return [], e[1]
        if k == "method" and e[2] == "ndim" and e[1] == ("var", "data"):
            return [], "shape.length"
        if k == "method" and e[2] == "len" and e[1][0] == "var" and e[1][1] in self.axes:
            return [], f"{self.axes[e[1][1]]}.length"
        if k == "index" and e[1] == ("method", ("var", "data"), "shape", []) and e[2][0] == "num":
            v = self.fresh("d")
            i = e[2][1]
            return [lambda rest, ind, i=i, v=v: f"match shape[{i}]? with\n{ind}| none => .error .panic\n{ind}| some {v} =>\n{ind}  {rest(ind + '  ')}"], v
        if k == "var" and last(e[1]) == "MINIMUM_DATA_LENGHT":
            return [], "minLen"
        raise Unavailable(f"builder expression {k}")

    def wrap(self, effs, inner, ind):
        def go(i, ind):
            if i == len(effs):
                return inner(ind)
            return effs[i](lambda ind2: go(i + 1, ind2), ind)
        return go(0, ind)

    def cond(self, c, th, el, ind):
        if c[0] == "not":
            return self.cond(c[1], el, th, ind)
        if c[0] == "and":
            return self.cond(c[1], lambda i2: self.cond(c[2], th, el, i2), el, ind)
        if c[0] == "or":
            return self.cond(c[1], th, lambda i2: self.cond(c[2], th, el, i2), ind)
        if c[0] == "cmp":
            ea, a = self.num(c[2])
            eb, b = self.num(c[3])
            op = {"<": "<", "<=": "≤", ">": ">", ">=": "≥", "==": "=", "!=": "≠"}[c[1]]
            return self.wrap(ea + eb, lambda i2: f"if {a} {op} {b} then\n{i2}  {th(i2 + '  ')}\n{i2}else\n{i2}  {el(i2 + '  ')}", ind)
        if c[0] == "matches" and c[1][0] == "method" and c[1][2] == "monotonic_prop" and c[1][1][0] == "var" and c[1][1][1] in self.axes:
            pat = Auto(False).pat(c[2])
            m = self.fresh("m")
            ax = self.axes[c[1][1][1]]
            return (f"match mono_prop {ax} with\n{ind}| .error e => .error e\n{ind}| .ok {m} =>\n{ind}  "
                    f"if (match {m} with | {pat} => true | _ => false) then\n{ind}    {th(ind + '    ')}\n{ind}  else\n{ind}    {el(ind + '    ')}")
        raise Unavailable(f"builder condition {c[0]}")

    def err(self, e):
        if e[0] == "call" and last(e[1]) == "Err" and e[2] and e[2][0][0] == "call" and last(e[2][0][1]) in BKIND:
            return f".error (.builder {BKIND[last(e[2][0][1])]})"
        raise Unavailable("builder error value")

    def stmts(self, ss, ind):
        if not ss:
            raise Unavailable("no call of the strategy's build found")
        s, rest = ss[0], ss[1:]
        if s[0] == "let" and s[1][0] == "struct":
            return self.stmts(rest, ind)              # `let Interp1DBuilder { x, data, strategy } = self;`
        if s[0] == "let" and s[2][0] == "try" and s[2][1][0] == "method" and s[2][1][2] == "build":
            return self.result                        # the strategy's own build: end of the validation prefix
        if s[0] == "expr" and s[1][0] == "if" and s[1][3] is None:
            th = s[1][2]
            if not (len(th[1]) == 1 and th[1][0][0] == "return" and th[2] is None):
                raise Unavailable("validation step is not `if cond { return Err(..) }`")
            e = self.err(th[1][0][1])
            return self.cond(s[1][1], lambda i2: e, lambda i2: self.stmts(rest, i2), ind)
        raise Unavailable(f"builder statement {s[0]}")


def default_axis_expr(e):
    """`Array::from_iter((0..N).map(|n| cast(n).unwrap_or_else(..)))` -> Lean list, N from the data's shape"""
    if not (e[0] == "call" and last(e[1]) == "from_iter" and len(e[2]) == 1):
        raise Unavailable("default axis is not built by from_iter")
    m = e[2][0]
    if not (m[0] == "method" and m[2] == "map" and m[1][0] == "range" and m[1][1] == ("num", "0") and len(m[3]) == 1 and m[3][0][0] == "closure"):
        raise Unavailable("default axis is not `(0..len).map(..)`")
    cl = m[3][0]
    body = cl[2][2]
    if not (len(cl[1]) == 1 and body and body[0] == "method" and body[2] == "unwrap_or_else" and body[1] == ("call", "cast", [("var", cl[1][0])])):
        raise Unavailable("default axis elements are not `cast(n)`")
    return m[1][2]


def shape_len(e, lets):
    """`data.shape().first().copied().unwrap_or(0)` / `data.shape().get(1).copied().unwrap_or(0)` (possibly through a `let`)"""
    if e[0] == "var" and e[1] in lets:
        e = lets[e[1]]
    if not (e[0] == "method" and e[2] == "unwrap_or" and e[3] == [("num", "0")] and e[1][0] == "method" and e[1][2] == "copied"):
        raise Unavailable("default axis length")
    g = e[1][1]
    if g == ("method", ("method", ("var", "data"), "shape", []), "first", []):
        return "(shape[0]?).getD 0"
    if g[0] == "method" and g[2] == "get" and g[1] == ("method", ("var", "data"), "shape", []) and len(g[3]) == 1 and g[3][0][0] == "num":
        return f"(shape[{g[3][0][1]}]?).getD 0"
    raise Unavailable("default axis length")


def default_axes(code, names):
    """the axes `…Builder::new` installs: field name -> Lean length expression"""
    b = parse_fn(code, r"pub\s+fn\s+new\s*\(")
    lets = {s[1][1]: s[2] for s in b[1] if s[0] == "let" and s[1][0] == "var"}
    tail = b[2]
    if not (tail and tail[0] == "struct"):
        raise Unavailable("`new` does not end in a struct literal")
    out = {}
    for f, v in tail[2]:
        if f in names:
            if v[0] == "var" and v[1] in lets:
                v = lets[v[1]]
            out[f] = shape_len(default_axis_expr(v), lets)
    if set(out) != set(names):
        raise Unavailable("default axes not found")
    return out


def gen_builders(src_dir, out, all_unavailable=False):
    def rd(f):
        try:
            return strip_comments(open(os.path.join(src_dir, f)).read())
        except OSError:
            return None

    def add(name, sig, body, fallback):
        try:
            if all_unavailable:
                raise Unavailable("translator output was rejected by Lean")
            out.add(name, sig, body(), fallback=fallback)
            out.status[name] = "translated"
        except (Unavailable, TypeError, AttributeError, KeyError, IndexError) as e:
            out.defs.append({"name": name, "sig": sig, "body": None, "fallback": fallback, "suffix": "", "depends": []})
            out.status[name] = f"unavailable: {e}"

    c1, c2 = rd("interp1d/mod.rs"), rd("interp2d/mod.rs")
    add("builder1_default_x", "{α : Type} [NatCast α] (shape : List Nat) : List α",
        lambda: "(List.range (" + default_axes(c1, ["x"])["x"] + ")).map (fun (n : Nat) => (n : α))", "defaultAxis (shape.headD 0)")
    add("builder1_validate", "{α : Type} [Cmp α] (minLen : Nat) (xs : List α) (shape : List Nat) : Except Fault (List α)",
        lambda: Build({"x": "xs"}, ".ok xs").stmts([s for s in parse_fn(c1, r"pub\s+fn\s+build\s*\(\s*self\s*\)")[1]], "  "),
        "validate1 minLen (some xs) ⟨shape, []⟩")
    add("builder2_default_x", "{α : Type} [NatCast α] (shape : List Nat) : List α",
        lambda: "(List.range (" + default_axes(c2, ["x", "y"])["x"] + ")).map (fun (n : Nat) => (n : α))", "defaultAxis (shape.headD 0)")
    add("builder2_default_y", "{α : Type} [NatCast α] (shape : List Nat) : List α",
        lambda: "(List.range (" + default_axes(c2, ["x", "y"])["y"] + ")).map (fun (n : Nat) => (n : α))", "defaultAxis ((shape.drop 1).headD 0)")
    add("builder2_validate", "{α : Type} [Cmp α] (minLen : Nat) (xs ys : List α) (shape : List Nat) : Except Fault (List α × List α)",
        lambda: Build({"x": "xs", "y": "ys"}, ".ok (xs, ys)").stmts([s for s in parse_fn(c2, r"pub\s+fn\s+build\s*\(\s*self\s*\)")[1]], "  "),
        "validate2 minLen (some xs) (some ys) ⟨shape, []⟩")


# ------------------------------------------------------------------------------------------------ output


class Out:
    def __init__(self):
        self.defs, self.status = [], {}

    def add(self, name, sig, body, fallback, suffix="", depends=()):
        self.defs.append({"name": name, "sig": sig, "body": body, "fallback": fallback, "suffix": suffix, "depends": list(depends)})


FUNCS = [("mono_start", gen_start, ": MState", "MState.init"),
         ("mono_update", gen_update, "{α : Type} [Cmp α] (self_ : MState) (a b : α) : MState", "MState.update self_ a b"),
         ("mono_short_circuit", gen_short_circuit, "(self_ : MState) : Except Monotonic MState", "MState.shortCircuit self_"),
         ("mono_finish", gen_finish, "(self_ : MState) : Except Fault Monotonic", "MState.finish self_"),
         ("mono_prop", gen_mono_prop, "{α : Type} [Cmp α] (xs : List α) : Except Fault Monotonic", "monotonicProp xs"),
         ("get_lower_index", gen_lower, None, None)]


def translate(src_dir, all_unavailable=False, drop=()):
    out = Out()
    out.drop = set(drop)
    try:
        code = strip_comments(open(os.path.join(src_dir, "vector_extensions.rs")).read())
        # the unit tests of the file are not part of the functions
        m = re.search(r"#\[cfg\(test\)\]", code)
        if m:
            code = code[:m.start()]
    except OSError as e:
        code = None
        err = f"unavailable: {e}"
    for name, fn, sig, fb in FUNCS:
        n0 = len(out.defs)
        try:
            if code is None:
                raise Unavailable(err)
            if all_unavailable:
                raise Unavailable("translator output was rejected by Lean")
            fn(code, out)
            for d in out.defs[n0:]:
                out.status[d["name"]] = "translated"
        except Unavailable as e:
            del out.defs[n0:]
            if name == "get_lower_index":
                out.defs.append({"name": "get_lower_index_loop1", "sig": "{α : Type} [Cmp α] (xs : List α) (x : α) (range_0 range_1 : Nat) : Except Fault Nat",
                                 "body": None, "fallback": "bisect xs x range_0 range_1", "suffix": "", "depends": []})
                out.defs.append({"name": "get_lower_index", "sig": "{α : Type} [Cmp α] [Add α] [Sub α] [Mul α] [Div α] [NatCast α] [ToUsize α] (xs : List α) (x : α) : Except Fault Nat",
                                 "body": None, "fallback": "lowerIndex xs x", "suffix": "", "depends": []})
                out.status["get_lower_index_loop1"] = out.status["get_lower_index"] = f"unavailable: {e}"
            else:
                out.defs.append({"name": name, "sig": sig, "body": None, "fallback": fb, "suffix": "", "depends": []})
                out.status[name] = f"unavailable: {e}"
    gen_strategies(src_dir, out, all_unavailable)
    gen_builders(src_dir, out, all_unavailable)
    return out


def emit(out):
    # functions Lean rejected in an earlier attempt of this run (and everything that calls them) are emitted as unavailable
    bad = set(getattr(out, "drop", ()))
    changed = True
    while changed:
        changed = False
        for d in out.defs:
            if d["name"] not in bad and d["body"] is not None and (set(d["depends"]) & bad or any(re.search(r"\b" + re.escape(b) + r"\b", d["body"]) for b in bad)):
                bad.add(d["name"]); changed = True
    for d in out.defs:
        if d["name"] in bad and d["body"] is not None:
            d["body"] = None
            out.status[d["name"]] = "unavailable: the generated definition was rejected by Lean (translator limitation)"
    L = ["/-", "GENERATED by tools/translate_control.py from /repo/src/vector_extensions.rs on every run — do not edit.",
         "The control flow of `MonotonicState::{start, update, short_circuit, finish}`, `monotonic_prop` and `get_lower_index`,",
         "statement by statement, as it is in the source now.  `NdInterp/Props/FormulaTie/Ctl.lean` proves each function equal to the",
         "hand-written model for every input.", "-/", "import NdInterp.Model.Interp", "",
         "set_option linter.unusedVariables false", "", "namespace NdInterp.GenCtl", "open NdInterp", ""]
    for d in out.defs:
        ok = d["body"] is not None
        L.append(f"def {d['name']}_available : Bool := {'true' if ok else 'false'}")
        L.append(f"def {d['name']} {d['sig']} :=")
        L.append("  " + (d["body"] if ok else d["fallback"]))
        if ok and d["suffix"]:
            L.append(d["suffix"])
        L.append("")
    L.append("end NdInterp.GenCtl")
    return "\n".join(L) + "\n"


def main():
    src = "/repo/src"
    out_path = os.path.join(os.path.dirname(HERE), "lean", "NdInterp", "Gen", "Control.lean")
    if "--src" in sys.argv:
        src = sys.argv[sys.argv.index("--src") + 1]
    if "--out" in sys.argv:
        out_path = sys.argv[sys.argv.index("--out") + 1]
    drop = sys.argv[sys.argv.index("--unavailable") + 1].split(",") if "--unavailable" in sys.argv else ()
    out = translate(src, "--all-unavailable" in sys.argv, drop)
    text = emit(out)
    old = open(out_path).read() if os.path.exists(out_path) else None
    if old != text:
        os.makedirs(os.path.dirname(out_path), exist_ok=True)
        tmp = out_path + f".tmp{os.getpid()}"
        with open(tmp, "w") as f:
            f.write(text)
        os.replace(tmp, out_path)
    st_path = os.path.splitext(out_path)[0] + ".status.json"
    tmp = st_path + f".tmp{os.getpid()}"
    with open(tmp, "w") as f:
        json.dump(out.status, f, indent=1)
    os.replace(tmp, st_path)
    un = {k: v for k, v in out.status.items() if not v.startswith("translated")}
    print(f"translate_control: {len(out.status) - len(un)}/{len(out.status)} functions translated" + (" (regenerated)" if old != text else " (unchanged)"))
    for k, v in un.items():
        print(f"  {k}: {v}")


if __name__ == "__main__":
    main()
