-- Root of the `NdInterp` library: the executable model (core Lean only).
-- Proof modules (`NdInterp.Lemmas.*`, `NdInterp.Props.*`) are built by name.
import NdInterp.Model.Basic
import NdInterp.Model.Vector
import NdInterp.Model.Linear
import NdInterp.Model.Spline
import NdInterp.Model.Interp
import NdInterp.Model.Instances
