/-
Line-protocol driver for the executable model.  One case per input line, one result line
per case.  Imports the model only (no Mathlib), so it links as a `lean_exe`.

Grammar (space separated tokens; see DESIGN.md §3):
  line   := id S op
  S      := Q | F                         -- scalars: `p/q` rationals | 16 hex digits of an f64
  list   := n v₁ … vₙ        shape := r d₁ … d_r
  vec    := lay list         ndarr := lay shape list    buffer := lay shape
  lay    := c | f | s<k> | rev | perm | w     (memory layout; steers the Rust runner only)
  dtag, qtag := sta | dyn                     (static / dynamic dimension types; runner only)
  op     := mono vec | lower vec q
          | i1 dtag xspec ndarr strat entry
          | i2 dtag xspec xspec ndarr ext entry2
  xspec  := defx | x vec
  strat  := lin b | spl b bc
  bc     := nak | nat | cla | per | ind shape n rb₁ … rbₙ
  rb     := nak | nat | cla | mix sb sb        sb := nak | nat | cla | fd v | sd v
  entry  := build | scalar q | single q | into q buffer | array qtag ndarr | ainto qtag ndarr buffer
  entry2 := build | scalar x y | single x y | into x y buffer
          | array qtag ndarr ndarr | ainto qtag ndarr ndarr buffer
-/
import NdInterp.Model.Basic
import NdInterp.Model.Vector
import NdInterp.Model.Linear
import NdInterp.Model.Spline
import NdInterp.Model.Interp
import NdInterp.Model.Instances

open NdInterp

abbrev P := StateT (List String) (Except String)

def tok : P String := do
  match (← get) with
  | [] => throw "unexpected end of line"
  | t :: ts => set ts; pure t

def natTok : P Nat := do
  let t ← tok
  match t.toNat? with
  | some n => pure n
  | none => throw s!"expected a natural number, got {t}"

def boolTok : P Bool := do
  let t ← tok
  match t with
  | "0" => pure false
  | "1" => pure true
  | _ => throw s!"expected 0/1, got {t}"

def listOf {β : Type} (p : P β) : P (List β) := do
  let n ← natTok
  let rec go : Nat → List β → P (List β)
    | 0, acc => pure acc.reverse
    | k + 1, acc => do let v ← p; go k (v :: acc)
  go n []

def shapeTok : P (List Nat) := listOf natTok

/-- scalar I/O for one execution type -/
class ScalarIO (α : Type) where
  parse : String → Option α
  /-- `none`: values are not printed for this type (outcome kinds only) -/
  print : α → Option String

def parseRat (s : String) : Option Rat :=
  match s.splitOn "/" with
  | [p] => p.toInt?.map (fun i => (i : Rat))
  | [p, q] =>
    match p.toInt?, q.toNat? with
    | some p, some q => if q = 0 then none else some (mkRat p q)
    | _, _ => none
  | _ => none

def printRat (r : Rat) : String :=
  if r.den = 1 then toString r.num else s!"{r.num}/{r.den}"

instance : ScalarIO Rat := ⟨parseRat, fun r => some (printRat r)⟩

def hexVal (c : Char) : Option Nat :=
  if '0' ≤ c ∧ c ≤ '9' then some (c.toNat - '0'.toNat)
  else if 'a' ≤ c ∧ c ≤ 'f' then some (c.toNat - 'a'.toNat + 10)
  else none

def parseFloatBits (s : String) : Option Float :=
  if s.length ≠ 16 then none
  else
    (s.toList.foldlM (fun (acc : Nat) c => (hexVal c).map (fun d => acc * 16 + d)) 0).map
      (fun n => Float.ofBits n.toUInt64)

def hexDigit (n : Nat) : Char :=
  if n < 10 then Char.ofNat ('0'.toNat + n) else Char.ofNat ('a'.toNat + (n - 10))

/-- 16 hex digits of the IEEE-754 bits; every NaN prints as `nan` -/
def printFloatBits (f : Float) : String :=
  if f.isNaN then "nan"
  else
    let b := f.toBits.toNat
    String.ofList ((List.range 16).map (fun i => hexDigit ((b >>> (4 * (15 - i))) % 16)))

instance : ScalarIO Z64 := ⟨fun s => s.toInt?.map (fun i => (⟨i⟩ : Z64)), fun z => some (toString z.val)⟩

instance : ScalarIO Float := ⟨parseFloatBits, fun f => some (printFloatBits f)⟩

def parseFloat32Bits (s : String) : Option Float32 :=
  if s.length ≠ 8 then none
  else
    (s.toList.foldlM (fun (acc : Nat) c => (hexVal c).map (fun d => acc * 16 + d)) 0).map
      (fun n => Float32.ofBits n.toUInt32)

/-- 8 hex digits of the IEEE-754 binary32 bits; every NaN prints as `nan` -/
def printFloat32Bits (f : Float32) : String :=
  if f.isNaN then "nan"
  else
    let b := f.toBits.toNat
    String.ofList ((List.range 8).map (fun i => hexDigit ((b >>> (4 * (7 - i))) % 16)))

instance : ScalarIO Float32 := ⟨parseFloat32Bits, fun f => some (printFloat32Bits f)⟩

section
variable {α : Type} [ScalarIO α]

def scalarTok : P α := do
  let t ← tok
  match ScalarIO.parse t with
  | some v => pure v
  | none => throw s!"bad scalar {t}"

/-- a memory-layout / dimension-type tag: it steers the Rust runner, the model ignores it
    (results do not depend on it: C13, C19) -/
def tagTok : P Unit := do let _ ← tok; pure ()

/-- `vec := lay n v₁ … vₙ` -/
def vecTok : P (List α) := do
  tagTok
  listOf (scalarTok (α := α))

/-- `buffer := lay shape` -/
def bufTok : P (List Nat) := do
  tagTok
  shapeTok

def ndarrTok : P (NdArr α) := do
  tagTok
  let shape ← shapeTok
  let flat ← listOf (scalarTok (α := α))
  if flat.length ≠ shapeSize shape then throw "ndarr: contents do not match shape"
  pure { shape, flat }

def xspecTok : P (Option (List α)) := do
  match (← tok) with
  | "defx" => pure none
  | "x" => do let l ← vecTok (α := α); pure (some l)
  | t => throw s!"bad xspec {t}"

def sbTok : P (SingleBoundary α) := do
  match (← tok) with
  | "nak" => pure .notAKnot
  | "nat" => pure .natural
  | "cla" => pure .clamped
  | "fd" => do let v ← scalarTok; pure (.firstDeriv v)
  | "sd" => do let v ← scalarTok; pure (.secondDeriv v)
  | t => throw s!"bad single boundary {t}"

def rbTok : P (RowBoundary α) := do
  match (← tok) with
  | "nak" => pure .notAKnot
  | "nat" => pure .natural
  | "cla" => pure .clamped
  | "mix" => do let l ← sbTok; let r ← sbTok; pure (.mixed l r)
  | t => throw s!"bad row boundary {t}"

def bcTok : P (BoundaryCondition α) := do
  match (← tok) with
  | "nak" => pure .notAKnot
  | "nat" => pure .natural
  | "cla" => pure .clamped
  | "per" => pure .periodic
  | "ind" => do
    let shape ← shapeTok
    let bs ← listOf (rbTok (α := α))
    pure (.individual shape bs)
  | t => throw s!"bad boundary condition {t}"

def stratTok : P (Strat1Spec α) := do
  match (← tok) with
  | "lin" => do let e ← boolTok; pure (.linear e)
  | "spl" => do let e ← boolTok; let bc ← bcTok; pure (.spline e bc)
  | t => throw s!"bad strategy {t}"

def fmtShape (s : List Nat) : String :=
  " ".intercalate (toString s.length :: s.map toString)

def fmtFault : Fault → String
  | .panic => "panic"
  | .outOfBounds => "oob"
  | .builder .notEnoughData => "berr NotEnoughData"
  | .builder .monotonic => "berr Monotonic"
  | .builder .shapeError => "berr ShapeError"
  | .builder .valueError => "berr ValueError"

def fmtVals (vs : List α) : String :=
  match vs.mapM ScalarIO.print with
  | some ss => " ".intercalate (toString ss.length :: ss)
  | none => "-"

def fmtArr (r : Except Fault (NdArr α)) : String :=
  match r with
  | .error e => fmtFault e
  | .ok a => s!"ok {fmtShape a.shape} {fmtVals a.flat}"

def fmtScalar (r : Except Fault α) : String :=
  match r with
  | .error e => fmtFault e
  | .ok v => s!"ok 0 {fmtVals [v]}"

def fmtMono : Except Fault Monotonic → String
  | .error e => fmtFault e
  | .ok (.rising true) => "mono RisingS"
  | .ok (.rising false) => "mono Rising"
  | .ok (.falling true) => "mono FallingS"
  | .ok (.falling false) => "mono Falling"
  | .ok .notMonotonic => "mono Not"

variable [Cmp α] [Add α] [Sub α] [Mul α] [Div α] [Neg α] [NatCast α] [ToUsize α] [RemEuclid α]

/-- an `oob` result with the coordinate and value the error message names -/
def withWitness (s : String) (w : Option (String × α)) : String :=
  if s == "oob" then
    match w with
    | some (ax, v) => s!"oob {ax} {(ScalarIO.print v).getD "-"}"
    | none => "oob ? -"
  else s

def wit1 (it : Interp1 α) (qs : List α) : Option (String × α) :=
  (oobWitness1 it.xs qs).map (fun v => ("x", v))

def wit2 (it : Interp2 α) (qs : List (α × α)) : Option (String × α) :=
  (oobWitness2 it.xs it.ys qs).map (fun p => (if p.1 then "y" else "x", p.2))

def runEntry1 (it : Interp1 α) : P String := do
  let trailing := it.data.shape.drop 1
  match (← tok) with
  | "build" => pure "built"
  | "idx" => do
    -- consecutive `get_index_left_of` calls: each is `lowerIndex` of the axis, whatever came before
    let qs ← listOf (scalarTok (α := α))
    match qs.mapM (fun q => lowerIndex it.xs q) with
    | .ok is => pure (s!"idxs {is.length} " ++ " ".intercalate (is.map toString)).trimAsciiEnd.toString
    | .error e => pure (fmtFault e)
  | "scalar" => do
    let q ← scalarTok (α := α)
    pure (withWitness (fmtScalar (epScalar it.at q)) (wit1 it [q]))
  | "single" => do
    let q ← scalarTok (α := α)
    pure (withWitness (fmtArr (epInterp trailing it.at q)) (wit1 it [q]))
  | "into" => do
    let q ← scalarTok (α := α)
    let bs ← bufTok
    pure (withWitness (fmtArr (epInterpInto trailing it.at q bs)) (wit1 it [q]))
  | "array" => do
    tagTok
    let qs ← ndarrTok (α := α)
    pure (withWitness (fmtArr (epArray trailing it.at qs.shape qs.flat)) (wit1 it qs.flat))
  | "ainto" => do
    tagTok
    let qs ← ndarrTok (α := α)
    let bs ← bufTok
    pure (withWitness (fmtArr (epArrayInto trailing it.at qs.shape qs.flat bs)) (wit1 it qs.flat))
  | t => throw s!"bad entry {t}"

def runEntry2 (it : Interp2 α) : P String := do
  let trailing := it.data.shape.drop 2
  let f : α × α → Except Fault (List α) := fun q => it.at q.1 q.2
  match (← tok) with
  | "build" => pure "built"
  | "idx" => do
    let qs ← listOf (scalarTok (α := α))
    let rec pairs : List α → List (α × α)
      | x :: y :: rest => (x, y) :: pairs rest
      | _ => []
    match (pairs qs).mapM (fun q => do
        let i ← lowerIndex it.xs q.1
        let j ← lowerIndex it.ys q.2
        pure s!"{i} {j}") with
    | .ok is => pure (s!"idxs {is.length} " ++ " ".intercalate is).trimAsciiEnd.toString
    | .error e => pure (fmtFault e)
  | "scalar" => do
    let x ← scalarTok (α := α); let y ← scalarTok (α := α)
    pure (withWitness (fmtScalar (epScalar f (x, y))) (wit2 it [(x, y)]))
  | "single" => do
    let x ← scalarTok (α := α); let y ← scalarTok (α := α)
    pure (withWitness (fmtArr (epInterp trailing f (x, y))) (wit2 it [(x, y)]))
  | "into" => do
    let x ← scalarTok (α := α); let y ← scalarTok (α := α)
    let bs ← bufTok
    pure (withWitness (fmtArr (epInterpInto trailing f (x, y) bs)) (wit2 it [(x, y)]))
  | "array" => do
    tagTok
    let qx ← ndarrTok (α := α); let qy ← ndarrTok (α := α)
    if qx.shape ≠ qy.shape then pure "panic"
    else pure (withWitness (fmtArr (epArray trailing f qx.shape (qx.flat.zip qy.flat))) (wit2 it (qx.flat.zip qy.flat)))
  | "ainto" => do
    tagTok
    let qx ← ndarrTok (α := α); let qy ← ndarrTok (α := α)
    let bs ← bufTok
    if qx.shape ≠ qy.shape then pure "panic"
    else pure (withWitness (fmtArr (epArrayInto trailing f qx.shape (qx.flat.zip qy.flat) bs)) (wit2 it (qx.flat.zip qy.flat)))
  | t => throw s!"bad entry {t}"

def runOp : P String := do
  match (← tok) with
  | "mono" => do
    let xs ← vecTok (α := α)
    pure (fmtMono (monotonicProp xs))
  | "lower" => do
    let xs ← vecTok (α := α)
    let q ← scalarTok (α := α)
    match lowerIndex xs q with
    | .ok i => pure s!"idx {i}"
    | .error e => pure (fmtFault e)
  | "i1" => do
    tagTok
    let x ← xspecTok (α := α)
    let data ← ndarrTok (α := α)
    let spec ← stratTok (α := α)
    match build1 x data spec with
    | .error e => do set ([] : List String); pure (fmtFault e)   -- the entry is not reached
    | .ok it => runEntry1 it
  | "i2" => do
    tagTok
    let x ← xspecTok (α := α)
    let y ← xspecTok (α := α)
    let data ← ndarrTok (α := α)
    let ext ← boolTok
    match build2 x y data ext with
    | .error e => do set ([] : List String); pure (fmtFault e)
    | .ok it => runEntry2 it
  | t => throw s!"bad op {t}"

end

def runLine (line : String) : String :=
  match line.trimAscii.toString.splitOn " " |>.filter (· ≠ "") with
  | id :: s :: rest =>
    let r : Except String (String × List String) :=
      match s with
      | "Q" => (runOp (α := Rat)).run rest
      | "F" => (runOp (α := Float)).run rest
      | "I" => (runOp (α := Z64)).run rest
      -- f32 elements (model at IEEE binary32); i32 elements (same integer model as i64: the inputs stay far from overflow)
      | "G" => (runOp (α := Float32)).run rest
      | "J" => (runOp (α := Z64)).run rest
      | _ => .error s!"bad scalar type {s}"
    match r with
    | .ok (out, []) => s!"{id} {out}"
    | .ok (_, extra) => s!"{id} bad-op trailing tokens {extra.length}"
    | .error e => s!"{id} bad-op {e}"
  | _ => "? bad-op empty line"

partial def loop (h : IO.FS.Stream) (out : IO.FS.Stream) : IO Unit := do
  let line ← h.getLine
  if line.isEmpty then return ()
  if line.trimAscii.toString.isEmpty then loop h out
  else
    out.putStrLn (runLine line)
    loop h out

def main : IO Unit := do
  let stdin ← IO.getStdin
  let stdout ← IO.getStdout
  loop stdin stdout
  stdout.flush
