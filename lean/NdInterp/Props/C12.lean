/-
C12 — `monotonic_prop` classifies every vector correctly and never calls NaN data rising.

* `C12_classify`      : for a NaN-free scalar type (the Boolean comparisons decide a linear
                        order) the result is, for *every* list, exactly the class the
                        property text defines; it is never a panic.
* `C12_shortcircuit`  : the early exit of `try_fold` is unobservable.
* `C12_nan`           : with *no* assumption on the comparisons: if some consecutive pair is
                        neither `<` nor `==` (any pair containing a NaN) the result is not
                        `Rising`.
-/
import NdInterp.Model.Vector
import NdInterp.Lemmas.Lawful
import Mathlib.Order.Basic
import Mathlib.Tactic.Tauto

namespace NdInterp

/-! ### Declarative vocabulary: consecutive pairs of a list -/

set_option linter.unusedSectionVars false
set_option linter.unusedVariables false

/-- every consecutive pair satisfies `R` -/
def AllPairs {α : Type} (R : α → α → Prop) : List α → Prop
  | a :: b :: rest => R a b ∧ AllPairs R (b :: rest)
  | _ => True

/-- some consecutive pair satisfies `R` -/
def SomePair {α : Type} (R : α → α → Prop) : List α → Prop
  | a :: b :: rest => R a b ∨ SomePair R (b :: rest)
  | _ => False

/-- the class the property text assigns to a vector -/
inductive Class (α : Type) [LinearOrder α] (xs : List α) : Monotonic → Prop
  | risingStrict : 2 ≤ xs.length → AllPairs (· < ·) xs → Class α xs (.rising true)
  | rising : AllPairs (· ≤ ·) xs → SomePair (· = ·) xs → SomePair (· < ·) xs →
      Class α xs (.rising false)
  | fallingStrict : 2 ≤ xs.length → AllPairs (· > ·) xs → Class α xs (.falling true)
  | falling : AllPairs (· ≥ ·) xs → SomePair (· = ·) xs → SomePair (· > ·) xs →
      Class α xs (.falling false)
  | notMonotonic :
      (xs.length < 2 ∨ AllPairs (· = ·) xs ∨ (SomePair (· < ·) xs ∧ SomePair (· > ·) xs)) →
      Class α xs .notMonotonic

section lawful
variable {α : Type} [LinearOrder α] [Cmp α] [LawfulCmp α]

/-- what a state of the automaton knows about the pairs consumed so far (`p` = the list of
    elements consumed, the last one being the left element of the next pair) -/
def Sem : MState → List α → Prop
  | .init, p => p.length < 2
  | .notStrict, p => 2 ≤ p.length ∧ AllPairs (· = ·) p
  | .likely (.rising true), p => 2 ≤ p.length ∧ AllPairs (· < ·) p
  | .likely (.rising false), p => AllPairs (· ≤ ·) p ∧ SomePair (· = ·) p ∧ SomePair (· < ·) p
  | .likely (.falling true), p => 2 ≤ p.length ∧ AllPairs (· > ·) p
  | .likely (.falling false), p => AllPairs (· ≥ ·) p ∧ SomePair (· = ·) p ∧ SomePair (· > ·) p
  | .likely .notMonotonic, p => SomePair (· < ·) p ∧ SomePair (· > ·) p

theorem allPairs_snoc (R : α → α → Prop) (p : List α) (a b : α) :
    AllPairs R (p ++ [a, b]) ↔ AllPairs R (p ++ [a]) ∧ R a b := by
  induction p with
  | nil => simp [AllPairs]
  | cons x p ih =>
    cases p with
    | nil => simp [AllPairs]
    | cons y p => simp only [List.cons_append, AllPairs] at ih ⊢; rw [ih]; tauto

theorem somePair_snoc (R : α → α → Prop) (p : List α) (a b : α) :
    SomePair R (p ++ [a, b]) ↔ SomePair R (p ++ [a]) ∨ R a b := by
  induction p with
  | nil => simp [SomePair]
  | cons x p ih =>
    cases p with
    | nil => simp [SomePair]
    | cons y p => simp only [List.cons_append, SomePair] at ih ⊢; rw [ih]; tauto

theorem allPairs_mono {R S : α → α → Prop} (h : ∀ a b, R a b → S a b) :
    ∀ l : List α, AllPairs R l → AllPairs S l
  | [] => fun _ => trivial
  | [_] => fun _ => trivial
  | a :: b :: rest => fun ⟨h1, h2⟩ => ⟨h a b h1, allPairs_mono h (b :: rest) h2⟩

theorem somePair_of_allPairs {R : α → α → Prop} :
    ∀ l : List α, 2 ≤ l.length → AllPairs R l → SomePair R l
  | a :: b :: r, _, h => Or.inl h.1

theorem len_lt_two_snoc (p : List α) (a : α) (h : (p ++ [a]).length < 2) : p = [] := by
  cases p with
  | nil => rfl
  | cons x p => simp at h; omega

/-- one step of the automaton preserves the meaning of its state -/
theorem sem_step (s : MState) (p : List α) (a b : α) (h : Sem s (p ++ [a])) :
    Sem (s.update a b) (p ++ [a, b]) := by
  have hlen : (p ++ [a, b]).length = (p ++ [a]).length + 1 := by simp
  have hlen1 : 1 ≤ (p ++ [a]).length := by simp
  have soa := fun (R : α → α → Prop) => somePair_of_allPairs (R := R) (p ++ [a])
  have m1 := allPairs_mono (fun (x y : α) (h : x < y) => le_of_lt h) (p ++ [a])
  have m2 := allPairs_mono (fun (x y : α) (h : x = y) => le_of_eq h) (p ++ [a])
  have m3 := allPairs_mono (fun (x y : α) (h : x > y) => le_of_lt h) (p ++ [a])
  have m4 := allPairs_mono (fun (x y : α) (h : x = y) => ge_of_eq h) (p ++ [a])
  rcases lt_trichotomy a b with hab | hab | hab
  · have hne : a ≠ b := ne_of_lt hab
    have hng : ¬ b < a := not_lt.mpr (le_of_lt hab)
    have hle : a ≤ b := le_of_lt hab
    rcases s with _ | _ | (⟨_ | _⟩ | ⟨_ | _⟩ | _) <;>
      simp only [Sem, MState.update, cmp_lt, cmp_eq, cmp_gt, hab, hne, hng, if_true, if_false,
        allPairs_snoc, somePair_snoc, hlen] at h ⊢
    · have := len_lt_two_snoc p a h; subst this; simp [AllPairs]
    · exact ⟨⟨m2 h.2, hle⟩, Or.inl (soa _ h.1 h.2), Or.inr trivial⟩
    · exact ⟨⟨h.1, hle⟩, Or.inl h.2.1, Or.inl h.2.2⟩
    · exact ⟨by omega, h.2, trivial⟩
    · exact ⟨Or.inr trivial, Or.inl h.2.2⟩
    · exact ⟨Or.inr trivial, Or.inl (soa _ h.1 h.2)⟩
    · exact ⟨Or.inl h.1, Or.inl h.2⟩
  · subst hab
    have hnl : ¬ a < a := lt_irrefl a
    rcases s with _ | _ | (⟨_ | _⟩ | ⟨_ | _⟩ | _) <;>
      simp only [Sem, MState.update, cmp_lt, cmp_eq, cmp_gt, hnl, if_true, if_false,
        allPairs_snoc, somePair_snoc, hlen] at h ⊢
    · have := len_lt_two_snoc p a h; subst this; simp [AllPairs]
    · exact ⟨by omega, h.2, trivial⟩
    · exact ⟨⟨h.1, le_refl a⟩, Or.inl h.2.1, Or.inl h.2.2⟩
    · exact ⟨⟨m1 h.2, le_refl a⟩, Or.inr trivial, Or.inl (soa _ h.1 h.2)⟩
    · exact ⟨⟨h.1, le_refl a⟩, Or.inl h.2.1, Or.inl h.2.2⟩
    · exact ⟨⟨m3 h.2, le_refl a⟩, Or.inr trivial, Or.inl (soa _ h.1 h.2)⟩
    · exact ⟨Or.inl h.1, Or.inl h.2⟩
  · have hne : a ≠ b := ne_of_gt hab
    have hnl : ¬ a < b := not_lt.mpr (le_of_lt hab)
    have hle : b ≤ a := le_of_lt hab
    rcases s with _ | _ | (⟨_ | _⟩ | ⟨_ | _⟩ | _) <;>
      simp only [Sem, MState.update, cmp_lt, cmp_eq, cmp_gt, hab, hne, hnl, if_true, if_false,
        allPairs_snoc, somePair_snoc, hlen] at h ⊢
    · have := len_lt_two_snoc p a h; subst this; simp [AllPairs]
    · exact ⟨⟨m4 h.2, hle⟩, Or.inl (soa _ h.1 h.2), Or.inr trivial⟩
    · exact ⟨Or.inl h.2.2, Or.inr trivial⟩
    · exact ⟨Or.inl (soa _ h.1 h.2), Or.inr trivial⟩
    · exact ⟨⟨h.1, hle⟩, Or.inl h.2.1, Or.inl h.2.2⟩
    · exact ⟨by omega, h.2, trivial⟩
    · exact ⟨Or.inl h.1, Or.inl h.2⟩

/-- the full fold ends in a state that describes the whole list -/
theorem sem_fold (s : MState) (p : List α) (a : α) (rest : List α) (h : Sem s (p ++ [a])) :
    Sem (foldPairsFull s (a :: rest)) (p ++ a :: rest) := by
  induction rest generalizing s p a with
  | nil => simpa [foldPairsFull] using h
  | cons b rest ih =>
    have := ih (s.update a b) (p ++ [a]) b (by simpa using sem_step s p a b h)
    simpa [foldPairsFull] using this

end lawful

/-! ### the early exit -/

section anycmp
variable {α : Type} [Cmp α]

theorem update_dead (a b : α) :
    (MState.likely .notMonotonic).update a b = .likely .notMonotonic := rfl

theorem foldFull_dead (l : List α) :
    foldPairsFull (.likely .notMonotonic) l = .likely .notMonotonic := by
  induction l with
  | nil => rfl
  | cons a l ih =>
    cases l with
    | nil => rfl
    | cons b l => simpa [foldPairsFull, update_dead] using ih

/-- **C12_shortcircuit**: stopping at the first `NotMonotonic` gives the result of the full fold. -/
theorem C12_shortcircuit (s : MState) (l : List α) (hs : s ≠ .likely .notMonotonic) :
    foldPairs s l =
      (if foldPairsFull s l = .likely .notMonotonic then .error .notMonotonic
       else .ok (foldPairsFull s l)) := by
  induction l generalizing s with
  | nil => simp [foldPairs, foldPairsFull, hs]
  | cons a l ih =>
    cases l with
    | nil => simp [foldPairs, foldPairsFull, hs]
    | cons b l =>
      simp only [foldPairs, foldPairsFull]
      by_cases hd : s.update a b = .likely .notMonotonic
      · simp [hd, MState.shortCircuit, foldFull_dead]
      · have : (s.update a b).shortCircuit = .ok (s.update a b) := by
          generalize s.update a b = t at hd
          rcases t with _ | _ | (_ | _ | _) <;> first | rfl | exact absurd rfl hd
        rw [this]
        exact ih _ hd

/-- the result of `monotonic_prop` in terms of the full fold -/
theorem monotonicProp_eq (xs : List α) :
    monotonicProp xs =
      if xs.length ≤ 1 then .ok .notMonotonic
      else (foldPairsFull .init xs).finish := by
  unfold monotonicProp
  rw [C12_shortcircuit _ _ (by simp)]
  split
  · rfl
  · by_cases hd : foldPairsFull MState.init xs = .likely .notMonotonic
    · simp [hd, MState.finish]
    · simp [hd]

end anycmp

/-! ### C12_classify -/

section classify
variable {α : Type} [LinearOrder α] [Cmp α] [LawfulCmp α]

/-- **C12_classify**: `monotonic_prop` never panics and returns exactly the class of the vector. -/
theorem C12_classify (xs : List α) : ∃ m, monotonicProp xs = .ok m ∧ Class α xs m := by
  rw [monotonicProp_eq]
  split
  · next h => exact ⟨_, rfl, .notMonotonic (Or.inl (by omega))⟩
  · next h =>
    cases xs with
    | nil => simp at h
    | cons a rest =>
      have hl : 2 ≤ (a :: rest).length := by omega
      have hs := sem_fold (α := α) .init [] a rest (by simp [Sem])
      simp only [List.nil_append] at hs
      generalize foldPairsFull MState.init (a :: rest) = s at hs
      rcases s with _ | _ | (⟨_ | _⟩ | ⟨_ | _⟩ | _) <;> simp only [Sem] at hs
      · omega
      · exact ⟨_, rfl, .notMonotonic (Or.inr (Or.inl hs.2))⟩
      · exact ⟨_, rfl, .rising hs.1 hs.2.1 hs.2.2⟩
      · exact ⟨_, rfl, .risingStrict hs.1 hs.2⟩
      · exact ⟨_, rfl, .falling hs.1 hs.2.1 hs.2.2⟩
      · exact ⟨_, rfl, .fallingStrict hs.1 hs.2⟩
      · exact ⟨_, rfl, .notMonotonic (Or.inr (Or.inr hs))⟩

/-! the three "some pair" facts determine everything else (trichotomy) -/

theorem allLt_iff (l : List α) :
    AllPairs (· < ·) l ↔ ¬ SomePair (· = ·) l ∧ ¬ SomePair (· > ·) l := by
  induction l with
  | nil => simp [AllPairs, SomePair]
  | cons a l ih =>
    cases l with
    | nil => simp [AllPairs, SomePair]
    | cons b l =>
      simp only [AllPairs, SomePair, ih, not_or]
      rcases lt_trichotomy a b with h | h | h
      · have := ne_of_lt h; have := lt_asymm h; tauto
      · subst h; have := lt_irrefl a; tauto
      · have := ne_of_gt h; have := lt_asymm h; tauto

theorem allGt_iff (l : List α) :
    AllPairs (· > ·) l ↔ ¬ SomePair (· = ·) l ∧ ¬ SomePair (· < ·) l := by
  induction l with
  | nil => simp [AllPairs, SomePair]
  | cons a l ih =>
    cases l with
    | nil => simp [AllPairs, SomePair]
    | cons b l =>
      simp only [AllPairs, SomePair, ih, not_or]
      rcases lt_trichotomy a b with h | h | h
      · have := ne_of_lt h; have := lt_asymm h; tauto
      · subst h; have := lt_irrefl a; tauto
      · have := ne_of_gt h; have := lt_asymm h; tauto

theorem allLe_iff (l : List α) : AllPairs (· ≤ ·) l ↔ ¬ SomePair (· > ·) l := by
  induction l with
  | nil => simp [AllPairs, SomePair]
  | cons a l ih =>
    cases l with
    | nil => simp [AllPairs, SomePair]
    | cons b l => simp only [AllPairs, SomePair, ih, not_or, gt_iff_lt, not_lt]

theorem allGe_iff (l : List α) : AllPairs (· ≥ ·) l ↔ ¬ SomePair (· < ·) l := by
  induction l with
  | nil => simp [AllPairs, SomePair]
  | cons a l ih =>
    cases l with
    | nil => simp [AllPairs, SomePair]
    | cons b l => simp only [AllPairs, SomePair, ih, not_or, ge_iff_le, not_lt]

theorem allEq_iff (l : List α) :
    AllPairs (· = ·) l ↔ ¬ SomePair (· < ·) l ∧ ¬ SomePair (· > ·) l := by
  induction l with
  | nil => simp [AllPairs, SomePair]
  | cons a l ih =>
    cases l with
    | nil => simp [AllPairs, SomePair]
    | cons b l =>
      simp only [AllPairs, SomePair, ih, not_or]
      rcases lt_trichotomy a b with h | h | h
      · have := ne_of_lt h; have := lt_asymm h; tauto
      · subst h; have := lt_irrefl a; tauto
      · have := ne_of_gt h; have := lt_asymm h; tauto

theorem len_iff (l : List α) :
    2 ≤ l.length ↔ SomePair (· < ·) l ∨ SomePair (· = ·) l ∨ SomePair (· > ·) l := by
  match l with
  | [] => simp [SomePair]
  | [_] => simp [SomePair]
  | a :: b :: r =>
    simp only [SomePair, List.length_cons]
    rcases lt_trichotomy a b with h | h | h
    · exact ⟨fun _ => Or.inl (Or.inl h), fun _ => by omega⟩
    · exact ⟨fun _ => Or.inr (Or.inl (Or.inl h)), fun _ => by omega⟩
    · exact ⟨fun _ => Or.inr (Or.inr (Or.inl h)), fun _ => by omega⟩

/-- the classes are mutually exclusive: a vector has exactly one class, so `C12_classify`
    is the "iff" of the property text. -/
theorem Class.unique (xs : List α) (m m' : Monotonic) (h : Class α xs m) (h' : Class α xs m') :
    m = m' := by
  have hl := len_iff xs
  have hlt : xs.length < 2 ↔ ¬ 2 ≤ xs.length := by omega
  cases h <;> cases h' <;> first
    | rfl
    | (exfalso
       simp only [allLt_iff, allGt_iff, allLe_iff, allGe_iff, allEq_iff, hlt] at *
       tauto)

/-- **C12_iff**: the result is class `m` if and only if the vector has class `m`. -/
theorem C12_iff (xs : List α) (m : Monotonic) : monotonicProp xs = .ok m ↔ Class α xs m := by
  obtain ⟨m0, h0, c0⟩ := C12_classify xs
  constructor
  · intro h; rw [h0] at h; cases h; exact c0
  · intro h; rw [h0, Class.unique xs m0 m c0 h]

/-- corollary used by the builder (C10): an accepted axis is strictly increasing -/
theorem rising_strict_iff (xs : List α) :
    monotonicProp xs = .ok (.rising true) ↔ 2 ≤ xs.length ∧ AllPairs (· < ·) xs := by
  rw [C12_iff]
  constructor
  · intro h; cases h; constructor <;> assumption
  · intro ⟨h1, h2⟩; exact .risingStrict h1 h2

end classify

/-! ### C12_nan — no assumption on the comparisons -/

section nan
variable {α : Type} [Cmp α]

/-- a consecutive pair that is neither `<` nor `==` by the scalar's own tests
    (every pair containing a NaN is one) -/
def BadPair (a b : α) : Prop := Cmp.lt a b = false ∧ Cmp.eq a b = false

/-- states from which `Rising` can no longer be reached -/
def Dead : MState → Prop
  | .likely (.falling _) => True
  | .likely .notMonotonic => True
  | _ => False

theorem dead_of_bad (s : MState) (a b : α) (h : BadPair a b) : Dead (s.update a b) := by
  rcases s with _ | _ | (⟨_ | _⟩ | ⟨_ | _⟩ | _) <;>
    simp only [MState.update, h.1, h.2, Bool.false_eq_true, if_false] <;>
    first | trivial | (split <;> trivial)

theorem dead_step (s : MState) (a b : α) (h : Dead s) : Dead (s.update a b) := by
  rcases s with _ | _ | (⟨_ | _⟩ | ⟨_ | _⟩ | _) <;> simp only [Dead] at h <;>
    simp only [MState.update] <;> first | trivial | (split <;> first | trivial | (split <;> trivial))

theorem dead_fold (s : MState) (l : List α) (h : Dead s) : Dead (foldPairsFull s l) := by
  induction l generalizing s with
  | nil => exact h
  | cons a l ih =>
    cases l with
    | nil => exact h
    | cons b l => exact ih _ (dead_step s a b h)

theorem dead_of_somePair (s : MState) (l : List α) (h : SomePair BadPair l) :
    Dead (foldPairsFull s l) := by
  induction l generalizing s with
  | nil => exact h.elim
  | cons a l ih =>
    cases l with
    | nil => exact h.elim
    | cons b l =>
      rcases h with h | h
      · exact dead_fold (s.update a b) (b :: l) (dead_of_bad s a b h)
      · exact ih _ h

/-- **C12_nan**: a vector with a pair that is neither `<` nor `==` is never `Rising`,
    whatever the comparison operators do otherwise (IEEE NaN included). -/
theorem C12_nan (xs : List α) (h : SomePair BadPair xs) (strict : Bool) :
    monotonicProp xs ≠ .ok (.rising strict) := by
  rw [monotonicProp_eq]
  split
  · simp
  · have hd := dead_of_somePair .init xs h
    generalize foldPairsFull MState.init xs = s at hd
    rcases s with _ | _ | (⟨_ | _⟩ | ⟨_ | _⟩ | _) <;> simp [Dead, MState.finish] at hd ⊢

end nan

end NdInterp
