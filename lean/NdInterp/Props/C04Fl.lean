/-
C04 — rounding of the bilinear blend under the standard model of floating-point arithmetic.

`Bilinear::interp_into` evaluates three nested `calc_frac`s (two along x, one along y).  With every one of the 18 operations
perturbed by a relative error `|δ| ≤ u ≤ 1/16` (the model of `C01_rounding`; no overflow / underflow), for a query inside the cell:

* `calcFrac_convex`, `calcFrac_abs_le`, `calcFrac_lipschitz` : in range `calc_frac` is a convex combination of its two values,
  so it is bounded by them and 1-Lipschitz in them (max-norm);
* `C04_rounding` : `|computed − exact blend| ≤ (2B + B²)·M`, `B = 13u + 12u²`, `M = max |z_ij|` over the four corners of the cell —
  about 13 ulps of the largest corner value.  The float runs of the check hold the crate to `3B(1 + 4B)·M`, which this theorem
  implies (`C04_rounding_check_bound`).
-/
import NdInterp.Props.C01

namespace NdInterp

section
variable {F : Type} [Field F] [LinearOrder F] [IsStrictOrderedRing F]

/-- in range `calc_frac` is the convex combination `(1-t)·a + t·b`, `t = (x-x1)/(x2-x1) ∈ [0,1]` -/
theorem calcFrac_convex (x1 x2 a b x : F) (hx : x1 < x2) :
    calcFrac x1 a x2 b x = (1 - (x - x1) / (x2 - x1)) * a + (x - x1) / (x2 - x1) * b := by
  have hne : x2 - x1 ≠ 0 := ne_of_gt (sub_pos.mpr hx)
  unfold calcFrac
  field_simp
  ring

theorem calcFrac_lipschitz (x1 x2 a b a' b' x D : F) (hx : x1 < x2) (h1 : x1 ≤ x) (h2 : x ≤ x2)
    (ha : |a - a'| ≤ D) (hb : |b - b'| ≤ D) :
    |calcFrac x1 a x2 b x - calcFrac x1 a' x2 b' x| ≤ D := by
  rw [calcFrac_convex _ _ _ _ _ hx, calcFrac_convex _ _ _ _ _ hx]
  set t := (x - x1) / (x2 - x1) with ht
  have hd : 0 < x2 - x1 := sub_pos.mpr hx
  have ht0 : 0 ≤ t := div_nonneg (by linarith) hd.le
  have ht1 : t ≤ 1 := by rw [ht, div_le_one hd]; linarith
  have e : (1 - t) * a + t * b - ((1 - t) * a' + t * b') = (1 - t) * (a - a') + t * (b - b') := by ring
  rw [e]
  calc |(1 - t) * (a - a') + t * (b - b')| ≤ |(1 - t) * (a - a')| + |t * (b - b')| := abs_add_le _ _
    _ = (1 - t) * |a - a'| + t * |b - b'| := by
        rw [abs_mul, abs_mul, abs_of_nonneg ht0, abs_of_nonneg (by linarith : 0 ≤ 1 - t)]
    _ ≤ (1 - t) * D + t * D := by
        have : 0 ≤ 1 - t := by linarith
        gcongr
    _ = D := by ring

theorem calcFrac_abs_le (x1 x2 a b x M : F) (hx : x1 < x2) (h1 : x1 ≤ x) (h2 : x ≤ x2)
    (ha : |a| ≤ M) (hb : |b| ≤ M) : |calcFrac x1 a x2 b x| ≤ M := by
  have := calcFrac_lipschitz x1 x2 a b 0 0 x M hx h1 h2 (by simpa using ha) (by simpa using hb)
  have z : calcFrac x1 (0 : F) x2 0 x = 0 := by
    rw [calcFrac_convex _ _ _ _ _ hx]; ring
  rwa [z, sub_zero] at this

/-- the bilinear blend with every operation of its three `calc_frac`s rounded -/
def bilinearFl (x1 x2 y1 y2 z11 z12 z21 z22 x y d1 d2 d3 d4 d5 d6 e1 e2 e3 e4 e5 e6 f1 f2 f3 f4 f5 f6 : F) : F :=
  let z1 := calcFracFl x1 z11 x2 z21 x d1 d2 d3 d4 d5 d6
  let z2 := calcFracFl x1 z12 x2 z22 x e1 e2 e3 e4 e5 e6
  calcFracFl y1 z1 y2 z2 y f1 f2 f3 f4 f5 f6

/-- the exact blend, as the model's `bilinearInterp` computes it -/
def bilinearExact (x1 x2 y1 y2 z11 z12 z21 z22 x y : F) : F :=
  calcFrac y1 (calcFrac x1 z11 x2 z21 x) y2 (calcFrac x1 z12 x2 z22 x) y

/-- **C04_rounding**: inside the cell the computed blend is within `(2B + B²)·M` of the exact one, `B = 13u + 12u²` -/
theorem C04_rounding (x1 x2 y1 y2 z11 z12 z21 z22 x y u M d1 d2 d3 d4 d5 d6 e1 e2 e3 e4 e5 e6 f1 f2 f3 f4 f5 f6 : F)
    (hx : x1 < x2) (hx1 : x1 ≤ x) (hx2 : x ≤ x2) (hy : y1 < y2) (hy1 : y1 ≤ y) (hy2 : y ≤ y2)
    (hu0 : 0 ≤ u) (hu : u ≤ 1/16)
    (hd1 : |d1| ≤ u) (hd2 : |d2| ≤ u) (hd3 : |d3| ≤ u) (hd4 : |d4| ≤ u) (hd5 : |d5| ≤ u) (hd6 : |d6| ≤ u)
    (he1 : |e1| ≤ u) (he2 : |e2| ≤ u) (he3 : |e3| ≤ u) (he4 : |e4| ≤ u) (he5 : |e5| ≤ u) (he6 : |e6| ≤ u)
    (hf1 : |f1| ≤ u) (hf2 : |f2| ≤ u) (hf3 : |f3| ≤ u) (hf4 : |f4| ≤ u) (hf5 : |f5| ≤ u) (hf6 : |f6| ≤ u)
    (h11 : |z11| ≤ M) (h12 : |z12| ≤ M) (h21 : |z21| ≤ M) (h22 : |z22| ≤ M) :
    |bilinearFl x1 x2 y1 y2 z11 z12 z21 z22 x y d1 d2 d3 d4 d5 d6 e1 e2 e3 e4 e5 e6 f1 f2 f3 f4 f5 f6
        - bilinearExact x1 x2 y1 y2 z11 z12 z21 z22 x y| ≤
      (2 * (13 * u + 12 * u ^ 2) + (13 * u + 12 * u ^ 2) ^ 2) * M := by
  set B := 13 * u + 12 * u ^ 2 with hB
  have hB0 : 0 ≤ B := by rw [hB]; positivity
  have hM0 : 0 ≤ M := le_trans (abs_nonneg _) h11
  unfold bilinearFl bilinearExact
  simp only
  set z1 := calcFrac x1 z11 x2 z21 x
  set z2 := calcFrac x1 z12 x2 z22 x
  set z1' := calcFracFl x1 z11 x2 z21 x d1 d2 d3 d4 d5 d6
  set z2' := calcFracFl x1 z12 x2 z22 x e1 e2 e3 e4 e5 e6
  have r1 : |z1' - z1| ≤ B * M := C01_rounding x1 z11 x2 z21 x u M d1 d2 d3 d4 d5 d6 hx hx1 hx2 hu0 hu hd1 hd2 hd3 hd4 hd5 hd6 h11 h21
  have r2 : |z2' - z2| ≤ B * M := C01_rounding x1 z12 x2 z22 x u M e1 e2 e3 e4 e5 e6 hx hx1 hx2 hu0 hu he1 he2 he3 he4 he5 he6 h12 h22
  have b1 : |z1| ≤ M := calcFrac_abs_le x1 x2 z11 z21 x M hx hx1 hx2 h11 h21
  have b2 : |z2| ≤ M := calcFrac_abs_le x1 x2 z12 z22 x M hx hx1 hx2 h12 h22
  have b1' : |z1'| ≤ M + B * M := by
    calc |z1'| = |(z1' - z1) + z1| := by ring_nf
      _ ≤ |z1' - z1| + |z1| := abs_add_le _ _
      _ ≤ B * M + M := by linarith
      _ = M + B * M := by ring
  have b2' : |z2'| ≤ M + B * M := by
    calc |z2'| = |(z2' - z2) + z2| := by ring_nf
      _ ≤ |z2' - z2| + |z2| := abs_add_le _ _
      _ ≤ B * M + M := by linarith
      _ = M + B * M := by ring
  have s1 : |calcFracFl y1 z1' y2 z2' y f1 f2 f3 f4 f5 f6 - calcFrac y1 z1' y2 z2' y| ≤ B * (M + B * M) :=
    C01_rounding y1 z1' y2 z2' y u (M + B * M) f1 f2 f3 f4 f5 f6 hy hy1 hy2 hu0 hu hf1 hf2 hf3 hf4 hf5 hf6 b1' b2'
  have s2 : |calcFrac y1 z1' y2 z2' y - calcFrac y1 z1 y2 z2 y| ≤ B * M :=
    calcFrac_lipschitz y1 y2 z1' z2' z1 z2 y (B * M) hy hy1 hy2 r1 r2
  calc |calcFracFl y1 z1' y2 z2' y f1 f2 f3 f4 f5 f6 - calcFrac y1 z1 y2 z2 y|
      = |(calcFracFl y1 z1' y2 z2' y f1 f2 f3 f4 f5 f6 - calcFrac y1 z1' y2 z2' y)
          + (calcFrac y1 z1' y2 z2' y - calcFrac y1 z1 y2 z2 y)| := by ring_nf
    _ ≤ B * (M + B * M) + B * M := le_trans (abs_add_le _ _) (add_le_add s1 s2)
    _ = (2 * B + B ^ 2) * M := by ring

/-- the tolerance the float runs of the check use, `3B(1 + 4B)·M`, is implied by the proved bound -/
theorem C04_rounding_check_bound (u M : F) (hu0 : 0 ≤ u) (hM : 0 ≤ M) :
    (2 * (13 * u + 12 * u ^ 2) + (13 * u + 12 * u ^ 2) ^ 2) * M ≤
      3 * (13 * u + 12 * u ^ 2) * (1 + 4 * (13 * u + 12 * u ^ 2)) * M := by
  have hB0 : 0 ≤ 13 * u + 12 * u ^ 2 := by positivity
  apply mul_le_mul_of_nonneg_right _ hM
  nlinarith [mul_nonneg hB0 hB0]

/-- non-vacuity: the hypotheses are met by an ordinary cell, and with all perturbations zero the rounded blend is the exact one -/
example : bilinearFl (0 : ℚ) 1 0 2 1 2 3 5 (1/2) (1/2) 0 0 0 0 0 0 0 0 0 0 0 0 0 0 0 0 0 0 = bilinearExact 0 1 0 2 1 2 3 5 (1/2) (1/2) := by
  norm_num [bilinearFl, bilinearExact, calcFracFl, calcFrac]

end

end NdInterp
