/-
C09 — all query entry points agree and results have shape `query shape ++ trailing data dims`.

Generic over the scalar type and over the strategy (`f q` = `strategy.interp_into(self, target, q)`):
* `C09_array_elem`       : `interp_array(qs)` has shape `qshape ++ trailing`, and its `k`-th block of
                           lane values is exactly what `interp(qs[k])` returns — for every query
                           shape (0-d, empty, any rank).
* `C09_scalar`           : `interp_scalar(q)` is lane 0 of `interp(q)`.
* `C09_into_eq_alloc`    : correctly shaped `interp_into` / `interp_array_into` yield what the
                           allocating variants return (memory form: `C14_all_written`).
* `C09_fast_eq_general`  : the rank-1 fast path (`Zip … fold_while`, an accumulating left fold with
                           early exit) and the general per-element loop give the same result.
* `C09_shape`            : the result dimension *type* is `<Dq as DimAdd<D::Smaller>>::Output`;
                           `DimExtension::new` fills it with exactly `qshape ++ trailing` whenever
                           it is static (combined rank ≤ 6) or dynamic (combined rank > 6 or a dynamic
                           operand) — nothing is dropped, nothing is padded.
-/
import NdInterp.Props.C05
import NdInterp.Model.Dims

namespace NdInterp

section
variable {α β : Type}

/-- **C09_array_elem** -/
theorem C09_array_elem (trailing : List Nat) (f : β → Except Fault (List α)) (qshape : List Nat)
    (qs : List β) (arr : NdArr α) (h : epArray trailing f qshape qs = .ok arr) :
    arr.shape = qshape ++ trailing ∧
    ∃ vs : List (List α), arr.flat = vs.flatten ∧ vs.length = qs.length ∧
      ∀ k (hk : k < qs.length), ∃ (hk' : k < vs.length),
        epInterp trailing f qs[k] = .ok { shape := trailing, flat := vs[k] } := by
  unfold epArray at h
  cases he : interpEach f qs with
  | error e => rw [he] at h; cases h
  | ok vs =>
    rw [he] at h
    injection h with h
    subst h
    obtain ⟨hl, hk⟩ := interpEach_ok f qs vs he
    refine ⟨rfl, vs, rfl, hl, ?_⟩
    intro k hkq
    obtain ⟨hk', e⟩ := hk k hkq
    exact ⟨hk', by simp [epInterp, e]⟩

/-- a batch fails exactly when some element fails, with the first such error -/
theorem C09_array_err (trailing : List Nat) (f : β → Except Fault (List α)) (qshape : List Nat)
    (qs : List β) (e : Fault) (h : epArray trailing f qshape qs = .error e) :
    ∃ pre q post, qs = pre ++ q :: post ∧ (∀ p ∈ pre, ∃ v, f p = .ok v) ∧
      epInterp trailing f q = .error e := by
  unfold epArray at h
  cases he : interpEach f qs with
  | ok vs => rw [he] at h; cases h
  | error e' =>
    rw [he] at h
    injection h with h
    subst h
    obtain ⟨pre, q, post, a, b, c⟩ := C05_batch_first_error f qs e' he
    exact ⟨pre, q, post, a, b, by simp [epInterp, c]⟩

/-- **C09_scalar** -/
theorem C09_scalar (trailing : List Nat) (f : β → Except Fault (List α)) (q : β) :
    epScalar f q =
      (match epInterp trailing f q with
       | .error e => .error e
       | .ok a => rd a.flat 0) := by
  unfold epScalar epInterp
  cases f q <;> rfl

/-- **C09_into_eq_alloc** -/
theorem C09_into_eq_alloc (trailing : List Nat) (f : β → Except Fault (List α)) (qshape : List Nat)
    (qs : List β) (q : β) :
    epArrayInto trailing f qshape qs (qshape ++ trailing) = epArray trailing f qshape qs ∧
    epInterpInto trailing f q trailing = epInterp trailing f q := by
  constructor
  · simp [epArrayInto]
  · unfold epInterpInto epInterp
    cases f q <;> simp

/-- the rank-1 fast path: `Zip::from(xs).and(buffer.axis_iter_mut(Axis(0))).fold_while(Ok(()), …)` —
    a left fold that appends rows and stops at the first error -/
def fastPath (f : β → Except Fault (List α)) (acc : List (List α)) : List β → Except Fault (List (List α))
  | [] => .ok acc
  | q :: qs =>
    match f q with
    | .error e => .error e
    | .ok v => fastPath f (acc ++ [v]) qs

theorem fastPath_eq (f : β → Except Fault (List α)) (acc : List (List α)) (qs : List β) :
    fastPath f acc qs =
      (match interpEach f qs with
       | .error e => .error e
       | .ok vs => .ok (acc ++ vs)) := by
  induction qs generalizing acc with
  | nil => simp [fastPath, interpEach]
  | cons q qs ih =>
    simp only [fastPath, interpEach]
    cases f q with
    | error e => rfl
    | ok v =>
      simp only []
      rw [ih]
      cases interpEach f qs <;> simp

/-- **C09_fast_eq_general**: the specialised path is unobservable. -/
theorem C09_fast_eq_general (f : β → Except Fault (List α)) (qs : List β) :
    fastPath f [] qs = interpEach f qs := by
  rw [fastPath_eq]
  cases interpEach f qs <;> simp

end

/-! ### the result dimension type -/

/-- runtime rank carried by a value of a dimension type -/
def DimTy.admits : DimTy → Nat → Prop
  | .ix n, r => r = n.val
  | .dyn, _ => True

/-- **C09_shape**: `get_buffer_shape` yields exactly `qshape ++ trailing`, in the type
    `<Dq as DimAdd<D::Smaller>>::Output`. -/
theorem C09_shape (dq ds : DimTy) (qshape trailing : List Nat)
    (hq : dq.admits qshape.length) (hd : ds.admits trailing.length) :
    (dq.add ds).extNew (qshape ++ trailing) = qshape ++ trailing ∧
    (dq.add ds).admits (qshape ++ trailing).length := by
  cases dq with
  | dyn => exact ⟨rfl, trivial⟩
  | ix a =>
    cases ds with
    | dyn => exact ⟨rfl, trivial⟩
    | ix b =>
      simp only [DimTy.admits] at hq hd
      simp only [DimTy.add]
      split
      · next h =>
        simp only [DimTy.extNew, DimTy.admits, List.length_append, hq, hd, and_true]
        rw [List.take_append_of_le_length (by simp [hq, hd])]
        rw [List.take_of_length_le (by simp [hq, hd])]
      · exact ⟨rfl, trivial⟩

/-- the combined rank exceeds 6 ⇒ the result type is dynamic -/
theorem C09_shape_dyn (a b : Fin 7) (h : 6 < a.val + b.val) : (DimTy.ix a).add (DimTy.ix b) = .dyn := by
  simp only [DimTy.add]
  rw [dif_neg (by omega)]

end NdInterp
