/-
C20 — Linear and Bilinear results depend only on the bracketing data points.

* `C20_linear_data`, `C20_bilinear_data` : **no assumption on the scalar operations** (hence
  bit-identical for IEEE arithmetic, NaN and ±inf in the other rows included): two data sets
  that agree on the 2 (4) rows the lookup selects give the same result term.
* `C20_linear_axis`, `C20_bilinear_axis` : over an ordered field: moving any other axis value
  while keeping the axis strictly increasing leaves the result unchanged, in range and
  extrapolated.
-/
import NdInterp.Lemmas.LinearCore

namespace NdInterp

section anyops
variable {α V : Type} [Cmp α] [Add α] [Sub α] [Mul α] [Div α] [NatCast α] [ToUsize α] [Lanes α V]

theorem rd_congr {β : Type} (l l' : List β) (i : Nat) (h : l[i]? = l'[i]?) : rd l i = rd l' i := by
  simp [rd, h]

/-- **C20_linear_data**: only rows `i`, `i+1` of the data are read (`i` = the lookup's index). -/
theorem C20_linear_data (ext : Bool) (xs : List α) (ys ys' : List V) (q : α)
    (h : ∀ i, lowerIndex xs q = .ok i → ys[i]? = ys'[i]? ∧ ys[i + 1]? = ys'[i + 1]?) :
    linearInterp ext xs ys q = linearInterp ext xs ys' q := by
  unfold linearInterp
  cases hg : rangeGate ext xs q with
  | error e => rfl
  | ok _ =>
    cases hi : lowerIndex xs q with
    | error e => rfl
    | ok i =>
      obtain ⟨h1, h2⟩ := h i hi
      simp only [bind, Except.bind, rd_congr ys ys' i h1, rd_congr ys ys' (i + 1) h2]

/-- **C20_bilinear_data**: only the four corner rows of the selected cell are read. -/
theorem C20_bilinear_data (ext : Bool) (xs ys : List α) (zs zs' : List (List V)) (x y : α)
    (h : ∀ i j, lowerIndex xs x = .ok i → lowerIndex ys y = .ok j →
      ∃ r1 r2 r1' r2', zs[i]? = some r1 ∧ zs[i + 1]? = some r2 ∧
        zs'[i]? = some r1' ∧ zs'[i + 1]? = some r2' ∧
        r1[j]? = r1'[j]? ∧ r1[j + 1]? = r1'[j + 1]? ∧ r2[j]? = r2'[j]? ∧ r2[j + 1]? = r2'[j + 1]?) :
    bilinearInterp ext xs ys zs x y = bilinearInterp ext xs ys zs' x y := by
  unfold bilinearInterp
  cases hgx : rangeGate ext xs x with
  | error e => rfl
  | ok _ =>
    cases hgy : rangeGate ext ys y with
    | error e => rfl
    | ok _ =>
      cases hi : lowerIndex xs x with
      | error e => rfl
      | ok i =>
        cases hj : lowerIndex ys y with
        | error e => rfl
        | ok j =>
          obtain ⟨r1, r2, r1', r2', a1, a2, b1, b2, c1, c2, c3, c4⟩ := h i j hi hj
          have e1 : rd zs i = .ok r1 := by simp [rd, a1]
          have e2 : rd zs (i + 1) = .ok r2 := by simp [rd, a2]
          have e1' : rd zs' i = .ok r1' := by simp [rd, b1]
          have e2' : rd zs' (i + 1) = .ok r2' := by simp [rd, b2]
          simp only [bind, Except.bind, e1, e2, e1', e2', rd_congr r1 r1' j c1,
            rd_congr r1 r1' (j + 1) c2, rd_congr r2 r2' j c3, rd_congr r2 r2' (j + 1) c4]

end anyops

section
variable {α V : Type} [Field α] [LinearOrder α] [IsStrictOrderedRing α]
  [Cmp α] [LawfulCmp α] [ToUsize α] [LawfulToUsize α] [Lanes α V]

omit [Field α] [IsStrictOrderedRing α] [Cmp α] [LawfulCmp α] [ToUsize α] [LawfulToUsize α] in
/-- the closed-range test is unchanged when only non-bracketing knots move -/
theorem inRange_transfer {xs xs' : List α} {q : α} {i : Nat}
    (hs : StrictInc xs) (hs' : StrictInc xs') (hlen : xs'.length = xs.length)
    (hb : Bracket xs q i)
    (e1 : xs'[i]'(by have := hb.lt_len; omega) = xs[i]'(by have := hb.lt_len; omega))
    (e2 : xs'[i + 1]'(by have := hb.lt_len; omega) = xs[i + 1]'hb.lt_len) :
    InRange xs q → InRange xs' q := by
  intro hin
  have hil := hb.lt_len
  obtain ⟨b1, b2⟩ := hb.between' hs hin
  refine ⟨by omega, ?_, ?_⟩
  · exact le_trans (hs'.le_of_le (Nat.zero_le i) (by omega)) (by rw [e1]; exact b1)
  · exact le_trans (by rw [← e2] at b2; exact b2) (hs'.le_of_le (by omega) (by omega))

/-- **C20_linear_axis**: moving non-bracketing knots (axis kept strictly increasing) does not
    change the result, in range or extrapolated. -/
theorem C20_linear_axis (ext : Bool) (xs xs' : List α) (ys : List V) (q : α) (i : Nat)
    (hs : StrictInc xs) (hs' : StrictInc xs') (hlen : xs'.length = xs.length)
    (hl : ys.length = xs.length) (hn : xs.length < 2 ^ 64)
    (hb : Bracket xs q i)
    (e1 : xs'[i]'(by have := hb.lt_len; omega) = xs[i]'(by have := hb.lt_len; omega))
    (e2 : xs'[i + 1]'(by have := hb.lt_len; omega) = xs[i + 1]'hb.lt_len) :
    linearInterp ext xs' ys q = linearInterp ext xs ys q := by
  obtain ⟨j, hbj, h⟩ := linearInterp_eq ext xs ys q hs hl hn
  obtain ⟨j', hbj', h'⟩ := linearInterp_eq ext xs' ys q hs' (by omega) (by omega)
  have hb' : Bracket xs' q i := hb.transfer hs hs' hlen e1 e2
  have : j = i := Bracket.unique hs hbj hb
  subst this
  have : j' = j := Bracket.unique hs' hbj' hb'
  subst this
  have hr : InRange xs q ↔ InRange xs' q :=
    ⟨inRange_transfer hs hs' hlen hb e1 e2,
     inRange_transfer hs' hs hlen.symm hb' e1.symm e2.symm⟩
  rw [h, h']
  simp only [hr, e1, e2]

/-- **C20_bilinear_axis**: the same for both axes of a grid. -/
theorem C20_bilinear_axis (ext : Bool) (xs xs' ys ys' : List α) (zs : List (List V)) (x y : α)
    (i j : Nat)
    (hsx : StrictInc xs) (hsx' : StrictInc xs') (hlx : xs'.length = xs.length)
    (hsy : StrictInc ys) (hsy' : StrictInc ys') (hly : ys'.length = ys.length)
    (hg : GridOK zs xs.length ys.length) (hnx : xs.length < 2 ^ 64) (hny : ys.length < 2 ^ 64)
    (hbx : Bracket xs x i) (hby : Bracket ys y j)
    (ex1 : xs'[i]'(by have := hbx.lt_len; omega) = xs[i]'(by have := hbx.lt_len; omega))
    (ex2 : xs'[i + 1]'(by have := hbx.lt_len; omega) = xs[i + 1]'hbx.lt_len)
    (ey1 : ys'[j]'(by have := hby.lt_len; omega) = ys[j]'(by have := hby.lt_len; omega))
    (ey2 : ys'[j + 1]'(by have := hby.lt_len; omega) = ys[j + 1]'hby.lt_len) :
    bilinearInterp ext xs' ys' zs x y = bilinearInterp ext xs ys zs x y := by
  obtain ⟨a, b, ha, hb, r1, r2, z11, z12, z21, z22, p1, p2, p3, p4, p5, p6, h⟩ :=
    bilinearInterp_eq ext xs ys zs x y hsx hsy hg hnx hny
  obtain ⟨a', b', ha', hb', r1', r2', z11', z12', z21', z22', p1', p2', p3', p4', p5', p6', h'⟩ :=
    bilinearInterp_eq ext xs' ys' zs x y hsx' hsy' (by rw [hlx, hly]; exact hg) (by omega) (by omega)
  have hbx' : Bracket xs' x i := hbx.transfer hsx hsx' hlx ex1 ex2
  have hby' : Bracket ys' y j := hby.transfer hsy hsy' hly ey1 ey2
  have : a = i := Bracket.unique hsx ha hbx
  subst this
  have : b = j := Bracket.unique hsy hb hby
  subst this
  have : a' = a := Bracket.unique hsx' ha' hbx'
  subst this
  have : b' = b := Bracket.unique hsy' hb' hby'
  subst this
  have hrx : InRange xs x ↔ InRange xs' x :=
    ⟨inRange_transfer hsx hsx' hlx hbx ex1 ex2, inRange_transfer hsx' hsx hlx.symm hbx' ex1.symm ex2.symm⟩
  have hry : InRange ys y ↔ InRange ys' y :=
    ⟨inRange_transfer hsy hsy' hly hby ey1 ey2, inRange_transfer hsy' hsy hly.symm hby' ey1.symm ey2.symm⟩
  have q1 : r1' = r1 := by rw [p1] at p1'; exact (Option.some.inj p1').symm
  have q2 : r2' = r2 := by rw [p2] at p2'; exact (Option.some.inj p2').symm
  subst q1; subst q2
  have : z11' = z11 := by rw [p3] at p3'; exact (Option.some.inj p3').symm
  subst this
  have : z12' = z12 := by rw [p4] at p4'; exact (Option.some.inj p4').symm
  subst this
  have : z21' = z21 := by rw [p5] at p5'; exact (Option.some.inj p5').symm
  subst this
  have : z22' = z22 := by rw [p6] at p6'; exact (Option.some.inj p6').symm
  subst this
  rw [h, h']
  simp only [hrx, hry, ex1, ex2, ey1, ey2]

end

end NdInterp
