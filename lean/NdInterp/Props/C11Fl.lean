/-
C11 — the O(1) index guess of `get_lower_index` under the standard model of floating-point arithmetic.

`C11_guess` (Props/C11.lean) shows in exact arithmetic that the guess `cast(calc_frac((x₀,0),(x_{n-1},n-1),q))`
is an index of the axis.  For `f64`/`f32` every one of the six operations of `calc_frac` rounds.  Here the
same perturbed evaluation `calcFracFl` that `C01_rounding` uses (each operation returns `exact·(1+δ)`,
`|δ| ≤ u`; overflow and underflow excluded — that is the property's premise "span and quotient finite")
is shown to stay inside `[0, n)`:

* `C11_guess_rounding` : for a query strictly inside the range, with `(n-1)·(7u+6u²) < 1` (for `f64`,
                         `u = 2⁻⁵³`: every `n < 2⁵⁰`; for `f32`, `u = 2⁻²⁴`: every `n ≤ 2 396 745`), the rounded guess
                         converts to `some g` with `g < n` — the cast does not fail and the first read
                         `self[mid_idx]` is inside the axis.
* `C11_float_stdmodel` : hence `get_lower_index` run with that rounded guess returns the bracket of the
                         property text: no panic, never the last index (`C11_bracket` covers every guess).
* `C11_guess_rounding_sharp` : the hypothesis on `n` cannot simply be dropped: with `n-1 = 2/u` a perturbation
                         within the model drives the guess to `≥ n` (witness), so the first read would panic.
                         (IEEE arithmetic is monotone, which the δ-model does not know; the runtime half of the
                         check exercises long axes.)
-/
import NdInterp.Props.C01

namespace NdInterp

section
variable {α : Type} [Field α] [LinearOrder α] [IsStrictOrderedRing α]

/-- the rounded guess value lies in `[0, N·(1+7u+6u²)]` -/
theorem guessFl_bounds (x0 xl N q u d1 d2 d3 d4 d5 d6 : α)
    (hN : 0 ≤ N) (h1 : x0 < q) (h2 : q < xl)
    (hu0 : 0 ≤ u) (hu : u ≤ 1/16)
    (e1 : |d1| ≤ u) (e2 : |d2| ≤ u) (e3 : |d3| ≤ u) (e4 : |d4| ≤ u) (e5 : |d5| ≤ u) (e6 : |d6| ≤ u) :
    0 ≤ calcFracFl x0 0 xl N q d1 d2 d3 d4 d5 d6 ∧
      calcFracFl x0 0 xl N q d1 d2 d3 d4 d5 d6 ≤ N * (1 + 7 * u + 6 * u ^ 2) := by
  have hd : 0 < xl - x0 := by linarith
  have a2 := abs_le.mp e2
  have a6 := abs_le.mp e6
  have h2pos : 0 < 1 + d2 := by linarith
  rw [calcFracFl_repr _ _ _ _ _ _ _ _ _ _ _ hd.ne' h2pos.ne']
  set θ := (1 + d1) * (1 + d3) * (1 + d4) * (1 + d5) / (1 + d2) with hθ
  have hθb := abs_le.mp (theta_bound u d1 d2 d3 d4 d5 hu0 hu e1 e2 e3 e4 e5)
  set t := (q - x0) / (xl - x0) with ht
  have ht0 : 0 ≤ t := div_nonneg (by linarith) hd.le
  have ht1 : t ≤ 1 := by rw [ht, div_le_one hd]; linarith
  have hθ0 : 0 ≤ θ := by linarith
  have hθ1 : θ ≤ 1 + 6 * u := by linarith
  have h60 : 0 ≤ 1 + d6 := by linarith
  have h61 : 1 + d6 ≤ 1 + u := by linarith
  simp only [sub_zero, add_zero]
  constructor
  · exact mul_nonneg (mul_nonneg (mul_nonneg hN ht0) hθ0) h60
  · calc N * t * θ * (1 + d6) ≤ N * 1 * (1 + 6 * u) * (1 + u) := by gcongr
      _ = N * (1 + 7 * u + 6 * u ^ 2) := by ring

variable [Cmp α] [LawfulCmp α] [ToUsize α] [LawfulToUsize α]

omit [Cmp α] [LawfulCmp α] in
/-- **C11_guess_rounding**: under the standard model the rounded O(1) guess is an index of the axis. -/
theorem C11_guess_rounding (xs : List α) (q u d1 d2 d3 d4 d5 d6 : α)
    (hs : StrictInc xs) (hlen : xs.length < 2 ^ 64)
    (h1 : xs[0]'(by have := hs.1; omega) < q)
    (h2 : q < xs[xs.length - 1]'(by have := hs.1; omega))
    (hu0 : 0 ≤ u) (hu : u ≤ 1/16)
    (e1 : |d1| ≤ u) (e2 : |d2| ≤ u) (e3 : |d3| ≤ u) (e4 : |d4| ≤ u) (e5 : |d5| ≤ u) (e6 : |d6| ≤ u)
    (hsmall : ((xs.length - 1 : Nat) : α) * (7 * u + 6 * u ^ 2) < 1) :
    ∃ g, ToUsize.toUsize?
        (calcFracFl (xs[0]'(by have := hs.1; omega)) 0 (xs[xs.length - 1]'(by have := hs.1; omega))
          ((xs.length - 1 : Nat) : α) q d1 d2 d3 d4 d5 d6) = some g ∧ g < xs.length := by
  have hn := hs.1
  generalize hNdef : ((xs.length - 1 : Nat) : α) = N at *
  have hN : 0 ≤ N := by rw [← hNdef]; exact Nat.cast_nonneg _
  obtain ⟨hv0, hv1⟩ := guessFl_bounds xs[0] xs[xs.length - 1] N q u d1 d2 d3 d4 d5 d6 hN h1 h2 hu0 hu
    e1 e2 e3 e4 e5 e6
  have hvlt : calcFracFl xs[0] 0 xs[xs.length - 1] N q d1 d2 d3 d4 d5 d6 < N + 1 := by
    refine lt_of_le_of_lt hv1 ?_
    have : N * (1 + 7 * u + 6 * u ^ 2) = N + N * (7 * u + 6 * u ^ 2) := by ring
    rw [this]; linarith
  have hNn : N + 1 = ((xs.length : Nat) : α) := by
    rw [← hNdef]
    have : xs.length - 1 + 1 = xs.length := by omega
    exact_mod_cast this
  have hbig : calcFracFl xs[0] 0 xs[xs.length - 1] N q d1 d2 d3 d4 d5 d6 < (2 : α) ^ 64 := by
    refine lt_trans hvlt ?_
    rw [hNn]
    have : ((xs.length : Nat) : α) < ((2 ^ 64 : Nat) : α) := by exact_mod_cast hlen
    refine lt_of_lt_of_le this (le_of_eq ?_)
    norm_cast
  obtain ⟨g, hg, hg1, _⟩ := LawfulToUsize.spec _ hv0 hbig
  refine ⟨g, hg, ?_⟩
  have : (g : α) < ((xs.length : Nat) : α) := by
    rw [← hNn]; exact lt_of_le_of_lt hg1 hvlt
  exact_mod_cast this

/-- **C11_float_stdmodel**: `get_lower_index` with the rounded guess returns the bracket; it neither
    panics on the cast nor on a read, and never returns the last index. -/
theorem C11_float_stdmodel (xs : List α) (q u d1 d2 d3 d4 d5 d6 : α)
    (hs : StrictInc xs) (hlen : xs.length < 2 ^ 64)
    (h1 : xs[0]'(by have := hs.1; omega) < q)
    (h2 : q < xs[xs.length - 1]'(by have := hs.1; omega))
    (hu0 : 0 ≤ u) (hu : u ≤ 1/16)
    (e1 : |d1| ≤ u) (e2 : |d2| ≤ u) (e3 : |d3| ≤ u) (e4 : |d4| ≤ u) (e5 : |d5| ≤ u) (e6 : |d6| ≤ u)
    (hsmall : ((xs.length - 1 : Nat) : α) * (7 * u + 6 * u ^ 2) < 1) :
    ∃ i, lowerIndexWith xs q (ToUsize.toUsize?
        (calcFracFl (xs[0]'(by have := hs.1; omega)) 0 (xs[xs.length - 1]'(by have := hs.1; omega))
          ((xs.length - 1 : Nat) : α) q d1 d2 d3 d4 d5 d6)) = .ok i ∧ Bracket xs q i := by
  obtain ⟨g, hg, hg2⟩ := C11_guess_rounding xs q u d1 d2 d3 d4 d5 d6 hs hlen h1 h2 hu0 hu e1 e2 e3 e4 e5 e6 hsmall
  rw [hg]
  exact C11_bracket xs q g hs hg2

end

/-- non-vacuity of the hypotheses (`u = 2⁻⁵`, a three-point axis) and sharpness of the bound on `n`:
    at `N = 2/u` the perturbations `δ₄ = δ₆ = u` (all others zero) give a guess `≥ N + 1` for `t` close to 1 -/
example : ((3 - 1 : Nat) : ℚ) * (7 * (1/32) + 6 * (1/32) ^ 2) < 1 := by norm_num

theorem C11_guess_rounding_sharp :
    ∃ (x0 xl N q u d4 d6 : ℚ), x0 < q ∧ q < xl ∧ 0 ≤ u ∧ u ≤ 1/16 ∧ |d4| ≤ u ∧ |d6| ≤ u ∧ N = 2 / u ∧
      N + 1 ≤ calcFracFl x0 0 xl N q 0 0 0 d4 0 d6 := by
  refine ⟨0, 1, 32, 63/64, 1/16, 1/16, 1/16, ?_⟩
  norm_num [calcFracFl]

end NdInterp
