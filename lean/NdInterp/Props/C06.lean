/-
C06 — extrapolation continues the end polynomial and never rejects a finite query.

Linear and Bilinear (the spline statements `C06_spline_*` live in `NdInterp.Props.C02`):
* `C06_linear_never_rejects`, `C06_bilinear_never_rejects` : with the flag on every query of an
  ordered field is answered.
* `C06_linear_inrange_same`, `C06_bilinear_inrange_same` : **no assumption on the scalar
  operations at all** (so bit-for-bit for IEEE arithmetic): whenever the range gate passes with
  the flag off, the results with the flag on and off are the same term.
* `C06_linear_left/right` : outside the range the result is the value at `q` of the *same*
  straight line as on the first / last interval; `C06_bilinear_cell` likewise for the border cell.
-/
import NdInterp.Lemmas.LinearCore

namespace NdInterp

section anyops
variable {α V : Type} [Cmp α] [Add α] [Sub α] [Mul α] [Div α] [NatCast α] [ToUsize α] [Lanes α V]

/-- **C06_linear_inrange_same** (arbitrary operations): in range, flag on = flag off. -/
theorem C06_linear_inrange_same (xs : List α) (ys : List V) (q : α)
    (h : rangeGate false xs q = .ok ()) :
    linearInterp true xs ys q = linearInterp false xs ys q := by
  unfold linearInterp
  rw [h]
  rfl

/-- **C06_bilinear_inrange_same** (arbitrary operations). -/
theorem C06_bilinear_inrange_same (xs ys : List α) (zs : List (List V)) (x y : α)
    (hx : rangeGate false xs x = .ok ()) (hy : rangeGate false ys y = .ok ()) :
    bilinearInterp true xs ys zs x y = bilinearInterp false xs ys zs x y := by
  unfold bilinearInterp
  rw [hx, hy]
  rfl

end anyops

section
variable {α V : Type} [Field α] [LinearOrder α] [IsStrictOrderedRing α]
  [Cmp α] [LawfulCmp α] [ToUsize α] [LawfulToUsize α] [Lanes α V]

/-- **C06_linear_never_rejects** -/
theorem C06_linear_never_rejects (xs : List α) (ys : List V) (q : α)
    (hs : StrictInc xs) (hl : ys.length = xs.length) (hlen : xs.length < 2 ^ 64) :
    ∃ v, linearInterp true xs ys q = .ok v := by
  obtain ⟨i, hb, h⟩ := linearInterp_eq true xs ys q hs hl hlen
  rw [h, if_pos (Or.inl rfl)]; exact ⟨_, rfl⟩

/-- **C06_bilinear_never_rejects** -/
theorem C06_bilinear_never_rejects (xs ys : List α) (zs : List (List V)) (x y : α)
    (hsx : StrictInc xs) (hsy : StrictInc ys) (hg : GridOK zs xs.length ys.length)
    (hlx : xs.length < 2 ^ 64) (hly : ys.length < 2 ^ 64) :
    ∃ v, bilinearInterp true xs ys zs x y = .ok v := by
  obtain ⟨i, j, hi, hj, r1, r2, z11, z12, z21, z22, _, _, _, _, _, _, h⟩ :=
    bilinearInterp_eq true xs ys zs x y hsx hsy hg hlx hly
  rw [h, if_pos (Or.inl rfl), if_pos (Or.inl rfl)]; exact ⟨_, rfl⟩

/-- the straight line through knots `i`, `i+1`, lane by lane -/
def linePiece (xs : List α) (ys : List V) (i : Nat) (h : i + 1 < xs.length)
    (hl : ys.length = xs.length) (q : α) : V :=
  Lanes.map2 (fun y1 y2 => calcFrac (xs[i]'(by omega)) y1 xs[i + 1] y2 q)
    (ys[i]'(by omega)) (ys[i + 1]'(by omega))

/-- every answered query is the value of the line piece of its bracket -/
theorem linear_piece (ext : Bool) (xs : List α) (ys : List V) (q : α)
    (hs : StrictInc xs) (hl : ys.length = xs.length) (hlen : xs.length < 2 ^ 64)
    (hok : ext = true ∨ InRange xs q) :
    ∃ i, ∃ (hb : Bracket xs q i), linearInterp ext xs ys q = .ok (linePiece xs ys i hb.lt_len hl q) := by
  obtain ⟨i, hb, h⟩ := linearInterp_eq ext xs ys q hs hl hlen
  exact ⟨i, hb, by rw [h, if_pos hok]; rfl⟩

/-- **C06_linear_left**: at or left of the first knot the result is the value at `q` of the line of
    the *first* interval — the same polynomial piece that answers queries inside `[x₀, x₁)`. -/
theorem C06_linear_left (xs : List α) (ys : List V) (q : α)
    (hs : StrictInc xs) (hl : ys.length = xs.length) (hlen : xs.length < 2 ^ 64)
    (hq : q ≤ xs[0]'(by have := hs.1; omega)) :
    linearInterp true xs ys q = .ok (linePiece xs ys 0 (by have := hs.1; omega) hl q) := by
  obtain ⟨i, hb, h⟩ := linear_piece true xs ys q hs hl hlen (Or.inl rfl)
  have : i = 0 := hb.low (by have := hs.1; omega) hq
  subst this
  exact h

/-- **C06_linear_right**: at or right of the last knot, the line of the *last* interval. -/
theorem C06_linear_right (xs : List α) (ys : List V) (q : α)
    (hs : StrictInc xs) (hl : ys.length = xs.length) (hlen : xs.length < 2 ^ 64)
    (hq : xs[xs.length - 1]'(by have := hs.1; omega) ≤ q) :
    linearInterp true xs ys q =
      .ok (linePiece xs ys (xs.length - 2) (by have := hs.1; omega) hl q) := by
  obtain ⟨i, hb, h⟩ := linear_piece true xs ys q hs hl hlen (Or.inl rfl)
  have : i = xs.length - 2 := hb.high (by have := hs.1; omega) hq
  subst this
  exact h

/-- inside the range the same pieces are used (flag on or off): with `C06_linear_left/right`
    this is continuity of the extrapolated interpolant across the range ends. -/
theorem C06_linear_inside (ext : Bool) (xs : List α) (ys : List V) (q : α) (i : Nat)
    (hs : StrictInc xs) (hl : ys.length = xs.length) (hlen : xs.length < 2 ^ 64)
    (hi : i + 1 < xs.length) (h1 : xs[i]'(by omega) ≤ q) (h2 : q < xs[i + 1]) :
    linearInterp ext xs ys q = .ok (linePiece xs ys i hi hl q) := by
  have hn := hs.1
  have hin : InRange xs q := ⟨by omega, le_trans (hs.le_of_le (Nat.zero_le i) (by omega)) h1,
    le_trans (le_of_lt h2) (hs.le_of_le (by omega) (by omega))⟩
  obtain ⟨i', hb, h⟩ := linear_piece ext xs ys q hs hl hlen (Or.inr hin)
  have hbi : Bracket xs q i := by
    refine ⟨hi, ?_, ?_, fun _ _ _ => ⟨h1, h2⟩⟩
    · intro h0 hq
      by_contra hne
      have : xs[0] < xs[i] := hs.2 0 i (by omega) (by omega)
      exact absurd (lt_of_lt_of_le this h1) (not_lt.mpr hq)
    · intro h0 hq
      by_contra hne
      have : xs[i + 1] ≤ xs[xs.length - 1] := hs.le_of_le (by omega) (by omega)
      exact absurd (lt_of_lt_of_le h2 (le_trans this hq)) (lt_irrefl q)
  have : i' = i := Bracket.unique hs hb hbi
  subst this
  exact h

/-- **C06_bilinear_cell**: every answered 2-D query (in range or extrapolated in x, in y or in both)
    is the bilinear form of the cell given by the two brackets — for coordinates outside the grid
    that is the border cell (`Bracket.low` / `Bracket.high`). -/
theorem C06_bilinear_cell (xs ys : List α) (zs : List (List V)) (x y : α)
    (hsx : StrictInc xs) (hsy : StrictInc ys) (hg : GridOK zs xs.length ys.length)
    (hlx : xs.length < 2 ^ 64) (hly : ys.length < 2 ^ 64) :
    ∃ i j, ∃ (hi : Bracket xs x i) (hj : Bracket ys y j),
      (x ≤ xs[0]'(by have := hsx.1; omega) → i = 0) ∧
      (xs[xs.length - 1]'(by have := hsx.1; omega) ≤ x → i = xs.length - 2) ∧
      (y ≤ ys[0]'(by have := hsy.1; omega) → j = 0) ∧
      (ys[ys.length - 1]'(by have := hsy.1; omega) ≤ y → j = ys.length - 2) ∧
      ∃ r1 r2 z11 z12 z21 z22,
      zs[i]? = some r1 ∧ zs[i + 1]? = some r2 ∧
      r1[j]? = some z11 ∧ r1[j + 1]? = some z12 ∧ r2[j]? = some z21 ∧ r2[j + 1]? = some z22 ∧
      bilinearInterp true xs ys zs x y =
        .ok (Lanes.map4 (fun z11 z12 z21 z22 =>
          let z1 := calcFrac (xs[i]'(by have := hi.lt_len; omega)) z11 (xs[i + 1]'hi.lt_len) z21 x
          let z2 := calcFrac (xs[i]'(by have := hi.lt_len; omega)) z12 (xs[i + 1]'hi.lt_len) z22 x
          calcFrac (ys[j]'(by have := hj.lt_len; omega)) z1 (ys[j + 1]'hj.lt_len) z2 y)
          z11 z12 z21 z22) := by
  obtain ⟨i, j, hi, hj, r1, r2, z11, z12, z21, z22, e1, e2, e3, e4, e5, e6, h⟩ :=
    bilinearInterp_eq true xs ys zs x y hsx hsy hg hlx hly
  refine ⟨i, j, hi, hj, hi.low (by have := hsx.1; omega), hi.high (by have := hsx.1; omega),
    hj.low (by have := hsy.1; omega), hj.high (by have := hsy.1; omega),
    r1, r2, z11, z12, z21, z22, e1, e2, e3, e4, e5, e6, ?_⟩
  rw [h, if_pos (Or.inl rfl), if_pos (Or.inl rfl)]

end

end NdInterp
