/-
C06 — rounding of the spline segment evaluation at *any* argument (inside the interval or extrapolated).

`C02_eval_rounding` bounds the 13 rounded operations of `CubicSplineStrategy::interp_into` for a query inside its interval.  Outside the
data range the same expression is evaluated with the first / last interval's data and `t = (x − x_l)/(x_r − x_l)` outside `[0, 1]`.
With `K ≥ 1` a bound on `|t|` and `|1 − t|`:

* `C06_spline_eval_rounding` : `|computed − exact| ≤ 132·u·M·K³`, `M = max(|y_l|, |y_r|, |a|, |b|)` — the cubic growth of the continuation is
  the natural scale.  (`K = 1` is the in-range case, with a slightly larger constant than `C02_eval_rounding`.)

As for C02 this is the evaluation given the coefficients; the rounding of the solve that produces them is not bounded by a theorem.
-/
import NdInterp.Props.C02Fl

namespace NdInterp

section
variable {F : Type} [Field F] [LinearOrder F] [IsStrictOrderedRing F]

private theorem kfacts (u M K : F) (hu0 : 0 ≤ u) (hu : u ≤ 1/16) (hM0 : 0 ≤ M) (hK : 1 ≤ K) :
    0 ≤ u * M * K ∧ u * (u * M * K) ≤ u * M * K / 16 ∧
    0 ≤ u * M * K * K * K ∧ u * (u * M * K * K * K) ≤ u * M * K * K * K / 16 ∧ u * (u * (u * M * K * K * K)) ≤ u * M * K * K * K / 256 ∧
    u * M * K ≤ u * M * K * K * K := by
  have hK0 : 0 ≤ K := by linarith
  have b0 : 0 ≤ u * M * K := by positivity
  have d0 : 0 ≤ u * M * K * K * K := by positivity
  have h1 : u * (u * M * K) ≤ 1/16 * (u * M * K) := mul_le_mul_of_nonneg_right hu b0
  have h2 : u * (u * M * K * K * K) ≤ 1/16 * (u * M * K * K * K) := mul_le_mul_of_nonneg_right hu d0
  have h3 : u * (u * (u * M * K * K * K)) ≤ 1/16 * (u * (u * M * K * K * K)) :=
    mul_le_mul_of_nonneg_right hu (mul_nonneg hu0 d0)
  have hKK : 1 ≤ K * K := by nlinarith
  have h4 : u * M * K * 1 ≤ u * M * K * (K * K) := mul_le_mul_of_nonneg_left hKK b0
  refine ⟨b0, by linarith, d0, by linarith, by linarith, by nlinarith⟩

private theorem cfacts (u K : F) (hu0 : 0 ≤ u) (hu : u ≤ 1/16) (hK : 1 ≤ K) :
    0 ≤ u * K ∧ u * (u * K) ≤ u * K / 16 ∧ 0 ≤ u * K * K ∧ u * (u * K * K) ≤ u * K * K / 16 ∧ u * (u * (u * K * K)) ≤ u * K * K / 256 := by
  have hK0 : 0 ≤ K := by linarith
  have a0 : 0 ≤ u * K := by positivity
  have c0 : 0 ≤ u * K * K := by positivity
  have h1 : u * (u * K) ≤ 1/16 * (u * K) := mul_le_mul_of_nonneg_right hu a0
  have h2 : u * (u * K * K) ≤ 1/16 * (u * K * K) := mul_le_mul_of_nonneg_right hu c0
  have h3 : u * (u * (u * K * K)) ≤ 1/16 * (u * (u * K * K)) := mul_le_mul_of_nonneg_right hu (mul_nonneg hu0 c0)
  exact ⟨a0, by linarith, c0, by linarith, by linarith⟩

private theorem k_S (u K : F) (hu0 : 0 ≤ u) (hu : u ≤ 1/16) (hK : 1 ≤ K) : 6 * u * K * (1 + u) + K * u ≤ 8 * u * K := by
  obtain ⟨a0, a1, _⟩ := cfacts u K hu0 hu hK; linarith

private theorem k_p1 (u M K : F) (hu0 : 0 ≤ u) (hu : u ≤ 1/16) (hM0 : 0 ≤ M) (hK : 1 ≤ K) :
    (K * 0 + M * (8 * u * K) + 8 * u * K * 0) * (1 + u) + K * M * u ≤ 10 * (u * M * K) := by
  obtain ⟨b0, b1, _⟩ := kfacts u M K hu0 hu hM0 hK; linarith

private theorem k_p2 (u M K : F) (hu0 : 0 ≤ u) (hu : u ≤ 1/16) (hM0 : 0 ≤ M) (hK : 1 ≤ K) :
    (K * 0 + M * (6 * u * K) + 6 * u * K * 0) * (1 + u) + K * M * u ≤ 8 * (u * M * K) := by
  obtain ⟨b0, b1, _⟩ := kfacts u M K hu0 hu hM0 hK; linarith

private theorem k_A (u M K : F) (hu0 : 0 ≤ u) (hu : u ≤ 1/16) (hM0 : 0 ≤ M) (hK : 1 ≤ K) :
    (10 * (u * M * K) + 8 * (u * M * K)) * (1 + u) + (K * M + K * M) * u ≤ 22 * (u * M * K) := by
  obtain ⟨b0, b1, _⟩ := kfacts u M K hu0 hu hM0 hK; linarith

private theorem k_q1 (u K : F) (hu0 : 0 ≤ u) (hu : u ≤ 1/16) (hK : 1 ≤ K) :
    (K * (8 * u * K) + K * (6 * u * K) + 6 * u * K * (8 * u * K)) * (1 + u) + K * K * u ≤ 20 * (u * K * K) := by
  obtain ⟨_, _, c0, c1, c2⟩ := cfacts u K hu0 hu hK; linarith

private theorem k_r1 (u M K : F) (hu0 : 0 ≤ u) (hu : u ≤ 1/16) (hM0 : 0 ≤ M) (hK : 1 ≤ K) :
    (M * (8 * u * K) + K * 0 + 0 * (8 * u * K)) * (1 + u) + M * K * u ≤ 10 * (u * M * K) := by
  obtain ⟨b0, b1, _⟩ := kfacts u M K hu0 hu hM0 hK; linarith

private theorem k_r2 (u M K : F) (hu0 : 0 ≤ u) (hu : u ≤ 1/16) (hM0 : 0 ≤ M) (hK : 1 ≤ K) :
    (M * (6 * u * K) + K * 0 + 0 * (6 * u * K)) * (1 + u) + M * K * u ≤ 8 * (u * M * K) := by
  obtain ⟨b0, b1, _⟩ := kfacts u M K hu0 hu hM0 hK; linarith

private theorem k_q (u M K : F) (hu0 : 0 ≤ u) (hu : u ≤ 1/16) (hM0 : 0 ≤ M) (hK : 1 ≤ K) :
    (K * K * (22 * (u * M * K)) + (K * M + K * M) * (20 * (u * K * K)) + 20 * (u * K * K) * (22 * (u * M * K))) * (1 + u)
      + K * K * (K * M + K * M) * u ≤ 98 * (u * M * K * K * K) := by
  obtain ⟨_, _, d0, d1, d2, _⟩ := kfacts u M K hu0 hu hM0 hK; linarith

private theorem k_fin (u M K : F) (hu0 : 0 ≤ u) (hu : u ≤ 1/16) (hM0 : 0 ≤ M) (hK : 1 ≤ K) :
    (22 * (u * M * K) + 98 * (u * M * K * K * K)) * (1 + u) + ((K * M + K * M) + K * K * (K * M + K * M)) * u
      ≤ 132 * u * M * K ^ 3 := by
  obtain ⟨b0, b1, d0, d1, _, hbd⟩ := kfacts u M K hu0 hu hM0 hK
  have e : 132 * u * M * K ^ 3 = 132 * (u * M * K * K * K) := by ring
  rw [e]; linarith

/-- **C06_spline_eval_rounding**: the rounded segment evaluation at any argument, `K ≥ 1` bounding `|t|` and `|1 − t|` -/
theorem C06_spline_eval_rounding (xl xr yl yr a b x u M K d1 d2 d3 d4 d5 d6 d7 d8 d9 d10 d11 d12 d13 : F)
    (hx : xl < xr) (hK : 1 ≤ K) (hKt : |(x - xl) / (xr - xl)| ≤ K) (hKs : |1 - (x - xl) / (xr - xl)| ≤ K)
    (hu0 : 0 ≤ u) (hu : u ≤ 1/16)
    (e1 : |d1| ≤ u) (e2 : |d2| ≤ u) (e3 : |d3| ≤ u) (e4 : |d4| ≤ u) (e5 : |d5| ≤ u) (e6 : |d6| ≤ u) (e7 : |d7| ≤ u)
    (e8 : |d8| ≤ u) (e9 : |d9| ≤ u) (e10 : |d10| ≤ u) (e11 : |d11| ≤ u) (e12 : |d12| ≤ u) (e13 : |d13| ≤ u)
    (hyl : |yl| ≤ M) (hyr : |yr| ≤ M) (ha : |a| ≤ M) (hb : |b| ≤ M) :
    |splEvalFl xl xr yl yr a b x d1 d2 d3 d4 d5 d6 d7 d8 d9 d10 d11 d12 d13 - splEvalExact xl xr yl yr a b x| ≤ 132 * u * M * K ^ 3 := by
  have hM0 : 0 ≤ M := le_trans (abs_nonneg _) hyl
  have hK0 : 0 ≤ K := by linarith
  have hd : 0 < xr - xl := sub_pos.mpr hx
  have a2 := abs_le.mp e2
  have h2pos : 0 < 1 + d2 := by linarith
  unfold splEvalFl splEvalExact
  simp only
  set t := (x - xl) / (xr - xl) with ht
  have hT : (x - xl) * (1 + d1) / ((xr - xl) * (1 + d2)) * (1 + d3) = t * ((1 + d1) * (1 + d3) * (1 + 0) * (1 + 0) / (1 + d2)) := by
    rw [ht]; field_simp; ring
  rw [hT]
  set θ := (1 + d1) * (1 + d3) * (1 + 0) * (1 + 0) / (1 + d2) with hθ
  have hθb : |θ - 1| ≤ 6 * u :=
    theta_bound u d1 d2 d3 0 0 hu0 hu e1 e2 e3 (by simpa using hu0) (by simpa using hu0)
  set T := t * θ with hTdef
  have abs_t : |t| ≤ K := hKt
  have abs_s : |1 - t| ≤ K := hKs
  have rT : |T - t| ≤ 6 * u * K := by
    have : T - t = t * (θ - 1) := by rw [hTdef]; ring
    rw [this, abs_mul]
    calc |t| * |θ - 1| ≤ K * (6 * u) := by gcongr
      _ = 6 * u * K := by ring
  set S := (1 - T) * (1 + d4) with hSdef
  have rS : |S - (1 - t)| ≤ 8 * u * K := by
    have e : S - (1 - t) = (t - T) * (1 + d4) + (1 - t) * d4 := by rw [hSdef]; ring
    have b3 : |1 + d4| ≤ 1 + u := by
      calc |1 + d4| ≤ |1| + |d4| := abs_add_le _ _
        _ ≤ 1 + u := by rw [abs_one]; linarith
    have hu1 : 0 ≤ 6 * u * K := by positivity
    rw [e]
    calc |(t - T) * (1 + d4) + (1 - t) * d4| ≤ |(t - T) * (1 + d4)| + |(1 - t) * d4| := abs_add_le _ _
      _ = |T - t| * |1 + d4| + |1 - t| * |d4| := by rw [abs_mul, abs_mul, abs_sub_comm t T]
      _ ≤ 6 * u * K * (1 + u) + K * u := by gcongr
      _ ≤ 8 * u * K := k_S u K hu0 hu hK
  have rp1 : |S * yl * (1 + d5) - (1 - t) * yl| ≤ 10 * (u * M * K) :=
    le_trans (fl_mul (1 - t) S yl yl d5 (8 * u * K) 0 K M u rS (by simp) abs_s hyl e5) (k_p1 u M K hu0 hu hM0 hK)
  have rp2 : |T * yr * (1 + d6) - t * yr| ≤ 8 * (u * M * K) :=
    le_trans (fl_mul t T yr yr d6 (6 * u * K) 0 K M u rT (by simp) abs_t hyr e6) (k_p2 u M K hu0 hu hM0 hK)
  have bp1 : |(1 - t) * yl| ≤ K * M := by rw [abs_mul]; gcongr
  have bp2 : |t * yr| ≤ K * M := by rw [abs_mul]; gcongr
  have rA : |(S * yl * (1 + d5) + T * yr * (1 + d6)) * (1 + d7) - ((1 - t) * yl + t * yr)| ≤ 22 * (u * M * K) :=
    le_trans (fl_add _ _ _ _ d7 _ _ _ _ u rp1 rp2 bp1 bp2 e7) (k_A u M K hu0 hu hM0 hK)
  have bA : |(1 - t) * yl + t * yr| ≤ K * M + K * M := le_trans (abs_add_le _ _) (add_le_add bp1 bp2)
  have rq1 : |T * S * (1 + d8) - t * (1 - t)| ≤ 20 * (u * K * K) :=
    le_trans (fl_mul t T (1 - t) S d8 (6 * u * K) (8 * u * K) K K u rT rS abs_t abs_s e8) (k_q1 u K hu0 hu hK)
  have bq1 : |t * (1 - t)| ≤ K * K := by rw [abs_mul]; gcongr
  have rr1 : |a * S * (1 + d9) - a * (1 - t)| ≤ 10 * (u * M * K) :=
    le_trans (fl_mul a a (1 - t) S d9 0 (8 * u * K) M K u (by simp) rS ha abs_s e9) (k_r1 u M K hu0 hu hM0 hK)
  have rr2 : |b * T * (1 + d10) - b * t| ≤ 8 * (u * M * K) :=
    le_trans (fl_mul b b t T d10 0 (6 * u * K) M K u (by simp) rT hb abs_t e10) (k_r2 u M K hu0 hu hM0 hK)
  have br1 : |a * (1 - t)| ≤ K * M := by rw [abs_mul, mul_comm K M]; gcongr
  have br2 : |b * t| ≤ K * M := by rw [abs_mul, mul_comm K M]; gcongr
  have rR : |(a * S * (1 + d9) + b * T * (1 + d10)) * (1 + d11) - (a * (1 - t) + b * t)| ≤ 22 * (u * M * K) :=
    le_trans (fl_add _ _ _ _ d11 _ _ _ _ u rr1 rr2 br1 br2 e11) (k_A u M K hu0 hu hM0 hK)
  have bR : |a * (1 - t) + b * t| ≤ K * M + K * M := le_trans (abs_add_le _ _) (add_le_add br1 br2)
  have rq : |T * S * (1 + d8) * ((a * S * (1 + d9) + b * T * (1 + d10)) * (1 + d11)) * (1 + d12)
      - t * (1 - t) * (a * (1 - t) + b * t)| ≤ 98 * (u * M * K * K * K) :=
    le_trans (fl_mul _ _ _ _ d12 _ _ _ _ u rq1 rR bq1 bR e12) (k_q u M K hu0 hu hM0 hK)
  have bq : |t * (1 - t) * (a * (1 - t) + b * t)| ≤ K * K * (K * M + K * M) := by
    rw [abs_mul]
    have h0 : 0 ≤ K * K := by positivity
    exact mul_le_mul bq1 bR (abs_nonneg _) h0
  exact le_trans (fl_add _ _ _ _ d13 _ _ _ _ u rA rq bA bq e13) (k_fin u M K hu0 hu hM0 hK)

/-- non-vacuity: a query one interval length beyond the right end (`t = 2`, `K = 2`) with concrete perturbations -/
example : |splEvalFl (0 : ℚ) 2 1 3 (-1) 2 4 (1/32) 0 0 0 0 (-1/32) 0 0 0 0 0 0 (1/32)
    - splEvalExact 0 2 1 3 (-1) 2 4| ≤ 132 * (1/32) * 3 * 2 ^ 3 :=
  C06_spline_eval_rounding 0 2 1 3 (-1) 2 4 (1/32) 3 2 (1/32) 0 0 0 0 (-1/32) 0 0 0 0 0 0 (1/32)
    (by norm_num) (by norm_num) (by norm_num [abs_of_nonneg]) (by norm_num [abs_of_nonneg]) (by norm_num) (by norm_num)
    (by norm_num [abs_of_nonneg]) (by norm_num) (by norm_num) (by norm_num) (by norm_num) (by norm_num [abs_of_nonneg]) (by norm_num)
    (by norm_num) (by norm_num) (by norm_num) (by norm_num) (by norm_num) (by norm_num [abs_of_nonneg])
    (by norm_num [abs_of_nonneg]) (by norm_num [abs_of_nonneg]) (by norm_num [abs_of_nonneg]) (by norm_num [abs_of_nonneg])

end

end NdInterp
