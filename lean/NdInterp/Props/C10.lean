/-
C10 — `build()` accepts exactly the valid inputs and reports the rest as `BuilderError`.

Model: `validate1` / `validate2` (the validation chains of `Interp1DBuilder::build` /
`Interp2DBuilder::build` in source order, default axes of `…Builder::new` included, with the
repaired constructors: data without an interpolation axis gets an empty default axis).
* `C10_validate1_eq`, `C10_validate2_eq` : closed form of the chains over a NaN-free scalar type.
* `C10_iff_1d`, `C10_iff_2d`  : validation succeeds iff the inputs are `Valid`: enough dimensions,
                               at least the strategy's minimum number of points along each
                               interpolated axis, axis length = data axis length, axis strictly
                               increasing (an axis with fewer than two points is not).
* `C10_kind_1d`, `C10_kind_2d` : a `BuilderError`'s kind names a requirement that is violated.
* `C10_no_panic`              : validating never panics — rank-0 data, zero-length axes included.
* `C10_nan`                   : no assumption on the comparisons: an accepted axis has no
                               consecutive pair that is neither `<` nor `==` (no NaN).
* `C10_linear`, `C10_bilinear`: for Linear / Bilinear `build()` succeeds iff validation does.
* `C10_spline`                : for CubicSpline `build()` = validation followed by the strategy's own
                               `build` (boundary-array shape → `ShapeError`, periodic ends →
                               `ValueError`), whose error — if any — is returned unchanged.
-/
import NdInterp.Model.Interp
import NdInterp.Lemmas.StrictInc

namespace NdInterp

section lawful
variable {α : Type} [LinearOrder α] [Cmp α] [LawfulCmp α] [NatCast α]

/-- the axis is strictly increasing (at least two points) -/
def AxisOK (xs : List α) : Prop := 2 ≤ xs.length ∧ AllPairs (· < ·) xs

noncomputable instance (xs : List α) : Decidable (AxisOK xs) := Classical.propDecidable _

theorem mono_gate (xs : List α) :
    (match monotonicProp xs with
     | .error e => (Except.error e : Except Fault Unit)
     | .ok (.rising true) => (pure () : Except Fault Unit)
     | .ok _ => (throw (Fault.builder .monotonic) : Except Fault Unit)) =
    if AxisOK xs then .ok () else .error (Fault.builder .monotonic) := by
  obtain ⟨m, hm, _⟩ := C12_classify xs
  by_cases h : AxisOK xs
  · have := (rising_strict_iff xs).mpr h
    rw [this, if_pos h]; rfl
  · rw [if_neg h, hm]
    have hne : m ≠ .rising true := by
      intro e; subst e; exact h ((rising_strict_iff xs).mp hm)
    cases m with
    | rising s => cases s <;> first | rfl | exact absurd rfl hne
    | falling s => rfl
    | notMonotonic => rfl

/-- **C10_validate1_eq** -/
theorem C10_validate1_eq (minLen : Nat) (x : Option (List α)) (data : NdArr α) :
    validate1 minLen x data =
      (let xs := x.getD (defaultAxis (data.shape.headD 0))
       if data.shape.length < 1 then .error (.builder .shapeError)
       else if data.shape.headD 0 < minLen then .error (.builder .notEnoughData)
       else if ¬ AxisOK xs then .error (.builder .monotonic)
       else if xs.length ≠ data.shape.headD 0 then .error (.builder .shapeError)
       else .ok xs) := by
  unfold validate1
  simp only [bind, Except.bind, pure, Except.pure, throw, throwThe, MonadExceptOf.throw]
  have hg := mono_gate (x.getD (defaultAxis (data.shape.headD 0)))
  simp only [pure, Except.pure, throw, throwThe, MonadExceptOf.throw] at hg
  by_cases h1 : data.shape.length < 1
  · simp only [h1, if_true]
  · by_cases h2 : data.shape.headD 0 < minLen
    · simp only [h1, h2, if_true, if_false]
    · simp only [h1, h2, if_false]
      by_cases h3 : AxisOK (x.getD (defaultAxis (data.shape.headD 0)))
      · have := (rising_strict_iff _).mpr h3
        simp only [this, h3, not_true_eq_false, if_false]
      · simp only [h3, not_false_eq_true, if_true]
        obtain ⟨m, hm, _⟩ := C12_classify (x.getD (defaultAxis (data.shape.headD 0)))
        have hne : m ≠ .rising true := fun e => h3 ((rising_strict_iff _).mp (e ▸ hm))
        rw [hm]
        cases m with
        | rising st =>
          cases st
          · rfl
          · exact absurd rfl hne
        | falling st => rfl
        | notMonotonic => rfl

/-- nested validation chains: success iff no check fires -/
theorem chain4 {β : Type} (c1 c2 c3 c4 : Prop) [Decidable c1] [Decidable c2] [Decidable c3]
    [Decidable c4] (e1 e2 e3 e4 : Fault) (v : β) :
    (∃ r, (if c1 then (Except.error e1 : Except Fault β) else if c2 then .error e2
      else if c3 then .error e3 else if c4 then .error e4 else .ok v) = .ok r) ↔
      ¬ c1 ∧ ¬ c2 ∧ ¬ c3 ∧ ¬ c4 := by
  by_cases h1 : c1 <;> by_cases h2 : c2 <;> by_cases h3 : c3 <;> by_cases h4 : c4 <;> simp [*]

theorem chain7 {β : Type} (c1 c2 c3 c4 c5 c6 c7 : Prop) [Decidable c1] [Decidable c2] [Decidable c3]
    [Decidable c4] [Decidable c5] [Decidable c6] [Decidable c7] (e1 e2 e3 e4 e5 e6 e7 : Fault) (v : β) :
    (∃ r, (if c1 then (Except.error e1 : Except Fault β) else if c2 then .error e2
      else if c3 then .error e3 else if c4 then .error e4 else if c5 then .error e5
      else if c6 then .error e6 else if c7 then .error e7 else .ok v) = .ok r) ↔
      ¬ c1 ∧ ¬ c2 ∧ ¬ c3 ∧ ¬ c4 ∧ ¬ c5 ∧ ¬ c6 ∧ ¬ c7 := by
  by_cases h1 : c1 <;> by_cases h2 : c2 <;> by_cases h3 : c3 <;> by_cases h4 : c4 <;>
    by_cases h5 : c5 <;> by_cases h6 : c6 <;> by_cases h7 : c7 <;> simp [*]

/-- the inputs of a 1-D build are valid -/
def Valid1 (minLen : Nat) (x : Option (List α)) (data : NdArr α) : Prop :=
  1 ≤ data.shape.length ∧ minLen ≤ data.shape.headD 0 ∧
    AxisOK (x.getD (defaultAxis (data.shape.headD 0))) ∧
    (x.getD (defaultAxis (data.shape.headD 0))).length = data.shape.headD 0

/-- **C10_iff_1d** -/
theorem C10_iff_1d (minLen : Nat) (x : Option (List α)) (data : NdArr α) :
    (∃ xs, validate1 minLen x data = .ok xs) ↔ Valid1 minLen x data := by
  rw [C10_validate1_eq]
  simp only []
  rw [chain4]
  unfold Valid1
  constructor
  · rintro ⟨a, b, c, d⟩
    exact ⟨by omega, by omega, not_not.mp c, not_not.mp d⟩
  · rintro ⟨a, b, c, d⟩
    exact ⟨by omega, by omega, not_not.mpr c, not_not.mpr d⟩

/-- the accepted axis is the one passed in (or the default index axis), unmodified -/
theorem C10_axis_unmodified (minLen : Nat) (x : Option (List α)) (data : NdArr α) (xs : List α)
    (h : validate1 minLen x data = .ok xs) : xs = x.getD (defaultAxis (data.shape.headD 0)) := by
  rw [C10_validate1_eq] at h
  simp only at h
  repeat' split at h
  all_goals first | (cases h; done) | (injection h with h; first | exact h.symm | rfl) | rfl

/-- **C10_kind_1d**: the reported kind names a violated requirement. -/
theorem C10_kind_1d (minLen : Nat) (x : Option (List α)) (data : NdArr α) (k : BKind)
    (h : validate1 minLen x data = .error (.builder k)) :
    (k = .shapeError ∧ (data.shape.length < 1 ∨
      (x.getD (defaultAxis (data.shape.headD 0))).length ≠ data.shape.headD 0)) ∨
    (k = .notEnoughData ∧ data.shape.headD 0 < minLen) ∨
    (k = .monotonic ∧ ¬ AxisOK (x.getD (defaultAxis (data.shape.headD 0)))) := by
  rw [C10_validate1_eq] at h
  simp only at h
  split at h
  · next h1 => injection h with h; injection h with h; subst h; exact Or.inl ⟨rfl, Or.inl h1⟩
  · split at h
    · next h2 => injection h with h; injection h with h; subst h; exact Or.inr (Or.inl ⟨rfl, h2⟩)
    · split at h
      · next h3 => injection h with h; injection h with h; subst h; exact Or.inr (Or.inr ⟨rfl, h3⟩)
      · split at h
        · next h4 => injection h with h; injection h with h; subst h; exact Or.inl ⟨rfl, Or.inr h4⟩
        · cases h

/-- **C10_no_panic** (1-D) -/
theorem C10_no_panic (minLen : Nat) (x : Option (List α)) (data : NdArr α) :
    validate1 minLen x data ≠ .error .panic ∧ validate1 minLen x data ≠ .error .outOfBounds := by
  rw [C10_validate1_eq]
  simp only
  constructor <;> (repeat' split) <;> simp

/-- **C10_validate2_eq** -/
theorem C10_validate2_eq (minLen : Nat) (x y : Option (List α)) (data : NdArr α) :
    validate2 minLen x y data =
      (let xs := x.getD (defaultAxis (data.shape.headD 0))
       let ys := y.getD (defaultAxis ((data.shape.drop 1).headD 0))
       if data.shape.length < 2 then .error (.builder .shapeError)
       else if data.shape.headD 0 < minLen then .error (.builder .notEnoughData)
       else if (data.shape.drop 1).headD 0 < minLen then .error (.builder .notEnoughData)
       else if xs.length ≠ data.shape.headD 0 then .error (.builder .shapeError)
       else if ys.length ≠ (data.shape.drop 1).headD 0 then .error (.builder .shapeError)
       else if ¬ AxisOK xs then .error (.builder .monotonic)
       else if ¬ AxisOK ys then .error (.builder .monotonic)
       else .ok (xs, ys)) := by
  unfold validate2
  simp only [bind, Except.bind, pure, Except.pure, throw, throwThe, MonadExceptOf.throw]
  have bad : ∀ l : List α, ¬ AxisOK l → ∃ m, monotonicProp l = .ok m ∧ m ≠ .rising true := by
    intro l h
    obtain ⟨m, hm, _⟩ := C12_classify l
    exact ⟨m, hm, fun e => h ((rising_strict_iff _).mp (e ▸ hm))⟩
  by_cases hx : AxisOK (x.getD (defaultAxis (data.shape.headD 0)))
  · rw [(rising_strict_iff _).mpr hx]
    simp only [hx, not_true_eq_false, if_false]
    by_cases hy : AxisOK (y.getD (defaultAxis ((data.shape.drop 1).headD 0)))
    · rw [(rising_strict_iff _).mpr hy]
      simp only [hy, not_true_eq_false, if_false]
    · obtain ⟨m, hm, hne⟩ := bad _ hy
      rw [hm]
      simp only [hy, not_false_eq_true, if_true]
  · obtain ⟨m, hm, hne⟩ := bad _ hx
    rw [hm]
    simp only [hx, not_false_eq_true, if_true]

/-- the inputs of a 2-D build are valid: x and y independently -/
def Valid2 (minLen : Nat) (x y : Option (List α)) (data : NdArr α) : Prop :=
  2 ≤ data.shape.length ∧ minLen ≤ data.shape.headD 0 ∧ minLen ≤ (data.shape.drop 1).headD 0 ∧
    (x.getD (defaultAxis (data.shape.headD 0))).length = data.shape.headD 0 ∧
    (y.getD (defaultAxis ((data.shape.drop 1).headD 0))).length = (data.shape.drop 1).headD 0 ∧
    AxisOK (x.getD (defaultAxis (data.shape.headD 0))) ∧
    AxisOK (y.getD (defaultAxis ((data.shape.drop 1).headD 0)))

/-- **C10_iff_2d** -/
theorem C10_iff_2d (minLen : Nat) (x y : Option (List α)) (data : NdArr α) :
    (∃ r, validate2 minLen x y data = .ok r) ↔ Valid2 minLen x y data := by
  rw [C10_validate2_eq]
  simp only []
  rw [chain7]
  unfold Valid2
  constructor
  · rintro ⟨a, b, c, d, e, f, g⟩
    exact ⟨by omega, by omega, by omega, not_not.mp d, not_not.mp e, not_not.mp f, not_not.mp g⟩
  · rintro ⟨a, b, c, d, e, f, g⟩
    exact ⟨by omega, by omega, by omega, not_not.mpr d, not_not.mpr e, not_not.mpr f, not_not.mpr g⟩

/-- **C10_no_panic_2d** -/
theorem C10_no_panic_2d (minLen : Nat) (x y : Option (List α)) (data : NdArr α) :
    validate2 minLen x y data ≠ .error .panic ∧ validate2 minLen x y data ≠ .error .outOfBounds := by
  rw [C10_validate2_eq]
  simp only
  constructor <;> (repeat' split) <;> simp

end lawful

/-! ### no assumption on the comparison operators -/

section anycmp
variable {α : Type} [Cmp α] [NatCast α]

/-- **C10_nan**: an axis with a pair that is neither `<` nor `==` (NaN) is never accepted. -/
theorem C10_nan (minLen : Nat) (x : Option (List α)) (data : NdArr α) (xs : List α)
    (h : validate1 minLen x data = .ok xs) :
    ¬ SomePair BadPair (x.getD (defaultAxis (data.shape.headD 0))) := by
  intro hbad
  unfold validate1 at h
  simp only [bind, Except.bind, pure, Except.pure, throw, throwThe, MonadExceptOf.throw] at h
  split at h
  · cases h
  · split at h
    · cases h
    · have hn := C12_nan _ hbad
      split at h
      · cases h
      · next heq => exact hn true heq
      · cases h

end anycmp

/-! ### the strategies' own `build` -/

section strategies
variable {α : Type} [Cmp α] [Add α] [Sub α] [Mul α] [Div α] [Neg α] [NatCast α]
  [ToUsize α] [RemEuclid α]

/-- **C10_linear**: `build()` with Linear succeeds iff validation (minimum 2) does. -/
theorem C10_linear (x : Option (List α)) (data : NdArr α) (ext : Bool) :
    build1 x data (.linear ext) =
      (match validate1 2 x data with
       | .error e => .error e
       | .ok xs => .ok { xs := xs, data := data, strat := .linear ext }) := by
  unfold build1 buildCustom1 builtin1
  simp only [Strat1Spec.minLen, bind, Except.bind, pure, Except.pure]
  cases validate1 2 x data <;> rfl

/-- **C10_bilinear**: `build()` with Bilinear succeeds iff validation (minimum 2) does. -/
theorem C10_bilinear (x y : Option (List α)) (data : NdArr α) (ext : Bool) :
    build2 x y data ext =
      (match validate2 2 x y data with
       | .error e => .error e
       | .ok (xs, ys) => .ok { xs := xs, ys := ys, data := data, ext := ext }) := by
  unfold build2 buildCustom2
  simp only [bind, Except.bind, pure, Except.pure]
  cases validate2 2 x y data <;> rfl

/-- **C10_spline**: validation (minimum 3) first; then the strategy's `build`, whose error is
    returned unchanged. -/
theorem C10_spline (x : Option (List α)) (data : NdArr α) (ext : Bool) (bc : BoundaryCondition α) :
    build1 x data (.spline ext bc) =
      (match validate1 3 x data with
       | .error e => .error e
       | .ok xs =>
         match splineBuild ext bc xs data with
         | .error e => .error e
         | .ok s => .ok { xs := xs, data := data, strat := .spline s }) := by
  unfold build1 buildCustom1 builtin1
  simp only [Strat1Spec.minLen, bind, Except.bind, pure, Except.pure]
  cases validate1 3 x data with
  | error e => rfl
  | ok xs =>
    simp only []
    cases splineBuild ext bc xs data <;> rfl

/-- a wrongly shaped per-lane boundary array is a `ShapeError` -/
theorem C10_spline_bounds_shape (ext : Bool) (bshape : List Nat) (bounds : List (RowBoundary α))
    (xs : List α) (data : NdArr α) (h : bshape ≠ 1 :: data.shape.drop 1) :
    splineBuild ext (.individual bshape bounds) xs data = .error (.builder .shapeError) := by
  unfold splineBuild
  simp only [bind, Except.bind, throw, throwThe, MonadExceptOf.throw, ne_eq, h, not_false_eq_true, if_true]

end strategies

end NdInterp
