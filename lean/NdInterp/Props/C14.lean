/-
C14 — `*_into` calls fill exactly the caller's buffer or reject a wrongly shaped one.
C13 — (buffer part) a correctly shaped output buffer is accepted whatever its strides.

Model of the repaired entry points (`Model/Interp.lean`: `epInterpInto`, `epArrayInto`;
`Model/View.lean`: `arrayIntoMem` on strided views over a memory).
* `C14_ok_iff_shape`  : a call with a built-in strategy can return `Ok` only if the buffer has
                        exactly the required shape `query shape ++ trailing data shape`; any other
                        shape — too small, too large, permuted with equal element count, wrong rank —
                        is `panic`, before any strategy call (`C14_into_shape` for `interp_into`).
* `C14_all_written`   : on `Ok`, reading the buffer view in logical order gives exactly the values
                        the allocating variant returns — every element was overwritten.
* `C14_frame`         : memory at addresses outside the view is unchanged.
* `C13_buffer`        : two buffers of the same shape with arbitrary offsets/strides (only
                        requirement: distinct indices ↦ distinct addresses, the invariant of an
                        `ArrayViewMut`) receive the same logical contents — no layout condition.
-/
import NdInterp.Lemmas.ViewLemmas
import NdInterp.Props.C05

namespace NdInterp

section
variable {α β : Type}

/-- **C14_ok_iff_shape** (`interp_array_into`) -/
theorem C14_ok_iff_shape (trailing : List Nat) (f : β → Except Fault (List α)) (qshape : List Nat)
    (qs : List β) (bufShape : List Nat) :
    (bufShape ≠ qshape ++ trailing → epArrayInto trailing f qshape qs bufShape = .error .panic) ∧
    (bufShape = qshape ++ trailing →
      epArrayInto trailing f qshape qs bufShape = epArray trailing f qshape qs) := by
  constructor
  · intro h; simp [epArrayInto, h]
  · intro h; simp [epArrayInto, h]

/-- **C14_into_shape** (`interp_into`): `Ok` only with the trailing shape; the value is what
    `interp` returns. -/
theorem C14_into_shape (trailing : List Nat) (f : β → Except Fault (List α)) (q : β)
    (bufShape : List Nat) (a : NdArr α) (h : epInterpInto trailing f q bufShape = .ok a) :
    bufShape = trailing ∧ epInterp trailing f q = .ok a := by
  unfold epInterpInto at h
  unfold epInterp
  cases hf : f q with
  | error e => rw [hf] at h; cases h
  | ok v =>
    rw [hf] at h
    simp only at h ⊢
    split at h
    · next hs => injection h with h; subst h; exact ⟨hs, by rw [hs]⟩
    · cases h

/-- the same on memory: a wrongly shaped view is rejected before anything is written -/
theorem C14_mem_shape (trailing : List Nat) (f : β → Except Fault (List α)) (qshape : List Nat)
    (qs : List β) (buf : View) (m : Int → α) (h : buf.shape ≠ qshape ++ trailing) :
    arrayIntoMem trailing f qshape qs buf m = .error .panic := by
  simp [arrayIntoMem, h]

/-- **C14_all_written** and **C14_frame** -/
theorem C14_all_written (trailing : List Nat) (f : β → Except Fault (List α)) (qshape : List Nat)
    (qs : List β) (buf : View) (m m' : Int → α)
    (hinj : buf.addrs.Nodup) (hstr : qshape.length ≤ buf.strides.length)
    (hq : qs.length = shapeSize qshape)
    (hf : ∀ q v, f q = .ok v → v.length = shapeSize trailing)
    (h : arrayIntoMem trailing f qshape qs buf m = .ok m') :
    ∃ arr, epArray trailing f qshape qs = .ok arr ∧ buf.read m' = arr.flat ∧
      ∀ a, a ∉ buf.addrs → m' a = m a := by
  unfold arrayIntoMem at h
  split at h
  · cases h
  · next hshape =>
    simp only [ne_eq, Decidable.not_not] at hshape
    cases he : interpEach f qs with
    | error e => rw [he] at h; cases h
    | ok rows =>
      rw [he] at h
      injection h with h
      subst h
      obtain ⟨hlen, hrows⟩ := interpEach_ok f qs rows he
      have hidx : (indices qshape).length = qs.length := by rw [indices_length, hq]
      have hdec := View.addrs_subviews qshape buf ⟨trailing, hshape⟩ hstr
      have hwr : writeRows buf m (indices qshape) rows = buf.write m rows.flatten := by
        rw [writeRows_eq buf m (indices qshape) rows (by rw [hlen, hidx])]
        · unfold View.write; rw [← hdec]
        · intro k h1 h2
          obtain ⟨hk', hfk⟩ := hrows k (by omega)
          rw [hf _ _ hfk, View.addrs_length, View.subviewAt_shape, hshape]
          have hl : ((indices qshape)[k]).length = qshape.length := by
            have : ∀ (s : List Nat) idx, idx ∈ indices s → idx.length = s.length := by
              intro s
              induction s with
              | nil => intro idx h; simp [indices] at h; simp [h]
              | cons d ds ih =>
                intro idx h
                simp only [indices, List.mem_flatMap, List.mem_map] at h
                obtain ⟨i, _, idx', h', rfl⟩ := h
                simp [ih idx' h']
            exact this qshape _ (List.getElem_mem h1)
          rw [hl]
          simp
      refine ⟨{ shape := qshape ++ trailing, flat := rows.flatten }, by simp [epArray, he], ?_, ?_⟩
      · rw [hwr]
        apply View.read_write _ _ _ hinj
        -- total length: every row has the size of its sub-view
        have : rows.flatten.length = (indices qshape).length * shapeSize trailing := by
          have hall : ∀ r ∈ rows, r.length = shapeSize trailing := by
            intro r hr
            obtain ⟨k, hk, rfl⟩ := List.getElem_of_mem hr
            obtain ⟨_, hfk⟩ := hrows k (by omega)
            exact hf _ _ hfk
          rw [List.length_flatten]
          have : ∀ (l : List (List α)) (c : Nat), (∀ r ∈ l, r.length = c) →
              (l.map List.length).sum = l.length * c := by
            intro l c
            induction l with
            | nil => intro _; simp
            | cons r l ih =>
              intro h
              simp only [List.map_cons, List.sum_cons, List.length_cons]
              rw [h r (by simp), ih (fun r' hr' => h r' (by simp [hr']))]
              ring
          rw [this rows _ hall, hlen, hidx]
        rw [this, View.addrs_length, hshape, indices_length]
        -- shapeSize (q ++ t) = shapeSize q * shapeSize t
        have key : ∀ (l : List Nat) (a : Nat), List.foldl (· * ·) a l = a * List.foldl (· * ·) 1 l := by
          intro l
          induction l with
          | nil => intro a; simp
          | cons x l ihl => intro a; simp only [List.foldl_cons, Nat.one_mul]; rw [ihl (a * x), ihl x]; ring
        simp only [shapeSize, List.foldl_append]
        rw [key trailing (List.foldl (· * ·) 1 qshape)]
      · intro a ha
        rw [hwr]
        exact View.write_frame _ _ _ _ ha

/-- **C13_buffer**: same shape, any strides ⇒ same logical contents. -/
theorem C13_buffer (trailing : List Nat) (f : β → Except Fault (List α)) (qshape : List Nat)
    (qs : List β) (b1 b2 : View) (m1 m2 m1' m2' : Int → α)
    (hshape : b1.shape = b2.shape)
    (hinj1 : b1.addrs.Nodup) (hinj2 : b2.addrs.Nodup)
    (hs1 : qshape.length ≤ b1.strides.length) (hs2 : qshape.length ≤ b2.strides.length)
    (hq : qs.length = shapeSize qshape)
    (hf : ∀ q v, f q = .ok v → v.length = shapeSize trailing)
    (h1 : arrayIntoMem trailing f qshape qs b1 m1 = .ok m1') :
    ∃ m2', arrayIntoMem trailing f qshape qs b2 m2 = .ok m2' ∧ b2.read m2' = b1.read m1' := by
  have hok : ∃ m2', arrayIntoMem trailing f qshape qs b2 m2 = .ok m2' := by
    unfold arrayIntoMem at h1 ⊢
    rw [← hshape]
    split at h1
    · cases h1
    · next hs =>
      rw [if_neg hs]
      cases he : interpEach f qs with
      | error e => rw [he] at h1; cases h1
      | ok rows => exact ⟨_, rfl⟩
  obtain ⟨m2', h2⟩ := hok
  obtain ⟨a1, e1, r1, _⟩ := C14_all_written trailing f qshape qs b1 m1 m1' hinj1 hs1 hq hf h1
  obtain ⟨a2, e2, r2, _⟩ := C14_all_written trailing f qshape qs b2 m2 m2' hinj2 hs2 hq hf h2
  rw [e1] at e2
  injection e2 with e2
  subst e2
  exact ⟨m2', h2, by rw [r1, r2]⟩

end

end NdInterp
