/-
C05 — without extrapolation a query is answered iff it lies in the closed axis range.

* `C05_linear` / `C05_bilinear` : with `extrapolate = false` the call returns a value iff the
  query lies in the closed range (2-D: each coordinate against its own axis), and otherwise
  it is exactly `Err(OutOfBounds)` — never a panic, never a number.  The comparisons are the
  scalar's own Boolean tests, decided through `LawfulCmp` (NaN-free types).
* `C05_gate_nan` : with *no* assumption on the comparisons: a query for which `x[0] <= q` is
  false (NaN) is rejected with `OutOfBounds` by the range gate of every strategy.
* `C05_batch_ok_iff`, `C05_batch_first_error` : a batch is `Ok` iff every element is answered;
  otherwise the batch returns the error of the first offending element in logical order and no
  later element is evaluated (generic over the strategy: used for every entry point).
* `C05_witness`, `C05_linear_names_first` : the element a rejected batch is rejected *for* is the first
  one (logical order) failing `is_in_range` — what `oobWitness1/2` of the model compute and the
  protocol carries as the payload of `oob`.
* spline variants are in `NdInterp.Props.C02` (`C05_spline`), where the spline lemmas live.
-/
import NdInterp.Lemmas.LinearCore
import NdInterp.Model.Interp

namespace NdInterp

section
variable {α V : Type} [Field α] [LinearOrder α] [IsStrictOrderedRing α]
  [Cmp α] [LawfulCmp α] [ToUsize α] [LawfulToUsize α] [Lanes α V]

/-- **C05_linear**: Linear without extrapolation answers exactly the closed range. -/
theorem C05_linear (xs : List α) (ys : List V) (q : α)
    (hs : StrictInc xs) (hl : ys.length = xs.length) (hlen : xs.length < 2 ^ 64) :
    (InRange xs q → ∃ v, linearInterp false xs ys q = .ok v) ∧
    (¬ InRange xs q → linearInterp false xs ys q = .error .outOfBounds) := by
  obtain ⟨i, hb, h⟩ := linearInterp_eq false xs ys q hs hl hlen
  constructor
  · intro hin; rw [h, if_pos (Or.inr hin)]; exact ⟨_, rfl⟩
  · intro hout; rw [h, if_neg (by simp [hout])]

/-- **C05_bilinear**: each coordinate is checked against its own axis (x first). -/
theorem C05_bilinear (xs ys : List α) (zs : List (List V)) (x y : α)
    (hsx : StrictInc xs) (hsy : StrictInc ys) (hg : GridOK zs xs.length ys.length)
    (hlx : xs.length < 2 ^ 64) (hly : ys.length < 2 ^ 64) :
    (InRange xs x ∧ InRange ys y → ∃ v, bilinearInterp false xs ys zs x y = .ok v) ∧
    (¬ (InRange xs x ∧ InRange ys y) → bilinearInterp false xs ys zs x y = .error .outOfBounds) := by
  obtain ⟨i, j, hi, hj, r1, r2, z11, z12, z21, z22, _, _, _, _, _, _, h⟩ :=
    bilinearInterp_eq false xs ys zs x y hsx hsy hg hlx hly
  constructor
  · rintro ⟨hx, hy⟩; rw [h, if_pos (Or.inr hx), if_pos (Or.inr hy)]; exact ⟨_, rfl⟩
  · intro hout
    rw [h]
    by_cases hx : InRange xs x
    · have hy : ¬ InRange ys y := fun hy => hout ⟨hx, hy⟩
      rw [if_pos (Or.inr hx), if_neg (by simp [hy])]
    · rw [if_neg (by simp [hx])]

end

/-! ### no assumption on the comparison operators (NaN) -/

section anycmp
variable {α : Type} [Cmp α]

/-- **C05_gate_nan**: if the scalar's own test `x[0] <= q` is false — as for `q = NaN` — the range
    gate of a non-extrapolating strategy yields `OutOfBounds`. -/
theorem C05_gate_nan (xs : List α) (q : α) (x0 : α) (h0 : xs[0]? = some x0)
    (hcmp : Cmp.le x0 q = false) : rangeGate false xs q = .error .outOfBounds := by
  simp [rangeGate, isInRange, h0, hcmp]

/-- likewise if `q <= x[len-1]` is false -/
theorem C05_gate_nan_hi (xs : List α) (q : α) (x0 xl : α) (h0 : xs[0]? = some x0)
    (hl : xs[xs.length - 1]? = some xl)
    (hcmp : Cmp.le q xl = false) : rangeGate false xs q = .error .outOfBounds := by
  unfold rangeGate isInRange
  simp only [h0, hl]
  cases Cmp.le x0 q <;> simp [hcmp]

end anycmp

/-! ### batches (generic over the strategy call `f`) -/

section batch
variable {α β : Type}

/-- **C05_batch_ok_iff**: a batch is answered iff every element is. -/
theorem C05_batch_ok_iff (f : β → Except Fault (List α)) (qs : List β) :
    (∃ vs, interpEach f qs = .ok vs) ↔ ∀ q ∈ qs, ∃ v, f q = .ok v := by
  induction qs with
  | nil => simp [interpEach]
  | cons q qs ih =>
    simp only [interpEach, List.mem_cons, forall_eq_or_imp]
    cases hq : f q with
    | error e => simp
    | ok v =>
      cases hr : interpEach f qs with
      | error e =>
        have : ¬ ∃ vs, interpEach f qs = .ok vs := by simp [hr]
        rw [ih] at this
        simp [this]
      | ok vs =>
        have : ∃ vs, interpEach f qs = .ok vs := ⟨vs, hr⟩
        rw [ih] at this
        simpa using this

/-- **C05_batch_first_error**: a failing batch returns the error of the first offending element
    in logical order; every element before it was answered. -/
theorem C05_batch_first_error (f : β → Except Fault (List α)) (qs : List β) (e : Fault)
    (h : interpEach f qs = .error e) :
    ∃ pre q post, qs = pre ++ q :: post ∧ (∀ p ∈ pre, ∃ v, f p = .ok v) ∧ f q = .error e := by
  induction qs with
  | nil => simp [interpEach] at h
  | cons q qs ih =>
    simp only [interpEach] at h
    cases hq : f q with
    | error e' =>
      rw [hq] at h
      simp only [Except.error.injEq] at h
      subst h
      exact ⟨[], q, qs, rfl, by simp, hq⟩
    | ok v =>
      rw [hq] at h
      cases hr : interpEach f qs with
      | error e' =>
        rw [hr] at h
        simp only [Except.error.injEq] at h
        subst h
        obtain ⟨pre, q', post, e1, e2, e3⟩ := ih hr
        refine ⟨q :: pre, q', post, by rw [e1]; rfl, ?_, e3⟩
        intro p hp
        rcases List.mem_cons.mp hp with rfl | hp
        · exact ⟨v, hq⟩
        · exact e2 p hp
      | ok vs => rw [hr] at h; simp at h

/-- the values of a successful batch are the per-element values, in order -/
theorem interpEach_ok (f : β → Except Fault (List α)) (qs : List β) (vs : List (List α))
    (h : interpEach f qs = .ok vs) :
    vs.length = qs.length ∧ ∀ k (hk : k < qs.length), ∃ (hk' : k < vs.length), f qs[k] = .ok vs[k] := by
  induction qs generalizing vs with
  | nil => simp [interpEach] at h; subst h; simp
  | cons q qs ih =>
    simp only [interpEach] at h
    cases hq : f q with
    | error e => rw [hq] at h; simp at h
    | ok v =>
      rw [hq] at h
      cases hr : interpEach f qs with
      | error e => rw [hr] at h; simp at h
      | ok vs' =>
        rw [hr] at h
        simp only [Except.ok.injEq] at h
        subst h
        obtain ⟨l, g⟩ := ih vs' hr
        refine ⟨by simp [l], ?_⟩
        intro k hk
        cases k with
        | zero => exact ⟨by simp, by simpa using hq⟩
        | succ k =>
          obtain ⟨hk', e⟩ := g k (by simpa using hk)
          exact ⟨by simp; omega, by simpa using e⟩

end batch

section witness
variable {α β : Type}

/-- **C05_witness**: the element a failing batch is rejected for is the *first* one, in logical order,
    that a single call rejects — `rej` being any test that decides rejection (for the built-in
    strategies: `rejected xs`, i.e. `is_in_range` fails; `oobWitness1`/`oobWitness2` of the model
    compute exactly this element, and the driver prints it as the payload of `oob`). -/
theorem C05_witness (f : β → Except Fault (List α)) (rej : β → Bool)
    (hrej : ∀ q, rej q = false ↔ ∃ v, f q = .ok v) (qs : List β) (e : Fault)
    (h : interpEach f qs = .error e) :
    ∃ w, qs.find? rej = some w ∧ f w = .error e := by
  obtain ⟨pre, q, post, hqs, hpre, hq⟩ := C05_batch_first_error f qs e h
  refine ⟨q, ?_, hq⟩
  subst hqs
  have hp : ∀ p ∈ pre, rej p = false := fun p hp => (hrej p).mpr (hpre p hp)
  have hq' : rej q = true := by
    cases hr : rej q with
    | true => rfl
    | false =>
      obtain ⟨v, hv⟩ := (hrej q).mp hr
      rw [hv] at hq; cases hq
  rw [List.find?_append]
  have : pre.find? rej = none := List.find?_eq_none.mpr (fun p hp' => by simp [hp p hp'])
  rw [this]
  simp [List.find?_cons, hq']

end witness

section linear_witness
variable {α : Type} [Field α] [LinearOrder α] [IsStrictOrderedRing α]
  [Cmp α] [LawfulCmp α] [ToUsize α] [LawfulToUsize α]

omit [IsStrictOrderedRing α] [ToUsize α] [LawfulToUsize α] in
/-- `rejected` is the negation of the closed-range test -/
theorem rejected_iff (xs : List α) (q : α) (h0 : 0 < xs.length) :
    rejected xs q = false ↔ InRange xs q := by
  unfold rejected
  rw [isInRange_eq xs q h0]
  by_cases h : InRange xs q <;> simp [h]

/-- **C05_linear_names_first**: a rejected Linear batch (1-D data) names the model's witness
    `oobWitness1`: the first query element outside the closed range. -/
theorem C05_linear_names_first (xs ys : List α) (qs : List α) (hs : StrictInc xs)
    (hl : ys.length = xs.length) (hlen : xs.length < 2 ^ 64) (e : Fault)
    (h : interpEach (fun q => (linearInterp (V := α) false xs ys q).map (fun v => [v])) qs = .error e) :
    ∃ w, oobWitness1 xs qs = some w ∧ ¬ InRange xs w ∧ e = .outOfBounds := by
  have h0 : 0 < xs.length := by have := hs.1; omega
  have hrej : ∀ q, rejected xs q = false ↔
      ∃ v, (linearInterp (V := α) false xs ys q).map (fun v => [v]) = .ok v := by
    intro q
    rw [rejected_iff xs q h0]
    obtain ⟨a, b⟩ := C05_linear (V := α) xs ys q hs hl hlen
    constructor
    · intro hin
      obtain ⟨v, hv⟩ := a hin
      exact ⟨[v], by rw [hv]; rfl⟩
    · rintro ⟨v, hv⟩
      by_contra hout
      rw [b hout] at hv
      cases hv
  obtain ⟨w, hw, hfw⟩ := C05_witness _ (rejected xs) hrej qs e h
  refine ⟨w, hw, ?_, ?_⟩
  · intro hin
    have := (hrej w).mp ((rejected_iff xs w h0).mpr hin)
    obtain ⟨v, hv⟩ := this
    rw [hv] at hfw; cases hfw
  · have hout : ¬ InRange xs w := by
      intro hin
      obtain ⟨v, hv⟩ := (hrej w).mp ((rejected_iff xs w h0).mpr hin)
      rw [hv] at hfw; cases hfw
    have := (C05_linear (V := α) xs ys w hs hl hlen).2 hout
    rw [this] at hfw
    simp [Except.map] at hfw
    exact hfw.symm

end linear_witness

end NdInterp
