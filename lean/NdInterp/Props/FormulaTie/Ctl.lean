/-
Control-flow tie (Ctl): `NdInterp/Gen/Control.lean` is regenerated from `/repo/src/vector_extensions.rs` on every run by
`tools/translate_control.py` — the `match` / `if` / early-`return` / `while` structure of `MonotonicState::{start, update,
short_circuit, finish}`, of `monotonic_prop` and of `get_lower_index`, statement by statement, with checked reads, checked `usize`
subtraction and checked casts.  The theorems below prove every generated function equal to the hand-written model function the
property theorems (C10, C11, C12 and everything built on the lookup) are stated about, for every input and every scalar type
(no law of the comparisons is used):

* `FT_ctl_start`, `FT_ctl_update`, `FT_ctl_short_circuit`, `FT_ctl_finish` : the automaton, all 18 transitions;
* `FT_ctl_mono_prop`      : `monotonic_prop` (length guard + `windows(2).try_fold` + `map_or_else`) is `monotonicProp`;
* `FT_ctl_bisect`         : the `while range.0 + 1 < range.1` loop is `bisect`;
* `FT_ctl_lower_index`    : `get_lower_index` is `lowerIndex` (range clamps in source order, the O(1) guess through `calc_frac`
                            and `cast`, the `&&` short-circuit of the guess check, the range update, the loop).

A function the translator could not read is `…_available = false` and its theorem holds vacuously (it is then tied by the
correspondence runs only); a function it read whose control flow differs from the model's makes the theorem fail.
-/
import NdInterp.Gen.Control
import NdInterp.Model.Interp

namespace NdInterp

open GenCtl

theorem FT_ctl_start : mono_start_available = true → mono_start = MState.init := by
  intro h
  first
  | exact absurd h (by decide)
  | rfl

section
variable {α : Type} [Cmp α]

theorem FT_ctl_update (s : MState) (a b : α) : mono_update_available = true → mono_update s a b = MState.update s a b := by
  intro h
  first
  | exact absurd h (by decide)
  | rfl
  | (unfold mono_update MState.update
     rcases s with _ | _ | (_ | _ | _) <;>
       cases h1 : Cmp.lt a b <;> cases h2 : Cmp.eq a b <;> cases h3 : Cmp.lt b a <;> simp [Cmp.gt, h1, h2, h3])

theorem FT_ctl_short_circuit (s : MState) : mono_short_circuit_available = true → mono_short_circuit s = s.shortCircuit := by
  intro h
  first
  | exact absurd h (by decide)
  | (rcases s with _ | _ | (_ | _ | _) <;> rfl)

theorem FT_ctl_finish (s : MState) : mono_finish_available = true → mono_finish s = s.finish := by
  intro h
  first
  | exact absurd h (by decide)
  | (rcases s with _ | _ | (_ | _ | _) <;> rfl)

/-- the fold idiom with the generated step is the model's `foldPairs` -/
theorem tryFoldPairs_step (hu : mono_update_available = true) (hs : mono_short_circuit_available = true)
    (s : MState) (xs : List α) :
    tryFoldPairs s (fun state a b => mono_short_circuit (mono_update state a b)) xs = foldPairs s xs := by
  induction xs generalizing s with
  | nil => rfl
  | cons a t ih =>
    cases t with
    | nil => rfl
    | cons b rest =>
      simp only [tryFoldPairs, foldPairs]
      rw [FT_ctl_update s a b hu, FT_ctl_short_circuit _ hs]
      cases (MState.update s a b).shortCircuit with
      | error e => rfl
      | ok s' => exact ih s'

theorem FT_ctl_mono_prop (xs : List α) :
    (mono_prop_available && mono_start_available && mono_update_available && mono_short_circuit_available && mono_finish_available) = true →
    mono_prop xs = monotonicProp xs := by
  intro h
  first
  | exact absurd h (by decide)
  | (simp only [Bool.and_eq_true] at h
     obtain ⟨⟨⟨⟨_, h0⟩, hu⟩, hs⟩, hf⟩ := h
     unfold mono_prop monotonicProp
     have e2 : ∀ n : Nat, (n < 2) = (n ≤ 1) := fun n => propext (by omega)
     have e3 : ∀ n : Nat, (2 > n) = (n ≤ 1) := fun n => propext (by omega)
     have e4 : ∀ n : Nat, (1 ≥ n) = (n ≤ 1) := fun n => propext (by omega)
     try simp only [e2, e3, e4]
     split
     · rfl
     · simp only [FT_ctl_start h0]
       first
       | (rw [tryFoldPairs_step hu hs]
          cases foldPairs MState.init xs with
          | error e => rfl
          | ok s => exact FT_ctl_finish s hf)
       | (have e : ∀ s : MState, ∀ l : List α,
              tryFoldPairs s (fun state items_0 items_1 => mono_short_circuit (mono_update state items_0 items_1)) l = foldPairs s l :=
            fun s l => tryFoldPairs_step hu hs s l
          simp only [e]
          cases foldPairs MState.init xs with
          | error e => rfl
          | ok s => exact FT_ctl_finish s hf))

theorem FT_ctl_bisect (xs : List α) (q : α) (lo hi : Nat) :
    get_lower_index_loop1_available = true → get_lower_index_loop1 xs q lo hi = bisect xs q lo hi := by
  intro h
  first
  | exact absurd h (by decide)
  | (fun_induction bisect xs q lo hi with
     | case1 lo hi hlt mid hm =>
       have hm1 : (hi - lo) / 2 + lo = mid := rfl
       have hm2 : lo + (hi - lo) / 2 = mid := by omega
       have hm3 : (hi + lo) / 2 = mid := by omega
       have hm4 : (lo + hi) / 2 = mid := by omega
       unfold get_lower_index_loop1
       simp only [Cmp.ge, Cmp.gt, hlt, ↓reduceDIte, show lo ≤ hi by omega, show lo < hi by omega, show 1 < hi - lo by omega,
         ↓reduceIte, hm1, hm2, hm3, hm4, hm]
     | case2 lo hi hlt mid mx hm hle ih =>
       have hm1 : (hi - lo) / 2 + lo = mid := rfl
       have hm2 : lo + (hi - lo) / 2 = mid := by omega
       have hm3 : (hi + lo) / 2 = mid := by omega
       have hm4 : (lo + hi) / 2 = mid := by omega
       unfold get_lower_index_loop1
       simp only [Cmp.ge, Cmp.gt, hlt, ↓reduceDIte, show lo ≤ hi by omega, show lo < hi by omega, show 1 < hi - lo by omega,
         ↓reduceIte, hm1, hm2, hm3, hm4, hm, hle]
       exact ih
     | case3 lo hi hlt mid mx hm hle ih =>
       have hm1 : (hi - lo) / 2 + lo = mid := rfl
       have hm2 : lo + (hi - lo) / 2 = mid := by omega
       have hm3 : (hi + lo) / 2 = mid := by omega
       have hm4 : (lo + hi) / 2 = mid := by omega
       unfold get_lower_index_loop1
       simp only [Cmp.ge, Cmp.gt, hlt, ↓reduceDIte, show lo ≤ hi by omega, show lo < hi by omega, show 1 < hi - lo by omega,
         ↓reduceIte, hm1, hm2, hm3, hm4, hm, hle]
       exact ih
     | case4 lo hi hlt =>
       unfold get_lower_index_loop1
       simp only [hlt, ↓reduceDIte, show ¬ (1 < hi - lo) by omega])

end

section
variable {α : Type} [Cmp α] [Add α] [Sub α] [Mul α] [Div α] [NatCast α] [ToUsize α]

theorem FT_ctl_lower_index (xs : List α) (q : α) :
    (get_lower_index_available && get_lower_index_loop1_available) = true → get_lower_index xs q = lowerIndex xs q := by
  intro h
  first
  | exact absurd h (by decide)
  | (simp only [Bool.and_eq_true] at h
     obtain ⟨_, hl⟩ := h
     unfold get_lower_index lowerIndex lowerIndexWith indexGuess
     simp only [Cmp.ge, Cmp.gt, FT_ctl_bisect _ _ _ _ hl]
     cases h0 : xs[0]? with
     | none => rfl
     | some x0 =>
       have hlen : 1 ≤ xs.length := by
         rcases xs with _ | ⟨_, _⟩
         · simp at h0
         · simp
       simp only [hlen, ↓reduceIte, Bool.false_eq_true]
       by_cases hle : Cmp.le q x0 = true
       · simp only [hle, ↓reduceIte, Bool.false_eq_true]
       · simp only [hle, ↓reduceIte, Bool.false_eq_true]
         cases hl1 : xs[xs.length - 1]? with
         | none => rfl
         | some xl =>
           simp only []
           by_cases hge : Cmp.le xl q = true
           · simp only [hge, ↓reduceIte, Bool.false_eq_true]
           · simp only [hge, ↓reduceIte, Bool.false_eq_true, h0]
             cases hg : ToUsize.toUsize? (calcFrac x0 ((0 : Nat) : α) xl ((xs.length - 1 : Nat) : α) q) with
             | none => rfl
             | some g =>
               simp only []
               cases hmx : xs[g]? with
               | none => rfl
               | some mx =>
                 simp only []
                 by_cases hc : Cmp.le mx q = true
                 · simp only [hc, ↓reduceIte, Bool.false_eq_true]
                   cases hn : xs[g + 1]? with
                   | none => rfl
                   | some nx =>
                     first
                     | rfl
                     | (by_cases hlt : Cmp.lt q nx = true <;> simp only [hlt, ↓reduceIte, Bool.false_eq_true])
                 · simp only [hc, ↓reduceIte, Bool.false_eq_true])

end

/-! ### accessors of `Interp1D` / `Interp2D` and `interp_into` of Linear / Bilinear -/

section
variable {α : Type} [Cmp α]

/-- the closed-range test as the generated accessors compute it -/
theorem inRange_gen_eq (xs : List α) (x : α)
    (f : List α → α → Except Fault Bool)
    (hf : f xs x = (match xs[0]? with
      | none => .error .panic
      | some r1 =>
        if Cmp.le r1 x then
          if 1 ≤ xs.length then
            match xs[(xs.length - 1)]? with
            | none => .error .panic
            | some r2 => if Cmp.le x r2 then .ok true else .ok false
          else .error .panic
        else .ok false)) :
    f xs x = isInRange xs x := by
  rw [hf]
  unfold isInRange
  cases h0 : xs[0]? with
  | none => rfl
  | some x0 =>
    have hlen : 1 ≤ xs.length := by
      rcases xs with _ | ⟨_, _⟩
      · simp at h0
      · simp
    simp only [hlen, ↓reduceIte]
    cases Cmp.le x0 x with
    | false => rfl
    | true =>
      simp only [↓reduceIte]
      cases xs[xs.length - 1]? with
      | none => rfl
      | some xl =>
        dsimp only
        cases Cmp.le x xl <;> rfl

theorem FT_ctl_acc1_is_in_range (xs : List α) (x : α) :
    acc1_is_in_range_available = true → acc1_is_in_range xs x = isInRange xs x := by
  intro h
  first
  | exact absurd h (by decide)
  | exact inRange_gen_eq xs x acc1_is_in_range rfl
  | (unfold acc1_is_in_range isInRange
     simp only [Cmp.ge, Cmp.gt]
     cases h0 : xs[0]? with
     | none => rfl
     | some x0 =>
       have hlen : 1 ≤ xs.length := by
         rcases xs with _ | ⟨_, _⟩
         · simp at h0
         · simp
       simp only [hlen, ↓reduceIte]
       cases Cmp.le x0 x <;> simp only [↓reduceIte, Bool.false_eq_true] <;>
         cases xs[xs.length - 1]? <;> simp only [] <;> (try cases Cmp.le x _) <;> rfl)

theorem FT_ctl_acc2_is_in_range (xs : List α) (x : α) :
    (acc2_is_in_x_range_available && acc2_is_in_y_range_available) = true →
    acc2_is_in_x_range xs x = isInRange xs x ∧ acc2_is_in_y_range xs x = isInRange xs x := by
  intro h
  first
  | exact absurd h (by decide)
  | exact ⟨inRange_gen_eq xs x acc2_is_in_x_range rfl, inRange_gen_eq xs x acc2_is_in_y_range rfl⟩

end

section
variable {α V : Type}

theorem FT_ctl_acc1_index_point (xs : List α) (ys : List V) (i : Nat) :
    acc1_index_point_available = true →
    acc1_index_point xs ys i = (match xs[i]?, ys[i]? with
      | some a, some v => .ok (a, v)
      | _, _ => .error .panic) := by
  intro h
  first
  | exact absurd h (by decide)
  | (unfold acc1_index_point
     cases xs[i]? <;> cases ys[i]? <;> rfl)

theorem FT_ctl_acc2_index_point (xs ys : List α) (zs : List (List V)) (i j : Nat) :
    acc2_index_point_available = true →
    acc2_index_point xs ys zs i j = (match xs[i]?, ys[j]?, zs[i]? with
      | some a, some b, some r => (match r[j]? with
        | some v => .ok (a, b, v)
        | none => .error .panic)
      | _, _, _ => .error .panic) := by
  intro h
  first
  | exact absurd h (by decide)
  | (unfold acc2_index_point
     cases xs[i]? <;> cases ys[j]? <;> cases hz : zs[i]? <;> try rfl
     rename_i r
     dsimp only
     cases r[j]? <;> rfl)

end

section
variable {α V : Type} [Cmp α] [Add α] [Sub α] [Mul α] [Div α] [NatCast α] [ToUsize α] [Lanes α V]

theorem FT_ctl_acc1_get_index_left_of (xs : List α) (x : α) :
    (acc1_get_index_left_of_available && get_lower_index_available && get_lower_index_loop1_available) = true →
    acc1_get_index_left_of xs x = lowerIndex xs x := by
  intro h
  first
  | exact absurd h (by decide)
  | (simp only [Bool.and_eq_true] at h
     unfold acc1_get_index_left_of
     rw [FT_ctl_lower_index xs x (by simp only [Bool.and_eq_true]; exact ⟨h.1.2, h.2⟩)]
     cases lowerIndex xs x <;> rfl)

theorem FT_ctl_acc2_get_index_left_of (xs ys : List α) (x y : α) :
    (acc2_get_index_left_of_available && get_lower_index_available && get_lower_index_loop1_available) = true →
    acc2_get_index_left_of xs ys x y = (match lowerIndex xs x with
      | .error e => .error e
      | .ok i => match lowerIndex ys y with
        | .error e => .error e
        | .ok j => .ok (i, j)) := by
  intro h
  first
  | exact absurd h (by decide)
  | (simp only [Bool.and_eq_true] at h
     have hl : (get_lower_index_available && get_lower_index_loop1_available) = true := by
       simp only [Bool.and_eq_true]; exact ⟨h.1.2, h.2⟩
     unfold acc2_get_index_left_of
     rw [FT_ctl_lower_index xs x hl, FT_ctl_lower_index ys y hl]
     cases lowerIndex xs x with
     | error e => rfl
     | ok i =>
       dsimp only
       cases lowerIndex ys y <;> rfl)

/-- **`Linear::interp_into`** as it is in the source now (range gate, index lookup, the two `index_point` reads, the `Zip` with
    `calc_frac`) is the model's `linearInterp` -/
theorem FT_ctl_linear (ext : Bool) (xs : List α) (ys : List V) (x : α) :
    (linear_interp_into_available && acc1_is_in_range_available && acc1_get_index_left_of_available && acc1_index_point_available &&
      get_lower_index_available && get_lower_index_loop1_available) = true →
    linear_interp_into ext xs ys x = linearInterp ext xs ys x := by
  intro h
  first
  | exact absurd h (by decide)
  | (simp only [Bool.and_eq_true] at h
     obtain ⟨⟨⟨⟨⟨_, hr⟩, hg⟩, hp⟩, hl1⟩, hl2⟩ := h
     have hG : ∀ q, acc1_get_index_left_of xs q = lowerIndex xs q := fun q =>
       FT_ctl_acc1_get_index_left_of xs q (by simp only [Bool.and_eq_true]; exact ⟨⟨hg, hl1⟩, hl2⟩)
     unfold linear_interp_into linearInterp rangeGate
     simp only [FT_ctl_acc1_is_in_range _ _ hr, hG, FT_ctl_acc1_index_point _ _ _ hp, rd, bind, Except.bind, pure, Except.pure]
     cases ext <;> simp only [Bool.false_eq_true, ↓reduceIte]
     · cases hin : isInRange xs x with
       | error e => rfl
       | ok b =>
         cases b <;> simp only [Bool.false_eq_true, ↓reduceIte]
         cases lowerIndex xs x with
         | error e => rfl
         | ok idx =>
           dsimp only
           cases xs[idx]? <;> cases ys[idx]? <;> cases xs[idx + 1]? <;> cases ys[idx + 1]? <;> rfl
     · cases lowerIndex xs x with
       | error e => rfl
       | ok idx =>
         dsimp only
         cases xs[idx]? <;> cases ys[idx]? <;> cases xs[idx + 1]? <;> cases ys[idx + 1]? <;> rfl)

set_option hygiene false in
/-- case analysis over the ten reads of the four `index_point` calls (`xi`, `yi` are the cell indices in scope): every combination of
    present / absent rows and elements gives the same result on both sides (any absent one is a panic, in whatever order they are read) -/
local macro "bil_reads" : tactic => `(tactic| (
  dsimp only
  cases zs[xi]? with
  | none => cases xs[xi]? <;> cases ys[yi]? <;> rfl
  | some r1 =>
    cases zs[xi + 1]? with
    | none =>
      cases xs[xi]? <;> cases ys[yi]? <;> (try dsimp only) <;> cases r1[yi]? <;> (try dsimp only) <;>
        cases ys[yi + 1]? <;> (try dsimp only) <;> cases r1[yi + 1]? <;> (try dsimp only) <;>
        cases xs[xi + 1]? <;> rfl
    | some r2 =>
      cases xs[xi]? <;> cases ys[yi]? <;> (try dsimp only) <;> cases r1[yi]? <;> (try dsimp only) <;>
        cases ys[yi + 1]? <;> (try dsimp only) <;> cases r1[yi + 1]? <;> (try dsimp only) <;>
        cases xs[xi + 1]? <;> (try dsimp only) <;> cases r2[yi]? <;> (try dsimp only) <;> cases r2[yi + 1]? <;> rfl))

/-- **`Bilinear::interp_into`** as it is in the source now (x gate before y gate, the cell lookup, the four `index_point` reads with
    their index pairs, the `Zip` with the three `calc_frac` calls) is the model's `bilinearInterp` -/
theorem FT_ctl_bilinear (ext : Bool) (xs ys : List α) (zs : List (List V)) (x y : α) :
    (bilinear_interp_into_available && acc2_is_in_x_range_available && acc2_is_in_y_range_available &&
      acc2_get_index_left_of_available && acc2_index_point_available &&
      get_lower_index_available && get_lower_index_loop1_available) = true →
    bilinear_interp_into ext xs ys zs x y = bilinearInterp ext xs ys zs x y := by
  intro h
  first
  | exact absurd h (by decide)
  | (simp only [Bool.and_eq_true] at h
     obtain ⟨⟨⟨⟨⟨⟨_, hrx⟩, hry⟩, hg⟩, hp⟩, hl1⟩, hl2⟩ := h
     have hR : ∀ (l : List α) q, acc2_is_in_x_range l q = isInRange l q ∧ acc2_is_in_y_range l q = isInRange l q := fun l q =>
       FT_ctl_acc2_is_in_range l q (by simp only [Bool.and_eq_true]; exact ⟨hrx, hry⟩)
     have hG := FT_ctl_acc2_get_index_left_of xs ys x y (by simp only [Bool.and_eq_true]; exact ⟨⟨hg, hl1⟩, hl2⟩)
     unfold bilinear_interp_into bilinearInterp rangeGate
     simp only [(hR _ _).1, (hR _ _).2, hG, FT_ctl_acc2_index_point _ _ _ _ _ hp, rd, bind, Except.bind, pure, Except.pure]
     cases ext <;> simp only [Bool.false_eq_true, ↓reduceIte]
     · cases isInRange xs x with
       | error e => rfl
       | ok b =>
         cases b <;> simp only [Bool.false_eq_true, ↓reduceIte]
         cases isInRange ys y with
         | error e => rfl
         | ok b2 =>
           cases b2 <;> simp only [Bool.false_eq_true, ↓reduceIte]
           cases lowerIndex xs x with
           | error e => rfl
           | ok xi =>
             dsimp only
             cases lowerIndex ys y with
             | error e => rfl
             | ok yi => bil_reads
     · cases lowerIndex xs x with
       | error e => rfl
       | ok xi =>
         dsimp only
         cases lowerIndex ys y with
         | error e => rfl
         | ok yi => bil_reads)

end

section
variable {α V : Type} [Cmp α] [Add α] [Sub α] [Mul α] [Div α] [Neg α] [NatCast α] [ToUsize α] [RemEuclid α] [Lanes α V]

set_option hygiene false in
/-- the reads of the evaluation at index `idx` (two `index_point` calls, the `a` and `b` rows) -/
local macro "spl_reads" : tactic => `(tactic| (
  dsimp only
  cases xs[idx]? <;> cases ys[idx]? <;> cases xs[idx + 1]? <;> cases ys[idx + 1]? <;> cases s.a[idx]? <;> cases s.b[idx]? <;> rfl))

/-- **`CubicSplineStrategy::interp_into`** as it is in the source now (the range test first, rejection only in mode `No`, the periodic
    wrap only in mode `Periodic` outside the range, the lookup at the wrapped point, the two `index_point` reads, the `a` / `b` rows,
    the local coordinate and the `Zip` with the Hermite form) is the model's `splineInterp` -/
theorem FT_ctl_spline (s : SplineStrat V) (xs : List α) (ys : List V) (x : α) :
    (spline_interp_into_available && acc1_is_in_range_available && acc1_get_index_left_of_available && acc1_index_point_available &&
      get_lower_index_available && get_lower_index_loop1_available) = true →
    spline_interp_into s xs ys x = splineInterp s xs ys x := by
  intro h
  first
  | exact absurd h (by decide)
  | (simp only [Bool.and_eq_true] at h
     obtain ⟨⟨⟨⟨⟨_, hr⟩, hg⟩, hp⟩, hl1⟩, hl2⟩ := h
     have hG : ∀ q, acc1_get_index_left_of xs q = lowerIndex xs q := fun q =>
       FT_ctl_acc1_get_index_left_of xs q (by simp only [Bool.and_eq_true]; exact ⟨⟨hg, hl1⟩, hl2⟩)
     unfold spline_interp_into splineInterp splineWrap splineEvalAt
     simp only [FT_ctl_acc1_is_in_range _ _ hr, hG, FT_ctl_acc1_index_point _ _ _ hp, rd, bind, Except.bind, pure, Except.pure,
       throw, throwThe, MonadExceptOf.throw]
     cases isInRange xs x with
     | error e => rfl
     | ok b =>
       dsimp only
       cases hm : s.extrapolate <;> cases b <;>
         simp only [show (Extrapolate.yes == Extrapolate.no) = false from rfl, show (Extrapolate.yes == Extrapolate.periodic) = false from rfl,
           show (Extrapolate.no == Extrapolate.no) = true from rfl, show (Extrapolate.no == Extrapolate.periodic) = false from rfl,
           show (Extrapolate.periodic == Extrapolate.no) = false from rfl, show (Extrapolate.periodic == Extrapolate.periodic) = true from rfl,
           Bool.false_eq_true, ↓reduceIte, Bool.not_false, Bool.not_true, Bool.and_true, Bool.and_false, Bool.true_and, Bool.false_and]
       all_goals first
         | rfl
         | (cases lowerIndex xs x with
            | error e => rfl
            | ok idx => spl_reads)
         | (cases h0 : xs[0]? with
            | none => rfl
            | some x0 =>
              have hlen : 1 ≤ xs.length := by
                rcases xs with _ | ⟨_, _⟩
                · simp at h0
                · simp
              simp only [hlen, ↓reduceIte]
              cases xs[xs.length - 1]? with
              | none => rfl
              | some xn =>
                dsimp only
                cases lowerIndex xs (RemEuclid.remEuclid (x - x0) (xn - x0) + x0) with
                | error e => rfl
                | ok idx => spl_reads))

end

/-! ### the validation prefix of `Interp1DBuilder::build` / `Interp2DBuilder::build` and the default axes of `…Builder::new` -/

section
variable {α : Type} [Cmp α] [Add α] [Sub α] [Mul α] [Div α] [Neg α] [NatCast α] [ToUsize α] [RemEuclid α]

theorem getD_zero_eq_headD (s : List Nat) : (s[0]?).getD 0 = s.headD 0 := by
  cases s <;> rfl

theorem getD_one_eq_headD (s : List Nat) : (s[1]?).getD 0 = (s.drop 1).headD 0 := by
  rcases s with _ | ⟨a, _ | ⟨b, r⟩⟩ <;> rfl

omit [Cmp α] [Add α] [Sub α] [Mul α] [Div α] [Neg α] [ToUsize α] [RemEuclid α] in
/-- the axes `Interp1DBuilder::new` / `Interp2DBuilder::new` install are the model's default axes -/
theorem FT_ctl_default_axes (shape : List Nat) :
    (builder1_default_x_available && builder2_default_x_available && builder2_default_y_available) = true →
    builder1_default_x (α := α) shape = defaultAxis (shape.headD 0) ∧
    builder2_default_x (α := α) shape = defaultAxis (shape.headD 0) ∧
    builder2_default_y (α := α) shape = defaultAxis ((shape.drop 1).headD 0) := by
  intro h
  first
  | exact absurd h (by decide)
  | (unfold builder1_default_x builder2_default_x builder2_default_y defaultAxis
     simp only [getD_zero_eq_headD, getD_one_eq_headD, and_self])

/-- **`Interp1DBuilder::build`**, every statement up to the call of the strategy's own `build`, is the model's `validate1` -/
theorem FT_ctl_builder1 (minLen : Nat) (x : Option (List α)) (data : NdArr α) :
    (builder1_validate_available && builder1_default_x_available && builder2_default_x_available && builder2_default_y_available &&
      mono_prop_available && mono_start_available && mono_update_available && mono_short_circuit_available && mono_finish_available) = true →
    validate1 minLen x data = builder1_validate minLen (x.getD (builder1_default_x data.shape)) data.shape := by
  intro h
  first
  | exact absurd h (by decide)
  | (simp only [Bool.and_eq_true] at h
     obtain ⟨⟨⟨⟨⟨⟨⟨⟨_, hd1⟩, hd2⟩, hd3⟩, hm⟩, h0⟩, hu⟩, hs⟩, hf⟩ := h
     have hM : ∀ l : List α, mono_prop l = monotonicProp l := fun l =>
       FT_ctl_mono_prop l (by simp only [Bool.and_eq_true]; exact ⟨⟨⟨⟨hm, h0⟩, hu⟩, hs⟩, hf⟩)
     have hD := (FT_ctl_default_axes (α := α) data.shape (by simp only [Bool.and_eq_true]; exact ⟨⟨hd1, hd2⟩, hd3⟩)).1
     unfold validate1 builder1_validate
     simp only [hM, hD, bind, Except.bind, pure, Except.pure, throw, throwThe, MonadExceptOf.throw]
     rcases hsh : data.shape with _ | ⟨d, rest⟩
     · simp
     · simp only [List.length_cons, List.headD_cons, List.getElem?_cons_zero]
       have : ¬ (rest.length + 1 < 1) := by omega
       simp only [this, Nat.add_one_ne_zero, ↓reduceIte]
       by_cases hlt : d < minLen
       · simp [hlt]
       · simp only [hlt, ↓reduceIte]
         cases monotonicProp (x.getD (defaultAxis d)) with
         | error e => rfl
         | ok m =>
           rcases m with (_ | _) | _ | _ <;> simp only [] <;> (try rfl)
           all_goals
             (by_cases hl : (x.getD (defaultAxis d)).length = d
              · simp [hl]
              · have hl' : ¬ (d = (x.getD (defaultAxis d)).length) := fun h => hl h.symm
                simp [hl, hl']))

/-- **`Interp2DBuilder::build`**, every statement up to the call of the strategy's own `build`, is the model's `validate2` -/
theorem FT_ctl_builder2 (minLen : Nat) (x y : Option (List α)) (data : NdArr α) :
    (builder2_validate_available && builder1_default_x_available && builder2_default_x_available && builder2_default_y_available &&
      mono_prop_available && mono_start_available && mono_update_available && mono_short_circuit_available && mono_finish_available) = true →
    validate2 minLen x y data =
      builder2_validate minLen (x.getD (builder2_default_x data.shape)) (y.getD (builder2_default_y data.shape)) data.shape := by
  intro h
  first
  | exact absurd h (by decide)
  | (simp only [Bool.and_eq_true] at h
     obtain ⟨⟨⟨⟨⟨⟨⟨⟨_, hd1⟩, hd2⟩, hd3⟩, hm⟩, h0⟩, hu⟩, hs⟩, hf⟩ := h
     have hM : ∀ l : List α, mono_prop l = monotonicProp l := fun l =>
       FT_ctl_mono_prop l (by simp only [Bool.and_eq_true]; exact ⟨⟨⟨⟨hm, h0⟩, hu⟩, hs⟩, hf⟩)
     have hD := FT_ctl_default_axes (α := α) data.shape (by simp only [Bool.and_eq_true]; exact ⟨⟨hd1, hd2⟩, hd3⟩)
     unfold validate2 builder2_validate
     simp only [hM, hD.2.1, hD.2.2, bind, Except.bind, pure, Except.pure, throw, throwThe, MonadExceptOf.throw]
     rcases hsh : data.shape with _ | ⟨d, _ | ⟨d2, rest⟩⟩
     · simp
     · simp
     · simp only [List.length_cons, List.headD_cons, List.getElem?_cons_zero, List.getElem?_cons_succ, List.drop_succ_cons, List.drop_zero]
       have : ¬ (rest.length + 1 + 1 < 2) := by omega
       simp only [this, ↓reduceIte]
       by_cases h1 : d < minLen
       · simp [h1]
       · simp only [h1, ↓reduceIte]
         by_cases h2 : d2 < minLen
         · simp [h2]
         · simp only [h2, ↓reduceIte]
           by_cases h3 : (x.getD (defaultAxis d)).length = d
           · simp only [h3, ne_eq, not_true_eq_false, ↓reduceIte]
             by_cases h4 : (y.getD (defaultAxis d2)).length = d2
             · simp only [h4, ne_eq, not_true_eq_false, ↓reduceIte]
               cases monotonicProp (x.getD (defaultAxis d)) with
               | error e => rfl
               | ok m =>
                 rcases m with (_ | _) | _ | _ <;> simp only [] <;> (try rfl)
                 cases monotonicProp (y.getD (defaultAxis d2)) with
                 | error e => rfl
                 | ok m2 => rcases m2 with (_ | _) | _ | _ <;> rfl
             · simp [h4]
           · simp [h3])

end

end NdInterp
