/-
Formula tie (Bil): the blend of `Bilinear::interp_into`.
See `FormulaTie/Basic.lean`.  The generated kernels are in `NdInterp/Gen/Formulas.lean` (regenerated from /repo/src).
-/
import NdInterp.Props.FormulaTie.Basic

namespace NdInterp

open Gen

section
variable {F : Type} [Field F]

/-- the three nested `calc_frac` calls of `Bilinear::interp_into` (argument order included) -/
theorem FT_bil_blend (x1 x2 y1 y2 z11 z12 z21 z22 x y : F) (hx : x2 - x1 ≠ 0) (hy : y2 - y1 ≠ 0) :
    (calc_frac_available && bilinear_available) = true →
    Lanes.map4 (V := F) (fun z11 z12 z21 z22 =>
      let z1 := calcFrac x1 z11 x2 z21 x
      let z2 := calcFrac x1 z12 x2 z22 x
      calcFrac y1 z1 y2 z2 y) z11 z12 z21 z22 = Gen.bilinear x1 x2 y1 y2 z11 z12 z21 z22 x y := by
  intro h
  first
  | exact absurd h (by decide)
  | rfl
  | (simp only [map4_scalar, Gen.bilinear, Gen.calc_frac, calcFrac] <;> ft_alg)

end

end NdInterp
