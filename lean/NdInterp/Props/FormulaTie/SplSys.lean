/-
Formula tie (SplSys): the tridiagonal system of `solve_for_k` (interior rows, every boundary row, the parabola case) and `thomas`.
See `FormulaTie/Basic.lean`.  The generated kernels are in `NdInterp/Gen/Formulas.lean` (regenerated from /repo/src).
-/
import NdInterp.Props.FormulaTie.Basic

namespace NdInterp

open Gen

section
variable {F : Type} [Field F]

/-- interior rows `1 … n-2`: diagonals from `x.windows(3)`, right-hand side from the `for n` loop -/
theorem FT_spl_interior (x0 x1 x2 : F) (xs : List F) (y0 y1 y2 : F) (ys : List F)
    (h1 : x1 - x0 ≠ 0) (h2 : x2 - x1 ≠ 0) :
    (interior_lo_available && interior_mid_available && interior_up_available && interior_rhs_available) = true →
    interiorRows (V := F) (x0 :: x1 :: x2 :: xs) (y0 :: y1 :: y2 :: ys) =
      { lo := Gen.interior_lo x0 x1 x2, mid := Gen.interior_mid x0 x1 x2, up := Gen.interior_up x0 x1 x2,
        rhs := Gen.interior_rhs x0 x1 x2 y0 y1 y2 } :: interiorRows (x1 :: x2 :: xs) (y1 :: y2 :: ys) := by
  intro h
  first
  | exact absurd h (by decide)
  | rfl
  | (simp only [interiorRows, Gen.interior_lo, Gen.interior_mid, Gen.interior_up, Gen.interior_rhs] <;> ft_rows)

/-- row 0, NotAKnot -/
theorem FT_spl_left_nak (e : Ends F F) (h0 : e.x1 - e.x0 ≠ 0) (h1 : e.x2 - e.x1 ≠ 0) (hd : e.x2 - e.x0 ≠ 0) :
    (left_nak_mid_available && left_nak_off_available && left_nak_rhs_available) = true →
    firstRow e .notAKnot = some
      { lo := c0
        mid := Gen.left_nak_mid e.x0 e.x1 e.x2 e.xl1 e.xl2 e.xl3 e.y0 e.y1 e.y2 e.yl1 e.yl2 e.yl3
        up := Gen.left_nak_off e.x0 e.x1 e.x2 e.xl1 e.xl2 e.xl3 e.y0 e.y1 e.y2 e.yl1 e.yl2 e.yl3
        rhs := Gen.left_nak_rhs e.x0 e.x1 e.x2 e.xl1 e.xl2 e.xl3 e.y0 e.y1 e.y2 e.yl1 e.yl2 e.yl3 } := by
  intro h
  first
  | exact absurd h (by decide)
  | rfl
  | (simp only [firstRow, Ends.dx0, Ends.dx1, Gen.left_nak_mid, Gen.left_nak_off, Gen.left_nak_rhs] <;> ft_rows)

/-- row 0, FirstDeriv (and Clamped = FirstDeriv 0) -/
theorem FT_spl_left_fd (e : Ends F F) (v : F) :
    (left_fd_mid_available && left_fd_off_available && left_fd_rhs_available) = true →
    firstRow e (.firstDeriv v) = some
      { lo := c0
        mid := Gen.left_fd_mid e.x0 e.x1 e.x2 e.xl1 e.xl2 e.xl3 e.y0 e.y1 e.y2 e.yl1 e.yl2 e.yl3 v
        up := Gen.left_fd_off e.x0 e.x1 e.x2 e.xl1 e.xl2 e.xl3 e.y0 e.y1 e.y2 e.yl1 e.yl2 e.yl3 v
        rhs := Gen.left_fd_rhs e.x0 e.x1 e.x2 e.xl1 e.xl2 e.xl3 e.y0 e.y1 e.y2 e.yl1 e.yl2 e.yl3 v } := by
  intro h
  first
  | exact absurd h (by decide)
  | rfl
  | (simp only [firstRow, Gen.left_fd_mid, Gen.left_fd_off, Gen.left_fd_rhs] <;> ft_rows)

/-- row 0, SecondDeriv (and Natural = SecondDeriv 0) -/
theorem FT_spl_left_sd (e : Ends F F) (v : F) :
    (left_sd_mid_available && left_sd_off_available && left_sd_rhs_available) = true →
    firstRow e (.secondDeriv v) = some
      { lo := c0
        mid := Gen.left_sd_mid e.x0 e.x1 e.x2 e.xl1 e.xl2 e.xl3 e.y0 e.y1 e.y2 e.yl1 e.yl2 e.yl3 v
        up := Gen.left_sd_off e.x0 e.x1 e.x2 e.xl1 e.xl2 e.xl3 e.y0 e.y1 e.y2 e.yl1 e.yl2 e.yl3 v
        rhs := Gen.left_sd_rhs e.x0 e.x1 e.x2 e.xl1 e.xl2 e.xl3 e.y0 e.y1 e.y2 e.yl1 e.yl2 e.yl3 v } := by
  intro h
  first
  | exact absurd h (by decide)
  | rfl
  | (simp only [firstRow, Ends.dx0, Gen.left_sd_mid, Gen.left_sd_off, Gen.left_sd_rhs] <;> ft_rows)

/-- row n-1, NotAKnot (the row the repaired defect D1 sits in) -/
theorem FT_spl_right_nak (e : Ends F F) (h1 : e.xl1 - e.xl2 ≠ 0) (h2 : e.xl2 - e.xl3 ≠ 0) (hd : e.xl1 - e.xl3 ≠ 0) :
    (right_nak_mid_available && right_nak_off_available && right_nak_rhs_available) = true →
    lastRow e .notAKnot = some
      { lo := Gen.right_nak_off e.x0 e.x1 e.x2 e.xl1 e.xl2 e.xl3 e.y0 e.y1 e.y2 e.yl1 e.yl2 e.yl3
        mid := Gen.right_nak_mid e.x0 e.x1 e.x2 e.xl1 e.xl2 e.xl3 e.y0 e.y1 e.y2 e.yl1 e.yl2 e.yl3
        up := c0
        rhs := Gen.right_nak_rhs e.x0 e.x1 e.x2 e.xl1 e.xl2 e.xl3 e.y0 e.y1 e.y2 e.yl1 e.yl2 e.yl3 } := by
  intro h
  first
  | exact absurd h (by decide)
  | rfl
  | (simp only [lastRow, Ends.dxl1, Ends.dxl2, Gen.right_nak_mid, Gen.right_nak_off, Gen.right_nak_rhs] <;> ft_rows)

/-- row n-1, FirstDeriv -/
theorem FT_spl_right_fd (e : Ends F F) (v : F) :
    (right_fd_mid_available && right_fd_off_available && right_fd_rhs_available) = true →
    lastRow e (.firstDeriv v) = some
      { lo := Gen.right_fd_off e.x0 e.x1 e.x2 e.xl1 e.xl2 e.xl3 e.y0 e.y1 e.y2 e.yl1 e.yl2 e.yl3 v
        mid := Gen.right_fd_mid e.x0 e.x1 e.x2 e.xl1 e.xl2 e.xl3 e.y0 e.y1 e.y2 e.yl1 e.yl2 e.yl3 v
        up := c0
        rhs := Gen.right_fd_rhs e.x0 e.x1 e.x2 e.xl1 e.xl2 e.xl3 e.y0 e.y1 e.y2 e.yl1 e.yl2 e.yl3 v } := by
  intro h
  first
  | exact absurd h (by decide)
  | rfl
  | (simp only [lastRow, Gen.right_fd_mid, Gen.right_fd_off, Gen.right_fd_rhs] <;> ft_rows)

/-- row n-1, SecondDeriv -/
theorem FT_spl_right_sd (e : Ends F F) (v : F) :
    (right_sd_mid_available && right_sd_off_available && right_sd_rhs_available) = true →
    lastRow e (.secondDeriv v) = some
      { lo := Gen.right_sd_off e.x0 e.x1 e.x2 e.xl1 e.xl2 e.xl3 e.y0 e.y1 e.y2 e.yl1 e.yl2 e.yl3 v
        mid := Gen.right_sd_mid e.x0 e.x1 e.x2 e.xl1 e.xl2 e.xl3 e.y0 e.y1 e.y2 e.yl1 e.yl2 e.yl3 v
        up := c0
        rhs := Gen.right_sd_rhs e.x0 e.x1 e.x2 e.xl1 e.xl2 e.xl3 e.y0 e.y1 e.y2 e.yl1 e.yl2 e.yl3 v } := by
  intro h
  first
  | exact absurd h (by decide)
  | rfl
  | (simp only [lastRow, Ends.dxl1, Gen.right_sd_mid, Gen.right_sd_off, Gen.right_sd_rhs] <;> ft_rows)

/-- the three rows of the 3-point NotAKnot / NotAKnot case -/
theorem FT_spl_parabola (e : Ends F F) (h0 : e.x1 - e.x0 ≠ 0) (h1 : e.x2 - e.x1 ≠ 0) :
    (par_mid0_available && par_up0_available && par_lo1_available && par_mid1_available && par_up1_available &&
      par_lo2_available && par_mid2_available && par_rhs0_available && par_rhs1_available && par_rhs2_available) = true →
    parabolaRows e =
      [ { lo := c0
          mid := Gen.par_mid0 e.x0 e.x1 e.x2 e.xl1 e.xl2 e.xl3 e.y0 e.y1 e.y2 e.yl1 e.yl2 e.yl3
          up := Gen.par_up0 e.x0 e.x1 e.x2 e.xl1 e.xl2 e.xl3 e.y0 e.y1 e.y2 e.yl1 e.yl2 e.yl3
          rhs := Gen.par_rhs0 e.x0 e.x1 e.x2 e.xl1 e.xl2 e.xl3 e.y0 e.y1 e.y2 e.yl1 e.yl2 e.yl3 },
        { lo := Gen.par_lo1 e.x0 e.x1 e.x2 e.xl1 e.xl2 e.xl3 e.y0 e.y1 e.y2 e.yl1 e.yl2 e.yl3
          mid := Gen.par_mid1 e.x0 e.x1 e.x2 e.xl1 e.xl2 e.xl3 e.y0 e.y1 e.y2 e.yl1 e.yl2 e.yl3
          up := Gen.par_up1 e.x0 e.x1 e.x2 e.xl1 e.xl2 e.xl3 e.y0 e.y1 e.y2 e.yl1 e.yl2 e.yl3
          rhs := Gen.par_rhs1 e.x0 e.x1 e.x2 e.xl1 e.xl2 e.xl3 e.y0 e.y1 e.y2 e.yl1 e.yl2 e.yl3 },
        { lo := Gen.par_lo2 e.x0 e.x1 e.x2 e.xl1 e.xl2 e.xl3 e.y0 e.y1 e.y2 e.yl1 e.yl2 e.yl3
          mid := Gen.par_mid2 e.x0 e.x1 e.x2 e.xl1 e.xl2 e.xl3 e.y0 e.y1 e.y2 e.yl1 e.yl2 e.yl3
          up := c0
          rhs := Gen.par_rhs2 e.x0 e.x1 e.x2 e.xl1 e.xl2 e.xl3 e.y0 e.y1 e.y2 e.yl1 e.yl2 e.yl3 } ] := by
  intro h
  first
  | exact absurd h (by decide)
  | rfl
  | (simp only [parabolaRows, Ends.dx0, Ends.dx1, Gen.par_mid0, Gen.par_up0, Gen.par_lo1, Gen.par_mid1, Gen.par_up1,
       Gen.par_lo2, Gen.par_mid2, Gen.par_rhs0, Gen.par_rhs1, Gen.par_rhs2] <;> ft_rows)

/-- forward elimination step of `thomas` -/
theorem FT_spl_thomas_fwd (pm pu pr : F) (r : Row F F) (rest : List (Row F F)) (hp : pm ≠ 0) :
    (thomas_w_available && thomas_mid_available && thomas_rhs_available) = true →
    fwd pm pu pr (r :: rest) =
      ⟨Gen.thomas_mid r.lo r.mid pm pu r.rhs pr, r.up, Gen.thomas_rhs r.lo r.mid pm pu r.rhs pr⟩ ::
        fwd (Gen.thomas_mid r.lo r.mid pm pu r.rhs pr) r.up (Gen.thomas_rhs r.lo r.mid pm pu r.rhs pr) rest ∧
    Gen.thomas_w r.lo r.mid pm pu r.rhs pr = r.lo / pm := by
  intro h
  first
  | exact absurd h (by decide)
  | exact ⟨rfl, rfl⟩
  | (have hm : Gen.thomas_mid r.lo r.mid pm pu r.rhs pr = r.mid - r.lo / pm * pu := by
       simp only [Gen.thomas_mid] <;> ft_alg
     have hr : Gen.thomas_rhs r.lo r.mid pm pu r.rhs pr = r.rhs - r.lo / pm * pr := by
       simp only [Gen.thomas_rhs] <;> ft_alg
     refine ⟨?_, by simp only [Gen.thomas_w] <;> ft_alg⟩
     rw [hm, hr]; rfl)

/-- back substitution of `thomas`: last row and the step -/
theorem FT_spl_thomas_back (e1 e2 : ERow F F) (rest : List (ERow F F)) (h1 : e1.mid ≠ 0) :
    (thomas_last_available && thomas_back_available) = true →
    back [e1] = [Gen.thomas_last e1.mid e1.rhs] ∧
    back (e1 :: e2 :: rest) =
      (match back (e2 :: rest) with
       | [] => []
       | k :: ks => Gen.thomas_back e1.mid e1.up e1.rhs k :: k :: ks) := by
  intro h
  first
  | exact absurd h (by decide)
  | exact ⟨rfl, rfl⟩
  | (have hl : Gen.thomas_last e1.mid e1.rhs = e1.rhs / e1.mid := by simp only [Gen.thomas_last] <;> ft_alg
     have hb : ∀ k, Gen.thomas_back e1.mid e1.up e1.rhs k = (e1.rhs - e1.up * k) / e1.mid := by
       intro k; simp only [Gen.thomas_back] <;> ft_alg
     refine ⟨by rw [hl]; rfl, ?_⟩
     simp only [hb]; rfl)

end

end NdInterp
