/-
Formula tie (TabExt): the extrapolation mode `CubicSpline::build` selects (no extrapolation / continue the end cubic / periodic
wrap), translated from the source on every run, equals the model's `splineExtrapolate` for every flag and boundary condition.
-/
import NdInterp.Props.FormulaTie.Basic
import NdInterp.Model.Interp

namespace NdInterp

open Gen

theorem FT_tab_extrapolateMode {α : Type} :
    extrapolateMode_available = true →
    ∀ (ext : Bool) (bc : BoundaryCondition α),
      Gen.extrapolateMode ext (match bc with | .periodic => true | _ => false) = splineExtrapolate ext bc := by
  intro h
  first
  | exact absurd h (by decide)
  | (intro ext bc; cases ext <;> cases bc <;> rfl)

end NdInterp
