/-
Formula tie (Rng): the closed-range tests `is_in_range`, `is_in_x_range`, `is_in_y_range`.
See `FormulaTie/Basic.lean`.  The generated kernels are in `NdInterp/Gen/Formulas.lean` (regenerated from /repo/src).
-/
import NdInterp.Props.FormulaTie.Basic

namespace NdInterp

open Gen

section
variable {α : Type} [Cmp α]

/-- `Interp1D::is_in_range`, `Interp2D::is_in_x_range`, `is_in_y_range`: the closed-range test -/
theorem FT_rng_in_range (xs : List α) (q x0 xl : α) (h0 : xs[0]? = some x0) (hl : xs[xs.length - 1]? = some xl) :
    (in_range_1d_available && in_range_2d_x_available && in_range_2d_y_available) = true →
    isInRange xs q = .ok (Gen.in_range_1d x0 xl q) ∧ isInRange xs q = .ok (Gen.in_range_2d_x x0 xl q) ∧
      isInRange xs q = .ok (Gen.in_range_2d_y x0 xl q) := by
  intro h
  first
  | exact absurd h (by decide)
  | (simp only [isInRange, h0, hl, Gen.in_range_1d, Gen.in_range_2d_x, Gen.in_range_2d_y]
     cases Cmp.le x0 q <;> cases Cmp.le q xl <;> simp)

end

end NdInterp
