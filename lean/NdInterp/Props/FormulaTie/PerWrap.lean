/-
Formula tie (PerWrap): the periodic wrap of an out-of-range query.
See `FormulaTie/Basic.lean`.  The generated kernels are in `NdInterp/Gen/Formulas.lean` (regenerated from /repo/src).
-/
import NdInterp.Props.FormulaTie.Basic

namespace NdInterp

open Gen

section
variable {F : Type} [Field F]

/-- the periodic wrap of an out-of-range query -/
theorem FT_per_wrap [RemEuclid F] (xs : List F) (q x0 xn : F) (h0 : xs[0]? = some x0)
    (hl : xs[xs.length - 1]? = some xn) :
    wrap_available = true →
    splineWrap Extrapolate.periodic false xs q = .ok (Gen.wrap q x0 xn) := by
  intro h
  first
  | exact absurd h (by decide)
  | (simp only [splineWrap, rd, h0, hl]; rfl)
  | (simp [splineWrap, rd, h0, hl, Gen.wrap])

end

end NdInterp
