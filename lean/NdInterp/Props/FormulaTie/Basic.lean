/-
Formula tie — the second tie of the model to the code (DESIGN.md §2.3, §9.6).

`NdInterp/Gen/Formulas.lean` is regenerated from `/repo/src` on every run: one definition per arithmetic kernel of
the crate (`calc_frac`, the bilinear blend, the index guess, the range tests, every matrix / right-hand-side entry of
the spline system for every boundary row, the Thomas updates, the coefficients, the Hermite evaluation, the periodic
wrap), transliterated from the Rust expression that is in the source now.

Every theorem below says: *the model function is what one gets by putting the generated kernels in place of the
model's own expressions* — for every input, over any field.  With the source the model was written from, each is
`rfl` (same operations in the same order: this is also what lets the operator-generic bit-identity theorems speak about
the code).  After an algebraically equivalent rewrite of the source they are still proved (`field_simp; ring` under the
non-zero denominators that strictly increasing axes provide).  After a change of a formula they fail, which the check
reports as a broken proof obligation.  A kernel the translator could not find (`…_available = false`) makes its
theorem vacuous; the check then lists that kernel as tied by the correspondence runs only.
-/
import NdInterp.Gen.Formulas
import NdInterp.Lemmas.SplineSys
import Mathlib.Tactic.FieldSimp
import Mathlib.Tactic.Ring

namespace NdInterp

/-- closes an equation between a model expression and a generated kernel: syntactically equal, or equal in a field -/
macro "ft_alg" : tactic => `(tactic|
  first
  | rfl
  | ((try simp only [c0_eq, c1_eq, c2_eq, c3_eq, NdInterp.sq, NdInterp.Gen.castNat, Nat.cast_zero, Nat.cast_one]) <;>
      (first
        | rfl
        | ring1
        | (field_simp <;> (try simp only [c0_eq, c1_eq, c2_eq, c3_eq, Nat.cast_zero, Nat.cast_one]) <;> ring1)
        | (field_simp; done))))

/-- closes `some row = some row'` / `row = row'` / list-of-rows goals field by field -/
macro "ft_rows" : tactic => `(tactic|
  first
  | rfl
  | ((try simp only [Option.some.injEq, Row.mk.injEq, ERow.mk.injEq, List.cons.injEq, Prod.mk.injEq, and_true, true_and,
       map1_scalar, map2_scalar, map3_scalar, map4_scalar, const_scalar]) <;>
     (repeat' apply And.intro) <;> ft_alg))

end NdInterp
