/-
Formula tie (TabSpec): `InternalBoundary::specialize` and `SingleBoundary::specialize`, translated from the source on every run
into Lean functions, equal the model's functions on every boundary value.
-/
import NdInterp.Props.FormulaTie.Basic

namespace NdInterp

open Gen

section
variable {α : Type} [NatCast α]

theorem FT_tab_specializeInternal :
    specializeInternal_available = true → ∀ b : InternalBoundary α, Gen.specializeInternal b = b.specialize := by
  intro h
  first
  | exact absurd h (by decide)
  | (intro b; cases b <;> rfl)

theorem FT_tab_specializeSingle :
    specializeSingle_available = true → ∀ b : SingleBoundary α, Gen.specializeSingle b = b.specialize := by
  intro h
  first
  | exact absurd h (by decide)
  | (intro b; cases b <;> rfl)

end

end NdInterp
