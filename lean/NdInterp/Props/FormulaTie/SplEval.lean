/-
Formula tie (SplEval): the coefficients of `calc_coefficients` and the Hermite evaluation of `CubicSplineStrategy::interp_into`.
See `FormulaTie/Basic.lean`.  The generated kernels are in `NdInterp/Gen/Formulas.lean` (regenerated from /repo/src).
-/
import NdInterp.Props.FormulaTie.Basic

namespace NdInterp

open Gen

section
variable {F : Type} [Field F]

/-- the coefficient rows `c_a`, `c_b` of `calc_coefficients` -/
theorem FT_spl_coeffs (x0 x1 : F) (xs : List F) (y0 y1 : F) (ys : List F) (k0 k1 : F) (ks : List F) :
    (coef_a_available && coef_b_available) = true →
    coeffs (V := F) (x0 :: x1 :: xs) (y0 :: y1 :: ys) (k0 :: k1 :: ks) =
      (Gen.coef_a x0 x1 k0 k1 y0 y1, Gen.coef_b x0 x1 k0 k1 y0 y1) :: coeffs (x1 :: xs) (y1 :: ys) (k1 :: ks) := by
  intro h
  first
  | exact absurd h (by decide)
  | rfl
  | (simp only [coeffs, Gen.coef_a, Gen.coef_b] <;> ft_rows)

/-- the Hermite form evaluated by `CubicSplineStrategy::interp_into` (with `t`) -/
theorem FT_spl_eval (x xL xR yL yR aL bL : F) (hd : xR - xL ≠ 0) :
    (spline_t_available && spline_eval_available) = true →
    (let t := (x - xL) / (xR - xL)
     Lanes.map4 (V := F) (fun yLeft yRight aLeft bLeft =>
       (c1 - t) * yLeft + t * yRight + t * (c1 - t) * (aLeft * (c1 - t) + bLeft * t)) yL yR aL bL)
      = Gen.spline_eval x xL xR yL yR aL bL ∧
    Gen.spline_t x xL xR yL yR aL bL = (x - xL) / (xR - xL) := by
  intro h
  first
  | exact absurd h (by decide)
  | exact ⟨rfl, rfl⟩
  | (refine ⟨?_, by simp only [Gen.spline_t] <;> ft_alg⟩
     simp only [map4_scalar, Gen.spline_eval] <;> ft_alg)

end

end NdInterp
