/-
Formula tie (TabBuild): the minimum data lengths of the strategy builders and the order and error kinds of the validation steps
of `Interp1DBuilder::build` / `Interp2DBuilder::build`, translated from the source on every run.
-/
import NdInterp.Props.FormulaTie.Basic
import NdInterp.Model.Interp

namespace NdInterp

open Gen

/-- `MINIMUM_DATA_LENGHT` of Linear / CubicSpline (the model's `Strat1Spec.minLen`) and of Bilinear (the default of `build2`) -/
theorem FT_tab_minLen :
    minLen_available = true →
    Gen.minLen = ((Strat1Spec.linear (α := Nat) false).minLen, (Strat1Spec.spline (α := Nat) false .notAKnot).minLen, 2) := by
  intro h
  first
  | exact absurd h (by decide)
  | rfl

/-- the validation steps of `Interp1DBuilder::build` in source order: rank, minimum length, strict monotonicity of the axis, axis
    length — the order of the model's `validate1` (closed form: `C10_validate1_eq`) -/
theorem FT_tab_validate1 :
    validate1_available = true → Gen.validate1 = [.shapeError, .notEnoughData, .monotonic, .shapeError] := by
  intro h
  first
  | exact absurd h (by decide)
  | decide

/-- the validation steps of `Interp2DBuilder::build` in source order — the order of the model's `validate2` -/
theorem FT_tab_validate2 :
    validate2_available = true →
    Gen.validate2 = [.shapeError, .notEnoughData, .notEnoughData, .shapeError, .shapeError, .monotonic, .monotonic] := by
  intro h
  first
  | exact absurd h (by decide)
  | decide

end NdInterp
