/-
Formula tie (Lin): `Linear::calc_frac`, the row `Linear::interp_into` writes, the index guess of `get_lower_index`.
See `FormulaTie/Basic.lean`.  The generated kernels are in `NdInterp/Gen/Formulas.lean` (regenerated from /repo/src).
-/
import NdInterp.Props.FormulaTie.Basic

namespace NdInterp

open Gen

section
variable {F : Type} [Field F]

/-- `Linear::calc_frac` -/
theorem FT_lin_calc_frac (x1 y1 x2 y2 x : F) (hd : x2 - x1 ≠ 0) :
    calc_frac_available = true → Gen.calc_frac x1 y1 x2 y2 x = calcFrac x1 y1 x2 y2 x := by
  intro h
  first
  | exact absurd h (by decide)
  | rfl
  | (simp only [Gen.calc_frac, calcFrac] <;> ft_alg)

/-- the row `Linear::interp_into` writes: `calc_frac` lane by lane (single lane) -/
theorem FT_lin_row (x1 x2 q y1 y2 : F) (hd : x2 - x1 ≠ 0) :
    calc_frac_available = true →
    Lanes.map2 (V := F) (fun y1 y2 => calcFrac x1 y1 x2 y2 q) y1 y2 = Gen.calc_frac x1 y1 x2 y2 q := by
  intro h
  first
  | exact absurd h (by decide)
  | rfl
  | (rw [FT_lin_calc_frac x1 y1 x2 y2 q hd h]; rfl)

/-- the O(1) index guess of `get_lower_index`: `calc_frac((x[0], 0), (x[n-1], n-1), q)` before the cast -/
theorem FT_idx_guess [ToUsize F] (xs : List F) (q x0 xl : F) (h0 : xs[0]? = some x0)
    (hl : xs[xs.length - 1]? = some xl) (hd : xl - x0 ≠ 0) :
    (calc_frac_available && index_guess_available) = true →
    indexGuess xs q = ToUsize.toUsize? (Gen.index_guess x0 xl (xs.length - 1) q) := by
  intro h
  first
  | exact absurd h (by decide)
  | (simp only [indexGuess, h0, hl]; rfl)
  | (simp only [indexGuess, h0, hl, Gen.index_guess, Gen.calc_frac, calcFrac, castNat]; congr 1; ft_alg)

end

end NdInterp
