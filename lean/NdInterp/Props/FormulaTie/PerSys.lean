/-
Formula tie (PerSys): the periodic branches of `solve_for_k`.
See `FormulaTie/Basic.lean`.  The generated kernels are in `NdInterp/Gen/Formulas.lean` (regenerated from /repo/src).
-/
import NdInterp.Props.FormulaTie.Basic

namespace NdInterp

open Gen

section
variable {F : Type} [Field F]

/-- Periodic, 3 points: the common slope -/
theorem FT_per_three (e : Ends F F) (h0 : e.x1 - e.x0 ≠ 0) (h1 : e.x2 - e.x1 ≠ 0) (hd : e.x2 - e.x0 ≠ 0) :
    per3_k_available = true →
    periodic3 e =
      [Gen.per3_k e.x0 e.x1 e.x2 e.xl1 e.xl2 e.xl3 e.y0 e.y1 e.y2 e.yl1 e.yl2 e.yl3,
       Gen.per3_k e.x0 e.x1 e.x2 e.xl1 e.xl2 e.xl3 e.y0 e.y1 e.y2 e.yl1 e.yl2 e.yl3,
       Gen.per3_k e.x0 e.x1 e.x2 e.xl1 e.xl2 e.xl3 e.y0 e.y1 e.y2 e.yl1 e.yl2 e.yl3] := by
  intro h
  first
  | exact absurd h (by decide)
  | rfl
  | (have hd' : e.x1 - e.x0 + (e.x2 - e.x1) ≠ 0 := by rwa [sub_add_sub_cancel']
     have hd'' : e.x2 - e.x1 + (e.x1 - e.x0) ≠ 0 := by rwa [sub_add_sub_cancel]
     have hs' : (1 : F) / (e.x1 - e.x0) + 1 / (e.x2 - e.x1) ≠ 0 := by
       rw [div_add_div _ _ h0 h1]; exact div_ne_zero (by simpa [add_comm] using hd'') (mul_ne_zero h0 h1)
     simp only [periodic3, Ends.dx0, Ends.dx1, Gen.per3_k] <;> ft_rows)

/-- Periodic, n ≥ 4: row 0 of the condensed system, the last right-hand side, the two entries of `rhs2` -/
theorem FT_per_rows (e : Ends F F) (xl4 : F) (h0 : e.x1 - e.x0 ≠ 0) (h1 : e.xl1 - e.xl2 ≠ 0) (h2 : e.xl2 - e.xl3 ≠ 0) :
    (perN_mid0_available && perN_up0_available && perN_rhs0_available && perN_rhsLast_available &&
      perN_rhs2_first_available && perN_rhs2_last_available) = true →
    periodicRow0 e =
      { lo := c0
        mid := Gen.perN_mid0 e.x0 e.x1 e.x2 e.xl1 e.xl2 e.xl3 e.y0 e.y1 e.y2 e.yl1 e.yl2 e.yl3 xl4
        up := Gen.perN_up0 e.x0 e.x1 e.x2 e.xl1 e.xl2 e.xl3 e.y0 e.y1 e.y2 e.yl1 e.yl2 e.yl3 xl4
        rhs := Gen.perN_rhs0 e.x0 e.x1 e.x2 e.xl1 e.xl2 e.xl3 e.y0 e.y1 e.y2 e.yl1 e.yl2 e.yl3 xl4 } ∧
    periodicRhsLast e = Gen.perN_rhsLast e.x0 e.x1 e.x2 e.xl1 e.xl2 e.xl3 e.y0 e.y1 e.y2 e.yl1 e.yl2 e.yl3 xl4 ∧
    -e.dx0 = Gen.perN_rhs2_first e.x0 e.x1 e.x2 e.xl1 e.xl2 e.xl3 e.y0 e.y1 e.y2 e.yl1 e.yl2 e.yl3 xl4 ∧
    -(e.xl3 - xl4) = Gen.perN_rhs2_last e.x0 e.x1 e.x2 e.xl1 e.xl2 e.xl3 e.y0 e.y1 e.y2 e.yl1 e.yl2 e.yl3 xl4 := by
  intro h
  first
  | exact absurd h (by decide)
  | exact ⟨rfl, rfl, rfl, rfl⟩
  | (simp only [periodicRow0, periodicRhsLast, Ends.dx0, Ends.dxl1, Ends.dxl2, Gen.perN_mid0, Gen.perN_up0, Gen.perN_rhs0,
       Gen.perN_rhsLast, Gen.perN_rhs2_first, Gen.perN_rhs2_last]
     refine ⟨?_, ?_, ?_, ?_⟩ <;> ft_rows)

/-- Periodic, n ≥ 4: `k_m1` and the combination `k1 + k_m1 * k2` -/
theorem FT_per_combine (dx_1 dx_2 rhsLast k10 k1l k20 k2l k1 k2 : F)
    (hden : k20 * dx_2 + k2l * dx_1 + c2 * (dx_1 + dx_2) ≠ 0) :
    (perN_km1_available && perN_head_available) = true →
    Lanes.map2 (V := F) (fun a b => a / b)
        (Lanes.map2 (fun a b => a - b) (Lanes.map2 (fun a b => a - b) rhsLast (Lanes.map1 (fun v => v * dx_2) k10))
          (Lanes.map1 (fun v => v * dx_1) k1l))
        (Lanes.map1 (fun v => v + c2 * (dx_1 + dx_2))
          (Lanes.map2 (fun a b => a + b) (Lanes.map1 (fun v => v * dx_2) k20) (Lanes.map1 (fun v => v * dx_1) k2l)))
      = Gen.perN_km1 dx_1 dx_2 rhsLast k10 k1l k20 k2l ∧
    ∀ km : F, Lanes.map2 (V := F) (fun a b => a + b) k1 (Lanes.map2 (fun km k2 => km * k2) km k2) = Gen.perN_head k1 k2 km := by
  intro h
  first
  | exact absurd h (by decide)
  | exact ⟨rfl, fun _ => rfl⟩
  | (have hden' : k20 * dx_2 + k2l * dx_1 + 2 * (dx_1 + dx_2) ≠ 0 := by simpa using hden
     refine ⟨?_, fun km => ?_⟩
     · simp only [map1_scalar, map2_scalar, Gen.perN_km1] <;> ft_alg
     · simp only [map1_scalar, map2_scalar, Gen.perN_head] <;> ft_alg)

end

end NdInterp
