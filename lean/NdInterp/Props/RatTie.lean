/-
The property theorems, instantiated at `Rat` **with the core-Lean instances the compiled driver
executes** (spelled out explicitly so that instance resolution cannot pick anything else).
These are the statements the exact-rational correspondence check ties to the Rust code.
-/
import NdInterp.Lemmas.RatInst
import NdInterp.Props.C11
import NdInterp.Props.C12
import Mathlib.Tactic.NormNum

namespace NdInterp

/-- `monotonic_prop` as executed by the driver on rationals -/
abbrev monotonicPropQ (xs : List Rat) := @monotonicProp Rat instCmpRat xs
/-- `get_lower_index` as executed by the driver on rationals -/
abbrev lowerIndexQ (xs : List Rat) (q : Rat) :=
  @lowerIndex Rat instCmpRat Rat.instAdd Rat.instSub Rat.instMul Rat.instDiv Rat.instNatCast
    instToUsizeRat xs q

theorem C12_iff_Q (xs : List Rat) (m : Monotonic) :
    monotonicPropQ xs = .ok m ↔ Class Rat xs m := C12_iff xs m

theorem C11_exact_Q (xs : List Rat) (q : Rat) (hs : StrictInc xs) (hlen : xs.length < 2 ^ 64) :
    ∃ i, lowerIndexQ xs q = .ok i ∧ Bracket xs q i := C11_exact xs q hs hlen

/-! non-vacuity: concrete inputs meeting the hypotheses -/

example : StrictInc [(0 : Rat), 1, 3, 7] :=
  strictInc_of_allPairs _ (by decide) (by norm_num [AllPairs])

example : monotonicPropQ [0, 1, 3, 7] = .ok (.rising true) := by decide +kernel
example : monotonicPropQ [0, 1, 1, 7] = .ok (.rising false) := by decide +kernel
example : monotonicPropQ [0, 1, 1/2] = .ok .notMonotonic := by decide +kernel
example : lowerIndexQ [0, 1, 3, 7] 2 = .ok 1 := by decide +kernel
example : lowerIndexQ [0, 1, 3, 7] 7 = .ok 2 := by decide +kernel

end NdInterp
