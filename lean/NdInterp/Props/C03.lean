/-
C03 — the cubic spline honours the selected boundary conditions and is the unique such spline.

Single lane, every non-periodic pair `(left, right)` of single-end conditions (whole-data-set
NotAKnot / Natural / Clamped are the pairs `(b, b)`; Mixed and per-lane Individual selections are
pairs by definition; lanes via C08; Periodic in `Props/C07`):

* `C03_conditions`   : the slopes returned by `solve_for_k` satisfy `LeftCond left` and
                       `RightCond right`: `S'(end) = v` (FirstDeriv, Clamped `v = 0`),
                       `S''(end) = v` (SecondDeriv, Natural `v = 0`), equal third derivatives of the
                       two end pieces (NotAKnot).
* `C03_parabola`     : three points, NotAKnot at both ends: both pieces have zero cubic term and
                       are C² at the middle knot — the parabola through the points.
* `C03_unique`       : any slopes whose piecewise cubic is C² at the interior knots and meets
                       the two end conditions are the computed ones; hence all values agree
                       (`C03_unique_values`).
* `C03_periodic`       : Periodic boundary, `n ≥ 4` (the condensed two-solve system; its closing
                       denominator is positive): the solver succeeds iff the first and last data
                       values are equal (otherwise `ValueError`), and the slopes make the spline C² at
                       every interior knot with `S'` and `S''` equal at the two ends; they are the
                       only such slopes (`C03_periodic_unique`: the cyclic system is strictly
                       diagonally dominant, maximum-modulus argument). `C03_periodic3`: the 3-point
                       closed form.
* `C03_defect_witness` : the pre-repair right NotAKnot row (diagonal entry `x[n-1]-x[n-2]`) is
                       *not* the NotAKnot condition: concrete rational counterexample.
-/
import NdInterp.Lemmas.SplineChar
import NdInterp.Lemmas.Periodic
import NdInterp.Lemmas.PeriodicUnique
import Mathlib.Tactic.NormNum

namespace NdInterp

section
variable {F : Type} [Field F] [LinearOrder F] [IsStrictOrderedRing F] [Cmp F]

/-- **C03_conditions** -/
theorem C03_conditions (xs ys : List F) (hs : StrictInc xs) (hy : ys.length = xs.length)
    (hn : 3 ≤ xs.length) (left right : SingleBoundary F)
    (hpar : ¬ (xs.length = 3 ∧ isNakPair left right = true)) :
    ∃ ks, ∃ (hk : ks.length = xs.length),
      solveForK (V := F) xs ys (.mixed left right) = .ok ks ∧
      LeftCond xs ys ks hy hk hn left ∧ RightCond xs ys ks hy hk hn right := by
  obtain ⟨ks, h1, h2, h3, _⟩ := solveForK_spec xs ys hy hn hs left right
  have := (spline_char xs ys ks hy h2 hn hs left right hpar).mp h3
  exact ⟨ks, h2, h1, this.2.1, this.2.2⟩

/-- **C03_unique**: C² + the two end conditions determine the slopes. -/
theorem C03_unique (xs ys : List F) (hs : StrictInc xs) (hy : ys.length = xs.length)
    (hn : 3 ≤ xs.length) (left right : SingleBoundary F)
    (hpar : ¬ (xs.length = 3 ∧ isNakPair left right = true))
    (ks' : List F) (hk' : ks'.length = xs.length)
    (h2 : C2Cond xs ys ks' hy hk') (hl : LeftCond xs ys ks' hy hk' hn left)
    (hr : RightCond xs ys ks' hy hk' hn right) :
    solveForK (V := F) xs ys (.mixed left right) = .ok ks' := by
  obtain ⟨ks, h1, _, _, huniq⟩ := solveForK_spec xs ys hy hn hs left right
  have := huniq ks' ((spline_char xs ys ks' hy hk' hn hs left right hpar).mpr ⟨h2, hl, hr⟩)
  rw [h1, this]

/-- **C03_unique_values**: consequently every such spline has the pieces (hence the values) the
    interpolator evaluates. -/
theorem C03_unique_values (xs ys : List F) (hs : StrictInc xs) (hy : ys.length = xs.length)
    (hn : 3 ≤ xs.length) (left right : SingleBoundary F)
    (hpar : ¬ (xs.length = 3 ∧ isNakPair left right = true))
    (ks ks' : List F) (hk : ks.length = xs.length) (hk' : ks'.length = xs.length)
    (hsol : solveForK (V := F) xs ys (.mixed left right) = .ok ks)
    (h2 : C2Cond xs ys ks' hy hk') (hl : LeftCond xs ys ks' hy hk' hn left)
    (hr : RightCond xs ys ks' hy hk' hn right) (i : Nat) (hi : i + 1 < xs.length) (q : F) :
    (pieceAt xs ys ks' i hi hy hk').eval q = (pieceAt xs ys ks i hi hy hk).eval q := by
  have := C03_unique xs ys hs hy hn left right hpar ks' hk' h2 hl hr
  rw [hsol] at this
  have e : ks = ks' := by injection this
  subst e
  rfl

/-- **C03_parabola**: 3 points with NotAKnot on both ends. -/
theorem C03_parabola (xs ys : List F) (hs : StrictInc xs) (hy : ys.length = xs.length)
    (h3 : xs.length = 3) :
    ∃ ks, ∃ (hk : ks.length = xs.length),
      solveForK (V := F) xs ys (.mixed .notAKnot .notAKnot) = .ok ks ∧
      (pc xs ys ks hy hk 0 1 (by omega) (by omega)).d3 = 0 ∧
      (pc xs ys ks hy hk 1 2 (by omega) (by omega)).d3 = 0 ∧
      (pc xs ys ks hy hk 0 1 (by omega) (by omega)).d2 (xs[1]'(by omega)) =
        (pc xs ys ks hy hk 1 2 (by omega) (by omega)).d2 (xs[1]'(by omega)) := by
  have hn : 3 ≤ xs.length := by omega
  obtain ⟨ks, h1, h2, hsat, _⟩ := solveForK_spec xs ys hy hn hs .notAKnot .notAKnot
  refine ⟨ks, h2, h1, ?_⟩
  have hrows : sysRows xs ys hy hn .notAKnot .notAKnot = parabolaRows (endsOf xs ys hy hn) := by
    unfold sysRows; rw [if_pos ⟨h3, rfl⟩]
  rw [hrows] at hsat
  have hk3 : ks.length = 3 := by omega
  have h01 : xs[1] - xs[0] ≠ 0 := ne_of_gt (sub_pos.mpr (hs.2 0 1 (by omega) (by omega)))
  have h12 : xs[2] - xs[1] ≠ 0 := ne_of_gt (sub_pos.mpr (hs.2 1 2 (by omega) (by omega)))
  -- the three rows
  simp only [parabolaRows] at hsat
  have r0 := hsat.2 0 _ rfl
  have r1 := hsat.2 1 _ rfl
  have r2 := hsat.2 2 _ rfl
  have g : ∀ j (hj : j < 3), ks.getD j 0 = ks[j]'(by omega) := by
    intro j hj; rw [List.getD_eq_getElem?_getD, List.getElem?_eq_getElem (by omega)]; rfl
  simp only [parabolaRows, List.length_cons, List.length_nil, if_true, g 0 (by omega), g 1 (by omega),
    g 2 (by omega), c0_eq, c1_eq, c2_eq, c3_eq, map1_scalar, map2_scalar, endsOf, Ends.dx0,
    Ends.dx1] at r0 r1 r2
  norm_num at r0 r1 r2
  refine ⟨?_, ?_, ?_⟩
  · simp only [pc, pieceCubic, Cubic.d3]
    field_simp
    field_simp at r0
    linear_combination 6 * r0
  · simp only [pc, pieceCubic, Cubic.d3]
    field_simp
    field_simp at r2
    linear_combination 6 * r2
  · refine (c2_iff_row _ _ _ _ _ _ _ _ _ h01 h12).mpr ?_
    unfold interiorEq
    field_simp at r1 ⊢
    linear_combination r1

end

section periodic
variable {F : Type} [Field F] [LinearOrder F] [IsStrictOrderedRing F] [Cmp F] [LawfulCmp F]

/-- the Periodic branch of `solve_for_k`, `n ≥ 4`: `ValueError` unless the end values are equal -/
theorem solveForK_periodic_eq (xs ys : List F) (hy : ys.length = xs.length) (hn : 4 ≤ xs.length) :
    solveForK (V := F) xs ys .periodic =
      if ys[0]'(by omega) = ys[xs.length - 1]'(by omega) then
        periodicN xs ys (endsOf xs ys hy (by omega)) (xs[xs.length - 4])
      else .error (.builder .valueError) := by
  have hg : (3 ≤ ys.length ∧ xs.length = ys.length) := ⟨by omega, hy.symm⟩
  unfold solveForK
  simp only [bind, Except.bind, pure, Except.pure]
  rw [if_neg (not_not.mpr hg)]
  simp only [getEnds_eq' xs ys hy (by omega), InternalBoundary.specialize, all2_scalar]
  have h3 : ¬ ys.length = 3 := by omega
  have hrd : rd xs (ys.length - 4) = .ok (xs[xs.length - 4]) := by
    have e : ys.length - 4 = xs.length - 4 := by rw [hy]
    rw [e]; exact rd_eq xs _ (by omega)
  by_cases hends : ys[0]'(by omega) = ys[xs.length - 1]'(by omega)
  · have : Cmp.eq (endsOf xs ys hy (by omega)).y0 (endsOf xs ys hy (by omega)).yl1 = true :=
      (cmp_eq _ _).mpr hends
    simp only [this, Bool.not_true, Bool.false_eq_true, if_false, h3, hrd, if_pos hends]
  · have : Cmp.eq (endsOf xs ys hy (by omega)).y0 (endsOf xs ys hy (by omega)).yl1 = false :=
      (cmp_eq_false _ _).mpr hends
    simp only [this, Bool.not_false, if_true, if_neg hends, throw, throwThe, MonadExceptOf.throw]

/-- **C03_periodic** (`n ≥ 4`) -/
theorem C03_periodic (xs ys : List F) (hs : StrictInc xs) (hy : ys.length = xs.length)
    (hn : 4 ≤ xs.length) :
    (ys[0]'(by omega) ≠ ys[xs.length - 1]'(by omega) →
      solveForK (V := F) xs ys .periodic = .error (.builder .valueError)) ∧
    (ys[0]'(by omega) = ys[xs.length - 1]'(by omega) →
      ∃ ks, ∃ (hk : ks.length = xs.length),
        solveForK (V := F) xs ys .periodic = .ok ks ∧ C2Cond xs ys ks hy hk ∧
        -- equal first derivatives at the two ends
        (pc xs ys ks hy hk (xs.length - 2) (xs.length - 1) (by omega) (by omega)).d1 xs[xs.length - 1] =
          (pc xs ys ks hy hk 0 1 (by omega) (by omega)).d1 xs[0] ∧
        -- equal second derivatives at the two ends
        (pc xs ys ks hy hk (xs.length - 2) (xs.length - 1) (by omega) (by omega)).d2 xs[xs.length - 1] =
          (pc xs ys ks hy hk 0 1 (by omega) (by omega)).d2 xs[0]) := by
  have hne : ∀ i j (hij : i < j) (hj : j < xs.length), xs[j] - xs[i]'(by omega) ≠ 0 :=
    fun i j hij hj => ne_of_gt (sub_pos.mpr (hs.2 i j hij hj))
  have hsolve := solveForK_periodic_eq xs ys hy hn
  constructor
  · intro h; rw [hsolve, if_neg h]
  · intro hends
    obtain ⟨ks, hk, hper, hint, hkl, hrow0⟩ := periodic_spec xs ys hy hn hs
    refine ⟨ks, hk, by rw [hsolve, if_pos hends]; exact hper, ?_, ?_, ?_⟩
    · intro j h
      unfold pc
      exact (c2_iff_row _ _ _ _ _ _ _ _ _ (hne j (j + 1) (by omega) (by omega))
        (hne (j + 1) (j + 2) (by omega) h)).mpr (hint j h)
    · unfold pc
      rw [piece_d1_right _ _ _ _ _ _ (hne (xs.length - 2) (xs.length - 1) (by omega) (by omega)),
        piece_d1_left]
      exact hkl
    · unfold pc
      rw [piece_d2_right _ _ _ _ _ _ (hne (xs.length - 2) (xs.length - 1) (by omega) (by omega)),
        piece_d2_left _ _ _ _ _ _ (hne 0 1 (by omega) (by omega)), hkl, ← hends]
      have n0 := hne 0 1 (by omega) (by omega)
      have n1 := hne (xs.length - 2) (xs.length - 1) (by omega) (by omega)
      rw [← hends] at hrow0
      field_simp at hrow0 ⊢
      linear_combination hrow0

/-- an answered Periodic solve (`n ≥ 4`): the end values are equal and the slopes satisfy the cyclic system -/
theorem periodicCond_of_solve (xs ys ks : List F) (hs : StrictInc xs) (hy : ys.length = xs.length)
    (hn : 4 ≤ xs.length) (h : solveForK (V := F) xs ys .periodic = .ok ks) :
    ys[0]'(by omega) = ys[xs.length - 1]'(by omega) ∧
      ∃ hk : ks.length = xs.length, PeriodicCond xs ys ks hy hk hn := by
  rw [solveForK_periodic_eq xs ys hy hn] at h
  by_cases hends : ys[0]'(by omega) = ys[xs.length - 1]'(by omega)
  · rw [if_pos hends] at h
    obtain ⟨ks0, hk, hper, hint, hkl, hrow0⟩ := periodic_spec xs ys hy hn hs
    rw [hper] at h
    injection h with h
    subst h
    exact ⟨hends, hk, hint, hkl, hrow0⟩
  · rw [if_neg hends] at h; cases h

/-- slopes satisfying the cyclic system are what the Periodic solve returns -/
theorem solve_of_periodicCond (xs ys ks : List F) (hs : StrictInc xs) (hy : ys.length = xs.length)
    (hn : 4 ≤ xs.length) (hends : ys[0]'(by omega) = ys[xs.length - 1]'(by omega))
    (hk : ks.length = xs.length) (h : PeriodicCond xs ys ks hy hk hn) :
    solveForK (V := F) xs ys .periodic = .ok ks := by
  obtain ⟨ks0, hk0, hper, hint, hkl, hrow0⟩ := periodic_spec xs ys hy hn hs
  rw [solveForK_periodic_eq xs ys hy hn, if_pos hends, hper]
  congr 1
  exact periodic_unique xs ys ks0 ks hs hy hn hk0 hk ⟨hint, hkl, hrow0⟩ h

/-- **C03_periodic_unique** (`n ≥ 4`): any slopes whose piecewise cubic is C² at the interior knots
    and has equal first and second derivatives at the two ends are the slopes the Periodic solve
    returns — the periodic spline is unique (the cyclic system is strictly diagonally dominant). -/
theorem C03_periodic_unique (xs ys ks' : List F) (hs : StrictInc xs) (hy : ys.length = xs.length)
    (hn : 4 ≤ xs.length) (hends : ys[0]'(by omega) = ys[xs.length - 1]'(by omega))
    (hk' : ks'.length = xs.length) (hC2 : C2Cond xs ys ks' hy hk')
    (hd1 : (pc xs ys ks' hy hk' (xs.length - 2) (xs.length - 1) (by omega) (by omega)).d1 xs[xs.length - 1] =
      (pc xs ys ks' hy hk' 0 1 (by omega) (by omega)).d1 xs[0])
    (hd2 : (pc xs ys ks' hy hk' (xs.length - 2) (xs.length - 1) (by omega) (by omega)).d2 xs[xs.length - 1] =
      (pc xs ys ks' hy hk' 0 1 (by omega) (by omega)).d2 xs[0]) :
    solveForK (V := F) xs ys .periodic = .ok ks' := by
  have hne : ∀ i j (hij : i < j) (hj : j < xs.length), xs[j] - xs[i]'(by omega) ≠ 0 :=
    fun i j hij hj => ne_of_gt (sub_pos.mpr (hs.2 i j hij hj))
  obtain ⟨ks, hk, hper, hint, hkl, hrow0⟩ := periodic_spec xs ys hy hn hs
  rw [solveForK_periodic_eq xs ys hy hn, if_pos hends, hper]
  congr 1
  apply periodic_unique xs ys ks ks' hs hy hn hk hk' ⟨hint, hkl, hrow0⟩
  unfold pc at hd1 hd2
  rw [piece_d1_right _ _ _ _ _ _ (hne (xs.length - 2) (xs.length - 1) (by omega) (by omega)),
    piece_d1_left] at hd1
  rw [piece_d2_right _ _ _ _ _ _ (hne (xs.length - 2) (xs.length - 1) (by omega) (by omega)),
    piece_d2_left _ _ _ _ _ _ (hne 0 1 (by omega) (by omega)), hd1, ← hends] at hd2
  refine ⟨?_, hd1, ?_⟩
  · intro j h
    have := hC2 j h
    unfold pc at this
    exact (c2_iff_row _ _ _ _ _ _ _ _ _ (hne j (j + 1) (by omega) (by omega))
      (hne (j + 1) (j + 2) (by omega) h)).mp this
  · have n0 := hne 0 1 (by omega) (by omega)
    have n1 := hne (xs.length - 2) (xs.length - 1) (by omega) (by omega)
    rw [← hends]
    field_simp at hd2 ⊢
    linear_combination hd2

/-- **C03_periodic3**: three points, Periodic boundary (closed form of the code). -/
theorem C03_periodic3 (xs ys : List F) (hs : StrictInc xs) (hy : ys.length = xs.length)
    (h3 : xs.length = 3) (hends : ys[0]'(by omega) = ys[2]'(by omega)) :
    ∃ ks, ∃ (hk : ks.length = xs.length),
      solveForK (V := F) xs ys .periodic = .ok ks ∧
      -- C² at the middle knot
      (pc xs ys ks hy hk 0 1 (by omega) (by omega)).d2 (xs[1]'(by omega)) =
        (pc xs ys ks hy hk 1 2 (by omega) (by omega)).d2 (xs[1]'(by omega)) ∧
      -- equal first and second derivatives at the two ends
      (pc xs ys ks hy hk 1 2 (by omega) (by omega)).d1 (xs[2]'(by omega)) =
        (pc xs ys ks hy hk 0 1 (by omega) (by omega)).d1 (xs[0]'(by omega)) ∧
      (pc xs ys ks hy hk 1 2 (by omega) (by omega)).d2 (xs[2]'(by omega)) =
        (pc xs ys ks hy hk 0 1 (by omega) (by omega)).d2 (xs[0]'(by omega)) := by
  have hn : 3 ≤ xs.length := by omega
  have h01 : xs[1] - xs[0] ≠ 0 := ne_of_gt (sub_pos.mpr (hs.2 0 1 (by omega) (by omega)))
  have h12 : xs[2] - xs[1] ≠ 0 := ne_of_gt (sub_pos.mpr (hs.2 1 2 (by omega) (by omega)))
  have hsum : (xs[2] - xs[1]) + (xs[1] - xs[0]) ≠ 0 := by
    have a := sub_pos.mpr (hs.2 0 1 (by omega) (by omega))
    have b := sub_pos.mpr (hs.2 1 2 (by omega) (by omega))
    exact ne_of_gt (by linarith)
  have hg : (3 ≤ ys.length ∧ xs.length = ys.length) := ⟨by omega, hy.symm⟩
  have hl : ys.length = 3 := by omega
  have hsolve : solveForK (V := F) xs ys .periodic = .ok (periodic3 (endsOf xs ys hy hn)) := by
    unfold solveForK
    simp only [bind, Except.bind, pure, Except.pure]
    rw [if_neg (not_not.mpr hg)]
    simp only [getEnds_eq' xs ys hy hn, InternalBoundary.specialize, all2_scalar]
    have : Cmp.eq (endsOf xs ys hy hn).y0 (endsOf xs ys hy hn).yl1 = true := by
      rw [cmp_eq]
      simp only [endsOf]
      rw [hends]
      congr 1
      omega
    simp only [this, Bool.not_true, Bool.false_eq_true, if_false, hl, if_true]
  refine ⟨periodic3 (endsOf xs ys hy hn), by simp [periodic3, h3], hsolve, ?_, ?_, ?_⟩
  · simp only [pc]
    rw [c2_iff_row _ _ _ _ _ _ _ _ _ h01 h12]
    simp only [interiorEq, periodic3, endsOf, Ends.dx0, Ends.dx1, map1_scalar, map2_scalar, c1_eq,
      List.getElem_cons_zero, List.getElem_cons_succ]
    field_simp
    ring
  · simp only [pc]
    rw [piece_d1_right _ _ _ _ _ _ h12, piece_d1_left]
    simp [periodic3]
  · simp only [pc]
    rw [piece_d2_right _ _ _ _ _ _ h12, piece_d2_left _ _ _ _ _ _ h01]
    simp only [periodic3, endsOf, Ends.dx0, Ends.dx1, map1_scalar, map2_scalar, c1_eq,
      List.getElem_cons_zero, List.getElem_cons_succ]
    rw [hends]
    field_simp
    ring

end periodic

/-- **C03_defect_witness**: on the knots `3, 4, 8` with the cubic `x³` (`y = x³`, slopes `3x²`,
    so the interior row holds and both pieces are `x³`: equal third derivatives) the row the
    unrepaired code used — diagonal entry `x[n-1]-x[n-2]` instead of `x[n-2]-x[n-3]` — is
    false, while the repaired row `nakRightEq` is true. -/
theorem C03_defect_witness :
    let x1 : ℚ := 3; let x2 : ℚ := 4; let x3 : ℚ := 8
    let y1 : ℚ := 27; let y2 : ℚ := 64; let y3 : ℚ := 512
    let k1 : ℚ := 27; let k2 : ℚ := 48; let k3 : ℚ := 192
    interiorEq x1 x2 x3 y1 y2 y3 k1 k2 k3 ∧
    (pieceCubic x1 x2 y1 y2 k1 k2).d3 = (pieceCubic x2 x3 y2 y3 k2 k3).d3 ∧
    nakRightEq x1 x2 x3 y1 y2 y3 k2 k3 ∧
    ¬ ((x3 - x1) * k2 + (x3 - x2) * k3 =
        ((x3 - x2) * (x3 - x2) * (y2 - y1) / (x2 - x1) +
          (2 * (x3 - x1) + (x3 - x2)) * (x2 - x1) * (y3 - y2) / (x3 - x2)) / (x3 - x1)) := by
  refine ⟨?_, ?_, ?_, ?_⟩ <;> norm_num [interiorEq, nakRightEq, pieceCubic, Cubic.d3]

end NdInterp
