/-
C06 — rounding of the extrapolated line under the standard model of floating-point arithmetic.

`C01_rounding` bounds the rounding error of `calc_frac` for a query between the two points, relative to the larger of the two values.
Outside the interval the value is not bounded by them; the natural scale is `|slope·(x − x1)| + |y1|`:

* `C06_linear_rounding` : for *any* query `x` (in range or extrapolated, either side), with each of the six operations perturbed by
  `|δ| ≤ u ≤ 1/16`:  `|computed − exact| ≤ (7u + 6u²)·(|(y2−y1)·(x−x1)/(x2−x1)| + |y1|)`.
  This is the bound (with a generous factor) the f64 runs of the C06 check hold the extrapolating Linear strategy to.
* `C06_bilinear_rounding` : the same for the bilinear blend (three nested `calc_frac`, 18 rounded operations, `bilinearFl` of C04Fl) at *any*
  query `(x, y)` — inside the grid, beyond one side, or beyond a corner.  With `B = 7u + 6u²`, `tx = (x−x1)/(x2−x1)`, `ty = (y−y1)/(y2−y1)`,
  `z1`, `z2` the exact values of the two x passes and `E1 = B·(|(z21−z11)·tx| + |z11|)`, `E2 = B·(|(z22−z12)·tx| + |z12|)` their rounding
  bounds:  `|computed − exact| ≤ B·((|z2−z1| + E1 + E2)·|ty| + |z1| + E1) + |1−ty|·E1 + |ty|·E2`.
-/
import NdInterp.Props.C01
import NdInterp.Props.C04Fl

namespace NdInterp

section
variable {F : Type} [Field F] [LinearOrder F] [IsStrictOrderedRing F]

/-- **C06_linear_rounding** -/
theorem C06_linear_rounding (x1 y1 x2 y2 x u d1 d2 d3 d4 d5 d6 : F)
    (hx : x1 < x2) (hu0 : 0 ≤ u) (hu : u ≤ 1/16)
    (h1 : |d1| ≤ u) (h2 : |d2| ≤ u) (h3 : |d3| ≤ u) (h4 : |d4| ≤ u) (h5 : |d5| ≤ u) (h6 : |d6| ≤ u) :
    |calcFracFl x1 y1 x2 y2 x d1 d2 d3 d4 d5 d6 - calcFrac x1 y1 x2 y2 x| ≤
      (7 * u + 6 * u ^ 2) * (|(y2 - y1) * ((x - x1) / (x2 - x1))| + |y1|) := by
  have hxne : x2 - x1 ≠ 0 := ne_of_gt (sub_pos.mpr hx)
  have a2 := abs_le.mp h2
  have h2pos : 0 < 1 + d2 := by linarith
  rw [calcFracFl_repr _ _ _ _ _ _ _ _ _ _ _ hxne h2pos.ne']
  set θ := (1 + d1) * (1 + d3) * (1 + d4) * (1 + d5) / (1 + d2) with hθ
  have hθb : |θ - 1| ≤ 6 * u := theta_bound u d1 d2 d3 d4 d5 hu0 hu h1 h2 h3 h4 h5
  set D := (y2 - y1) * ((x - x1) / (x2 - x1)) with hD
  have hL : calcFrac x1 y1 x2 y2 x = D + y1 := by
    unfold calcFrac; rw [hD]; field_simp
  rw [hL]
  have e : (D * θ + y1) * (1 + d6) - (D + y1) = D * (θ - 1) * (1 + d6) + (D + y1) * d6 := by ring
  rw [e]
  have h6' : |1 + d6| ≤ 1 + u := by
    calc |1 + d6| ≤ |1| + |d6| := abs_add_le _ _
      _ ≤ 1 + u := by rw [abs_one]; linarith
  have hDy : |D + y1| ≤ |D| + |y1| := abs_add_le _ _
  calc |D * (θ - 1) * (1 + d6) + (D + y1) * d6|
      ≤ |D * (θ - 1) * (1 + d6)| + |(D + y1) * d6| := abs_add_le _ _
    _ = |D| * |θ - 1| * |1 + d6| + |D + y1| * |d6| := by simp only [abs_mul]
    _ ≤ |D| * (6 * u) * (1 + u) + (|D| + |y1|) * u := by gcongr
    _ ≤ (7 * u + 6 * u ^ 2) * (|D| + |y1|) := by
        have : 0 ≤ |y1| := abs_nonneg _
        have : 0 ≤ |D| := abs_nonneg _
        nlinarith [mul_nonneg hu0 (abs_nonneg y1), mul_nonneg (mul_nonneg hu0 hu0) (abs_nonneg y1)]

/-- non-vacuity: an extrapolated query (`x = 5` beyond `[0, 1]`) with concrete perturbations -/
example : |calcFracFl (0 : ℚ) 1 1 3 5 (1/32) 0 0 0 0 (-1/32) - calcFrac 0 1 1 3 5| ≤
    (7 * (1/32) + 6 * (1/32) ^ 2) * (|(3 - 1) * ((5 - 0) / (1 - 0))| + |(1 : ℚ)|) :=
  C06_linear_rounding 0 1 1 3 5 (1/32) (1/32) 0 0 0 0 (-1/32) (by norm_num) (by norm_num) (by norm_num)
    (by norm_num [abs_of_nonneg]) (by norm_num) (by norm_num) (by norm_num) (by norm_num) (by norm_num [abs_of_nonneg])

/-- **C06_bilinear_rounding**: rounding of the bilinear blend at any query, inside the grid or extrapolated -/
theorem C06_bilinear_rounding (x1 x2 y1 y2 z11 z12 z21 z22 x y u d1 d2 d3 d4 d5 d6 e1 e2 e3 e4 e5 e6 f1 f2 f3 f4 f5 f6 : F)
    (hx : x1 < x2) (hy : y1 < y2) (hu0 : 0 ≤ u) (hu : u ≤ 1/16)
    (hd1 : |d1| ≤ u) (hd2 : |d2| ≤ u) (hd3 : |d3| ≤ u) (hd4 : |d4| ≤ u) (hd5 : |d5| ≤ u) (hd6 : |d6| ≤ u)
    (he1 : |e1| ≤ u) (he2 : |e2| ≤ u) (he3 : |e3| ≤ u) (he4 : |e4| ≤ u) (he5 : |e5| ≤ u) (he6 : |e6| ≤ u)
    (hf1 : |f1| ≤ u) (hf2 : |f2| ≤ u) (hf3 : |f3| ≤ u) (hf4 : |f4| ≤ u) (hf5 : |f5| ≤ u) (hf6 : |f6| ≤ u) :
    |bilinearFl x1 x2 y1 y2 z11 z12 z21 z22 x y d1 d2 d3 d4 d5 d6 e1 e2 e3 e4 e5 e6 f1 f2 f3 f4 f5 f6
        - bilinearExact x1 x2 y1 y2 z11 z12 z21 z22 x y| ≤
      (7 * u + 6 * u ^ 2) *
          ((|calcFrac x1 z12 x2 z22 x - calcFrac x1 z11 x2 z21 x|
              + (7 * u + 6 * u ^ 2) * (|(z21 - z11) * ((x - x1) / (x2 - x1))| + |z11|)
              + (7 * u + 6 * u ^ 2) * (|(z22 - z12) * ((x - x1) / (x2 - x1))| + |z12|)) * |(y - y1) / (y2 - y1)|
            + |calcFrac x1 z11 x2 z21 x|
            + (7 * u + 6 * u ^ 2) * (|(z21 - z11) * ((x - x1) / (x2 - x1))| + |z11|))
        + |1 - (y - y1) / (y2 - y1)| * ((7 * u + 6 * u ^ 2) * (|(z21 - z11) * ((x - x1) / (x2 - x1))| + |z11|))
        + |(y - y1) / (y2 - y1)| * ((7 * u + 6 * u ^ 2) * (|(z22 - z12) * ((x - x1) / (x2 - x1))| + |z12|)) := by
  set B := 7 * u + 6 * u ^ 2 with hB
  have hB0 : 0 ≤ B := by rw [hB]; positivity
  set E1 := B * (|(z21 - z11) * ((x - x1) / (x2 - x1))| + |z11|) with hE1
  set E2 := B * (|(z22 - z12) * ((x - x1) / (x2 - x1))| + |z12|) with hE2
  set ty := (y - y1) / (y2 - y1) with hty
  unfold bilinearFl bilinearExact
  simp only
  set z1 := calcFrac x1 z11 x2 z21 x
  set z2 := calcFrac x1 z12 x2 z22 x
  set z1' := calcFracFl x1 z11 x2 z21 x d1 d2 d3 d4 d5 d6
  set z2' := calcFracFl x1 z12 x2 z22 x e1 e2 e3 e4 e5 e6
  have r1 : |z1' - z1| ≤ E1 := C06_linear_rounding x1 z11 x2 z21 x u d1 d2 d3 d4 d5 d6 hx hu0 hu hd1 hd2 hd3 hd4 hd5 hd6
  have r2 : |z2' - z2| ≤ E2 := C06_linear_rounding x1 z12 x2 z22 x u e1 e2 e3 e4 e5 e6 hx hu0 hu he1 he2 he3 he4 he5 he6
  have hE10 : 0 ≤ E1 := le_trans (abs_nonneg _) r1
  have hE20 : 0 ≤ E2 := le_trans (abs_nonneg _) r2
  have b1 : |z1'| ≤ |z1| + E1 := by
    calc |z1'| = |(z1' - z1) + z1| := by ring_nf
      _ ≤ |z1' - z1| + |z1| := abs_add_le _ _
      _ ≤ |z1| + E1 := by linarith
  have b21 : |z2' - z1'| ≤ |z2 - z1| + E1 + E2 := by
    calc |z2' - z1'| = |(z2' - z2) + (z2 - z1) + (z1 - z1')| := by ring_nf
      _ ≤ |z2' - z2| + |z2 - z1| + |z1 - z1'| := abs_add_three _ _ _
      _ ≤ |z2 - z1| + E1 + E2 := by rw [abs_sub_comm z1 z1']; linarith
  have s1 : |calcFracFl y1 z1' y2 z2' y f1 f2 f3 f4 f5 f6 - calcFrac y1 z1' y2 z2' y| ≤
      B * (|(z2' - z1') * ty| + |z1'|) :=
    C06_linear_rounding y1 z1' y2 z2' y u f1 f2 f3 f4 f5 f6 hy hu0 hu hf1 hf2 hf3 hf4 hf5 hf6
  have s1' : B * (|(z2' - z1') * ty| + |z1'|) ≤ B * ((|z2 - z1| + E1 + E2) * |ty| + |z1| + E1) := by
    rw [abs_mul]
    have : |z2' - z1'| * |ty| ≤ (|z2 - z1| + E1 + E2) * |ty| := mul_le_mul_of_nonneg_right b21 (abs_nonneg _)
    apply mul_le_mul_of_nonneg_left _ hB0
    linarith
  have s2 : |calcFrac y1 z1' y2 z2' y - calcFrac y1 z1 y2 z2 y| ≤ |1 - ty| * E1 + |ty| * E2 := by
    rw [calcFrac_convex _ _ _ _ _ hy, calcFrac_convex _ _ _ _ _ hy]
    have e : (1 - ty) * z1' + ty * z2' - ((1 - ty) * z1 + ty * z2) = (1 - ty) * (z1' - z1) + ty * (z2' - z2) := by ring
    rw [e]
    calc |(1 - ty) * (z1' - z1) + ty * (z2' - z2)| ≤ |(1 - ty) * (z1' - z1)| + |ty * (z2' - z2)| := abs_add_le _ _
      _ = |1 - ty| * |z1' - z1| + |ty| * |z2' - z2| := by rw [abs_mul, abs_mul]
      _ ≤ |1 - ty| * E1 + |ty| * E2 := by
          have := mul_le_mul_of_nonneg_left r1 (abs_nonneg (1 - ty))
          have := mul_le_mul_of_nonneg_left r2 (abs_nonneg ty)
          linarith
  calc |calcFracFl y1 z1' y2 z2' y f1 f2 f3 f4 f5 f6 - calcFrac y1 z1 y2 z2 y|
      = |(calcFracFl y1 z1' y2 z2' y f1 f2 f3 f4 f5 f6 - calcFrac y1 z1' y2 z2' y)
          + (calcFrac y1 z1' y2 z2' y - calcFrac y1 z1 y2 z2 y)| := by ring_nf
    _ ≤ B * ((|z2 - z1| + E1 + E2) * |ty| + |z1| + E1) + (|1 - ty| * E1 + |ty| * E2) :=
        le_trans (abs_add_le _ _) (add_le_add (le_trans s1 s1') s2)
    _ = _ := by ring

/-- non-vacuity: a query beyond the corner of the cell `[0,1]×[0,2]`; with all perturbations zero the rounded blend is the exact one -/
example : bilinearFl (0 : ℚ) 1 0 2 1 2 3 5 4 (-3) 0 0 0 0 0 0 0 0 0 0 0 0 0 0 0 0 0 0 = bilinearExact 0 1 0 2 1 2 3 5 4 (-3) := by
  norm_num [bilinearFl, bilinearExact, calcFracFl, calcFrac]

end

end NdInterp
