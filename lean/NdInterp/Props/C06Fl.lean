/-
C06 — rounding of the extrapolated line under the standard model of floating-point arithmetic.

`C01_rounding` bounds the rounding error of `calc_frac` for a query between the two points, relative to the larger of the two values.
Outside the interval the value is not bounded by them; the natural scale is `|slope·(x − x1)| + |y1|`:

* `C06_linear_rounding` : for *any* query `x` (in range or extrapolated, either side), with each of the six operations perturbed by
  `|δ| ≤ u ≤ 1/16`:  `|computed − exact| ≤ (7u + 6u²)·(|(y2−y1)·(x−x1)/(x2−x1)| + |y1|)`.
  This is the bound (with a generous factor) the f64 runs of the C06 check hold the extrapolating Linear strategy to.
-/
import NdInterp.Props.C01

namespace NdInterp

section
variable {F : Type} [Field F] [LinearOrder F] [IsStrictOrderedRing F]

/-- **C06_linear_rounding** -/
theorem C06_linear_rounding (x1 y1 x2 y2 x u d1 d2 d3 d4 d5 d6 : F)
    (hx : x1 < x2) (hu0 : 0 ≤ u) (hu : u ≤ 1/16)
    (h1 : |d1| ≤ u) (h2 : |d2| ≤ u) (h3 : |d3| ≤ u) (h4 : |d4| ≤ u) (h5 : |d5| ≤ u) (h6 : |d6| ≤ u) :
    |calcFracFl x1 y1 x2 y2 x d1 d2 d3 d4 d5 d6 - calcFrac x1 y1 x2 y2 x| ≤
      (7 * u + 6 * u ^ 2) * (|(y2 - y1) * ((x - x1) / (x2 - x1))| + |y1|) := by
  have hxne : x2 - x1 ≠ 0 := ne_of_gt (sub_pos.mpr hx)
  have a2 := abs_le.mp h2
  have h2pos : 0 < 1 + d2 := by linarith
  rw [calcFracFl_repr _ _ _ _ _ _ _ _ _ _ _ hxne h2pos.ne']
  set θ := (1 + d1) * (1 + d3) * (1 + d4) * (1 + d5) / (1 + d2) with hθ
  have hθb : |θ - 1| ≤ 6 * u := theta_bound u d1 d2 d3 d4 d5 hu0 hu h1 h2 h3 h4 h5
  set D := (y2 - y1) * ((x - x1) / (x2 - x1)) with hD
  have hL : calcFrac x1 y1 x2 y2 x = D + y1 := by
    unfold calcFrac; rw [hD]; field_simp
  rw [hL]
  have e : (D * θ + y1) * (1 + d6) - (D + y1) = D * (θ - 1) * (1 + d6) + (D + y1) * d6 := by ring
  rw [e]
  have h6' : |1 + d6| ≤ 1 + u := by
    calc |1 + d6| ≤ |1| + |d6| := abs_add_le _ _
      _ ≤ 1 + u := by rw [abs_one]; linarith
  have hDy : |D + y1| ≤ |D| + |y1| := abs_add_le _ _
  calc |D * (θ - 1) * (1 + d6) + (D + y1) * d6|
      ≤ |D * (θ - 1) * (1 + d6)| + |(D + y1) * d6| := abs_add_le _ _
    _ = |D| * |θ - 1| * |1 + d6| + |D + y1| * |d6| := by simp only [abs_mul]
    _ ≤ |D| * (6 * u) * (1 + u) + (|D| + |y1|) * u := by gcongr
    _ ≤ (7 * u + 6 * u ^ 2) * (|D| + |y1|) := by
        have : 0 ≤ |y1| := abs_nonneg _
        have : 0 ≤ |D| := abs_nonneg _
        nlinarith [mul_nonneg hu0 (abs_nonneg y1), mul_nonneg (mul_nonneg hu0 hu0) (abs_nonneg y1)]

/-- non-vacuity: an extrapolated query (`x = 5` beyond `[0, 1]`) with concrete perturbations -/
example : |calcFracFl (0 : ℚ) 1 1 3 5 (1/32) 0 0 0 0 (-1/32) - calcFrac 0 1 1 3 5| ≤
    (7 * (1/32) + 6 * (1/32) ^ 2) * (|(3 - 1) * ((5 - 0) / (1 - 0))| + |(1 : ℚ)|) :=
  C06_linear_rounding 0 1 1 3 5 (1/32) (1/32) 0 0 0 0 (-1/32) (by norm_num) (by norm_num) (by norm_num)
    (by norm_num [abs_of_nonneg]) (by norm_num) (by norm_num) (by norm_num) (by norm_num) (by norm_num [abs_of_nonneg])

end

end NdInterp
