/-
C02 / C03 — rounding of the evaluation of one spline segment under the standard model of floating-point arithmetic.

`CubicSplineStrategy::interp_into` evaluates, for a query `x` in the interval `[x_l, x_r]` with data `y_l, y_r` and coefficients `a, b`,

    t = (x - x_l) / (x_r - x_l)
    (1 - t)·y_l + t·y_r + t·(1 - t)·(a·(1 - t) + b·t)

in 13 rounded operations (`1 - t` is computed three times from the same operands, hence with the same rounding).  With every operation
returning `exact·(1+δ)`, `|δ| ≤ u ≤ 1/16` (the model of `C01_rounding`; no overflow / underflow):

* `fl_mul`, `fl_add` : propagation of absolute errors through one rounded product / sum;
* `C02_eval_rounding` : for a query inside the interval, `|computed − exact| ≤ 102·u·M`, `M = max(|y_l|, |y_r|, |a|, |b|)`.

This bounds the rounding of the *evaluation* given the coefficients.  The coefficients themselves come out of a tridiagonal solve whose
rounding depends on the conditioning of the system (interval ratios); no bound is proved for that part — the float runs test it with a
tolerance scaled by the interval ratio (see `PARTIAL` of C02).
-/
import NdInterp.Props.C01
import NdInterp.Lemmas.Thomas

namespace NdInterp

section
variable {F : Type} [Field F] [LinearOrder F] [IsStrictOrderedRing F]

/-- one rounded product: absolute errors `ex`, `ey` of the factors, magnitudes `X`, `Y` of the exact factors -/
theorem fl_mul (x x' y y' d ex ey X Y u : F) (hx : |x' - x| ≤ ex) (hy : |y' - y| ≤ ey) (hX : |x| ≤ X) (hY : |y| ≤ Y)
    (hd : |d| ≤ u) :
    |x' * y' * (1 + d) - x * y| ≤ (X * ey + Y * ex + ex * ey) * (1 + u) + X * Y * u := by
  have hex : 0 ≤ ex := le_trans (abs_nonneg _) hx
  have hey : 0 ≤ ey := le_trans (abs_nonneg _) hy
  have hX0 : 0 ≤ X := le_trans (abs_nonneg _) hX
  have hY0 : 0 ≤ Y := le_trans (abs_nonneg _) hY
  have hu0 : 0 ≤ u := le_trans (abs_nonneg _) hd
  have e1 : x' * y' - x * y = x * (y' - y) + y * (x' - x) + (x' - x) * (y' - y) := by ring
  have b1 : |x' * y' - x * y| ≤ X * ey + Y * ex + ex * ey := by
    rw [e1]
    calc |x * (y' - y) + y * (x' - x) + (x' - x) * (y' - y)|
        ≤ |x * (y' - y)| + |y * (x' - x)| + |(x' - x) * (y' - y)| := abs_add_three _ _ _
      _ = |x| * |y' - y| + |y| * |x' - x| + |x' - x| * |y' - y| := by simp only [abs_mul]
      _ ≤ X * ey + Y * ex + ex * ey := by gcongr
  have b2 : |x * y| ≤ X * Y := by rw [abs_mul]; gcongr
  have b3 : |1 + d| ≤ 1 + u := by
    calc |1 + d| ≤ |1| + |d| := abs_add_le _ _
      _ ≤ 1 + u := by rw [abs_one]; linarith
  have e2 : x' * y' * (1 + d) - x * y = (x' * y' - x * y) * (1 + d) + x * y * d := by ring
  rw [e2]
  calc |(x' * y' - x * y) * (1 + d) + x * y * d| ≤ |(x' * y' - x * y) * (1 + d)| + |x * y * d| := abs_add_le _ _
    _ = |x' * y' - x * y| * |1 + d| + |x * y| * |d| := by simp only [abs_mul]
    _ ≤ (X * ey + Y * ex + ex * ey) * (1 + u) + X * Y * u := by
        have h0 : 0 ≤ X * ey + Y * ex + ex * ey := by positivity
        have h1 : 0 ≤ X * Y := by positivity
        gcongr

/-- one rounded sum -/
theorem fl_add (x x' y y' d ex ey X Y u : F) (hx : |x' - x| ≤ ex) (hy : |y' - y| ≤ ey) (hX : |x| ≤ X) (hY : |y| ≤ Y)
    (hd : |d| ≤ u) :
    |(x' + y') * (1 + d) - (x + y)| ≤ (ex + ey) * (1 + u) + (X + Y) * u := by
  have hex : 0 ≤ ex := le_trans (abs_nonneg _) hx
  have hey : 0 ≤ ey := le_trans (abs_nonneg _) hy
  have hu0 : 0 ≤ u := le_trans (abs_nonneg _) hd
  have b1 : |(x' + y') - (x + y)| ≤ ex + ey := by
    calc |(x' + y') - (x + y)| = |(x' - x) + (y' - y)| := by ring_nf
      _ ≤ |x' - x| + |y' - y| := abs_add_le _ _
      _ ≤ ex + ey := add_le_add hx hy
  have b2 : |x + y| ≤ X + Y := le_trans (abs_add_le _ _) (add_le_add hX hY)
  have b3 : |1 + d| ≤ 1 + u := by
    calc |1 + d| ≤ |1| + |d| := abs_add_le _ _
      _ ≤ 1 + u := by rw [abs_one]; linarith
  have e2 : (x' + y') * (1 + d) - (x + y) = ((x' + y') - (x + y)) * (1 + d) + (x + y) * d := by ring
  rw [e2]
  calc |((x' + y') - (x + y)) * (1 + d) + (x + y) * d| ≤ |((x' + y') - (x + y)) * (1 + d)| + |(x + y) * d| := abs_add_le _ _
    _ = |(x' + y') - (x + y)| * |1 + d| + |x + y| * |d| := by simp only [abs_mul]
    _ ≤ (ex + ey) * (1 + u) + (X + Y) * u := by
        have h0 : 0 ≤ ex + ey := by positivity
        have h1 : 0 ≤ X + Y := le_trans (abs_nonneg _) b2
        gcongr


/-! closing inequalities of the error chain (`w = u·M`; `u ≤ 1/16` absorbs the higher-order terms) -/

private theorem uw_le (u M : F) (hu0 : 0 ≤ u) (hu : u ≤ 1/16) (hM0 : 0 ≤ M) :
    0 ≤ u * M ∧ u * (u * M) ≤ u * M / 16 ∧ u * (u * (u * M)) ≤ u * M / 256 := by
  have w0 : 0 ≤ u * M := mul_nonneg hu0 hM0
  have h1 : u * (u * M) ≤ 1/16 * (u * M) := mul_le_mul_of_nonneg_right hu w0
  have h2 : u * (u * (u * M)) ≤ 1/16 * (u * (u * M)) := mul_le_mul_of_nonneg_right hu (mul_nonneg hu0 w0)
  refine ⟨w0, by linarith, by linarith⟩

private theorem uu_le (u : F) (hu0 : 0 ≤ u) (hu : u ≤ 1/16) : u * u ≤ u / 16 ∧ u * (u * u) ≤ u / 256 := by
  have h1 : u * u ≤ 1/16 * u := mul_le_mul_of_nonneg_right hu hu0
  have h2 : u * (u * u) ≤ 1/16 * (u * u) := mul_le_mul_of_nonneg_right hu (mul_nonneg hu0 hu0)
  exact ⟨by linarith, by linarith⟩

private theorem c_S (u : F) (hu0 : 0 ≤ u) (hu : u ≤ 1/16) : 6 * u * (1 + u) + 1 * u ≤ 8 * u := by
  obtain ⟨a, _⟩ := uu_le u hu0 hu; linarith

private theorem c_p1 (u M : F) (hu0 : 0 ≤ u) (hu : u ≤ 1/16) (hM0 : 0 ≤ M) :
    (1 * 0 + M * (8 * u) + 8 * u * 0) * (1 + u) + 1 * M * u ≤ 10 * (u * M) := by
  obtain ⟨a, b, _⟩ := uw_le u M hu0 hu hM0; linarith

private theorem c_p2 (u M : F) (hu0 : 0 ≤ u) (hu : u ≤ 1/16) (hM0 : 0 ≤ M) :
    (1 * 0 + M * (6 * u) + 6 * u * 0) * (1 + u) + 1 * M * u ≤ 8 * (u * M) := by
  obtain ⟨a, b, _⟩ := uw_le u M hu0 hu hM0; linarith

private theorem c_A (u M t : F) (hu0 : 0 ≤ u) (hu : u ≤ 1/16) (hM0 : 0 ≤ M) :
    (10 * (u * M) + 8 * (u * M)) * (1 + u) + ((1 - t) * M + t * M) * u ≤ 21 * (u * M) := by
  obtain ⟨a, b, _⟩ := uw_le u M hu0 hu hM0; linarith

private theorem c_q1 (u : F) (hu0 : 0 ≤ u) (hu : u ≤ 1/16) :
    (1 * (8 * u) + 1 * (6 * u) + 6 * u * (8 * u)) * (1 + u) + 1 * 1 * u ≤ 20 * u := by
  obtain ⟨a, b⟩ := uu_le u hu0 hu; linarith

private theorem c_r1 (u M : F) (hu0 : 0 ≤ u) (hu : u ≤ 1/16) (hM0 : 0 ≤ M) :
    (M * (8 * u) + 1 * 0 + 0 * (8 * u)) * (1 + u) + M * 1 * u ≤ 10 * (u * M) := by
  obtain ⟨a, b, _⟩ := uw_le u M hu0 hu hM0; linarith

private theorem c_r2 (u M : F) (hu0 : 0 ≤ u) (hu : u ≤ 1/16) (hM0 : 0 ≤ M) :
    (M * (6 * u) + 1 * 0 + 0 * (6 * u)) * (1 + u) + M * 1 * u ≤ 8 * (u * M) := by
  obtain ⟨a, b, _⟩ := uw_le u M hu0 hu hM0; linarith

private theorem c_q (u M : F) (hu0 : 0 ≤ u) (hu : u ≤ 1/16) (hM0 : 0 ≤ M) :
    (1 * (21 * (u * M)) + M * (20 * u) + 20 * u * (21 * (u * M))) * (1 + u) + 1 * M * u ≤ 73 * (u * M) := by
  obtain ⟨a, b, c⟩ := uw_le u M hu0 hu hM0; linarith

private theorem c_fin (u M : F) (hu0 : 0 ≤ u) (hu : u ≤ 1/16) (hM0 : 0 ≤ M) :
    (21 * (u * M) + 73 * (u * M)) * (1 + u) + (M + M) * u ≤ 102 * u * M := by
  obtain ⟨a, b, _⟩ := uw_le u M hu0 hu hM0; linarith

/-- the segment evaluation of `CubicSplineStrategy::interp_into` with every operation rounded -/
def splEvalFl (xl xr yl yr a b x d1 d2 d3 d4 d5 d6 d7 d8 d9 d10 d11 d12 d13 : F) : F :=
  let T := (x - xl) * (1 + d1) / ((xr - xl) * (1 + d2)) * (1 + d3)
  let S := (1 - T) * (1 + d4)
  let p1 := S * yl * (1 + d5)
  let p2 := T * yr * (1 + d6)
  let A := (p1 + p2) * (1 + d7)
  let q1 := T * S * (1 + d8)
  let r1 := a * S * (1 + d9)
  let r2 := b * T * (1 + d10)
  let R := (r1 + r2) * (1 + d11)
  let q := q1 * R * (1 + d12)
  (A + q) * (1 + d13)

/-- the exact segment value, as the model's `splineEvalAt` computes it -/
def splEvalExact (xl xr yl yr a b x : F) : F :=
  let t := (x - xl) / (xr - xl)
  (1 - t) * yl + t * yr + t * (1 - t) * (a * (1 - t) + b * t)

omit [LinearOrder F] [IsStrictOrderedRing F] in
theorem splEvalFl_zero (xl xr yl yr a b x : F) :
    splEvalFl xl xr yl yr a b x 0 0 0 0 0 0 0 0 0 0 0 0 0 = splEvalExact xl xr yl yr a b x := by
  simp [splEvalFl, splEvalExact]

omit [LinearOrder F] [IsStrictOrderedRing F] in
/-- `splEvalExact` is the expression of the model's `splineEvalAt` on one lane (which `FT_spl_eval` ties to the source text) -/
theorem C02_eval_exact_is_model (x xL xR yL yR aL bL : F) :
    (let t := (x - xL) / (xR - xL)
     Lanes.map4 (V := F) (fun yLeft yRight aLeft bLeft =>
       (c1 - t) * yLeft + t * yRight + t * (c1 - t) * (aLeft * (c1 - t) + bLeft * t)) yL yR aL bL)
      = splEvalExact xL xR yL yR aL bL x := by
  simp [splEvalExact, map4_scalar, c1]

/-- **C02_eval_rounding**: inside the interval the rounded segment evaluation is within `102·u·M` of the exact one -/
theorem C02_eval_rounding (xl xr yl yr a b x u M d1 d2 d3 d4 d5 d6 d7 d8 d9 d10 d11 d12 d13 : F)
    (hx : xl < xr) (h1 : xl ≤ x) (h2 : x ≤ xr) (hu0 : 0 ≤ u) (hu : u ≤ 1/16)
    (e1 : |d1| ≤ u) (e2 : |d2| ≤ u) (e3 : |d3| ≤ u) (e4 : |d4| ≤ u) (e5 : |d5| ≤ u) (e6 : |d6| ≤ u) (e7 : |d7| ≤ u)
    (e8 : |d8| ≤ u) (e9 : |d9| ≤ u) (e10 : |d10| ≤ u) (e11 : |d11| ≤ u) (e12 : |d12| ≤ u) (e13 : |d13| ≤ u)
    (hyl : |yl| ≤ M) (hyr : |yr| ≤ M) (ha : |a| ≤ M) (hb : |b| ≤ M) :
    |splEvalFl xl xr yl yr a b x d1 d2 d3 d4 d5 d6 d7 d8 d9 d10 d11 d12 d13 - splEvalExact xl xr yl yr a b x| ≤ 102 * u * M := by
  have hM0 : 0 ≤ M := le_trans (abs_nonneg _) hyl
  have hd : 0 < xr - xl := sub_pos.mpr hx
  have a2 := abs_le.mp e2
  have h2pos : 0 < 1 + d2 := by linarith
  unfold splEvalFl splEvalExact
  simp only
  set t := (x - xl) / (xr - xl) with ht
  have ht0 : 0 ≤ t := div_nonneg (by linarith) hd.le
  have ht1 : t ≤ 1 := by rw [ht, div_le_one hd]; linarith
  -- the rounded t
  have hT : (x - xl) * (1 + d1) / ((xr - xl) * (1 + d2)) * (1 + d3) = t * ((1 + d1) * (1 + d3) * (1 + 0) * (1 + 0) / (1 + d2)) := by
    rw [ht]; field_simp; ring
  rw [hT]
  set θ := (1 + d1) * (1 + d3) * (1 + 0) * (1 + 0) / (1 + d2) with hθ
  have hθb : |θ - 1| ≤ 6 * u :=
    theta_bound u d1 d2 d3 0 0 hu0 hu e1 e2 e3 (by simpa using hu0) (by simpa using hu0)
  set T := t * θ with hTdef
  have abs_t : |t| ≤ 1 := by rw [abs_of_nonneg ht0]; exact ht1
  have abs_s : |1 - t| ≤ 1 := by rw [abs_of_nonneg (by linarith)]; linarith
  -- T
  have rT : |T - t| ≤ 6 * u := by
    have : T - t = t * (θ - 1) := by rw [hTdef]; ring
    rw [this, abs_mul, abs_of_nonneg ht0]
    calc t * |θ - 1| ≤ 1 * (6 * u) := by gcongr
      _ = 6 * u := one_mul _
  -- S = (1 - T)(1 + d4)
  set S := (1 - T) * (1 + d4) with hSdef
  have rS : |S - (1 - t)| ≤ 8 * u := by
    have e : S - (1 - t) = (t - T) * (1 + d4) + (1 - t) * d4 := by rw [hSdef]; ring
    have b3 : |1 + d4| ≤ 1 + u := by
      calc |1 + d4| ≤ |1| + |d4| := abs_add_le _ _
        _ ≤ 1 + u := by rw [abs_one]; linarith
    rw [e]
    calc |(t - T) * (1 + d4) + (1 - t) * d4| ≤ |(t - T) * (1 + d4)| + |(1 - t) * d4| := abs_add_le _ _
      _ = |T - t| * |1 + d4| + |1 - t| * |d4| := by rw [abs_mul, abs_mul, abs_sub_comm t T]
      _ ≤ 6 * u * (1 + u) + 1 * u := by gcongr
      _ ≤ 8 * u := c_S u hu0 hu
  -- p1 = S·yl, p2 = T·yr, A = p1 + p2
  have rp1 : |S * yl * (1 + d5) - (1 - t) * yl| ≤ 10 * (u * M) := by
    exact le_trans (fl_mul (1 - t) S yl yl d5 (8 * u) 0 1 M u rS (by simp) abs_s hyl e5) (c_p1 u M hu0 hu hM0)
  have rp2 : |T * yr * (1 + d6) - t * yr| ≤ 8 * (u * M) := by
    exact le_trans (fl_mul t T yr yr d6 (6 * u) 0 1 M u rT (by simp) abs_t hyr e6) (c_p2 u M hu0 hu hM0)
  have bp1 : |(1 - t) * yl| ≤ (1 - t) * M := by
    rw [abs_mul, abs_of_nonneg (by linarith : 0 ≤ 1 - t)]
    exact mul_le_mul_of_nonneg_left hyl (by linarith)
  have bp2 : |t * yr| ≤ t * M := by
    rw [abs_mul, abs_of_nonneg ht0]
    exact mul_le_mul_of_nonneg_left hyr ht0
  have rA : |(S * yl * (1 + d5) + T * yr * (1 + d6)) * (1 + d7) - ((1 - t) * yl + t * yr)| ≤ 21 * (u * M) := by
    exact le_trans (fl_add _ _ _ _ d7 _ _ _ _ u rp1 rp2 bp1 bp2 e7) (c_A u M t hu0 hu hM0)
  have bA : |(1 - t) * yl + t * yr| ≤ M := by
    refine le_trans (abs_add_le _ _) ?_
    linarith
  -- q1 = T·S
  have rq1 : |T * S * (1 + d8) - t * (1 - t)| ≤ 20 * u := by
    exact le_trans (fl_mul t T (1 - t) S d8 (6 * u) (8 * u) 1 1 u rT rS abs_t abs_s e8) (c_q1 u hu0 hu)
  have bq1 : |t * (1 - t)| ≤ 1 := by
    rw [abs_mul]
    calc |t| * |1 - t| ≤ 1 * 1 := by gcongr
      _ = 1 := one_mul _
  -- r1 = a·S, r2 = b·T, R = r1 + r2
  have rr1 : |a * S * (1 + d9) - a * (1 - t)| ≤ 10 * (u * M) := by
    exact le_trans (fl_mul a a (1 - t) S d9 0 (8 * u) M 1 u (by simp) rS ha abs_s e9) (c_r1 u M hu0 hu hM0)
  have rr2 : |b * T * (1 + d10) - b * t| ≤ 8 * (u * M) := by
    exact le_trans (fl_mul b b t T d10 0 (6 * u) M 1 u (by simp) rT hb abs_t e10) (c_r2 u M hu0 hu hM0)
  have br1 : |a * (1 - t)| ≤ (1 - t) * M := by
    rw [abs_mul, abs_of_nonneg (by linarith : 0 ≤ 1 - t), mul_comm]
    exact mul_le_mul_of_nonneg_left ha (by linarith)
  have br2 : |b * t| ≤ t * M := by
    rw [abs_mul, abs_of_nonneg ht0, mul_comm]
    exact mul_le_mul_of_nonneg_left hb ht0
  have rR : |(a * S * (1 + d9) + b * T * (1 + d10)) * (1 + d11) - (a * (1 - t) + b * t)| ≤ 21 * (u * M) := by
    exact le_trans (fl_add _ _ _ _ d11 _ _ _ _ u rr1 rr2 br1 br2 e11) (c_A u M t hu0 hu hM0)
  have bR : |a * (1 - t) + b * t| ≤ M := by
    refine le_trans (abs_add_le _ _) ?_
    linarith
  -- q = q1·R
  have rq : |T * S * (1 + d8) * ((a * S * (1 + d9) + b * T * (1 + d10)) * (1 + d11)) * (1 + d12)
      - t * (1 - t) * (a * (1 - t) + b * t)| ≤ 73 * (u * M) := by
    exact le_trans (fl_mul _ _ _ _ d12 _ _ _ _ u rq1 rR bq1 bR e12) (c_q u M hu0 hu hM0)
  have bq : |t * (1 - t) * (a * (1 - t) + b * t)| ≤ M := by
    rw [abs_mul]
    calc |t * (1 - t)| * |a * (1 - t) + b * t| ≤ 1 * M := by gcongr
      _ = M := one_mul _
  -- the final sum
  exact le_trans (fl_add _ _ _ _ d13 _ _ _ _ u rA rq bA bq e13) (c_fin u M hu0 hu hM0)

/-- non-vacuity: the hypotheses are met by an ordinary segment and concrete perturbations -/
example : |splEvalFl (0 : ℚ) 2 1 3 (-1) 2 (1/2) (1/32) 0 0 0 0 (-1/32) 0 0 0 0 0 0 (1/32)
    - splEvalExact 0 2 1 3 (-1) 2 (1/2)| ≤ 102 * (1/32) * 3 :=
  C02_eval_rounding 0 2 1 3 (-1) 2 (1/2) (1/32) 3 (1/32) 0 0 0 0 (-1/32) 0 0 0 0 0 0 (1/32)
    (by norm_num) (by norm_num) (by norm_num) (by norm_num) (by norm_num)
    (by norm_num [abs_of_nonneg]) (by norm_num) (by norm_num) (by norm_num) (by norm_num) (by norm_num [abs_of_nonneg]) (by norm_num)
    (by norm_num) (by norm_num) (by norm_num) (by norm_num) (by norm_num) (by norm_num [abs_of_nonneg])
    (by norm_num [abs_of_nonneg]) (by norm_num [abs_of_nonneg]) (by norm_num [abs_of_nonneg]) (by norm_num [abs_of_nonneg])

end

end NdInterp
