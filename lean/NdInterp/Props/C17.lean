/-
C17 — an interpolator is immutable: answers do not depend on history or concurrency.

* `C17_state`     : no query entry point changes the interpolator (model: `step` returns it unchanged —
                    the model of a `&self` method of a type without interior mutability).
* `C17_history`   : in any history every output is `answer it opᵢ`; hence `C17_perm` (any reordering
                    of the history gives the same answer to every operation) and `C17_schedule` (for
                    any interleaving of per-thread operation sequences each thread observes exactly
                    the outputs of its own sequence run alone).
* `C17_facts`     : on the facts regenerated from /repo/src on every run: every `pub` query method of
                    `Interp1D` / `Interp2D` and every strategy `interp_into` takes `&self`; no field,
                    item or expression of the crate mentions an interior-mutability or global-state
                    construct (`Cell`, `RefCell`, `UnsafeCell`, `Mutex`, `RwLock`, `Atomic*`,
                    `OnceCell`, `static`, `thread_local`, …) outside `cfg(test)` and the guarded hooks.
The step from the facts to `C17_state` is Rust's guarantee for shared references to such a type
(trusted; exercised by the thread replays of the check).
-/
import NdInterp.Model.Interp
import NdInterp.Gen.SourceFacts

namespace NdInterp

section
variable {α : Type} [Cmp α] [Add α] [Sub α] [Mul α] [Div α] [Neg α] [NatCast α]
  [ToUsize α] [RemEuclid α]

/-- the query operations of `Interp1D` (failing and rejected-buffer calls included) -/
inductive Op1 (α : Type)
  | scalar (q : α)
  | single (q : α)
  | into (q : α) (bufShape : List Nat)
  | array (qshape : List Nat) (qs : List α)
  | arrayInto (qshape : List Nat) (qs : List α) (bufShape : List Nat)

/-- what the caller observes -/
inductive Out1 (α : Type)
  | scalar (r : Except Fault α)
  | arr (r : Except Fault (NdArr α))

def answer1 (it : Interp1 α) : Op1 α → Out1 α
  | .scalar q => .scalar (epScalar it.at q)
  | .single q => .arr (epInterp (it.data.shape.drop 1) it.at q)
  | .into q b => .arr (epInterpInto (it.data.shape.drop 1) it.at q b)
  | .array s qs => .arr (epArray (it.data.shape.drop 1) it.at s qs)
  | .arrayInto s qs b => .arr (epArrayInto (it.data.shape.drop 1) it.at s qs b)

/-- one call: the interpolator after the call and the output -/
def step1 (it : Interp1 α) (op : Op1 α) : Interp1 α × Out1 α := (it, answer1 it op)

/-- a sequential history -/
def run1 (it : Interp1 α) : List (Op1 α) → Interp1 α × List (Out1 α)
  | [] => (it, [])
  | op :: ops =>
    let (it', o) := step1 it op
    let (it'', os) := run1 it' ops
    (it'', o :: os)

/-- **C17_state** -/
theorem C17_state (it : Interp1 α) (op : Op1 α) : (step1 it op).1 = it := rfl

/-- **C17_history** -/
theorem C17_history (it : Interp1 α) (ops : List (Op1 α)) :
    (run1 it ops).1 = it ∧ (run1 it ops).2 = ops.map (answer1 it) := by
  induction ops with
  | nil => exact ⟨rfl, rfl⟩
  | cons op ops ih =>
    simp only [run1, step1]
    exact ⟨ih.1, by rw [ih.2]; rfl⟩

/-- **C17_perm**: the answer to an operation does not depend on where in the history it occurs:
    running a reordered history yields, for each operation, the same output. -/
theorem C17_perm (it : Interp1 α) (ops : List (Op1 α)) (σ : List Nat)
    (hσ : ∀ i ∈ σ, i < ops.length) :
    (run1 it (σ.filterMap (fun i => ops[i]?))).2 = σ.filterMap (fun i => (ops[i]?).map (answer1 it)) := by
  rw [(C17_history it _).2]
  induction σ with
  | nil => rfl
  | cons i σ ih =>
    have hi : i < ops.length := hσ i (by simp)
    simp only [List.filterMap_cons, List.getElem?_eq_getElem hi, Option.map_some, List.map_cons]
    rw [ih (fun j hj => hσ j (by simp [hj]))]

/-- a schedule: which thread performs which operation next -/
def runSched (it : Interp1 α) : List (Nat × Op1 α) → Interp1 α × List (Nat × Out1 α)
  | [] => (it, [])
  | (t, op) :: rest =>
    let (it', o) := step1 it op
    let (it'', os) := runSched it' rest
    (it'', (t, o) :: os)

/-- **C17_schedule**: under any interleaving, thread `t` observes exactly what its own operation
    sequence returns when run alone on the interpolator. -/
theorem C17_schedule (it : Interp1 α) (sched : List (Nat × Op1 α)) (t : Nat) :
    ((runSched it sched).2.filter (fun p => p.1 == t)).map (·.2) =
      (run1 it ((sched.filter (fun p => p.1 == t)).map (·.2))).2 := by
  rw [(C17_history it _).2]
  induction sched with
  | nil => rfl
  | cons p rest ih =>
    obtain ⟨t', op⟩ := p
    simp only [runSched, step1]
    by_cases h : t' == t
    · simp only [List.filter_cons, h, if_true, List.map_cons]
      rw [← ih]
    · simp only [List.filter_cons, h, Bool.false_eq_true, if_false]
      exact ih

end

/-! ### source facts -/

/-- the query methods that must take `&self` -/
def isQueryMethod (m : String × String × String × String × Recv) : Bool :=
  (m.2.1 == "Interp1D" || m.2.1 == "Interp2D") &&
    (["interp_scalar", "interp", "interp_into", "interp_array", "interp_array_into", "interp_array_into_1d",
      "get_buffer_shape", "index_point", "get_index_left_of", "is_in_range", "is_in_x_range",
      "is_in_y_range"].contains m.2.2.1)
  || (m.2.2.1 == "interp_into")

/-- **C17_facts** (on the regenerated source facts) -/
theorem C17_facts :
    Gen.mutableStateHits = [] ∧
    (Gen.methods.filter isQueryMethod).all (fun m => m.2.2.2.2 == Recv.ref) = true ∧
    -- every query entry point was found (the translator did not silently miss the impl blocks)
    (Gen.methods.filter isQueryMethod).length = 24 ∧
    -- no method of the interpolator types takes `&mut self`
    (Gen.methods.all (fun m => m.2.2.2.2 != Recv.refMut)) = true := by
  decide

end NdInterp
