/-
C08 — every lane of n-dimensional data is interpolated independently.

All statements hold for ARBITRARY scalar operations (no algebraic law is used, only the data
flow), hence bit-for-bit for IEEE arithmetic.  `col j ys` is lane `j` of the data rows.
The multi-lane model keeps the structure of the code (diagonals and elimination factors shared by
all lanes, every lane-wise `Zip` one `Lanes.mapN`); the single-lane model is the same code at
`V = α`.  Both are related through the lane projection `row ↦ row[j]?` (`projHom`) and the
embedding `some` (`someHom`), with which every model function commutes (`Lemmas/LanesHom.lean`).

* `C08_linear`, `C08_bilinear` : lane `j` of the n-d result is the result of the 1-D (2-D)
                                 interpolator built from lane `j` alone.
* `C08_spline_solve`           : lane `j` of the slopes `solve_for_k` computes for n-d data (shared
                                 `w`, shared diagonals) is `solve_for_k` of lane `j`.
* `C08_periodic_lanes`, `C08_periodic_reject` : the Periodic boundary on n-d data — its equal-ends test is the one operation
                                 that looks at all lanes at once: if it passes, it passes for every lane and lane `j` of the
                                 slopes is the periodic solve of lane `j` alone; if some lane fails it, the build is a
                                 `ValueError` whatever the other lanes hold.
* `C08_spline_coeffs`, `C08_spline_eval` : the same for coefficient extraction and evaluation.
* `C08_other_lanes`            : consequently two data sets that agree on lane `j` (whatever the
                                 other lanes hold) give identical lane-`j` results.
* `C08_spline_build_lanes`     : over an ordered field the n-d build of validated data succeeds (no
                                 error, no panic) and each lane of its slopes is the unique solution
                                 of that lane's own system.
* `C08_individual`             : Individual boundary arrays — lane `j` of the slopes is `solve_for_k`
                                 of lane `j` with boundary `bounds[j]` (the transposition back
                                 into rows included); the flattening multi-index ↔ lane of the
                                 real arrays is exercised by the check.
-/
import NdInterp.Lemmas.LanesHom
import NdInterp.Lemmas.SplineSys
import NdInterp.Model.Interp

namespace NdInterp

section
variable {α : Type} [Cmp α] [Add α] [Sub α] [Mul α] [Div α] [Neg α] [NatCast α] [ToUsize α]
  [RemEuclid α]

/-- lane `j` of every row is present and equals the single-lane data `y1` -/
def IsLane (j : Nat) (ys : List (List α)) (y1 : List α) : Prop :=
  ys.map (fun r => r[j]?) = y1.map some

/-- **C08_linear** -/
theorem C08_linear (ext : Bool) (xs : List α) (ys : List (List α)) (y1 : List α) (q : α) (j : Nat)
    (h : IsLane j ys y1) :
    (linearInterp (V := List α) ext xs ys q).map (fun r => r[j]?) =
      (linearInterp (V := α) ext xs y1 q).map some := by
  rw [← linearInterp_nat _ (projHom j), ← linearInterp_nat _ someHom, h]

/-- **C08_bilinear** -/
theorem C08_bilinear (ext : Bool) (xs ys : List α) (zs : List (List (List α))) (z1 : List (List α))
    (x y : α) (j : Nat) (h : zs.map (·.map (fun r => r[j]?)) = z1.map (·.map some)) :
    (bilinearInterp (V := List α) ext xs ys zs x y).map (fun r => r[j]?) =
      (bilinearInterp (V := α) ext xs ys z1 x y).map some := by
  rw [← bilinearInterp_nat _ (projHom j), ← bilinearInterp_nat _ someHom, h]

/-- **C08_spline_solve**: the n-d tridiagonal solve, lane by lane. -/
theorem C08_spline_solve (xs : List α) (ys : List (List α)) (y1 : List α) (b : InternalBoundary α)
    (j : Nat) (h : IsLane j ys y1)
    (hper : b.specialize = .periodic → ∀ e, getEnds xs ys = .ok e → Lanes.all2 Cmp.eq e.y0 e.yl1 = true)
    (hper1 : b.specialize = .periodic → ∀ e, getEnds xs y1 = .ok e → Lanes.all2 Cmp.eq e.y0 e.yl1 = true) :
    (solveForK (V := List α) xs ys b).map (List.map (fun r => r[j]?)) =
      (solveForK (V := α) xs y1 b).map (List.map some) := by
  rw [← solveForK_nat _ (projHom j) xs ys b hper, ← solveForK_nat _ someHom xs y1 b hper1, h]

/-- **C08_periodic_lanes**: Periodic boundary on n-d data.  The equal-ends test is the one operation that looks at all lanes at
    once; when it passes for the rows it passes for every lane (`all2List_getElem?`), and lane `j` of the slopes is then the
    periodic solve of lane `j` alone — again for arbitrary scalar operations. -/
theorem C08_periodic_lanes (xs : List α) (ys : List (List α)) (y1 : List α) (j : Nat) (h : IsLane j ys y1)
    (hall : ∀ e, getEnds xs ys = .ok e → Lanes.all2 Cmp.eq e.y0 e.yl1 = true) :
    (solveForK (V := List α) xs ys .periodic).map (List.map (fun r => r[j]?)) =
      (solveForK (V := α) xs y1 .periodic).map (List.map some) := by
  refine C08_spline_solve xs ys y1 .periodic j h (fun _ => hall) (fun _ e1 he1 => ?_)
  -- the lane's own ends are the projections of the rows' ends
  have hn : getEnds xs (ys.map (fun r => r[j]?)) = getEnds xs (y1.map some) := by rw [h]
  rw [getEnds_nat, getEnds_nat, he1] at hn
  cases hge : getEnds xs ys with
  | error err => rw [hge] at hn; simp [Except.map] at hn
  | ok e =>
    rw [hge] at hn
    simp only [Except.map, Except.ok.injEq] at hn
    have hp := (projHom (α := α) j).all2 Cmp.eq e.y0 e.yl1 (hall e hge)
    have h0 : e.y0[j]? = some e1.y0 := by
      have := congrArg Ends.y0 hn; simpa [Ends.mapY] using this
    have hl : e.yl1[j]? = some e1.yl1 := by
      have := congrArg Ends.yl1 hn; simpa [Ends.mapY] using this
    rw [h0, hl] at hp
    exact hp

/-- … and when the rows' first and last values differ in some lane the n-d build is rejected with a `ValueError`
    (for data long enough to have its end rows), whatever the other lanes hold. -/
theorem C08_periodic_reject (xs : List α) (ys : List (List α)) (e : Ends α (List α))
    (hlen : 3 ≤ ys.length ∧ xs.length = ys.length) (he : getEnds xs ys = .ok e)
    (hbad : Lanes.all2 Cmp.eq e.y0 e.yl1 = false) :
    solveForK (V := List α) xs ys .periodic = .error (.builder .valueError) := by
  unfold solveForK
  simp only [bind, Except.bind, he, InternalBoundary.specialize, hbad]
  rw [if_neg (by simpa using hlen)]
  rfl

/-- **C08_spline_coeffs** -/
theorem C08_spline_coeffs (xs : List α) (ys ks : List (List α)) (y1 k1 : List α) (j : Nat)
    (h : IsLane j ys y1) (hk : IsLane j ks k1) :
    (coeffs xs ys ks).map (fun p => (p.1[j]?, p.2[j]?)) =
      (coeffs (V := α) xs y1 k1).map (fun p => (some p.1, some p.2)) := by
  rw [← coeffs_nat _ (projHom j), ← coeffs_nat _ someHom, h, hk]

/-- **C08_spline_eval** -/
theorem C08_spline_eval (a b : List (List α)) (a1 b1 : List α) (extr : Extrapolate) (xs : List α)
    (ys : List (List α)) (y1 : List α) (q : α) (j : Nat)
    (h : IsLane j ys y1) (ha : IsLane j a a1) (hb : IsLane j b b1) :
    (splineInterp { a := a, b := b, extrapolate := extr } xs ys q).map (fun r => r[j]?) =
      (splineInterp (V := α) { a := a1, b := b1, extrapolate := extr } xs y1 q).map some := by
  rw [← splineInterp_nat _ (projHom j), ← splineInterp_nat _ someHom]
  unfold IsLane at h ha hb
  rw [h, ha, hb]

/-- **C08_other_lanes**: changing other lanes leaves lane `j` of a Linear result identical. -/
theorem C08_other_lanes (ext : Bool) (xs : List α) (ys ys' : List (List α)) (q : α) (j : Nat)
    (h : ys.map (fun r => r[j]?) = ys'.map (fun r => r[j]?)) :
    (linearInterp (V := List α) ext xs ys q).map (fun r => r[j]?) =
      (linearInterp (V := List α) ext xs ys' q).map (fun r => r[j]?) := by
  rw [← linearInterp_nat _ (projHom j), ← linearInterp_nat _ (projHom j), h]

/-- … and of the spline's slopes (non-periodic: no check across lanes) -/
theorem C08_other_lanes_spline (xs : List α) (ys ys' : List (List α)) (left right : SingleBoundary α)
    (j : Nat) (h : ys.map (fun r => r[j]?) = ys'.map (fun r => r[j]?)) :
    (solveForK (V := List α) xs ys (.mixed left right)).map (List.map (fun r => r[j]?)) =
      (solveForK (V := List α) xs ys' (.mixed left right)).map (List.map (fun r => r[j]?)) := by
  rw [← solveForK_nat _ (projHom j) xs ys _ (by intro hc; simp [InternalBoundary.specialize] at hc),
    ← solveForK_nat _ (projHom j) xs ys' _ (by intro hc; simp [InternalBoundary.specialize] at hc), h]

end

section individual
variable {α : Type} [Cmp α] [Add α] [Sub α] [Mul α] [Div α] [Neg α] [NatCast α]

theorem mapM_ok {β γ : Type} (f : β → Except Fault γ) (l : List β) (r : List γ)
    (h : l.mapM f = .ok r) :
    r.length = l.length ∧ ∀ i (hi : i < l.length) (hr : i < r.length), f l[i] = .ok r[i] := by
  induction l generalizing r with
  | nil =>
    simp only [List.mapM_nil, pure, Except.pure, Except.ok.injEq] at h
    subst h
    exact ⟨rfl, fun i hi => absurd hi (by simp)⟩
  | cons a as ih =>
    rw [List.mapM_cons] at h
    cases hfa : f a with
    | error e => rw [hfa] at h; simp [bind, Except.bind] at h
    | ok y =>
      cases hm : as.mapM f with
      | error e => rw [hfa, hm] at h; simp [bind, Except.bind] at h
      | ok ys =>
        rw [hfa, hm] at h
        simp only [bind, Except.bind, pure, Except.pure, Except.ok.injEq] at h
        subst h
        obtain ⟨hl, hi⟩ := ih ys hm
        refine ⟨by simp [hl], ?_⟩
        intro i h1 h2
        cases i with
        | zero => simpa using hfa
        | succ i => simpa using hi i (by simpa using h1) (by simpa using h2)

/-- **C08_individual**: with per-lane boundary conditions (`BoundaryCondition::Individual`) lane `j`
    of the slopes is `solve_for_k` of lane `j` of the data with lane `j`'s own boundary — nothing
    else enters: an answered n-d solve means every lane's own solve was answered, and entry `[i][j]`
    of the result is entry `i` of lane `j`'s slopes. -/
theorem C08_individual (xs : List α) (rows : List (List α)) (L : Nat) (bounds : List (RowBoundary α))
    (ks : List (List α)) (h : solveIndividual xs rows L bounds = .ok ks) (j : Nat) (hj : j < L) :
    ∃ col b kcol, rows.mapM (fun r => rd r j) = .ok col ∧ rd bounds j = .ok b ∧
      solveForK (V := α) xs col b.toInternal = .ok kcol ∧ ks.length = rows.length ∧
      ∀ i (hi : i < ks.length), ∃ v, (ks[i])[j]? = some v ∧ rd kcol i = .ok v := by
  unfold solveIndividual at h
  simp only [bind, Except.bind] at h
  cases hc : (List.range L).mapM (fun j => (rows.mapM (fun r => rd r j)).bind fun col =>
      (rd bounds j).bind fun b => solveForK (V := α) xs col b.toInternal) with
  | error e =>
    simp only [Except.bind] at hc
    rw [hc] at h; simp at h
  | ok cols =>
    simp only [Except.bind] at hc
    rw [hc] at h
    simp only [transposeLanes] at h
    obtain ⟨hcl, hci⟩ := mapM_ok _ _ _ hc
    have hjc : j < cols.length := by rw [hcl]; simpa using hj
    have hcj := hci j (by simpa using hj) hjc
    simp only [List.getElem_range] at hcj
    cases hcol : rows.mapM (fun r => rd r j) with
    | error e => rw [hcol] at hcj; simp at hcj
    | ok col =>
      rw [hcol] at hcj
      cases hb : rd bounds j with
      | error e => rw [hb] at hcj; simp at hcj
      | ok b =>
        rw [hb] at hcj
        simp only at hcj
        obtain ⟨hkl, hki⟩ := mapM_ok _ _ _ h
        refine ⟨col, b, cols[j], rfl, rfl, hcj, by simpa using hkl, ?_⟩
        intro i hi
        have hi' : i < (List.range rows.length).length := by rw [← hkl]; exact hi
        have hrow := hki i hi' hi
        simp only [List.getElem_range] at hrow
        obtain ⟨hrl, hri⟩ := mapM_ok _ _ _ hrow
        have hjr : j < (ks[i]).length := by rw [hrl]; exact hjc
        have := hri j hjc hjr
        exact ⟨_, List.getElem?_eq_getElem hjr, this⟩

end individual

section field
variable {F : Type} [Field F] [LinearOrder F] [IsStrictOrderedRing F] [Cmp F] [LawfulCmp F]
  [ToUsize F] [RemEuclid F]

/-- **C08_spline_build_lanes**: over an ordered field the n-d build of a validated data set
    (strictly increasing axis, one data row per knot, every row containing lane `j`) succeeds —
    it neither fails nor panics — and lane `j` of its slopes is *the* solution of lane `j`'s own
    system (`solveForK_spec`: the unique slopes satisfying the rows).  Every single-lane theorem
    of C02/C03/C16 therefore holds for every lane of n-d data. -/
theorem C08_spline_build_lanes (xs : List F) (ys : List (List F)) (y1 : List F) (j : Nat)
    (h : IsLane j ys y1) (hs : StrictInc xs) (hy : ys.length = xs.length) (hn : 3 ≤ xs.length)
    (left right : SingleBoundary F) :
    ∃ ks k1, solveForK (V := List F) xs ys (.mixed left right) = .ok ks ∧
      solveForK (V := F) xs y1 (.mixed left right) = .ok k1 ∧ IsLane j ks k1 ∧
      ks.length = xs.length := by
  have hy1 : y1.length = xs.length := by
    have := congrArg List.length h
    simp only [List.length_map] at this
    omega
  obtain ⟨k1, hk1, hlen, _, _⟩ := solveForK_spec xs y1 hy1 hn hs left right
  have hnat := C08_spline_solve xs ys y1 (.mixed left right) j h
    (by intro hc; simp [InternalBoundary.specialize] at hc)
    (by intro hc; simp [InternalBoundary.specialize] at hc)
  rw [hk1] at hnat
  cases hsol : solveForK (V := List F) xs ys (.mixed left right) with
  | error e => rw [hsol] at hnat; simp [Except.map] at hnat
  | ok ks =>
    rw [hsol] at hnat
    simp only [Except.map, Except.ok.injEq] at hnat
    refine ⟨ks, k1, rfl, hk1, hnat, ?_⟩
    have := congrArg List.length hnat
    simp only [List.length_map] at this
    omega

end field

end NdInterp
