/-
C08 — every lane of n-dimensional data is interpolated independently.

All statements hold for ARBITRARY scalar operations (no algebraic law is used, only the data
flow), hence bit-for-bit for IEEE arithmetic.  `col j ys` is lane `j` of the data rows.
The multi-lane model keeps the structure of the code (diagonals and elimination factors shared by
all lanes, every lane-wise `Zip` one `Lanes.mapN`); the single-lane model is the same code at
`V = α`.  Both are related through the lane projection `row ↦ row[j]?` (`projHom`) and the
embedding `some` (`someHom`), with which every model function commutes (`Lemmas/LanesHom.lean`).

* `C08_linear`, `C08_bilinear` : lane `j` of the n-d result is the result of the 1-D (2-D)
                                 interpolator built from lane `j` alone.
* `C08_spline_solve`           : lane `j` of the slopes `solve_for_k` computes for n-d data (shared
                                 `w`, shared diagonals) is `solve_for_k` of lane `j`.
* `C08_spline_coeffs`, `C08_spline_eval` : the same for coefficient extraction and evaluation.
* `C08_other_lanes`            : consequently two data sets that agree on lane `j` (whatever the
                                 other lanes hold) give identical lane-`j` results.
Individual boundary arrays: `solveIndividual` *is* one single-lane `solve_for_k` call per lane
with that lane's boundary (model of `solve_for_k_individual`), so lane independence is by
construction there; the flattening multi-index ↔ lane is exercised by the check.
-/
import NdInterp.Lemmas.LanesHom

namespace NdInterp

section
variable {α : Type} [Cmp α] [Add α] [Sub α] [Mul α] [Div α] [Neg α] [NatCast α] [ToUsize α]
  [RemEuclid α]

/-- lane `j` of every row is present and equals the single-lane data `y1` -/
def IsLane (j : Nat) (ys : List (List α)) (y1 : List α) : Prop :=
  ys.map (fun r => r[j]?) = y1.map some

/-- **C08_linear** -/
theorem C08_linear (ext : Bool) (xs : List α) (ys : List (List α)) (y1 : List α) (q : α) (j : Nat)
    (h : IsLane j ys y1) :
    (linearInterp (V := List α) ext xs ys q).map (fun r => r[j]?) =
      (linearInterp (V := α) ext xs y1 q).map some := by
  rw [← linearInterp_nat _ (projHom j), ← linearInterp_nat _ someHom, h]

/-- **C08_bilinear** -/
theorem C08_bilinear (ext : Bool) (xs ys : List α) (zs : List (List (List α))) (z1 : List (List α))
    (x y : α) (j : Nat) (h : zs.map (·.map (fun r => r[j]?)) = z1.map (·.map some)) :
    (bilinearInterp (V := List α) ext xs ys zs x y).map (fun r => r[j]?) =
      (bilinearInterp (V := α) ext xs ys z1 x y).map some := by
  rw [← bilinearInterp_nat _ (projHom j), ← bilinearInterp_nat _ someHom, h]

/-- **C08_spline_solve**: the n-d tridiagonal solve, lane by lane. -/
theorem C08_spline_solve (xs : List α) (ys : List (List α)) (y1 : List α) (b : InternalBoundary α)
    (j : Nat) (h : IsLane j ys y1)
    (hper : b.specialize = .periodic → ∀ e, getEnds xs ys = .ok e → Lanes.all2 Cmp.eq e.y0 e.yl1 = true)
    (hper1 : b.specialize = .periodic → ∀ e, getEnds xs y1 = .ok e → Lanes.all2 Cmp.eq e.y0 e.yl1 = true) :
    (solveForK (V := List α) xs ys b).map (List.map (fun r => r[j]?)) =
      (solveForK (V := α) xs y1 b).map (List.map some) := by
  rw [← solveForK_nat _ (projHom j) xs ys b hper, ← solveForK_nat _ someHom xs y1 b hper1, h]

/-- **C08_spline_coeffs** -/
theorem C08_spline_coeffs (xs : List α) (ys ks : List (List α)) (y1 k1 : List α) (j : Nat)
    (h : IsLane j ys y1) (hk : IsLane j ks k1) :
    (coeffs xs ys ks).map (fun p => (p.1[j]?, p.2[j]?)) =
      (coeffs (V := α) xs y1 k1).map (fun p => (some p.1, some p.2)) := by
  rw [← coeffs_nat _ (projHom j), ← coeffs_nat _ someHom, h, hk]

/-- **C08_spline_eval** -/
theorem C08_spline_eval (a b : List (List α)) (a1 b1 : List α) (extr : Extrapolate) (xs : List α)
    (ys : List (List α)) (y1 : List α) (q : α) (j : Nat)
    (h : IsLane j ys y1) (ha : IsLane j a a1) (hb : IsLane j b b1) :
    (splineInterp { a := a, b := b, extrapolate := extr } xs ys q).map (fun r => r[j]?) =
      (splineInterp (V := α) { a := a1, b := b1, extrapolate := extr } xs y1 q).map some := by
  rw [← splineInterp_nat _ (projHom j), ← splineInterp_nat _ someHom]
  unfold IsLane at h ha hb
  rw [h, ha, hb]

/-- **C08_other_lanes**: changing other lanes leaves lane `j` of a Linear result identical. -/
theorem C08_other_lanes (ext : Bool) (xs : List α) (ys ys' : List (List α)) (q : α) (j : Nat)
    (h : ys.map (fun r => r[j]?) = ys'.map (fun r => r[j]?)) :
    (linearInterp (V := List α) ext xs ys q).map (fun r => r[j]?) =
      (linearInterp (V := List α) ext xs ys' q).map (fun r => r[j]?) := by
  rw [← linearInterp_nat _ (projHom j), ← linearInterp_nat _ (projHom j), h]

/-- … and of the spline's slopes (non-periodic: no check across lanes) -/
theorem C08_other_lanes_spline (xs : List α) (ys ys' : List (List α)) (left right : SingleBoundary α)
    (j : Nat) (h : ys.map (fun r => r[j]?) = ys'.map (fun r => r[j]?)) :
    (solveForK (V := List α) xs ys (.mixed left right)).map (List.map (fun r => r[j]?)) =
      (solveForK (V := List α) xs ys' (.mixed left right)).map (List.map (fun r => r[j]?)) := by
  rw [← solveForK_nat _ (projHom j) xs ys _ (by intro hc; simp [InternalBoundary.specialize] at hc),
    ← solveForK_nat _ (projHom j) xs ys' _ (by intro hc; simp [InternalBoundary.specialize] at hc), h]

end

end NdInterp
