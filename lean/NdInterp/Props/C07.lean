/-
C07 — a periodic spline with extrapolation is evaluated as a periodic function.

`P = x[n-1] - x[0]`.  Single lane (lanes via C08); the statements hold for any slopes `ks`, i.e.
they are properties of the evaluation (`Extrapolate::Periodic`) and of the equal-ends check.

* `C07_mode`     : the periodic evaluation mode is selected iff the boundary is `Periodic` and
                   extrapolation is enabled (model of `CubicSpline::build`).
* `C07_wrap`     : outside the range the result is the in-range value at the wrapped point
                   `w = q - k·P` (`k ∈ ℤ`), `x[0] ≤ w < x[n-1]`.
* `C07_periodic` : `S(q + k·P) = S(q)` for every integer `k` (needs the builder's check that the
                   first and last data values are equal).
* `C07_ends`     : every periodic image of a range end evaluates to the first (= last) data value.
-/
import NdInterp.Props.C02
import NdInterp.Model.Interp
import Mathlib.Algebra.Order.Floor.Ring
import Mathlib.Data.Rat.Floor

namespace NdInterp

/-- `rem_euclid` by a positive period: subtracts an integer number of periods and lands in `[0, p)` -/
class LawfulRemEuclid (α : Type) [Field α] [LinearOrder α] [RemEuclid α] : Prop where
  spec : ∀ a p : α, 0 < p →
    ∃ k : ℤ, RemEuclid.remEuclid a p = a - k * p ∧ 0 ≤ RemEuclid.remEuclid a p ∧
      RemEuclid.remEuclid a p < p

instance : LawfulRemEuclid Rat where
  spec a p hp := by
    refine ⟨⌊a / p⌋, ?_, ?_, ?_⟩
    · show a - (if p < 0 then -p else p) * ((a / (if p < 0 then -p else p)).floor : Rat) = _
      rw [if_neg (not_lt.mpr hp.le)]
      have : (a / p).floor = ⌊a / p⌋ := rfl
      rw [this]; ring
    · show 0 ≤ a - (if p < 0 then -p else p) * ((a / (if p < 0 then -p else p)).floor : Rat)
      rw [if_neg (not_lt.mpr hp.le)]
      have h := Int.floor_le (a / p)
      have : (a / p).floor = ⌊a / p⌋ := rfl
      rw [this]
      have : (⌊a / p⌋ : Rat) * p ≤ a := by
        have := mul_le_mul_of_nonneg_right h hp.le
        rwa [div_mul_cancel₀ _ (ne_of_gt hp)] at this
      linarith
    · show a - (if p < 0 then -p else p) * ((a / (if p < 0 then -p else p)).floor : Rat) < p
      rw [if_neg (not_lt.mpr hp.le)]
      have h := Int.lt_floor_add_one (a / p)
      have : (a / p).floor = ⌊a / p⌋ := rfl
      rw [this]
      have : a < ((⌊a / p⌋ : Rat) + 1) * p := by
        have := mul_lt_mul_of_pos_right h hp
        rwa [div_mul_cancel₀ _ (ne_of_gt hp)] at this
      linarith

theorem except_bind_ok {ε β γ : Type} (x : Except ε β) (f : β → Except ε γ) (s : γ)
    (h : x >>= f = .ok s) : ∃ k, x = .ok k ∧ f k = .ok s := by
  cases x with
  | error e => cases h
  | ok k => exact ⟨k, rfl, h⟩

/-- **C07_mode**: the mode stored by `CubicSpline::build` is `splineExtrapolate`: `Periodic` iff the
    boundary is `Periodic` and extrapolation is enabled. -/
theorem C07_mode {α : Type} [Cmp α] [Add α] [Sub α] [Mul α] [Div α] [Neg α] [NatCast α]
    [ToUsize α] [RemEuclid α] (ext : Bool) (bc : BoundaryCondition α) (xs : List α) (data : NdArr α)
    (s : SplineStrat (List α)) (h : splineBuild ext bc xs data = .ok s) :
    s.extrapolate = splineExtrapolate ext bc ∧
    (splineExtrapolate ext bc = .periodic ↔
      ext = true ∧ (match bc with | .periodic => True | _ => False)) := by
  constructor
  · unfold splineBuild at h
    cases bc <;> simp only [bind, Except.bind, pure, Except.pure] at h
    all_goals (repeat' split at h)
    all_goals first
      | (cases h; done)
      | (injection h with h; rw [← h])
      | (simp [throw, throwThe, MonadExceptOf.throw] at h)
  · cases ext <;> cases bc <;> simp [splineExtrapolate]

section
variable {F : Type} [Field F] [LinearOrder F] [IsStrictOrderedRing F] [Cmp F] [LawfulCmp F]
  [ToUsize F] [LawfulToUsize F] [RemEuclid F] [LawfulRemEuclid F]

/-- the point the periodic mode evaluates at -/
def wrapPoint (xs : List F) (q : F) : F :=
  if InRange xs q then q
  else RemEuclid.remEuclid (q - xs.getD 0 0) (xs.getD (xs.length - 1) 0 - xs.getD 0 0) + xs.getD 0 0

/-- evaluation in `Periodic` mode = in-range evaluation at the wrapped point -/
theorem periodic_eq_inrange (xs ys ks : List F) (q : F) (h0 : 0 < xs.length)
    (hw : InRange xs (wrapPoint xs q)) :
    splineInterp (V := F) (splineOf xs ys ks .periodic) xs ys q =
      splineInterp (V := F) (splineOf xs ys ks .no) xs ys (wrapPoint xs q) := by
  have hlast : xs.length - 1 < xs.length := by omega
  have g0 : xs.getD 0 0 = xs[0] := by
    rw [List.getD_eq_getElem?_getD, List.getElem?_eq_getElem h0]; rfl
  have gl : xs.getD (xs.length - 1) 0 = xs[xs.length - 1] := by
    rw [List.getD_eq_getElem?_getD, List.getElem?_eq_getElem hlast]; rfl
  unfold splineInterp
  rw [isInRange_eq xs q h0, isInRange_eq xs (wrapPoint xs q) h0]
  have hev : ∀ x, splineEvalAt (V := F) (splineOf xs ys ks .periodic) xs ys x =
      splineEvalAt (V := F) (splineOf xs ys ks .no) xs ys x := fun x => rfl
  by_cases hin : InRange xs q
  · have : wrapPoint xs q = q := by simp [wrapPoint, hin]
    have w1 : splineWrap Extrapolate.periodic true xs q = .ok q := by simp [splineWrap]; rfl
    have w2 : splineWrap Extrapolate.no true xs q = .ok q := by simp [splineWrap]; rfl
    simp only [this, hin, decide_true, splineOf, bind, Except.bind, pure, Except.pure, extr_beq,
      decide_false, Bool.not_true, Bool.and_false, Bool.false_eq_true, if_false, w1, w2]
    exact hev q
  · have hwp : wrapPoint xs q = RemEuclid.remEuclid (q - xs[0]) (xs[xs.length - 1] - xs[0]) + xs[0] := by
      unfold wrapPoint; rw [if_neg hin, g0, gl]
    have w1 : splineWrap Extrapolate.periodic false xs q = .ok (wrapPoint xs q) := by
      simp only [splineWrap, extr_beq, decide_true, Bool.not_false, Bool.and_self, if_true, bind,
        Except.bind, rd_eq xs 0 h0, rd_eq xs (xs.length - 1) hlast, pure, Except.pure, hwp]
    have w2 : splineWrap Extrapolate.no true xs (wrapPoint xs q) = .ok (wrapPoint xs q) := by
      simp [splineWrap]; rfl
    simp only [hw, hin, decide_true, decide_false, splineOf, bind, Except.bind, pure, Except.pure,
      extr_beq, Bool.not_true, Bool.not_false, Bool.and_false, Bool.and_true, Bool.false_eq_true,
      if_false, w1, w2]
    exact hev _

/-- the wrapped point lies in `[x₀, x_{n-1})` and differs from `q` by an integer number of periods -/
theorem wrapPoint_spec (xs : List F) (q : F) (hs : StrictInc xs) (hout : ¬ InRange xs q) :
    ∃ k : ℤ, wrapPoint xs q = q - k * (xs[xs.length - 1]'(by have := hs.1; omega) - xs[0]'(by have := hs.1; omega)) ∧
      xs[0]'(by have := hs.1; omega) ≤ wrapPoint xs q ∧
      wrapPoint xs q < xs[xs.length - 1]'(by have := hs.1; omega) := by
  have hn := hs.1
  have h0 : 0 < xs.length := by omega
  have hlast : xs.length - 1 < xs.length := by omega
  have g0 : xs.getD 0 0 = xs[0] := by
    rw [List.getD_eq_getElem?_getD, List.getElem?_eq_getElem h0]; rfl
  have gl : xs.getD (xs.length - 1) 0 = xs[xs.length - 1] := by
    rw [List.getD_eq_getElem?_getD, List.getElem?_eq_getElem hlast]; rfl
  have hP : (0 : F) < xs[xs.length - 1] - xs[0] := sub_pos.mpr (hs.2 0 (xs.length - 1) (by omega) hlast)
  obtain ⟨k, e1, e2, e3⟩ := LawfulRemEuclid.spec (q - xs[0]) (xs[xs.length - 1] - xs[0]) hP
  have hwp : wrapPoint xs q = RemEuclid.remEuclid (q - xs[0]) (xs[xs.length - 1] - xs[0]) + xs[0] := by
    unfold wrapPoint; rw [if_neg hout, g0, gl]
  refine ⟨k, ?_, ?_, ?_⟩
  · rw [hwp, e1]; ring
  · rw [hwp]; linarith
  · rw [hwp]; linarith

/-- **C07_wrap** -/
theorem C07_wrap (xs ys ks : List F) (q : F) (hs : StrictInc xs) (hout : ¬ InRange xs q) :
    ∃ w : F, ∃ k : ℤ,
      w = q - k * (xs[xs.length - 1]'(by have := hs.1; omega) - xs[0]'(by have := hs.1; omega)) ∧
      xs[0]'(by have := hs.1; omega) ≤ w ∧ w < xs[xs.length - 1]'(by have := hs.1; omega) ∧
      splineInterp (V := F) (splineOf xs ys ks .periodic) xs ys q =
        splineInterp (V := F) (splineOf xs ys ks .no) xs ys w := by
  obtain ⟨k, e1, e2, e3⟩ := wrapPoint_spec xs q hs hout
  have h0 : 0 < xs.length := by have := hs.1; omega
  exact ⟨wrapPoint xs q, k, e1, e2, e3,
    periodic_eq_inrange xs ys ks q h0 ⟨h0, e2, le_of_lt e3⟩⟩

/-- every query is evaluated at a representative `r ∈ [x₀, x_{n-1})` of its class modulo `P`
    (for `q = x_{n-1}` this uses that the first and last data values are equal) -/
theorem periodic_rep (xs ys ks : List F) (q : F) (hs : StrictInc xs) (hy : ys.length = xs.length)
    (hk : ks.length = xs.length) (hlen : xs.length < 2 ^ 64)
    (hends : ys[0]'(by have := hs.1; omega) = ys[xs.length - 1]'(by have := hs.1; omega)) :
    ∃ r : F, ∃ k : ℤ,
      r = q - k * (xs[xs.length - 1]'(by have := hs.1; omega) - xs[0]'(by have := hs.1; omega)) ∧
      xs[0]'(by have := hs.1; omega) ≤ r ∧ r < xs[xs.length - 1]'(by have := hs.1; omega) ∧
      splineInterp (V := F) (splineOf xs ys ks .periodic) xs ys q =
        splineInterp (V := F) (splineOf xs ys ks .no) xs ys r := by
  have hn := hs.1
  have h0 : 0 < xs.length := by omega
  by_cases hin : InRange xs q
  · have hw : wrapPoint xs q = q := by simp [wrapPoint, hin]
    have hper := periodic_eq_inrange xs ys ks q h0 (by rw [hw]; exact hin)
    rw [hw] at hper
    obtain ⟨_, hlo, hhi⟩ := hin
    rcases lt_or_eq_of_le hhi with hlt | heq
    · exact ⟨q, 0, by simp, hlo, hlt, hper⟩
    · -- q is the last knot: its representative is the first knot
      refine ⟨xs[0], 1, by rw [heq]; simp, le_refl _, hs.2 0 (xs.length - 1) (by omega) (by omega), ?_⟩
      rw [hper, heq, C02_knot xs ys ks (xs.length - 1) .no (by simp) hs hy hk hlen (by omega),
        C02_knot xs ys ks 0 .no (by simp) hs hy hk hlen h0, hends]
  · obtain ⟨w, k, e1, e2, e3, e4⟩ := C07_wrap xs ys ks q hs hin
    exact ⟨w, k, e1, e2, e3, e4⟩

/-- **C07_periodic**: `S(q + k·P) = S(q)` for every integer `k`. -/
theorem C07_periodic (xs ys ks : List F) (q : F) (k : ℤ) (hs : StrictInc xs)
    (hy : ys.length = xs.length) (hk : ks.length = xs.length) (hlen : xs.length < 2 ^ 64)
    (hends : ys[0]'(by have := hs.1; omega) = ys[xs.length - 1]'(by have := hs.1; omega)) :
    splineInterp (V := F) (splineOf xs ys ks .periodic) xs ys
        (q + k * (xs[xs.length - 1]'(by have := hs.1; omega) - xs[0]'(by have := hs.1; omega))) =
      splineInterp (V := F) (splineOf xs ys ks .periodic) xs ys q := by
  have hn := hs.1
  set P := xs[xs.length - 1] - xs[0] with hPdef
  have hP : 0 < P := sub_pos.mpr (hs.2 0 (xs.length - 1) (by omega) (by omega))
  obtain ⟨r1, k1, a1, b1, c1, d1⟩ := periodic_rep xs ys ks (q + k * P) hs hy hk hlen hends
  obtain ⟨r2, k2, a2, b2, c2, d2⟩ := periodic_rep xs ys ks q hs hy hk hlen hends
  -- two representatives of the same class in `[x₀, x₀ + P)` coincide
  have hdiff : r1 - r2 = ((k - k1 + k2 : ℤ) : F) * P := by
    rw [a1, a2]; push_cast; ring
  have hm : (k - k1 + k2 : ℤ) = 0 := by
    by_contra hne
    have hlt : |r1 - r2| < P := by
      rw [abs_lt]; constructor <;> linarith
    rw [hdiff, abs_mul, abs_of_pos hP] at hlt
    have hge : (1 : F) ≤ |((k - k1 + k2 : ℤ) : F)| := by
      rw [← Int.cast_abs]
      have : (1 : ℤ) ≤ |k - k1 + k2| := Int.one_le_abs hne
      exact_mod_cast this
    nlinarith
  have : r1 = r2 := by
    have := hdiff
    rw [hm] at this
    simp at this
    linarith
  rw [d1, d2, this]

/-- **C07_ends**: the periodic images of the range ends evaluate to the first (= last) data value. -/
theorem C07_ends (xs ys ks : List F) (k : ℤ) (hs : StrictInc xs)
    (hy : ys.length = xs.length) (hk : ks.length = xs.length) (hlen : xs.length < 2 ^ 64)
    (hends : ys[0]'(by have := hs.1; omega) = ys[xs.length - 1]'(by have := hs.1; omega)) :
    splineInterp (V := F) (splineOf xs ys ks .periodic) xs ys
        (xs[0]'(by have := hs.1; omega) +
          k * (xs[xs.length - 1]'(by have := hs.1; omega) - xs[0]'(by have := hs.1; omega))) =
      .ok (ys[0]'(by have := hs.1; omega)) := by
  have hn := hs.1
  have h0 : 0 < xs.length := by omega
  rw [C07_periodic xs ys ks xs[0] k hs hy hk hlen hends]
  have hin : InRange xs xs[0] := ⟨h0, le_refl _, le_of_lt (hs.2 0 (xs.length - 1) (by omega) (by omega))⟩
  have hw : wrapPoint xs xs[0] = xs[0] := by simp [wrapPoint, hin]
  have hper := periodic_eq_inrange xs ys ks xs[0] h0 (by rw [hw]; exact hin)
  rw [hw] at hper
  rw [hper]
  exact C02_knot xs ys ks 0 .no (by simp) hs hy hk hlen h0

end

end NdInterp
