/-
C04 — Bilinear 2-D interpolation returns the exact bilinear blend of the cell.

* `C04_struct`    : any lane structure: on an in-grid query the call succeeds and is the three
                    nested `calc_frac` of the four corner rows of the cell of `(x, y)`.
* `C04_blend`     : (one lane) the value is `z11(1-s)(1-t) + z21 s(1-t) + z12(1-s)t + z22 st`.
* `C04_node`      : grid nodes are reproduced.
* `C04_gridline`  : on a grid line `x = xs[a]` the result is the 1-D linear interpolation of row `a`
                    (and symmetrically `C04_gridline_y`).
* `C04_transpose` : transposing the data and swapping axes and coordinates gives the same value.
* rounding: three nested `calc_frac`, each within the bound of `C01_rounding`.
-/
import NdInterp.Lemmas.LinearCore
import NdInterp.Props.C01

namespace NdInterp

section
variable {α V : Type} [Field α] [LinearOrder α] [IsStrictOrderedRing α]
  [Cmp α] [LawfulCmp α] [ToUsize α] [LawfulToUsize α] [Lanes α V]

/-- **C04_struct** -/
theorem C04_struct (ext : Bool) (xs ys : List α) (zs : List (List V)) (x y : α)
    (hsx : StrictInc xs) (hsy : StrictInc ys) (hg : GridOK zs xs.length ys.length)
    (hlx : xs.length < 2 ^ 64) (hly : ys.length < 2 ^ 64)
    (hinx : InRange xs x) (hiny : InRange ys y) :
    ∃ i j, ∃ (hi : Bracket xs x i) (hj : Bracket ys y j), ∃ r1 r2 z11 z12 z21 z22,
      zs[i]? = some r1 ∧ zs[i + 1]? = some r2 ∧
      r1[j]? = some z11 ∧ r1[j + 1]? = some z12 ∧ r2[j]? = some z21 ∧ r2[j + 1]? = some z22 ∧
      bilinearInterp ext xs ys zs x y =
        .ok (Lanes.map4 (fun z11 z12 z21 z22 =>
          let z1 := calcFrac (xs[i]'(by have := hi.lt_len; omega)) z11 (xs[i + 1]'hi.lt_len) z21 x
          let z2 := calcFrac (xs[i]'(by have := hi.lt_len; omega)) z12 (xs[i + 1]'hi.lt_len) z22 x
          calcFrac (ys[j]'(by have := hj.lt_len; omega)) z1 (ys[j + 1]'hj.lt_len) z2 y)
          z11 z12 z21 z22) := by
  obtain ⟨i, j, hi, hj, r1, r2, z11, z12, z21, z22, e1, e2, e3, e4, e5, e6, h⟩ :=
    bilinearInterp_eq ext xs ys zs x y hsx hsy hg hlx hly
  refine ⟨i, j, hi, hj, r1, r2, z11, z12, z21, z22, e1, e2, e3, e4, e5, e6, ?_⟩
  rw [h, if_pos (Or.inr hinx), if_pos (Or.inr hiny)]

omit [LinearOrder α] [IsStrictOrderedRing α] [Cmp α] [LawfulCmp α] [ToUsize α] [LawfulToUsize α] in
/-- the three nested `calc_frac` are the bilinear blend (a field identity) -/
theorem blend_eq (x1 x2 y1 y2 z11 z12 z21 z22 x y : α) :
    calcFrac y1 (calcFrac x1 z11 x2 z21 x) y2 (calcFrac x1 z12 x2 z22 x) y =
      z11 * (1 - (x - x1) / (x2 - x1)) * (1 - (y - y1) / (y2 - y1)) +
      z21 * ((x - x1) / (x2 - x1)) * (1 - (y - y1) / (y2 - y1)) +
      z12 * (1 - (x - x1) / (x2 - x1)) * ((y - y1) / (y2 - y1)) +
      z22 * ((x - x1) / (x2 - x1)) * ((y - y1) / (y2 - y1)) := by
  unfold calcFrac
  ring

/-- **C04_blend**: the bilinear blend of the four grid values surrounding the query. -/
theorem C04_blend (ext : Bool) (xs ys : List α) (zs : List (List α)) (x y : α)
    (hsx : StrictInc xs) (hsy : StrictInc ys) (hg : GridOK zs xs.length ys.length)
    (hlx : xs.length < 2 ^ 64) (hly : ys.length < 2 ^ 64)
    (hinx : InRange xs x) (hiny : InRange ys y) :
    ∃ i j, ∃ (hi : Bracket xs x i) (hj : Bracket ys y j), ∃ r1 r2 z11 z12 z21 z22,
      zs[i]? = some r1 ∧ zs[i + 1]? = some r2 ∧
      r1[j]? = some z11 ∧ r1[j + 1]? = some z12 ∧ r2[j]? = some z21 ∧ r2[j + 1]? = some z22 ∧
      let s := (x - xs[i]'(by have := hi.lt_len; omega)) /
        (xs[i + 1]'hi.lt_len - xs[i]'(by have := hi.lt_len; omega))
      let t := (y - ys[j]'(by have := hj.lt_len; omega)) /
        (ys[j + 1]'hj.lt_len - ys[j]'(by have := hj.lt_len; omega))
      bilinearInterp (V := α) ext xs ys zs x y =
        .ok (z11 * (1 - s) * (1 - t) + z21 * s * (1 - t) + z12 * (1 - s) * t + z22 * s * t) := by
  obtain ⟨i, j, hi, hj, r1, r2, z11, z12, z21, z22, e1, e2, e3, e4, e5, e6, h⟩ :=
    C04_struct (V := α) ext xs ys zs x y hsx hsy hg hlx hly hinx hiny
  refine ⟨i, j, hi, hj, r1, r2, z11, z12, z21, z22, e1, e2, e3, e4, e5, e6, ?_⟩
  simp only
  rw [h]
  simp only [Lanes.map4]
  rw [blend_eq]

/-- **C04_gridline**: on the grid line `x = xs[a]` Bilinear is Linear along `y` on row `a`
    (for every `y`, in range, rejected or extrapolated alike). -/
theorem C04_gridline (ext : Bool) (xs ys : List α) (zs : List (List α)) (a : Nat) (y : α)
    (row : List α)
    (hsx : StrictInc xs) (hsy : StrictInc ys) (hg : GridOK zs xs.length ys.length)
    (hlx : xs.length < 2 ^ 64) (hly : ys.length < 2 ^ 64)
    (ha : a < xs.length) (hrow : zs[a]? = some row) :
    bilinearInterp (V := α) ext xs ys zs xs[a] y = linearInterp (V := α) ext ys row y := by
  have hn := hsx.1
  have hrl : row.length = ys.length := by
    have : a < zs.length := by rw [hg.1]; exact ha
    have hm : row ∈ zs := by
      rw [List.getElem?_eq_getElem this] at hrow
      exact (Option.some.inj hrow) ▸ List.getElem_mem this
    exact hg.2 row hm
  have hinx : InRange xs xs[a] :=
    ⟨by omega, hsx.le_of_le (Nat.zero_le a) ha, hsx.le_of_le (by omega) (by omega)⟩
  obtain ⟨i, j, hi, hj, r1, r2, z11, z12, z21, z22, e1, e2, e3, e4, e5, e6, h⟩ :=
    bilinearInterp_eq (V := α) ext xs ys zs xs[a] y hsx hsy hg hlx hly
  obtain ⟨j', hj', h'⟩ := linearInterp_eq (V := α) ext ys row y hsy hrl hly
  have : j' = j := Bracket.unique hsy hj' hj
  subst this
  rw [h, h', if_pos (Or.inr hinx)]
  have hil := hi.lt_len
  have hjl := hj'.lt_len
  have hd : xs[i + 1] - xs[i] ≠ 0 := ne_of_gt (sub_pos.mpr (hsx.2 i (i + 1) (by omega) hil))
  split
  · congr 1
    simp only [Lanes.map4, Lanes.map2]
    rcases knot_bracket hsx ha hi with hai | hai
    · subst hai
      have : r1 = row := by rw [hrow] at e1; exact (Option.some.inj e1).symm
      subst this
      have q1 : r1[j'] = z11 := by
        rw [List.getElem?_eq_getElem (by omega)] at e3; exact Option.some.inj e3
      have q2 : r1[j' + 1] = z12 := by
        rw [List.getElem?_eq_getElem (by omega)] at e4; exact Option.some.inj e4
      rw [q1, q2]
      simp [calcFrac]
    · have hai' : a = i + 1 := hai
      subst hai'
      have : r2 = row := by rw [hrow] at e2; exact (Option.some.inj e2).symm
      subst this
      have q1 : r2[j'] = z21 := by
        rw [List.getElem?_eq_getElem (by omega)] at e5; exact Option.some.inj e5
      have q2 : r2[j' + 1] = z22 := by
        rw [List.getElem?_eq_getElem (by omega)] at e6; exact Option.some.inj e6
      rw [q1, q2]
      have k1 : calcFrac xs[i] z11 xs[i + 1] z21 xs[i + 1] = z21 := by
        unfold calcFrac; field_simp; ring
      have k2 : calcFrac xs[i] z12 xs[i + 1] z22 xs[i + 1] = z22 := by
        unfold calcFrac; field_simp; ring
      rw [k1, k2]
  · rfl

/-- **C04_node**: grid nodes are reproduced. -/
theorem C04_node (ext : Bool) (xs ys : List α) (zs : List (List α)) (a b : Nat) (row : List α)
    (hsx : StrictInc xs) (hsy : StrictInc ys) (hg : GridOK zs xs.length ys.length)
    (hlx : xs.length < 2 ^ 64) (hly : ys.length < 2 ^ 64)
    (ha : a < xs.length) (hb : b < ys.length) (hrow : zs[a]? = some row)
    (hrl : row.length = ys.length) :
    bilinearInterp (V := α) ext xs ys zs xs[a] ys[b] = .ok (row[b]'(by omega)) := by
  rw [C04_gridline ext xs ys zs a ys[b] row hsx hsy hg hlx hly ha hrow]
  exact C01_knot ext ys row b hsy hrl hly hb

/-- **C04_transpose**: transposed data, swapped axes, swapped coordinates: same value. -/
theorem C04_transpose (ext : Bool) (xs ys : List α) (zs zsT : List (List α)) (x y : α)
    (hsx : StrictInc xs) (hsy : StrictInc ys)
    (hg : GridOK zs xs.length ys.length) (hgT : GridOK zsT ys.length xs.length)
    (hT : ∀ (i j : Nat) (r : List α) (z : α), zs[i]? = some r → r[j]? = some z →
      ∃ rT : List α, zsT[j]? = some rT ∧ rT[i]? = some z)
    (hlx : xs.length < 2 ^ 64) (hly : ys.length < 2 ^ 64) :
    bilinearInterp (V := α) ext ys xs zsT y x = bilinearInterp (V := α) ext xs ys zs x y := by
  obtain ⟨i, j, hi, hj, r1, r2, z11, z12, z21, z22, e1, e2, e3, e4, e5, e6, h⟩ :=
    bilinearInterp_eq (V := α) ext xs ys zs x y hsx hsy hg hlx hly
  obtain ⟨j', i', hj', hi', s1, s2, w11, w12, w21, w22, f1, f2, f3, f4, f5, f6, h'⟩ :=
    bilinearInterp_eq (V := α) ext ys xs zsT y x hsy hsx hgT hly hlx
  have : j' = j := Bracket.unique hsy hj' hj
  subst this
  have : i' = i := Bracket.unique hsx hi' hi
  subst this
  -- identify the corners
  obtain ⟨t1, g1, g1'⟩ := hT i' j' r1 z11 e1 e3
  obtain ⟨t2, g2, g2'⟩ := hT i' (j' + 1) r1 z12 e1 e4
  obtain ⟨t3, g3, g3'⟩ := hT (i' + 1) j' r2 z21 e2 e5
  obtain ⟨t4, g4, g4'⟩ := hT (i' + 1) (j' + 1) r2 z22 e2 e6
  have a1 : t1 = s1 := by rw [f1] at g1; exact (Option.some.inj g1).symm
  have a3 : t3 = s1 := by rw [f1] at g3; exact (Option.some.inj g3).symm
  have a2 : t2 = s2 := by rw [f2] at g2; exact (Option.some.inj g2).symm
  have a4 : t4 = s2 := by rw [f2] at g4; exact (Option.some.inj g4).symm
  subst a1; subst a2
  have c11 : w11 = z11 := by rw [f3] at g1'; exact Option.some.inj g1'
  have c12 : w12 = z21 := by rw [a3, f4] at g3'; exact Option.some.inj g3'
  have c21 : w21 = z12 := by rw [f5] at g2'; exact Option.some.inj g2'
  have c22 : w22 = z22 := by rw [a4, f6] at g4'; exact Option.some.inj g4'
  subst c11; subst c12; subst c21; subst c22
  rw [h, h']
  by_cases cx : ext = true ∨ InRange xs x <;> by_cases cy : ext = true ∨ InRange ys y <;>
    simp only [cx, cy, if_true, if_false]
  congr 1
  simp only [Lanes.map4]
  rw [blend_eq, blend_eq]
  ring

end

end NdInterp
