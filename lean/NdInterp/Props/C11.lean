/-
C11 — segment lookup returns the bracketing interval for every axis and query.

* `bisect_spec`     : the binary search keeps `xs[lo] ≤ q < xs[hi]` and ends on a bracket.
* `C11_bracket`     : for a strictly increasing axis and **any** in-range initial guess `g < n`
                      (every length, every guess position, every rank of the query — not the
                      bounded enumeration of the property text) the lookup returns `.ok i` with
                      `i + 2 ≤ n` and the bracket of the property text; it never panics.
* `C11_guess`       : in exact arithmetic the O(1) guess is `some g` with `g ≤ n - 2`.
* `C11_exact`       : `get_lower_index` itself (`lowerIndex`) returns the bracket, every query.
* `C11_unique`      : the bracket index is unique, i.e. a function of the order relations only.
-/
import NdInterp.Model.Vector
import NdInterp.Lemmas.Lawful
import NdInterp.Lemmas.StrictInc
import Mathlib.Algebra.Order.Field.Basic
import Mathlib.Tactic.Linarith
import Mathlib.Tactic.FieldSimp
import Mathlib.Tactic.Ring

namespace NdInterp

/-- the result the property text demands of index `i` for query `q` -/
structure Bracket {α : Type} [LinearOrder α] (xs : List α) (q : α) (i : Nat) : Prop where
  /-- never the last index -/
  lt_len : i + 1 < xs.length
  /-- at or below the first value: index `0` -/
  low : (h : 0 < xs.length) → q ≤ xs[0] → i = 0
  /-- at or above the last value: index `len - 2` -/
  high : (h : 0 < xs.length) → xs[xs.length - 1] ≤ q → i = xs.length - 2
  /-- strictly inside: the bracketing interval -/
  inside : (h : 0 < xs.length) → xs[0] < q → q < xs[xs.length - 1] →
    xs[i]'(by omega) ≤ q ∧ q < xs[i + 1]

section order
variable {α : Type} [LinearOrder α] [Cmp α] [LawfulCmp α]

theorem bisect_spec (xs : List α) (q : α) (lo hi : Nat)
    (hlh : lo < hi) (hh : hi < xs.length)
    (h1 : xs[lo]'(by omega) ≤ q) (h2 : q < xs[hi]) :
    ∃ i, bisect xs q lo hi = .ok i ∧ ∃ (_ : i + 1 < xs.length),
      xs[i]'(by omega) ≤ q ∧ q < xs[i + 1] := by
  fun_induction bisect xs q lo hi with
  | case1 lo hi h mid hm =>
    exfalso
    have : mid < xs.length := by omega
    simp at hm; omega
  | case2 lo hi h mid mx hm hle ih =>
    have hmid : mid < xs.length := by omega
    have : xs[mid] = mx := by
      have := List.getElem?_eq_getElem hmid; rw [this] at hm; exact Option.some.inj hm
    apply ih (by omega) hh (by rw [this]; exact (cmp_le _ _).mp hle) h2
  | case3 lo hi h mid mx hm hle ih =>
    have hmid : mid < xs.length := by omega
    have : xs[mid] = mx := by
      have := List.getElem?_eq_getElem hmid; rw [this] at hm; exact Option.some.inj hm
    apply ih (by omega) (by omega) h1
    rw [this]
    have : ¬ (Cmp.le mx q = true) := hle
    rw [cmp_le] at this
    exact not_le.mp this
  | case4 lo hi h =>
    have : hi = lo + 1 := by omega
    subst this
    exact ⟨lo, rfl, hh, h1, h2⟩

/-- **C11_bracket**: any guess inside the axis leads to the bracket; no panic, never the last index. -/
theorem C11_bracket (xs : List α) (q : α) (g : Nat) (hs : StrictInc xs) (hg : g < xs.length) :
    ∃ i, lowerIndexWith xs q (some g) = .ok i ∧ Bracket xs q i := by
  obtain ⟨hn, hinc⟩ := hs
  have h0 : 0 < xs.length := by omega
  have hlast : xs.length - 1 < xs.length := by omega
  have hfl : xs[0] < xs[xs.length - 1] := hinc 0 (xs.length - 1) (by omega) hlast
  unfold lowerIndexWith
  simp only [List.getElem?_eq_getElem h0, List.getElem?_eq_getElem hlast,
    List.getElem?_eq_getElem hg]
  by_cases c1 : q ≤ xs[0]
  · -- at or below the first knot
    have : Cmp.le q xs[0] = true := (cmp_le _ _).mpr c1
    simp only [this, if_true]
    refine ⟨0, rfl, ⟨by omega, fun _ _ => rfl, ?_, ?_⟩⟩
    · intro _ h; exact absurd (lt_of_lt_of_le hfl h) (not_lt.mpr c1)
    · intro _ h; exact absurd h (not_lt.mpr c1)
  · have c1' : xs[0] < q := not_le.mp c1
    have : Cmp.le q xs[0] = false := (cmp_le_false _ _).mpr c1'
    simp only [this, Bool.false_eq_true, if_false]
    by_cases c2 : xs[xs.length - 1] ≤ q
    · have : Cmp.ge q xs[xs.length - 1] = true := (cmp_ge _ _).mpr c2
      simp only [this, if_true, hn]
      refine ⟨xs.length - 2, rfl, ⟨by omega, ?_, fun _ _ => rfl, ?_⟩⟩
      · intro _ h; exact absurd h c1
      · intro _ _ h; exact absurd c2 (not_le.mpr h)
    · have c2' : q < xs[xs.length - 1] := not_le.mp c2
      have : Cmp.ge q xs[xs.length - 1] = false := (cmp_ge_false _ _).mpr c2'
      simp only [this, Bool.false_eq_true, if_false]
      -- strictly inside: every branch ends on a bracket
      have finish : ∀ r : Except Fault Nat,
          (∃ i, r = .ok i ∧ ∃ (_ : i + 1 < xs.length), xs[i]'(by omega) ≤ q ∧ q < xs[i + 1]) →
          ∃ i, r = .ok i ∧ Bracket xs q i := by
        rintro r ⟨i, hr, hi, hb1, hb2⟩
        refine ⟨i, hr, ⟨hi, ?_, ?_, fun _ _ _ => ⟨hb1, hb2⟩⟩⟩
        · intro _ h; exact absurd h c1
        · intro _ h; exact absurd h c2
      apply finish
      by_cases c3 : xs[g] ≤ q
      · have : Cmp.le xs[g] q = true := (cmp_le _ _).mpr c3
        simp only [this, if_true]
        -- `g` cannot be the last index, so the second read is in range
        have hg1 : g + 1 < xs.length := by
          by_contra hcon
          have : g = xs.length - 1 := by omega
          subst this
          exact absurd c3 c2
        simp only [List.getElem?_eq_getElem hg1]
        by_cases c4 : q < xs[g + 1]
        · have : Cmp.lt q xs[g + 1] = true := (cmp_lt _ _).mpr c4
          simp only [this, if_true]
          exact ⟨g, rfl, hg1, c3, c4⟩
        · have : Cmp.lt q xs[g + 1] = false := (cmp_lt_false _ _).mpr (not_lt.mp c4)
          simp only [this, Bool.false_eq_true, if_false]
          have hgl : g < xs.length - 1 := by
            by_contra hcon
            have : g + 1 = xs.length - 1 + 1 := by omega
            omega
          exact bisect_spec xs q g (xs.length - 1) hgl hlast c3 c2'
      · have c3' : q < xs[g] := not_le.mp c3
        have : Cmp.le xs[g] q = false := (cmp_le_false _ _).mpr c3'
        simp only [this, Bool.false_eq_true, if_false]
        have hg0 : 0 < g := by
          by_contra hcon
          have : g = 0 := by omega
          subst this
          exact absurd c3' (not_lt.mpr c1'.le)
        exact bisect_spec xs q 0 g hg0 hg c1'.le c3'

omit [Cmp α] [LawfulCmp α] in
/-- **C11_unique**: on a strictly increasing axis at most one index brackets `q`. -/
theorem C11_unique (xs : List α) (q : α) (hs : StrictInc xs) (i j : Nat)
    (hi : i + 1 < xs.length) (hj : j + 1 < xs.length)
    (bi : xs[i]'(by omega) ≤ q ∧ q < xs[i + 1]) (bj : xs[j]'(by omega) ≤ q ∧ q < xs[j + 1]) :
    i = j := by
  by_contra hne
  rcases Nat.lt_or_gt_of_ne hne with h | h
  · have := hs.le_of_le (i := i + 1) (j := j) (by omega) (by omega)
    exact absurd (lt_of_lt_of_le bi.2 (le_trans this bj.1)) (lt_irrefl q)
  · have := hs.le_of_le (i := j + 1) (j := i) (by omega) (by omega)
    exact absurd (lt_of_lt_of_le bj.2 (le_trans this bi.1)) (lt_irrefl q)

end order

/-! ### The O(1) guess in exact arithmetic -/

section anyguess
variable {α : Type} [LinearOrder α] [Cmp α] [LawfulCmp α]
  [Add α] [Sub α] [Mul α] [Div α] [NatCast α] [ToUsize α]

/-- **C11_of_guess**: whatever the arithmetic of the element type, `get_lower_index` returns the
    bracket as soon as the O(1) guess of a query strictly inside the range is an index of the axis. -/
theorem C11_of_guess (xs : List α) (q : α) (hs : StrictInc xs)
    (hguess : ∀ (h0 : 0 < xs.length), xs[0] < q → q < xs[xs.length - 1] →
      ∃ g, indexGuess xs q = some g ∧ g < xs.length) :
    ∃ i, lowerIndex xs q = .ok i ∧ Bracket xs q i := by
  have hn := hs.1
  have h0 : 0 < xs.length := by omega
  have hlast : xs.length - 1 < xs.length := by omega
  unfold lowerIndex
  by_cases c1 : xs[0] < q
  · by_cases c2 : q < xs[xs.length - 1]
    · obtain ⟨g, hg, hg2⟩ := hguess h0 c1 c2
      rw [hg]
      exact C11_bracket xs q g hs hg2
    · have c2' := not_lt.mp c2
      have key : ∀ g', lowerIndexWith xs q g' = lowerIndexWith xs q (some 0) := by
        intro g'
        unfold lowerIndexWith
        simp only [List.getElem?_eq_getElem h0, List.getElem?_eq_getElem hlast]
        have : Cmp.ge q xs[xs.length - 1] = true := (cmp_ge _ _).mpr c2'
        simp only [this, if_true]
      rw [key]
      exact C11_bracket xs q 0 hs h0
  · have c1' := not_lt.mp c1
    have key : ∀ g', lowerIndexWith xs q g' = lowerIndexWith xs q (some 0) := by
      intro g'
      unfold lowerIndexWith
      simp only [List.getElem?_eq_getElem h0]
      have : Cmp.le q xs[0] = true := (cmp_le _ _).mpr c1'
      simp only [this, if_true]
    rw [key]
    exact C11_bracket xs q 0 hs h0

end anyguess

/-- `cast::<T, usize>` truncates non-negative values that fit -/
class LawfulToUsize (α : Type) [Field α] [LinearOrder α] [ToUsize α] : Prop where
  spec : ∀ x : α, 0 ≤ x → x < (2 : α) ^ 64 →
    ∃ g : Nat, ToUsize.toUsize? x = some g ∧ (g : α) ≤ x ∧ x < (g : α) + 1

section field
variable {α : Type} [Field α] [LinearOrder α] [IsStrictOrderedRing α]
  [Cmp α] [LawfulCmp α] [ToUsize α] [LawfulToUsize α]

omit [Cmp α] [LawfulCmp α] in
/-- **C11_guess**: for a query strictly inside the range the computed guess is an index `≤ n-2`. -/
theorem C11_guess (xs : List α) (q : α) (hs : StrictInc xs) (hlen : xs.length < 2 ^ 64)
    (h1 : xs[0]'(by have := hs.1; omega) < q)
    (h2 : q < xs[xs.length - 1]'(by have := hs.1; omega)) :
    ∃ g, indexGuess xs q = some g ∧ g + 2 ≤ xs.length := by
  obtain ⟨hn, hinc⟩ := hs
  have h0 : 0 < xs.length := by omega
  have hlast : xs.length - 1 < xs.length := by omega
  unfold indexGuess
  simp only [List.getElem?_eq_getElem h0, List.getElem?_eq_getElem hlast]
  set x0 := xs[0]
  set xl := xs[xs.length - 1]
  have hd : 0 < xl - x0 := by linarith
  have hq : 0 < q - x0 := by linarith
  generalize hNdef : ((xs.length - 1 : Nat) : α) = N
  have hN : 0 < N := by
    have : 0 < xs.length - 1 := by omega
    rw [← hNdef]; exact_mod_cast this
  have hmid : calcFrac x0 ((0 : Nat) : α) xl N q = N * ((q - x0) / (xl - x0)) := by
    unfold calcFrac
    simp only [Nat.cast_zero, sub_zero, add_zero]
    field_simp
  have hfrac0 : 0 < (q - x0) / (xl - x0) := div_pos hq hd
  have hfrac1 : (q - x0) / (xl - x0) < 1 := by
    rw [div_lt_one hd]; linarith
  have hm0 : 0 ≤ calcFrac x0 ((0 : Nat) : α) xl N q := by
    rw [hmid]; exact le_of_lt (mul_pos hN hfrac0)
  have hm1 : calcFrac x0 ((0 : Nat) : α) xl N q < N := by
    rw [hmid]
    calc N * ((q - x0) / (xl - x0)) < N * 1 := by
          exact mul_lt_mul_of_pos_left hfrac1 hN
      _ = N := mul_one N
  have hbig : calcFrac x0 ((0 : Nat) : α) xl N q < (2 : α) ^ 64 := by
    refine lt_trans hm1 ?_
    have : xs.length - 1 < 2 ^ 64 := by omega
    have : ((xs.length - 1 : Nat) : α) < ((2 ^ 64 : Nat) : α) := by exact_mod_cast this
    rw [← hNdef]
    refine lt_of_lt_of_le this (le_of_eq ?_)
    norm_cast
  obtain ⟨g, hg, hg1, _⟩ := LawfulToUsize.spec _ hm0 hbig
  refine ⟨g, hg, ?_⟩
  have : (g : α) < N := lt_of_le_of_lt hg1 hm1
  rw [← hNdef] at this
  have : g < xs.length - 1 := by exact_mod_cast this
  omega

/-- **C11_exact**: `get_lower_index` returns the bracket for every axis and every query. -/
theorem C11_exact (xs : List α) (q : α) (hs : StrictInc xs) (hlen : xs.length < 2 ^ 64) :
    ∃ i, lowerIndex xs q = .ok i ∧ Bracket xs q i :=
  C11_of_guess xs q hs (fun _ c1 c2 => by
    obtain ⟨g, hg, hg2⟩ := C11_guess xs q hs hlen c1 c2
    exact ⟨g, hg, by omega⟩)

end field

end NdInterp
