/-
C18 — custom strategies get validated inputs, correct targets, faithful accessors.

Model: `buildCustom1` / `buildCustom2` (the builders with an arbitrary user strategy builder `sb`,
declared minimum `minLen`) and the generic entry points `ep*` over an arbitrary strategy call `f`.
* `C18_build_guard`  : `sb` is consulted only after validation succeeded — if validation fails the
                       result does not depend on `sb` at all — and then it receives exactly the
                       validated axis (the one passed in, or the default index axis) and the data,
                       unmodified; with `C10_iff_1d`: strictly increasing, of the data's length, at
                       least `minLen` points.
* `C18_build_error`  : an error returned by the strategy's `build` is the result, unchanged.
* `C18_calls`        : for every entry point the strategy's `interp_into` is invoked on the query
                       elements in logical order, once each, unmodified, stopping right after the
                       first failing call (`callLog`), and
* `C18_call_error`   : the first error it returns is the result, unchanged.
* `C18_accessors`    : `index_point(i) = (x[i], data[i])`, `is_in_range` is the closed-range test,
                       `get_index_left_of` is the segment lookup of C11.
-/
import NdInterp.Props.C10
import NdInterp.Props.C09
import NdInterp.Lemmas.LinearCore

namespace NdInterp

section build
variable {α σ : Type} [Cmp α] [NatCast α]

/-- **C18_build_guard** (1-D) -/
theorem C18_build_guard (minLen : Nat) (sb sb' : List α → NdArr α → Except Fault σ)
    (x : Option (List α)) (data : NdArr α) :
    (∀ e, validate1 minLen x data = .error e →
      buildCustom1 minLen sb x data = .error e ∧ buildCustom1 minLen sb' x data = .error e) ∧
    (∀ xs, validate1 minLen x data = .ok xs →
      buildCustom1 minLen sb x data =
        (match sb xs data with
         | .error e => .error e
         | .ok s => .ok (xs, data, s))) := by
  unfold buildCustom1
  constructor
  · intro e h
    simp [h, bind, Except.bind]
  · intro xs h
    simp only [h, bind, Except.bind, pure, Except.pure]
    cases sb xs data <;> rfl

/-- **C18_build_error**: the strategy builder's error reaches the caller unchanged. -/
theorem C18_build_error (minLen : Nat) (sb : List α → NdArr α → Except Fault σ)
    (x : Option (List α)) (data : NdArr α) (xs : List α) (e : Fault)
    (hv : validate1 minLen x data = .ok xs) (hb : sb xs data = .error e) :
    buildCustom1 minLen sb x data = .error e := by
  rw [(C18_build_guard minLen sb sb x data).2 xs hv, hb]

/-- **C18_build_guard_2d** -/
theorem C18_build_guard_2d (minLen : Nat) (sb sb' : List α → List α → NdArr α → Except Fault σ)
    (x y : Option (List α)) (data : NdArr α) :
    (∀ e, validate2 minLen x y data = .error e →
      buildCustom2 minLen sb x y data = .error e ∧ buildCustom2 minLen sb' x y data = .error e) ∧
    (∀ xs ys, validate2 minLen x y data = .ok (xs, ys) →
      buildCustom2 minLen sb x y data =
        (match sb xs ys data with
         | .error e => .error e
         | .ok s => .ok (xs, ys, data, s))) := by
  unfold buildCustom2
  constructor
  · intro e h
    simp [h, bind, Except.bind]
  · intro xs ys h
    simp only [h, bind, Except.bind, pure, Except.pure]
    cases sb xs ys data <;> rfl

end build

section calls
variable {α β : Type}

/-- the strategy calls an entry point makes: the query elements in logical order up to and
    including the first failing one -/
def callLog (f : β → Except Fault (List α)) : List β → List β
  | [] => []
  | q :: qs =>
    match f q with
    | .error _ => [q]
    | .ok _ => q :: callLog f qs

/-- the per-element loop with an explicit log of the strategy invocations -/
def interpEachLog (f : β → Except Fault (List α)) :
    List β → Except Fault (List (List α)) × List β
  | [] => (.ok [], [])
  | q :: qs =>
    match f q with
    | .error e => (.error e, [q])
    | .ok v =>
      let (r, log) := interpEachLog f qs
      (match r with
       | .error e => .error e
       | .ok vs => .ok (v :: vs), q :: log)

/-- **C18_calls**: the instrumented loop returns what the entry points return and its log is
    `callLog`: one call per element, in order, unmodified, nothing after the first failure. -/
theorem C18_calls (f : β → Except Fault (List α)) (qs : List β) :
    (interpEachLog f qs).1 = interpEach f qs ∧ (interpEachLog f qs).2 = callLog f qs := by
  induction qs with
  | nil => exact ⟨rfl, rfl⟩
  | cons q qs ih =>
    simp only [interpEachLog, interpEach, callLog]
    cases f q with
    | error e => exact ⟨rfl, rfl⟩
    | ok v =>
      simp only []
      obtain ⟨h1, h2⟩ := ih
      constructor
      · rw [← h1]; first | rfl | (cases (interpEachLog f qs).1 <;> rfl)
      · rw [← h2]

/-- the call log is a prefix of the query elements; it is all of them iff no call failed -/
theorem C18_calls_prefix (f : β → Except Fault (List α)) (qs : List β) :
    ∃ rest, qs = callLog f qs ++ rest ∧
      ((∃ vs, interpEach f qs = .ok vs) → rest = []) := by
  induction qs with
  | nil => exact ⟨[], rfl, fun _ => rfl⟩
  | cons q qs ih =>
    simp only [callLog, interpEach]
    cases hq : f q with
    | error e => exact ⟨qs, rfl, fun ⟨vs, h⟩ => by simp at h⟩
    | ok v =>
      obtain ⟨rest, h1, h2⟩ := ih
      refine ⟨rest, by simp only [List.cons_append]; rw [← h1], ?_⟩
      rintro ⟨vs, h⟩
      apply h2
      cases hr : interpEach f qs with
      | error e => rw [hr] at h; simp at h
      | ok vs' => exact ⟨vs', rfl⟩

/-- **C18_call_error**: the first error of the strategy's `interp_into` is the result of every
    entry point, unchanged. -/
theorem C18_call_error (trailing : List Nat) (f : β → Except Fault (List α)) (qshape : List Nat)
    (qs : List β) (q : β) (e : Fault) (hq : f q = .error e) :
    epInterp trailing f q = .error e ∧ epScalar f q = .error e ∧
    (∀ b, epInterpInto trailing f q b = .error e) ∧
    (∀ pre post, qs = pre ++ q :: post → (∀ p ∈ pre, ∃ v, f p = .ok v) →
      epArray trailing f qshape qs = .error e ∧
      epArrayInto trailing f qshape qs (qshape ++ trailing) = .error e) := by
  refine ⟨by simp [epInterp, hq], by simp [epScalar, hq], fun b => by simp [epInterpInto, hq], ?_⟩
  intro pre post hqs hpre
  have key : interpEach f qs = .error e := by
    subst hqs
    induction pre with
    | nil => simp [interpEach, hq]
    | cons p pre ih =>
      obtain ⟨v, hv⟩ := hpre p (by simp)
      simp only [List.cons_append, interpEach, hv]
      rw [ih (fun p' hp' => hpre p' (by simp [hp']))]
  exact ⟨by simp [epArray, key], by simp [epArrayInto, epArray, key]⟩

end calls

section accessors
variable {α : Type} [Field α] [LinearOrder α] [IsStrictOrderedRing α] [Cmp α] [LawfulCmp α]
  [ToUsize α] [LawfulToUsize α]

/-- **C18_accessors**: what a strategy sees through the interpolator's accessors. -/
theorem C18_accessors (xs : List α) (rows : List (List α)) (q : α) (i : Nat)
    (hs : StrictInc xs) (hl : rows.length = xs.length) (hlen : xs.length < 2 ^ 64)
    (hi : i < xs.length) :
    -- `index_point(i)`
    (rd xs i = .ok xs[i] ∧ rd rows i = .ok (rows[i]'(by omega))) ∧
    -- `is_in_range(q)` is the closed-range test
    (isInRange xs q = .ok (decide (InRange xs q))) ∧
    -- `get_index_left_of(q)` is the bracketing index of C11
    (∃ j, lowerIndex xs q = .ok j ∧ Bracket xs q j) :=
  ⟨⟨rd_eq xs i hi, rd_eq rows i (by omega)⟩, isInRange_eq xs q (by omega), C11_exact xs q hs hlen⟩

end accessors

end NdInterp
