/-
C16 — polynomials of the strategy's degree are reproduced exactly (everywhere, not only at knots).

* `C16_linear`   : data sampled from `a + b·x` is reproduced by Linear at every query, in range and
                   extrapolated.
* `C16_bilinear` : data sampled from `a + b·x + c·y + d·x·y` is reproduced by Bilinear.
* `C16_spline`   : if the data are samples of a cubic `p` and `p` itself satisfies the selected end
                   conditions (always true for NotAKnot; `FirstDeriv p'(end)`, `SecondDeriv p''(end)`;
                   Natural when `p'' = 0` there, e.g. straight lines), then `solve_for_k` returns the
                   slopes `p'(xᵢ)` and every piece evaluates to `p` — inside the range and, with
                   extrapolation, outside it.  Corollaries `C16_notAKnot` (n ≥ 4, every cubic),
                   `C16_natural_line`.
Proof of the spline part: the true slopes satisfy C² and the end conditions, so by `C03_unique`
they are what the solver returns; the Hermite cubic of a cubic is that cubic (`hermite_exact`).
-/
import NdInterp.Props.C02
import NdInterp.Props.C03
import NdInterp.Props.C04

namespace NdInterp

section
variable {F : Type} [Field F] [LinearOrder F] [IsStrictOrderedRing F] [Cmp F] [LawfulCmp F]
  [ToUsize F] [LawfulToUsize F]

/-- **C16_linear**: affine data are reproduced at every query (in range or extrapolated). -/
theorem C16_linear (ext : Bool) (xs ys : List F) (a b q : F)
    (hs : StrictInc xs) (hl : ys.length = xs.length) (hlen : xs.length < 2 ^ 64)
    (hdata : ∀ i (h : i < xs.length), ys[i]'(by omega) = a + b * xs[i])
    (hok : ext = true ∨ InRange xs q) :
    linearInterp (V := F) ext xs ys q = .ok (a + b * q) := by
  obtain ⟨i, hb, h⟩ := linearInterp_eq (V := F) ext xs ys q hs hl hlen
  rw [h, if_pos hok]
  have hlt := hb.lt_len
  have hd : xs[i + 1] - xs[i] ≠ 0 := ne_of_gt (sub_pos.mpr (hs.2 i (i + 1) (by omega) hlt))
  simp only [map2_scalar, calcFrac, hdata i (by omega), hdata (i + 1) hlt]
  congr 1
  field_simp
  ring

/-- **C16_bilinear**: bilinear data are reproduced at every query. -/
theorem C16_bilinear (ext : Bool) (xs ys : List F) (zs : List (List F)) (a b c d x y : F)
    (hsx : StrictInc xs) (hsy : StrictInc ys) (hg : GridOK zs xs.length ys.length)
    (hlx : xs.length < 2 ^ 64) (hly : ys.length < 2 ^ 64)
    (hdata : ∀ i j (r : List F) (z : F) (hi : i < xs.length) (hj : j < ys.length),
      zs[i]? = some r → r[j]? = some z → z = a + b * xs[i] + c * ys[j] + d * xs[i] * ys[j])
    (hok : (ext = true ∨ InRange xs x) ∧ (ext = true ∨ InRange ys y)) :
    bilinearInterp (V := F) ext xs ys zs x y = .ok (a + b * x + c * y + d * x * y) := by
  obtain ⟨i, j, hi, hj, r1, r2, z11, z12, z21, z22, e1, e2, e3, e4, e5, e6, h⟩ :=
    bilinearInterp_eq (V := F) ext xs ys zs x y hsx hsy hg hlx hly
  rw [h, if_pos hok.1, if_pos hok.2]
  have hil := hi.lt_len
  have hjl := hj.lt_len
  have hdx : xs[i + 1] - xs[i] ≠ 0 := ne_of_gt (sub_pos.mpr (hsx.2 i (i + 1) (by omega) hil))
  have hdy : ys[j + 1] - ys[j] ≠ 0 := ne_of_gt (sub_pos.mpr (hsy.2 j (j + 1) (by omega) hjl))
  rw [hdata i j r1 z11 (by omega) (by omega) e1 e3, hdata i (j + 1) r1 z12 (by omega) hjl e1 e4,
    hdata (i + 1) j r2 z21 hil (by omega) e2 e5, hdata (i + 1) (j + 1) r2 z22 hil hjl e2 e6]
  simp only [map4_scalar, calcFrac]
  congr 1
  field_simp
  ring

end

/-! ### splines -/

section spline
variable {F : Type} [Field F] [LinearOrder F] [IsStrictOrderedRing F]

/-- a cubic `a0 + a1 x + a2 x² + a3 x³` and its derivatives -/
def cubicP (a0 a1 a2 a3 x : F) : F := a0 + a1 * x + a2 * x ^ 2 + a3 * x ^ 3
def cubicP' (a1 a2 a3 x : F) : F := a1 + 2 * a2 * x + 3 * a3 * x ^ 2
def cubicP'' (a2 a3 x : F) : F := 2 * a2 + 6 * a3 * x

omit [LinearOrder F] [IsStrictOrderedRing F] in
/-- Hermite interpolation of a cubic is exact, with exact derivatives -/
theorem hermite_exact (a0 a1 a2 a3 xl xr : F) (h : xr - xl ≠ 0) :
    let P := pieceCubic xl xr (cubicP a0 a1 a2 a3 xl) (cubicP a0 a1 a2 a3 xr)
      (cubicP' a1 a2 a3 xl) (cubicP' a1 a2 a3 xr)
    (∀ q, P.eval q = cubicP a0 a1 a2 a3 q) ∧ (∀ q, P.d1 q = cubicP' a1 a2 a3 q) ∧
    (∀ q, P.d2 q = cubicP'' a2 a3 q) ∧ P.d3 = 6 * a3 := by
  simp only [pieceCubic, Cubic.eval, Cubic.d1, Cubic.d2, Cubic.d3, cubicP, cubicP', cubicP'']
  refine ⟨?_, ?_, ?_, ?_⟩
  · intro q; field_simp; ring
  · intro q; field_simp; ring
  · intro q; field_simp; ring
  · field_simp; ring

variable [Cmp F]

/-- the end conditions, evaluated on the cubic itself -/
def PolyLeft (a1 a2 a3 x0 : F) (b : SingleBoundary F) : Prop :=
  match b.specialize with
  | .firstDeriv v => cubicP' a1 a2 a3 x0 = v
  | .secondDeriv v => cubicP'' a2 a3 x0 = v
  | .notAKnot => True
  | _ => False

/-- **C16_spline**: a cubic that satisfies the selected end conditions is reproduced: the solver
    returns its true slopes and every piece is the cubic itself. -/
theorem C16_spline (xs ys : List F) (a0 a1 a2 a3 : F) (hs : StrictInc xs)
    (hy : ys.length = xs.length) (hn : 3 ≤ xs.length) (left right : SingleBoundary F)
    (hpar : ¬ (xs.length = 3 ∧ isNakPair left right = true))
    (hdata : ∀ i (h : i < xs.length), ys[i]'(by omega) = cubicP a0 a1 a2 a3 xs[i])
    (hleft : PolyLeft a1 a2 a3 (xs[0]'(by omega)) left)
    (hright : PolyLeft a1 a2 a3 (xs[xs.length - 1]'(by omega)) right) :
    ∃ ks, ∃ (hk : ks.length = xs.length),
      solveForK (V := F) xs ys (.mixed left right) = .ok ks ∧
      (∀ i (h : i < xs.length), ks[i]'(by omega) = cubicP' a1 a2 a3 xs[i]) ∧
      ∀ i (hi : i + 1 < xs.length) q, (pieceAt xs ys ks i hi hy hk).eval q = cubicP a0 a1 a2 a3 q := by
  -- the true slopes
  let ks : List F := xs.map (cubicP' a1 a2 a3)
  have hk : ks.length = xs.length := by simp [ks]
  have hks : ∀ i (h : i < xs.length), ks[i]'(by omega) = cubicP' a1 a2 a3 xs[i] := by
    intro i h; simp [ks]
  have hne : ∀ i j (hij : i < j) (hj : j < xs.length), xs[j] - xs[i]'(by omega) ≠ 0 :=
    fun i j hij hj => ne_of_gt (sub_pos.mpr (hs.2 i j hij hj))
  -- every piece is the cubic
  have hpc : ∀ i j (hij : i < j) (hj : j < xs.length),
      pc xs ys ks hy hk i j (by omega) hj =
        pieceCubic xs[i] xs[j] (cubicP a0 a1 a2 a3 xs[i]) (cubicP a0 a1 a2 a3 xs[j])
          (cubicP' a1 a2 a3 xs[i]) (cubicP' a1 a2 a3 xs[j]) := by
    intro i j hij hj
    simp only [pc, hdata i (by omega), hdata j hj, hks i (by omega), hks j hj]
  have hC2 : C2Cond xs ys ks hy hk := by
    intro j h
    rw [hpc j (j + 1) (by omega) (by omega), hpc (j + 1) (j + 2) (by omega) h]
    rw [(hermite_exact a0 a1 a2 a3 _ _ (hne j (j + 1) (by omega) (by omega))).2.2.1,
      (hermite_exact a0 a1 a2 a3 _ _ (hne (j + 1) (j + 2) (by omega) h)).2.2.1]
  have hL : LeftCond xs ys ks hy hk hn left := by
    unfold LeftCond
    unfold PolyLeft at hleft
    have h01 := hermite_exact a0 a1 a2 a3 xs[0] xs[1] (hne 0 1 (by omega) (by omega))
    have h12 := hermite_exact a0 a1 a2 a3 xs[1] xs[2] (hne 1 2 (by omega) (by omega))
    cases hsp : left.specialize with
    | firstDeriv v => rw [hsp] at hleft; simp only; rw [hpc 0 1 (by omega) (by omega), h01.2.1]; exact hleft
    | secondDeriv v => rw [hsp] at hleft; simp only; rw [hpc 0 1 (by omega) (by omega), h01.2.2.1]; exact hleft
    | notAKnot =>
      simp only
      rw [hpc 0 1 (by omega) (by omega), hpc 1 2 (by omega) (by omega), h01.2.2.2, h12.2.2.2]
    | natural => rw [hsp] at hleft; exact hleft
    | clamped => rw [hsp] at hleft; exact hleft
  have hR : RightCond xs ys ks hy hk hn right := by
    unfold RightCond
    unfold PolyLeft at hright
    have ha := hermite_exact a0 a1 a2 a3 xs[xs.length - 3] xs[xs.length - 2]
      (hne (xs.length - 3) (xs.length - 2) (by omega) (by omega))
    have hb := hermite_exact a0 a1 a2 a3 xs[xs.length - 2] xs[xs.length - 1]
      (hne (xs.length - 2) (xs.length - 1) (by omega) (by omega))
    cases hsp : right.specialize with
    | firstDeriv v =>
      rw [hsp] at hright; simp only
      rw [hpc (xs.length - 2) (xs.length - 1) (by omega) (by omega), hb.2.1]; exact hright
    | secondDeriv v =>
      rw [hsp] at hright; simp only
      rw [hpc (xs.length - 2) (xs.length - 1) (by omega) (by omega), hb.2.2.1]; exact hright
    | notAKnot =>
      simp only
      rw [hpc (xs.length - 3) (xs.length - 2) (by omega) (by omega),
        hpc (xs.length - 2) (xs.length - 1) (by omega) (by omega), ha.2.2.2, hb.2.2.2]
    | natural => rw [hsp] at hright; exact hright
    | clamped => rw [hsp] at hright; exact hright
  refine ⟨ks, hk, C03_unique xs ys hs hy hn left right hpar ks hk hC2 hL hR, hks, ?_⟩
  intro i hi q
  have : pieceAt xs ys ks i hi hy hk = pc xs ys ks hy hk i (i + 1) (by omega) hi := rfl
  rw [this, hpc i (i + 1) (by omega) hi]
  exact (hermite_exact a0 a1 a2 a3 _ _ (hne i (i + 1) (by omega) hi)).1 q

/-- **C16_notAKnot**: the default spline with at least four points reproduces every cubic. -/
theorem C16_notAKnot (xs ys : List F) (a0 a1 a2 a3 : F) (hs : StrictInc xs)
    (hy : ys.length = xs.length) (hn : 4 ≤ xs.length)
    (hdata : ∀ i (h : i < xs.length), ys[i]'(by omega) = cubicP a0 a1 a2 a3 xs[i]) :
    ∃ ks, ∃ (hk : ks.length = xs.length),
      solveForK (V := F) xs ys (.mixed .notAKnot .notAKnot) = .ok ks ∧
      ∀ i (hi : i + 1 < xs.length) q, (pieceAt xs ys ks i hi hy hk).eval q = cubicP a0 a1 a2 a3 q := by
  obtain ⟨ks, hk, h1, _, h3⟩ := C16_spline xs ys a0 a1 a2 a3 hs hy (by omega) .notAKnot .notAKnot
    (by omega) hdata trivial trivial
  exact ⟨ks, hk, h1, h3⟩

/-- **C16_natural_line**: the Natural spline reproduces straight lines. -/
theorem C16_natural_line (xs ys : List F) (a0 a1 : F) (hs : StrictInc xs)
    (hy : ys.length = xs.length) (hn : 3 ≤ xs.length)
    (hdata : ∀ i (h : i < xs.length), ys[i]'(by omega) = a0 + a1 * xs[i]) :
    ∃ ks, ∃ (hk : ks.length = xs.length),
      solveForK (V := F) xs ys (.mixed .natural .natural) = .ok ks ∧
      ∀ i (hi : i + 1 < xs.length) q, (pieceAt xs ys ks i hi hy hk).eval q = a0 + a1 * q := by
  obtain ⟨ks, hk, h1, _, h3⟩ := C16_spline xs ys a0 a1 0 0 hs hy hn .natural .natural
    (by simp [isNakPair]) (by intro i h; simp [cubicP, hdata i h])
    (by simp [PolyLeft, SingleBoundary.specialize, cubicP''])
    (by simp [PolyLeft, SingleBoundary.specialize, cubicP''])
  exact ⟨ks, hk, h1, fun i hi q => by simpa [cubicP] using h3 i hi q⟩

end spline

end NdInterp
