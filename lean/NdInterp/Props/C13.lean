/-
C13 — results do not depend on the memory layout or ownership of any array argument.

* `C13_buffer` (proved in `Props/C14.lean`, restated here): two output buffers of the same shape
  with arbitrary offsets and strides receive the same logical contents; the only requirement is
  the invariant of an `ArrayViewMut` (distinct indices ↦ distinct addresses).  No contiguity or
  ordering condition appears — in particular a correctly shaped buffer is accepted whatever its
  strides (false of the unrepaired general path, which reshaped a sub-view).
* `C13_facts` (on the source facts regenerated on every run): outside `cfg(test)` the crate calls
  no ndarray API whose result depends on the memory layout (`as_slice*`, `as_ptr`, `into_shape*`,
  `to_shape`, `strides`, raw views, unchecked indexing, …): data, axes, queries and buffers are only
  accessed through logical indexing, `Zip`, `index_axis`, `axis_iter`, `windows`, `indexed_iter`
  and slicing, whose pairing of equal logical indices is ndarray's contract (trusted, exercised by
  the layout runs of the check: the model ignores the layout tags of a case, the real code must
  nevertheless return the model's result).
-/
import NdInterp.Props.C14
import NdInterp.Gen.SourceFacts

namespace NdInterp

/-- **C13_facts** -/
theorem C13_facts : Gen.layoutApiHits = [] := by decide

/-- **C13_buffer_layout** (restatement of `C13_buffer`) -/
theorem C13_buffer_layout {α β : Type} (trailing : List Nat) (f : β → Except Fault (List α))
    (qshape : List Nat) (qs : List β) (b1 b2 : View) (m1 m2 m1' : Int → α)
    (hshape : b1.shape = b2.shape) (hinj1 : b1.addrs.Nodup) (hinj2 : b2.addrs.Nodup)
    (hs1 : qshape.length ≤ b1.strides.length) (hs2 : qshape.length ≤ b2.strides.length)
    (hq : qs.length = shapeSize qshape) (hf : ∀ q v, f q = .ok v → v.length = shapeSize trailing)
    (h1 : arrayIntoMem trailing f qshape qs b1 m1 = .ok m1') :
    ∃ m2', arrayIntoMem trailing f qshape qs b2 m2 = .ok m2' ∧ b2.read m2' = b1.read m1' :=
  C13_buffer trailing f qshape qs b1 b2 m1 m2 m1' m1' hshape hinj1 hinj2 hs1 hs2 hq hf h1

/-! non-vacuity: a C-order and a Fortran-order view of shape (2,3) have distinct addresses -/
example : (View.mk 0 [2, 3] [3, 1]).addrs.Nodup ∧ (View.mk 0 [2, 3] [1, 2]).addrs.Nodup ∧
    (View.mk 5 [2, 3] [-3, 7]).addrs.Nodup := by decide

end NdInterp
