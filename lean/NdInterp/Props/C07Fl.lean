/-
C07 — what "up to rounding of the wrapped argument" amounts to.

Outside the data range the periodic spline is evaluated at the wrapped argument `w = x₀ + (q − x₀) mod P`, which in floating point
is computed with rounding (`q − x₀` alone loses `u·|q − x₀|`, many periods away that is a large part of an interval).  The value
returned is the segment expression at the *rounded* argument; how far that can be from the value at the exact wrapped argument is a
Lipschitz statement about one segment:

* `C07_segment_lipschitz` : for `x, x'` in the same interval `[x_l, x_r]`,
      `|S(x) − S(x')| ≤ |x − x'| / (x_r − x_l) · (|y_r − y_l| + |a| + |b|)`,
  `S = splEvalExact` the segment expression of `CubicSplineStrategy::interp_into` (`C02_eval_exact_is_model`).

* `C07_wrapped_rounding` : the two together — rounded evaluation at the rounded wrapped argument against the exact value at the exact one.

Together with `C02_eval_rounding` (rounding of the evaluation itself) this bounds the float result against the exact periodic
extension whenever the rounded and the exact wrapped argument fall into the same interval; across a knot the spline is C² (C02), across
the period boundary it is C² by the periodic end conditions (C03_periodic), so the same estimate holds piecewise.
The magnitude of the argument error itself (`rem_euclid` on floats) is not modelled — trusted base, see `ASSUMPTIONS` of C07.
-/
import NdInterp.Props.C02Fl

namespace NdInterp

section
variable {F : Type} [Field F] [LinearOrder F] [IsStrictOrderedRing F]

private theorem g1_bound (t s : F) (ht0 : 0 ≤ t) (ht1 : t ≤ 1) (hs0 : 0 ≤ s) (hs1 : s ≤ 1) :
    |1 - 2 * (t + s) + (t ^ 2 + t * s + s ^ 2)| ≤ 1 := by
  rw [abs_le]
  constructor
  · nlinarith [sq_nonneg (1 - t), sq_nonneg (1 - s), mul_nonneg ht0 hs0]
  · nlinarith [mul_nonneg ht0 (sub_nonneg.mpr ht1), mul_nonneg hs0 (sub_nonneg.mpr hs1), mul_nonneg ht0 (sub_nonneg.mpr hs1)]

private theorem g2_bound (t s : F) (ht0 : 0 ≤ t) (ht1 : t ≤ 1) (hs0 : 0 ≤ s) (hs1 : s ≤ 1) :
    |(t + s) - (t ^ 2 + t * s + s ^ 2)| ≤ 1 := by
  rw [abs_le]
  constructor
  · nlinarith [mul_nonneg ht0 (sub_nonneg.mpr ht1), mul_nonneg hs0 (sub_nonneg.mpr hs1), mul_nonneg (sub_nonneg.mpr ht1) (sub_nonneg.mpr hs1),
      mul_nonneg ht0 hs0]
  · nlinarith [sq_nonneg (1 - t), sq_nonneg (1 - s), mul_nonneg ht0 hs0, sq_nonneg t, sq_nonneg s]

/-- **C07_segment_lipschitz**: within one interval the segment value moves by at most
    `|x − x'| / (x_r − x_l) · (|y_r − y_l| + |a| + |b|)` -/
theorem C07_segment_lipschitz (xl xr yl yr a b x x' : F) (hx : xl < xr)
    (h1 : xl ≤ x) (h2 : x ≤ xr) (h1' : xl ≤ x') (h2' : x' ≤ xr) :
    |splEvalExact xl xr yl yr a b x - splEvalExact xl xr yl yr a b x'| ≤
      |x - x'| / (xr - xl) * (|yr - yl| + |a| + |b|) := by
  have hd : 0 < xr - xl := sub_pos.mpr hx
  unfold splEvalExact
  simp only
  set t := (x - xl) / (xr - xl) with ht
  set s := (x' - xl) / (xr - xl) with hs
  have ht0 : 0 ≤ t := div_nonneg (by linarith) hd.le
  have ht1 : t ≤ 1 := by rw [ht, div_le_one hd]; linarith
  have hs0 : 0 ≤ s := div_nonneg (by linarith) hd.le
  have hs1 : s ≤ 1 := by rw [hs, div_le_one hd]; linarith
  have hts : |x - x'| / (xr - xl) = |t - s| := by
    have : t - s = (x - x') / (xr - xl) := by rw [ht, hs]; field_simp; ring
    rw [this, abs_div, abs_of_pos hd]
  rw [hts]
  have e : (1 - t) * yl + t * yr + t * (1 - t) * (a * (1 - t) + b * t) - ((1 - s) * yl + s * yr + s * (1 - s) * (a * (1 - s) + b * s))
      = (t - s) * ((yr - yl) + a * (1 - 2 * (t + s) + (t ^ 2 + t * s + s ^ 2)) + b * ((t + s) - (t ^ 2 + t * s + s ^ 2))) := by ring
  rw [e, abs_mul]
  apply mul_le_mul_of_nonneg_left _ (abs_nonneg _)
  have g1 := g1_bound t s ht0 ht1 hs0 hs1
  have g2 := g2_bound t s ht0 ht1 hs0 hs1
  calc |(yr - yl) + a * (1 - 2 * (t + s) + (t ^ 2 + t * s + s ^ 2)) + b * ((t + s) - (t ^ 2 + t * s + s ^ 2))|
      ≤ |yr - yl| + |a * (1 - 2 * (t + s) + (t ^ 2 + t * s + s ^ 2))| + |b * ((t + s) - (t ^ 2 + t * s + s ^ 2))| := abs_add_three _ _ _
    _ = |yr - yl| + |a| * |1 - 2 * (t + s) + (t ^ 2 + t * s + s ^ 2)| + |b| * |(t + s) - (t ^ 2 + t * s + s ^ 2)| := by
        rw [abs_mul, abs_mul]
    _ ≤ |yr - yl| + |a| * 1 + |b| * 1 := by gcongr
    _ = |yr - yl| + |a| + |b| := by ring

/-- **C07_wrapped_rounding**: the rounded evaluation at a (rounded) wrapped argument `x'` against the exact value at the exact wrapped
    argument `x`, both in the same interval: the evaluation's own rounding (`C02_eval_rounding`) plus the effect of the argument error -/
theorem C07_wrapped_rounding (xl xr yl yr a b x x' u M d1 d2 d3 d4 d5 d6 d7 d8 d9 d10 d11 d12 d13 : F)
    (hx : xl < xr) (h1 : xl ≤ x) (h2 : x ≤ xr) (h1' : xl ≤ x') (h2' : x' ≤ xr) (hu0 : 0 ≤ u) (hu : u ≤ 1/16)
    (e1 : |d1| ≤ u) (e2 : |d2| ≤ u) (e3 : |d3| ≤ u) (e4 : |d4| ≤ u) (e5 : |d5| ≤ u) (e6 : |d6| ≤ u) (e7 : |d7| ≤ u)
    (e8 : |d8| ≤ u) (e9 : |d9| ≤ u) (e10 : |d10| ≤ u) (e11 : |d11| ≤ u) (e12 : |d12| ≤ u) (e13 : |d13| ≤ u)
    (hyl : |yl| ≤ M) (hyr : |yr| ≤ M) (ha : |a| ≤ M) (hb : |b| ≤ M) :
    |splEvalFl xl xr yl yr a b x' d1 d2 d3 d4 d5 d6 d7 d8 d9 d10 d11 d12 d13 - splEvalExact xl xr yl yr a b x| ≤
      102 * u * M + |x' - x| / (xr - xl) * (|yr - yl| + |a| + |b|) := by
  have r := C02_eval_rounding xl xr yl yr a b x' u M d1 d2 d3 d4 d5 d6 d7 d8 d9 d10 d11 d12 d13 hx h1' h2' hu0 hu
    e1 e2 e3 e4 e5 e6 e7 e8 e9 e10 e11 e12 e13 hyl hyr ha hb
  have l := C07_segment_lipschitz xl xr yl yr a b x' x hx h1' h2' h1 h2
  calc |splEvalFl xl xr yl yr a b x' d1 d2 d3 d4 d5 d6 d7 d8 d9 d10 d11 d12 d13 - splEvalExact xl xr yl yr a b x|
      = |(splEvalFl xl xr yl yr a b x' d1 d2 d3 d4 d5 d6 d7 d8 d9 d10 d11 d12 d13 - splEvalExact xl xr yl yr a b x')
          + (splEvalExact xl xr yl yr a b x' - splEvalExact xl xr yl yr a b x)| := by ring_nf
    _ ≤ _ := le_trans (abs_add_le _ _) (add_le_add r l)

/-- non-vacuity, and the bound is attained up to its constant: the segment with `y = (0, 1)`, `a = b = 0` is the line of slope `1/h` -/
example : |splEvalExact (0 : ℚ) 2 0 1 0 0 (3/2) - splEvalExact 0 2 0 1 0 0 (1/2)| = |(3/2 : ℚ) - 1/2| / (2 - 0) * (|(1 : ℚ) - 0| + |0| + |0|) := by
  norm_num [splEvalExact]

end

end NdInterp
