/-
C01 — Linear 1-D interpolation returns the exact piecewise-linear interpolant.

For every strictly increasing axis (any length ≥ 2, any spacing), every data set, every lane
structure `V` and every in-range query:
* `C01_struct`   : the call succeeds and each lane is `calc_frac` of the two bracketing points;
* `C01_exact`    : (one lane) the value is `y_i + (y_{i+1}-y_i)/(x_{i+1}-x_i)·(q-x_i)`;
* `C01_knot`     : every data point is reproduced at its axis value (also the last one);
* `C01_hull`     : the result lies between the two bracketing values;
* `C01_default_axis` : the default axis of `Interp1DBuilder::new` is `0,1,…,n-1`, strictly increasing;
* `C01_rounding` : under the standard model of floating-point arithmetic (each operation
                   returns `exact·(1+δ)`, `|δ| ≤ u ≤ 1/16`) the computed `calc_frac` is within
                   `(13u + 12u²)·max(|y_i|,|y_{i+1}|)` of the exact value.
-/
import NdInterp.Lemmas.LinearCore
import NdInterp.Model.Interp
import Mathlib.Tactic.Positivity
import Mathlib.Tactic.GCongr
import Mathlib.Algebra.Order.AbsoluteValue.Basic

namespace NdInterp

section
variable {α V : Type} [Field α] [LinearOrder α] [IsStrictOrderedRing α]
  [Cmp α] [LawfulCmp α] [ToUsize α] [LawfulToUsize α] [Lanes α V]

omit [Field α] [IsStrictOrderedRing α] [Cmp α] [LawfulCmp α] [ToUsize α] [LawfulToUsize α] in
/-- an in-range query lies in the closed bracketing interval -/
theorem Bracket.between {xs : List α} {q : α} {i : Nat} (hb : Bracket xs q i) (hs : StrictInc xs)
    (hin : InRange xs q) :
    xs[i]'(by have := hb.lt_len; omega) ≤ q ∧ q ≤ xs[i + 1]'hb.lt_len := by
  obtain ⟨h0, hlo, hhi⟩ := hin
  have hn := hs.1
  by_cases c1 : q ≤ xs[0]
  · have hi := hb.low h0 c1
    subst hi
    have hq : q = xs[0] := le_antisymm c1 hlo
    refine ⟨hlo, ?_⟩
    exact le_trans c1 (le_of_lt (hs.2 0 1 (by omega) (by omega)))
  · by_cases c2 : xs[xs.length - 1] ≤ q
    · have hi := hb.high h0 c2
      have hq : q = xs[xs.length - 1] := le_antisymm hhi c2
      subst hi
      constructor
      · exact le_trans (le_of_lt (hs.2 (xs.length - 2) (xs.length - 1) (by omega) (by omega))) c2
      · refine le_trans hhi (le_of_eq ?_); congr 1; omega
    · have := hb.inside h0 (not_le.mp c1) (not_le.mp c2)
      exact ⟨this.1, le_of_lt this.2⟩

/-- **C01_struct**: for any lane structure the call succeeds on every in-range query and is
    `calc_frac` of the bracketing points, lane by lane. -/
theorem C01_struct (ext : Bool) (xs : List α) (ys : List V) (q : α)
    (hs : StrictInc xs) (hl : ys.length = xs.length) (hlen : xs.length < 2 ^ 64)
    (hin : InRange xs q) :
    ∃ i, ∃ (hb : Bracket xs q i),
      linearInterp ext xs ys q =
        .ok (Lanes.map2 (fun y1 y2 =>
          calcFrac (xs[i]'(by have := hb.lt_len; omega)) y1 (xs[i + 1]'hb.lt_len) y2 q)
          (ys[i]'(by have := hb.lt_len; omega)) (ys[i + 1]'(by have := hb.lt_len; omega))) := by
  obtain ⟨i, hb, h⟩ := linearInterp_eq ext xs ys q hs hl hlen
  exact ⟨i, hb, by rw [h, if_pos (Or.inr hin)]⟩

/-- **C01_exact**: the value is that of the straight line through the two bracketing points. -/
theorem C01_exact (ext : Bool) (xs ys : List α) (q : α)
    (hs : StrictInc xs) (hl : ys.length = xs.length) (hlen : xs.length < 2 ^ 64)
    (hin : InRange xs q) :
    ∃ i, ∃ (hb : Bracket xs q i),
      linearInterp (V := α) ext xs ys q =
        .ok (ys[i]'(by have := hb.lt_len; omega) +
          (ys[i + 1]'(by have := hb.lt_len; omega) - ys[i]'(by have := hb.lt_len; omega)) /
            (xs[i + 1]'hb.lt_len - xs[i]'(by have := hb.lt_len; omega)) *
            (q - xs[i]'(by have := hb.lt_len; omega))) := by
  obtain ⟨i, hb, h⟩ := C01_struct (V := α) ext xs ys q hs hl hlen hin
  refine ⟨i, hb, ?_⟩
  rw [h]
  simp only [Lanes.map2, calcFrac]
  congr 1
  ring

/-- **C01_knot**: every data point is reproduced at its axis value. -/
theorem C01_knot (ext : Bool) (xs ys : List α) (k : Nat)
    (hs : StrictInc xs) (hl : ys.length = xs.length) (hlen : xs.length < 2 ^ 64)
    (hk : k < xs.length) :
    linearInterp (V := α) ext xs ys xs[k] = .ok (ys[k]'(by omega)) := by
  have hn := hs.1
  have hin : InRange xs xs[k] :=
    ⟨by omega, hs.le_of_le (Nat.zero_le k) hk, hs.le_of_le (by omega) (by omega)⟩
  obtain ⟨i, hb, h⟩ := C01_exact ext xs ys xs[k] hs hl hlen hin
  rw [h]
  have hlt := hb.lt_len
  obtain ⟨b1, b2⟩ := hb.between hs hin
  -- the knot is one of the two ends of its bracket
  have hki : k = i ∨ k = i + 1 := by
    by_contra hcon
    simp only [not_or] at hcon
    rcases Nat.lt_or_ge k i with h1 | h1
    · exact absurd b1 (not_le.mpr (hs.2 k i h1 (by omega)))
    · have : i + 1 < k := by omega
      exact absurd b2 (not_le.mpr (hs.2 (i + 1) k this hk))
  have hd : xs[i + 1] - xs[i] ≠ 0 := ne_of_gt (sub_pos.mpr (hs.2 i (i + 1) (by omega) hlt))
  rcases hki with rfl | rfl
  · congr 1; simp
  · congr 1; field_simp; ring

/-- **C01_hull**: the result never leaves the interval spanned by the two bracketing values. -/
theorem C01_hull (ext : Bool) (xs ys : List α) (q : α)
    (hs : StrictInc xs) (hl : ys.length = xs.length) (hlen : xs.length < 2 ^ 64)
    (hin : InRange xs q) :
    ∃ i r, ∃ (hb : Bracket xs q i), linearInterp (V := α) ext xs ys q = .ok r ∧
      min (ys[i]'(by have := hb.lt_len; omega)) (ys[i + 1]'(by have := hb.lt_len; omega)) ≤ r ∧
      r ≤ max (ys[i]'(by have := hb.lt_len; omega)) (ys[i + 1]'(by have := hb.lt_len; omega)) := by
  obtain ⟨i, hb, h⟩ := C01_exact ext xs ys q hs hl hlen hin
  refine ⟨i, _, hb, h, ?_⟩
  have hlt := hb.lt_len
  obtain ⟨b1, b2⟩ := hb.between hs hin
  have hdpos : 0 < xs[i + 1] - xs[i] := sub_pos.mpr (hs.2 i (i + 1) (by omega) hlt)
  set y1 := ys[i]'(by omega)
  set y2 := ys[i + 1]'(by omega)
  set t := (q - xs[i]) / (xs[i + 1] - xs[i]) with ht
  have ht0 : 0 ≤ t := div_nonneg (by linarith) hdpos.le
  have ht1 : t ≤ 1 := by rw [ht, div_le_one hdpos]; linarith
  have e : y1 + (y2 - y1) / (xs[i + 1] - xs[i]) * (q - xs[i]) = (1 - t) * y1 + t * y2 := by
    rw [ht]; field_simp; ring
  rw [e]
  have h1t : 0 ≤ 1 - t := by linarith
  constructor
  · calc min y1 y2 = (1 - t) * min y1 y2 + t * min y1 y2 := by ring
      _ ≤ (1 - t) * y1 + t * y2 :=
        add_le_add (mul_le_mul_of_nonneg_left (min_le_left _ _) h1t)
          (mul_le_mul_of_nonneg_left (min_le_right _ _) ht0)
  · calc (1 - t) * y1 + t * y2 ≤ (1 - t) * max y1 y2 + t * max y1 y2 :=
        add_le_add (mul_le_mul_of_nonneg_left (le_max_left _ _) h1t)
          (mul_le_mul_of_nonneg_left (le_max_right _ _) ht0)
      _ = max y1 y2 := by ring

omit [LinearOrder α] [IsStrictOrderedRing α] [Cmp α] [LawfulCmp α] [ToUsize α] [LawfulToUsize α] in
theorem defaultAxis_length (n : Nat) : (defaultAxis (α := α) n).length = n := by
  simp [defaultAxis]

omit [LinearOrder α] [IsStrictOrderedRing α] [Cmp α] [LawfulCmp α] [ToUsize α] [LawfulToUsize α] in
theorem defaultAxis_get (n i : Nat) (h : i < (defaultAxis (α := α) n).length) :
    (defaultAxis (α := α) n)[i] = (i : α) := by
  simp [defaultAxis]

omit [Cmp α] [LawfulCmp α] [ToUsize α] [LawfulToUsize α] in
/-- **C01_default_axis**: the default axis is the index `0, 1, …, n-1`, strictly increasing. -/
theorem C01_default_axis (n : Nat) (hn : 2 ≤ n) :
    StrictInc (defaultAxis (α := α) n) ∧
      ∀ i (h : i < (defaultAxis (α := α) n).length), (defaultAxis (α := α) n)[i] = (i : α) := by
  refine ⟨⟨by rw [defaultAxis_length]; exact hn, ?_⟩, defaultAxis_get n⟩
  intro i j hij hj
  rw [defaultAxis_get, defaultAxis_get]
  exact_mod_cast hij

end

/-! ### rounding under the standard model of floating-point arithmetic -/

section rounding
variable {F : Type} [Field F] [LinearOrder F] [IsStrictOrderedRing F]

/-- `calc_frac` with every one of its six operations perturbed by a relative error `δₖ`:
    `dy = (y2-y1)(1+δ1)`, `dx = (x2-x1)(1+δ2)`, `m = dy/dx(1+δ3)`, `t = (x-x1)(1+δ4)`,
    `p = m·t(1+δ5)`, result `(p+y1)(1+δ6)`. -/
def calcFracFl (x1 y1 x2 y2 x d1 d2 d3 d4 d5 d6 : F) : F :=
  let dy := (y2 - y1) * (1 + d1)
  let dx := (x2 - x1) * (1 + d2)
  let m := dy / dx * (1 + d3)
  let t := (x - x1) * (1 + d4)
  let p := m * t * (1 + d5)
  (p + y1) * (1 + d6)

/-- with all perturbations zero this is the model's `calcFrac` -/
theorem calcFracFl_zero (x1 y1 x2 y2 x : F) :
    calcFracFl x1 y1 x2 y2 x 0 0 0 0 0 0 = calcFrac x1 y1 x2 y2 x := by
  simp [calcFracFl, calcFrac]

theorem calcFracFl_repr (x1 y1 x2 y2 x d1 d2 d3 d4 d5 d6 : F) (hx : x2 - x1 ≠ 0) (h2 : 1 + d2 ≠ 0) :
    calcFracFl x1 y1 x2 y2 x d1 d2 d3 d4 d5 d6 =
      ((y2 - y1) * ((x - x1) / (x2 - x1)) * ((1 + d1) * (1 + d3) * (1 + d4) * (1 + d5) / (1 + d2)) + y1) * (1 + d6) := by
  unfold calcFracFl
  simp only
  field_simp

theorem theta_bound (u d1 d2 d3 d4 d5 : F) (hu0 : 0 ≤ u) (hu : u ≤ 1/16)
    (h1 : |d1| ≤ u) (h2 : |d2| ≤ u) (h3 : |d3| ≤ u) (h4 : |d4| ≤ u) (h5 : |d5| ≤ u) :
    |(1 + d1) * (1 + d3) * (1 + d4) * (1 + d5) / (1 + d2) - 1| ≤ 6 * u := by
  have a1 := abs_le.mp h1; have a2 := abs_le.mp h2; have a3 := abs_le.mp h3
  have a4 := abs_le.mp h4; have a5 := abs_le.mp h5
  have hpos : 0 < 1 + d2 := by linarith
  rw [abs_le]
  constructor
  · rw [le_sub_iff_add_le, le_div_iff₀ hpos]
    have l1 : (1 - u) ≤ 1 + d1 := by linarith
    have l3 : (1 - u) ≤ 1 + d3 := by linarith
    have l4 : (1 - u) ≤ 1 + d4 := by linarith
    have l5 : (1 - u) ≤ 1 + d5 := by linarith
    have hu1 : 0 ≤ 1 - u := by linarith
    have p1 : 0 ≤ 1 + d1 := by linarith
    have p3 : 0 ≤ 1 + d3 := by linarith
    have p4 : 0 ≤ 1 + d4 := by linarith
    have p5 : 0 ≤ 1 + d5 := by linarith
    have : (1 - u) * (1 - u) * (1 - u) * (1 - u) ≤ (1 + d1) * (1 + d3) * (1 + d4) * (1 + d5) := by
      gcongr
    have : (-6 * u + 1) * (1 + d2) ≤ (1 - u) * (1 - u) * (1 - u) * (1 - u) := by
      nlinarith [mul_nonneg hu0 hu0, mul_nonneg (mul_nonneg hu0 hu0) hu0, mul_nonneg hu0 (sub_nonneg.mpr hu)]
    linarith
  · rw [sub_le_iff_le_add, div_le_iff₀ hpos]
    have l1 : 1 + d1 ≤ 1 + u := by linarith
    have l3 : 1 + d3 ≤ 1 + u := by linarith
    have l4 : 1 + d4 ≤ 1 + u := by linarith
    have l5 : 1 + d5 ≤ 1 + u := by linarith
    have p1 : 0 ≤ 1 + d1 := by linarith
    have p3 : 0 ≤ 1 + d3 := by linarith
    have p4 : 0 ≤ 1 + d4 := by linarith
    have p5 : 0 ≤ 1 + d5 := by linarith
    have : (1 + d1) * (1 + d3) * (1 + d4) * (1 + d5) ≤ (1 + u) * (1 + u) * (1 + u) * (1 + u) := by
      gcongr
    have : (1 + u) * (1 + u) * (1 + u) * (1 + u) ≤ (6 * u + 1) * (1 + d2) := by
      nlinarith [mul_nonneg hu0 hu0, mul_nonneg (mul_nonneg hu0 hu0) hu0, mul_nonneg hu0 (sub_nonneg.mpr hu),
        mul_nonneg (mul_nonneg (mul_nonneg hu0 hu0) hu0) hu0]
    linarith

/-- **C01_rounding**: "a few ulps of the larger bracketing value" — at most `13u + 12u²`
    relative to `M = max(|y1|,|y2|)`, for every query inside the bracketing interval. -/
theorem C01_rounding (x1 y1 x2 y2 x u M d1 d2 d3 d4 d5 d6 : F)
    (hx : x1 < x2) (hin1 : x1 ≤ x) (hin2 : x ≤ x2)
    (hu0 : 0 ≤ u) (hu : u ≤ 1/16)
    (h1 : |d1| ≤ u) (h2 : |d2| ≤ u) (h3 : |d3| ≤ u) (h4 : |d4| ≤ u) (h5 : |d5| ≤ u) (h6 : |d6| ≤ u)
    (hM1 : |y1| ≤ M) (hM2 : |y2| ≤ M) :
    |calcFracFl x1 y1 x2 y2 x d1 d2 d3 d4 d5 d6 - calcFrac x1 y1 x2 y2 x| ≤ (13 * u + 12 * u ^ 2) * M := by
  have hxne : x2 - x1 ≠ 0 := ne_of_gt (sub_pos.mpr hx)
  have a2 := abs_le.mp h2
  have h2pos : 0 < 1 + d2 := by linarith
  have h2ne : 1 + d2 ≠ 0 := h2pos.ne'
  rw [calcFracFl_repr _ _ _ _ _ _ _ _ _ _ _ hxne h2ne]
  set θ := (1 + d1) * (1 + d3) * (1 + d4) * (1 + d5) / (1 + d2) with hθ
  have hθb : |θ - 1| ≤ 6 * u := theta_bound u d1 d2 d3 d4 d5 hu0 hu h1 h2 h3 h4 h5
  set t := (x - x1) / (x2 - x1) with ht
  have ht0 : 0 ≤ t := div_nonneg (by linarith) (by linarith)
  have ht1 : t ≤ 1 := by rw [ht, div_le_one (by linarith)]; linarith
  have hM0 : 0 ≤ M := le_trans (abs_nonneg _) hM1
  have hL : calcFrac x1 y1 x2 y2 x = (y2 - y1) * t + y1 := by
    unfold calcFrac; rw [ht]; field_simp
  have hLb : |(y2 - y1) * t + y1| ≤ M := by
    have : (y2 - y1) * t + y1 = (1 - t) * y1 + t * y2 := by ring
    rw [this]
    calc |(1 - t) * y1 + t * y2| ≤ |(1 - t) * y1| + |t * y2| := abs_add_le _ _
      _ = (1 - t) * |y1| + t * |y2| := by rw [abs_mul, abs_mul, abs_of_nonneg ht0, abs_of_nonneg (by linarith : 0 ≤ 1 - t)]
      _ ≤ (1 - t) * M + t * M := by gcongr
      _ = M := by ring
  have hDb : |(y2 - y1) * t| ≤ 2 * M := by
    rw [abs_mul, abs_of_nonneg ht0]
    calc |y2 - y1| * t ≤ (|y2| + |y1|) * 1 := by gcongr; exact abs_sub _ _
      _ ≤ 2 * M := by linarith
  rw [hL]
  have e : ((y2 - y1) * t * θ + y1) * (1 + d6) - ((y2 - y1) * t + y1)
      = (y2 - y1) * t * (θ - 1) * (1 + d6) + ((y2 - y1) * t + y1) * d6 := by ring
  rw [e]
  have h6' : |1 + d6| ≤ 1 + u := by
    calc |1 + d6| ≤ |1| + |d6| := abs_add_le _ _
      _ ≤ 1 + u := by rw [abs_one]; linarith
  calc |(y2 - y1) * t * (θ - 1) * (1 + d6) + ((y2 - y1) * t + y1) * d6|
      ≤ |(y2 - y1) * t * (θ - 1) * (1 + d6)| + |((y2 - y1) * t + y1) * d6| := abs_add_le _ _
    _ = |(y2 - y1) * t| * |θ - 1| * |1 + d6| + |(y2 - y1) * t + y1| * |d6| := by
        simp only [abs_mul]
    _ ≤ (2 * M) * (6 * u) * (1 + u) + M * u := by gcongr
    _ = (13 * u + 12 * u ^ 2) * M := by ring

end rounding

end NdInterp
