/-
The property theorems for integer element types, instantiated at `Z64` — the model of Rust's `i64`
(truncating division, `usize` cast failing for negatives) **with the instances the compiled driver
executes** for protocol records of scalar type `I`.

* `C12_iff_I`   : `monotonic_prop` classifies every integer vector correctly.
* `C11_exact_I` : `get_lower_index` returns the bracket on every strictly increasing integer axis:
                  the integer O(1) guess `(n-1)/(x[n-1]-x[0]) * (q-x[0])` (truncating) is `q-x[0]` on a
                  unit-spaced axis and `0` otherwise, in both cases an index `≤ n-2`.
-/
import NdInterp.Props.C11
import NdInterp.Props.C12
import Mathlib.Tactic.Linarith

namespace NdInterp

instance : LinearOrder Z64 :=
  LinearOrder.lift' Z64.val (fun a b h => by cases a; cases b; simp_all)

theorem Z64.lt_def (a b : Z64) : a < b ↔ a.val < b.val := Iff.rfl
theorem Z64.le_def (a b : Z64) : a ≤ b ↔ a.val ≤ b.val := Iff.rfl

instance : LawfulCmp Z64 where
  lt_iff a b := by simp [Cmp.lt, Z64.lt_def]
  le_iff a b := by simp [Cmp.le, Z64.le_def]
  eq_iff a b := by
    simp only [Cmp.eq, decide_eq_true_eq]
    constructor
    · intro h; cases a; cases b; simp_all
    · intro h; rw [h]

/-- **C12_iff_I** -/
theorem C12_iff_I (xs : List Z64) (m : Monotonic) :
    monotonicProp xs = .ok m ↔ Class Z64 xs m := C12_iff xs m

/-- consecutive integers of a strictly increasing axis are at least one apart -/
theorem strictInc_gap (xs : List Z64) (hs : StrictInc xs) :
    ∀ k i (h : i + k < xs.length), (xs[i]'(by omega)).val + k ≤ (xs[i + k]).val := by
  intro k
  induction k with
  | zero => intro i h; simp
  | succ k ih =>
    intro i h
    have a := ih i (by omega)
    have b := (Z64.lt_def _ _).mp (hs.2 (i + k) (i + (k + 1)) (by omega) h)
    push_cast
    omega

/-- **C11_exact_I** -/
theorem C11_exact_I (xs : List Z64) (q : Z64) (hs : StrictInc xs) :
    ∃ i, lowerIndex xs q = .ok i ∧ Bracket xs q i := by
  apply C11_of_guess xs q hs
  intro h0 c1 c2
  have hn := hs.1
  have hlast : xs.length - 1 < xs.length := by omega
  have hgap := strictInc_gap xs hs (xs.length - 1) 0 (by omega)
  simp only [Nat.zero_add] at hgap
  have c1' := (Z64.lt_def _ _).mp c1
  have c2' := (Z64.lt_def _ _).mp c2
  unfold indexGuess
  simp only [List.getElem?_eq_getElem h0, List.getElem?_eq_getElem hlast]
  -- the value handed to the cast
  set x0 := (xs[0]).val with hx0
  set xl := (xs[xs.length - 1]).val with hxl
  have hspan : ((xs.length - 1 : Nat) : Int) ≤ xl - x0 := by omega
  have hv : (calcFrac xs[0] ((0 : Nat) : Z64) xs[xs.length - 1] ((xs.length - 1 : Nat) : Z64) q).val =
      Int.tdiv (((xs.length - 1 : Nat) : Int) - 0) (xl - x0) * (q.val - x0) + 0 := rfl
  by_cases hu : xl - x0 = ((xs.length - 1 : Nat) : Int)
  · -- unit spacing: slope 1
    have hs1 : Int.tdiv (((xs.length - 1 : Nat) : Int) - 0) (xl - x0) = 1 := by
      rw [hu, Int.sub_zero]
      exact Int.tdiv_self (by omega)
    refine ⟨(q.val - x0).toNat, ?_, ?_⟩
    · show (if (calcFrac _ _ _ _ q).val < 0 then none else some (calcFrac _ _ _ _ q).val.toNat) = _
      rw [hv, hs1]
      have : ¬ (1 * (q.val - x0) + 0 < 0) := by omega
      simp only [this, if_false]
      congr 2
      omega
    · omega
  · -- wider spacing: slope 0
    have hs0 : Int.tdiv (((xs.length - 1 : Nat) : Int) - 0) (xl - x0) = 0 := by
      rw [Int.sub_zero]
      exact Int.tdiv_eq_zero_of_lt (by omega) (by omega)
    refine ⟨0, ?_, by omega⟩
    show (if (calcFrac _ _ _ _ q).val < 0 then none else some (calcFrac _ _ _ _ q).val.toNat) = _
    rw [hv, hs0]
    simp

/-! non-vacuity -/
example : lowerIndex [(⟨0⟩ : Z64), ⟨1⟩, ⟨2⟩, ⟨5⟩] ⟨4⟩ = .ok 2 := by decide +kernel
example : monotonicProp [(⟨3⟩ : Z64), ⟨3⟩, ⟨9⟩] = .ok (.rising false) := by decide +kernel

end NdInterp
