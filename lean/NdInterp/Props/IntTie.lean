/-
The property theorems for integer element types, instantiated at `Z64` — the model of Rust's `i64`
(truncating division, `usize` cast failing for negatives) **with the instances the compiled driver
executes** for protocol records of scalar type `I`.

* `C12_iff_I`   : `monotonic_prop` classifies every integer vector correctly.
* `C16_linear_I` : Linear at `i64` reproduces every affine function with integer coefficients exactly, in
                  range and extrapolated (the truncating secant slope `(y2-y1)/(x2-x1)` is exact there).
* `C11_exact_I` : `get_lower_index` returns the bracket on every strictly increasing integer axis:
                  the integer O(1) guess `(n-1)/(x[n-1]-x[0]) * (q-x[0])` (truncating) is `q-x[0]` on a
                  unit-spaced axis and `0` otherwise, in both cases an index `≤ n-2`.
-/
import NdInterp.Props.C11
import NdInterp.Props.C12
import NdInterp.Lemmas.LinearCore
import Mathlib.Tactic.Linarith
import Mathlib.Tactic.Ring

namespace NdInterp

instance : LinearOrder Z64 :=
  LinearOrder.lift' Z64.val (fun a b h => by cases a; cases b; simp_all)

theorem Z64.lt_def (a b : Z64) : a < b ↔ a.val < b.val := Iff.rfl
theorem Z64.le_def (a b : Z64) : a ≤ b ↔ a.val ≤ b.val := Iff.rfl

instance : LawfulCmp Z64 where
  lt_iff a b := by simp [Cmp.lt, Z64.lt_def]
  le_iff a b := by simp [Cmp.le, Z64.le_def]
  eq_iff a b := by
    simp only [Cmp.eq, decide_eq_true_eq]
    constructor
    · intro h; cases a; cases b; simp_all
    · intro h; rw [h]

/-- **C12_iff_I** -/
theorem C12_iff_I (xs : List Z64) (m : Monotonic) :
    monotonicProp xs = .ok m ↔ Class Z64 xs m := C12_iff xs m

/-- consecutive integers of a strictly increasing axis are at least one apart -/
theorem strictInc_gap (xs : List Z64) (hs : StrictInc xs) :
    ∀ k i (h : i + k < xs.length), (xs[i]'(by omega)).val + k ≤ (xs[i + k]).val := by
  intro k
  induction k with
  | zero => intro i h; simp
  | succ k ih =>
    intro i h
    have a := ih i (by omega)
    have b := (Z64.lt_def _ _).mp (hs.2 (i + k) (i + (k + 1)) (by omega) h)
    push_cast
    omega

/-- **C11_exact_I** -/
theorem C11_exact_I (xs : List Z64) (q : Z64) (hs : StrictInc xs) :
    ∃ i, lowerIndex xs q = .ok i ∧ Bracket xs q i := by
  apply C11_of_guess xs q hs
  intro h0 c1 c2
  have hn := hs.1
  have hlast : xs.length - 1 < xs.length := by omega
  have hgap := strictInc_gap xs hs (xs.length - 1) 0 (by omega)
  simp only [Nat.zero_add] at hgap
  have c1' := (Z64.lt_def _ _).mp c1
  have c2' := (Z64.lt_def _ _).mp c2
  unfold indexGuess
  simp only [List.getElem?_eq_getElem h0, List.getElem?_eq_getElem hlast]
  -- the value handed to the cast
  set x0 := (xs[0]).val with hx0
  set xl := (xs[xs.length - 1]).val with hxl
  have hspan : ((xs.length - 1 : Nat) : Int) ≤ xl - x0 := by omega
  have hv : (calcFrac xs[0] ((0 : Nat) : Z64) xs[xs.length - 1] ((xs.length - 1 : Nat) : Z64) q).val =
      Int.tdiv (((xs.length - 1 : Nat) : Int) - 0) (xl - x0) * (q.val - x0) + 0 := rfl
  by_cases hu : xl - x0 = ((xs.length - 1 : Nat) : Int)
  · -- unit spacing: slope 1
    have hs1 : Int.tdiv (((xs.length - 1 : Nat) : Int) - 0) (xl - x0) = 1 := by
      rw [hu, Int.sub_zero]
      exact Int.tdiv_self (by omega)
    refine ⟨(q.val - x0).toNat, ?_, ?_⟩
    · show (if (calcFrac _ _ _ _ q).val < 0 then none else some (calcFrac _ _ _ _ q).val.toNat) = _
      rw [hv, hs1]
      have : ¬ (1 * (q.val - x0) + 0 < 0) := by omega
      simp only [this, if_false]
      congr 2
      omega
    · omega
  · -- wider spacing: slope 0
    have hs0 : Int.tdiv (((xs.length - 1 : Nat) : Int) - 0) (xl - x0) = 0 := by
      rw [Int.sub_zero]
      exact Int.tdiv_eq_zero_of_lt (by omega) (by omega)
    refine ⟨0, ?_, by omega⟩
    show (if (calcFrac _ _ _ _ q).val < 0 then none else some (calcFrac _ _ _ _ q).val.toNat) = _
    rw [hv, hs0]
    simp

/-! ### Linear at `Z64` -/

section orderonly
variable {α : Type} [LinearOrder α] [Cmp α] [LawfulCmp α]

/-- `is_in_range` decides the closed-range test (any lawful linear order; no field needed) -/
theorem isInRange_eq' (xs : List α) (q : α) (h0 : 0 < xs.length) :
    isInRange xs q = .ok (decide (InRange xs q)) := by
  have hlast : xs.length - 1 < xs.length := by omega
  unfold isInRange InRange
  simp only [List.getElem?_eq_getElem h0, List.getElem?_eq_getElem hlast]
  by_cases c1 : xs[0] ≤ q
  · have : Cmp.le xs[0] q = true := (cmp_le _ _).mpr c1
    simp only [this, if_true]
    by_cases c2 : q ≤ xs[xs.length - 1]
    · have h2 : Cmp.le q xs[xs.length - 1] = true := (cmp_le _ _).mpr c2
      simp [h2, c1, c2, h0]
    · have h2 : Cmp.le q xs[xs.length - 1] = false := (cmp_le_false _ _).mpr (not_le.mp c2)
      simp [h2, c2]
  · have : Cmp.le xs[0] q = false := (cmp_le_false _ _).mpr (not_le.mp c1)
    simp [this, c1]

variable [Add α] [Sub α] [Mul α] [Div α] [NatCast α] [ToUsize α]

theorem rangeGate_eq' (ext : Bool) (xs : List α) (q : α) (h0 : 0 < xs.length) :
    rangeGate ext xs q = if ext = true ∨ InRange xs q then .ok () else .error .outOfBounds := by
  unfold rangeGate
  cases ext with
  | true => simp
  | false =>
    rw [isInRange_eq' xs q h0]
    by_cases c : InRange xs q <;> simp [c]

/-- normal form of `Linear::interp_into` on 1-D data, given that the lookup returns a bracket -/
theorem linearInterp_of_index (ext : Bool) (xs ys : List α) (q : α) (i : Nat)
    (h0 : 0 < xs.length) (hl : ys.length = xs.length)
    (hi : lowerIndex xs q = .ok i) (hb : Bracket xs q i) :
    linearInterp (V := α) ext xs ys q =
      if ext = true ∨ InRange xs q then
        .ok (calcFrac (xs[i]'(by have := hb.lt_len; omega)) (ys[i]'(by have := hb.lt_len; omega))
          (xs[i + 1]'hb.lt_len) (ys[i + 1]'(by have := hb.lt_len; omega)) q)
      else .error .outOfBounds := by
  have hlt := hb.lt_len
  unfold linearInterp
  rw [rangeGate_eq' ext xs q h0]
  split
  · simp only [hi, rd_eq xs i (by omega), rd_eq xs (i + 1) hlt, rd_eq ys i (by omega),
      rd_eq ys (i + 1) (by omega), bind, Except.bind, pure, Except.pure]
    rfl
  · rfl

end orderonly

/-- **C16_linear_I**: on a strictly increasing `i64` axis, data sampled from `a + b·x` with integer
    `a`, `b` is reproduced exactly by Linear — every query the strategy answers (in range, or anywhere
    with extrapolation) evaluates to `a + b·q`. -/
theorem C16_linear_I (ext : Bool) (xs ys : List Z64) (q : Z64) (a b : Int) (hs : StrictInc xs)
    (hl : ys.length = xs.length)
    (hy : ∀ i (h : i < xs.length), (ys[i]'(by omega)).val = a + b * (xs[i]).val)
    (hans : ext = true ∨ InRange xs q) :
    linearInterp (V := Z64) ext xs ys q = .ok ⟨a + b * q.val⟩ := by
  have h0 : 0 < xs.length := by have := hs.1; omega
  obtain ⟨i, hi, hb⟩ := C11_exact_I xs q hs
  rw [linearInterp_of_index ext xs ys q i h0 hl hi hb, if_pos hans]
  have hlt := hb.lt_len
  have hgap := (Z64.lt_def _ _).mp (hs.2 i (i + 1) (by omega) hlt)
  have e1 := hy i (by omega)
  have e2 := hy (i + 1) hlt
  congr 1
  show (⟨Int.tdiv ((ys[i + 1]).val - (ys[i]).val) ((xs[i + 1]).val - (xs[i]).val) * (q.val - (xs[i]).val) +
      (ys[i]).val⟩ : Z64) = ⟨a + b * q.val⟩
  congr 1
  rw [e1, e2]
  have hd : (xs[i + 1]).val - (xs[i]).val ≠ 0 := by omega
  have : a + b * (xs[i + 1]).val - (a + b * (xs[i]).val) = b * ((xs[i + 1]).val - (xs[i]).val) := by ring
  rw [this, Int.mul_tdiv_cancel _ hd]
  ring

/-! non-vacuity -/
example : lowerIndex [(⟨0⟩ : Z64), ⟨1⟩, ⟨2⟩, ⟨5⟩] ⟨4⟩ = .ok 2 := by decide +kernel
example : monotonicProp [(⟨3⟩ : Z64), ⟨3⟩, ⟨9⟩] = .ok (.rising false) := by decide +kernel

end NdInterp
