/-
C15 — results are independent of the units of the axis and linear in the data.

Over ordered fields (exact statement; "otherwise up to rounding"):
* Linear:   `C15_linear_scale_data`, `C15_linear_add`, `C15_linear_axis_map` (any strictly increasing
            re-labelling `f` of the axis that `calc_frac` commutes with), instantiated as
            `C15_linear_scale_axis` (`c > 0`) and `C15_linear_shift`.
* Bilinear: `C15_bilinear_scale_data`, `C15_bilinear_add`, `C15_bilinear_axis_map` (independent
            maps for x and y), `C15_bilinear_scale_axes`.
* Spline:   `C15_spline_scale_data` (data and boundary derivative values × c ⇒ slopes and every piece
            × c — the assembled rows are homogeneous and the solver is linear, an identity of the
            algorithm), `C15_spline_shift` (the system only contains differences of knots: a common
            shift of axis and query changes nothing), `C15_spline_solver_scale`; additivity of the
            solver in its right-hand sides is `fwd_add` / `back_add` (`Lemmas/Linearity`).
Bit-for-bit half (arbitrary scalar type, arbitrary operations):
* `C15_hom_linear_data`, `C15_hom_linear_axis`: if a map commutes with the operations the way an
  exact scaling (power of two, negation) does, Linear commutes with it.
-/
import NdInterp.Props.C03
import NdInterp.Props.C04
import NdInterp.Lemmas.Linearity
import NdInterp.Lemmas.SplineLinear

namespace NdInterp

/-! ### bit-for-bit half: arbitrary operations -/

section hom
variable {α : Type} [Cmp α] [Add α] [Sub α] [Mul α] [Div α] [NatCast α] [ToUsize α]

/-- `φ` acts on data values like an exact scaling -/
structure DataHom (φ : α → α) : Prop where
  add : ∀ a b, φ (a + b) = φ a + φ b
  sub : ∀ a b, φ (a - b) = φ a - φ b
  div : ∀ a d, φ a / d = φ (a / d)
  mul : ∀ a t, φ a * t = φ (a * t)

theorem calcFrac_dataHom (φ : α → α) (h : DataHom φ) (x1 y1 x2 y2 q : α) :
    calcFrac x1 (φ y1) x2 (φ y2) q = φ (calcFrac x1 y1 x2 y2 q) := by
  simp only [calcFrac, ← h.sub, h.div, h.mul, ← h.add]

/-- **C15_hom_linear_data**: Linear commutes with any map of the data that commutes with the four
    operations `calc_frac` applies to data (bit-for-bit for exact scalings). -/
theorem C15_hom_linear_data (φ : α → α) (h : DataHom φ) (ext : Bool) (xs ys : List α) (q : α) :
    linearInterp (V := α) ext xs (ys.map φ) q = (linearInterp (V := α) ext xs ys q).map φ := by
  unfold linearInterp
  cases hg : rangeGate ext xs q with
  | error e => rfl
  | ok _ =>
    cases hi : lowerIndex xs q with
    | error e => rfl
    | ok i =>
      simp only [bind, Except.bind]
      cases hx1 : rd xs i with
      | error e => rfl
      | ok x1 =>
        simp only []
        have r1 : rd (ys.map φ) i = (rd ys i).map φ := by
          simp only [rd, List.getElem?_map]; cases ys[i]? <;> rfl
        have r2 : rd (ys.map φ) (i + 1) = (rd ys (i + 1)).map φ := by
          simp only [rd, List.getElem?_map]; cases ys[i + 1]? <;> rfl
        rw [r1, r2]
        cases rd ys i with
        | error e => rfl
        | ok y1 =>
          cases rd xs (i + 1) with
          | error e => rfl
          | ok x2 =>
            cases rd ys (i + 1) with
            | error e => rfl
            | ok y2 =>
              simp only [Except.map, pure, Except.pure, Lanes.map2]
              rw [calcFrac_dataHom φ h]

end hom

/-! ### ordered fields -/

section field
variable {F : Type} [Field F] [LinearOrder F] [IsStrictOrderedRing F] [Cmp F] [LawfulCmp F]
  [ToUsize F] [LawfulToUsize F]

/-- **C15_linear_scale_data**: multiplying the data by `c` multiplies the result by `c`. -/
theorem C15_linear_scale_data (ext : Bool) (xs ys : List F) (c q : F)
    (hs : StrictInc xs) (hl : ys.length = xs.length) (hlen : xs.length < 2 ^ 64) :
    linearInterp (V := F) ext xs (ys.map (c * ·)) q =
      (linearInterp (V := F) ext xs ys q).map (c * ·) := by
  obtain ⟨i, hb, h⟩ := linearInterp_eq (V := F) ext xs ys q hs hl hlen
  obtain ⟨i', hb', h'⟩ := linearInterp_eq (V := F) ext xs (ys.map (c * ·)) q hs (by simpa using hl) hlen
  have : i' = i := Bracket.unique hs hb' hb
  subst this
  rw [h, h']
  split
  · simp only [Except.map, map2_scalar, List.getElem_map, calcFrac]
    congr 1
    ring
  · rfl

/-- **C15_linear_add**: the result for a sum of data sets is the sum of the results. -/
theorem C15_linear_add (ext : Bool) (xs ys zs : List F) (q : F)
    (hs : StrictInc xs) (hl : ys.length = xs.length) (hl' : zs.length = xs.length)
    (hlen : xs.length < 2 ^ 64) (r1 r2 : F)
    (h1 : linearInterp (V := F) ext xs ys q = .ok r1) (h2 : linearInterp (V := F) ext xs zs q = .ok r2) :
    linearInterp (V := F) ext xs (List.zipWith (· + ·) ys zs) q = .ok (r1 + r2) := by
  obtain ⟨i, hb, h⟩ := linearInterp_eq (V := F) ext xs ys q hs hl hlen
  obtain ⟨j, hbj, hz⟩ := linearInterp_eq (V := F) ext xs zs q hs hl' hlen
  obtain ⟨k, hbk, hs'⟩ := linearInterp_eq (V := F) ext xs (List.zipWith (· + ·) ys zs) q hs
    (by simp [hl, hl']) hlen
  have : j = i := Bracket.unique hs hbj hb
  subst this
  have : k = j := Bracket.unique hs hbk hbj
  subst this
  rw [h] at h1
  rw [hz] at h2
  rw [hs']
  split
  · next hok =>
    rw [if_pos hok] at h1 h2
    injection h1 with h1
    injection h2 with h2
    subst h1; subst h2
    simp only [map2_scalar, List.getElem_zipWith, calcFrac]
    congr 1
    ring
  · next hno => rw [if_neg hno] at h1; cases h1

omit [Field F] [IsStrictOrderedRing F] [Cmp F] [LawfulCmp F] [ToUsize F] [LawfulToUsize F] in
theorem strictInc_map (f : F → F) (hf : StrictMono f) (xs : List F) (hs : StrictInc xs) :
    StrictInc (xs.map f) := by
  refine ⟨by simpa using hs.1, ?_⟩
  intro i j hij hj
  simp only [List.getElem_map]
  exact hf (hs.2 i j hij (by simpa using hj))

omit [Field F] [IsStrictOrderedRing F] [Cmp F] [LawfulCmp F] [ToUsize F] [LawfulToUsize F] in
theorem bracket_map (f : F → F) (hf : StrictMono f) (xs : List F) (q : F) (i : Nat)
    (hb : Bracket xs q i) : Bracket (xs.map f) (f q) i := by
  refine ⟨by simpa using hb.lt_len, ?_, ?_, ?_⟩
  · intro h hq
    simp only [List.getElem_map] at hq
    exact hb.low (by simpa using h) (hf.le_iff_le.mp hq)
  · intro h hq
    simp only [List.getElem_map, List.length_map] at hq
    have := hb.high (by simpa using h) (hf.le_iff_le.mp hq)
    simpa using this
  · intro h h1 h2
    simp only [List.getElem_map, List.length_map] at h1 h2 ⊢
    have := hb.inside (by simpa using h) (hf.lt_iff_lt.mp h1) (hf.lt_iff_lt.mp h2)
    exact ⟨hf.le_iff_le.mpr this.1, hf.lt_iff_lt.mpr this.2⟩

omit [Field F] [IsStrictOrderedRing F] [Cmp F] [LawfulCmp F] [ToUsize F] [LawfulToUsize F] in
theorem inRange_map (f : F → F) (hf : StrictMono f) (xs : List F) (q : F) :
    InRange (xs.map f) (f q) ↔ InRange xs q := by
  unfold InRange
  constructor
  · rintro ⟨h, a, b⟩
    simp only [List.getElem_map, List.length_map] at a b
    exact ⟨by simpa using h, hf.le_iff_le.mp a, hf.le_iff_le.mp b⟩
  · rintro ⟨h, a, b⟩
    refine ⟨by simpa using h, ?_, ?_⟩
    · simp only [List.getElem_map]; exact hf.le_iff_le.mpr a
    · simp only [List.getElem_map, List.length_map]; exact hf.le_iff_le.mpr b

/-- **C15_linear_axis_map**: re-labelling axis and query by a strictly increasing `f` that
    `calc_frac` commutes with leaves the result unchanged. -/
theorem C15_linear_axis_map (f : F → F) (hf : StrictMono f)
    (hcf : ∀ x1 y1 x2 y2 q : F, x1 ≠ x2 → calcFrac (f x1) y1 (f x2) y2 (f q) = calcFrac x1 y1 x2 y2 q)
    (ext : Bool) (xs ys : List F) (q : F)
    (hs : StrictInc xs) (hl : ys.length = xs.length) (hlen : xs.length < 2 ^ 64) :
    linearInterp (V := F) ext (xs.map f) ys (f q) = linearInterp (V := F) ext xs ys q := by
  obtain ⟨i, hb, h⟩ := linearInterp_eq (V := F) ext xs ys q hs hl hlen
  obtain ⟨i', hb', h'⟩ := linearInterp_eq (V := F) ext (xs.map f) ys (f q) (strictInc_map f hf xs hs)
    (by simpa using hl) (by simpa using hlen)
  have : i' = i := Bracket.unique (strictInc_map f hf xs hs) hb' (bracket_map f hf xs q i hb)
  subst this
  rw [h, h']
  simp only [inRange_map f hf, List.getElem_map, map2_scalar]
  have hlt := hb.lt_len
  have hne : xs[i']'(by omega) ≠ xs[i' + 1] := ne_of_lt (hs.2 i' (i' + 1) (by omega) hlt)
  simp only [hcf _ _ _ _ _ hne]

/-- **C15_linear_scale_axis**: multiplying axis and query by `c > 0` leaves the result unchanged. -/
theorem C15_linear_scale_axis (c : F) (hc : 0 < c) (ext : Bool) (xs ys : List F) (q : F)
    (hs : StrictInc xs) (hl : ys.length = xs.length) (hlen : xs.length < 2 ^ 64) :
    linearInterp (V := F) ext (xs.map (c * ·)) ys (c * q) = linearInterp (V := F) ext xs ys q := by
  apply C15_linear_axis_map (fun x => c * x) (fun a b h => mul_lt_mul_of_pos_left h hc) _ ext xs ys q hs hl hlen
  intro x1 y1 x2 y2 q hne
  have : x2 - x1 ≠ 0 := sub_ne_zero.mpr (Ne.symm hne)
  simp only [calcFrac]
  field_simp

/-- **C15_linear_shift**: shifting axis and query by the same amount leaves the result unchanged. -/
theorem C15_linear_shift (d : F) (ext : Bool) (xs ys : List F) (q : F)
    (hs : StrictInc xs) (hl : ys.length = xs.length) (hlen : xs.length < 2 ^ 64) :
    linearInterp (V := F) ext (xs.map (· + d)) ys (q + d) = linearInterp (V := F) ext xs ys q := by
  apply C15_linear_axis_map (fun x => x + d) (fun a b h => by simpa using h) _ ext xs ys q hs hl hlen
  intro x1 y1 x2 y2 q _
  simp only [calcFrac]
  ring

/-- **C15_bilinear_scale_data**: multiplying the grid data by `c` multiplies the result by `c`. -/
theorem C15_bilinear_scale_data (ext : Bool) (xs ys : List F) (zs : List (List F)) (c x y : F)
    (hsx : StrictInc xs) (hsy : StrictInc ys) (hg : GridOK zs xs.length ys.length)
    (hlx : xs.length < 2 ^ 64) (hly : ys.length < 2 ^ 64) :
    bilinearInterp (V := F) ext xs ys (zs.map (fun r => r.map (c * ·))) x y =
      (bilinearInterp (V := F) ext xs ys zs x y).map (c * ·) := by
  have hg' : GridOK (zs.map (fun r => r.map (c * ·))) xs.length ys.length := by
    refine ⟨by simpa using hg.1, ?_⟩
    intro r hr
    obtain ⟨r0, hr0, rfl⟩ := List.mem_map.mp hr
    simpa using hg.2 r0 hr0
  obtain ⟨i, j, hi, hj, r1, r2, z11, z12, z21, z22, e1, e2, e3, e4, e5, e6, h⟩ :=
    bilinearInterp_eq (V := F) ext xs ys zs x y hsx hsy hg hlx hly
  obtain ⟨i', j', hi', hj', s1, s2, w11, w12, w21, w22, f1, f2, f3, f4, f5, f6, h'⟩ :=
    bilinearInterp_eq (V := F) ext xs ys (zs.map (fun r => r.map (c * ·))) x y hsx hsy hg' hlx hly
  have : i' = i := Bracket.unique hsx hi' hi
  subst this
  have : j' = j := Bracket.unique hsy hj' hj
  subst this
  simp only [List.getElem?_map, e1, e2, Option.map_some, Option.some.injEq] at f1 f2
  subst f1; subst f2
  simp only [List.getElem?_map, e3, e4, e5, e6, Option.map_some, Option.some.injEq] at f3 f4 f5 f6
  subst f3; subst f4; subst f5; subst f6
  rw [h, h']
  by_cases cx : ext = true ∨ InRange xs x <;> by_cases cy : ext = true ∨ InRange ys y <;>
    simp only [cx, cy, if_true, if_false, Except.map]
  congr 1
  simp only [map4_scalar, calcFrac]
  ring

/-- **C15_spline_scale_data**: multiplying the data and the boundary derivative values by `c`
    multiplies the slopes and every cubic piece by `c` (every non-periodic boundary pair). -/
theorem C15_spline_scale_data (c : F) (xs ys ks : List F) (hy : ys.length = xs.length)
    (hn : 3 ≤ xs.length) (left right : SingleBoundary F) (hk : ks.length = xs.length)
    (h : solveForK (V := F) xs ys (.mixed left right) = .ok ks) :
    solveForK (V := F) xs (ys.map (c * ·)) (.mixed (left.scale c) (right.scale c)) = .ok (ks.map (c * ·)) ∧
    ∀ i (hi : i + 1 < xs.length) q,
      (pieceAt xs (ys.map (c * ·)) (ks.map (c * ·)) i hi (by simpa using hy) (by simpa using hk)).eval q =
        c * (pieceAt xs ys ks i hi hy hk).eval q := by
  constructor
  · rw [solveForK_scale c xs ys hy hn, h]; rfl
  · intro i hi q
    simp only [pieceAt, List.getElem_map]
    exact pieceCubic_scale c _ _ _ _ _ _ q

/-- **C15_spline_add**: superposition — the spline of the sum of two data sets (boundary derivative
    values added, both selections of the same kind at each end) is the sum of the splines: slopes
    and every cubic piece add. -/
theorem C15_spline_add (xs ys zs ks ms : List F) (hy : ys.length = xs.length) (hz : zs.length = xs.length)
    (hn : 3 ≤ xs.length) (l1 l2 r1 r2 : SingleBoundary F)
    (hl : l1.sameKind l2 = true) (hr : r1.sameKind r2 = true)
    (hk : ks.length = xs.length) (hm : ms.length = xs.length)
    (h1 : solveForK (V := F) xs ys (.mixed l1 r1) = .ok ks)
    (h2 : solveForK (V := F) xs zs (.mixed l2 r2) = .ok ms) :
    solveForK (V := F) xs (List.zipWith (· + ·) ys zs) (.mixed (l1.add l2) (r1.add r2)) =
      .ok (List.zipWith (· + ·) ks ms) ∧
    ∀ i (hi : i + 1 < xs.length) q,
      (pieceAt xs (List.zipWith (· + ·) ys zs) (List.zipWith (· + ·) ks ms) i hi (by simp [hy, hz])
        (by simp [hk, hm])).eval q =
        (pieceAt xs ys ks i hi hy hk).eval q + (pieceAt xs zs ms i hi hz hm).eval q := by
  constructor
  · rw [solveForK_mixed xs ys hy hn] at h1
    rw [solveForK_mixed xs zs hz hn] at h2
    injection h1 with h1; injection h2 with h2
    rw [solveForK_add xs ys zs hy hz hn l1 l2 r1 r2 hl hr, h1, h2]
  · intro i hi q
    simp only [pieceAt, List.getElem_zipWith]
    exact pieceCubic_add _ _ _ _ _ _ _ _ _ _ q

/-- **C15_spline_shift**: shifting axis and query by the same amount leaves slopes and values unchanged. -/
theorem C15_spline_shift (d : F) (xs ys ks : List F) (hy : ys.length = xs.length)
    (hn : 3 ≤ xs.length) (left right : SingleBoundary F) (hk : ks.length = xs.length)
    (h : solveForK (V := F) xs ys (.mixed left right) = .ok ks) :
    solveForK (V := F) (xs.map (· + d)) ys (.mixed left right) = .ok ks ∧
    ∀ i (hi : i + 1 < xs.length) q,
      (pieceAt (xs.map (· + d)) ys ks i (by simpa using hi) (by simpa using hy) (by simpa using hk)).eval (q + d) =
        (pieceAt xs ys ks i hi hy hk).eval q := by
  constructor
  · rw [solveForK_shift d xs ys hy hn, h]
  · intro i hi q
    simp only [pieceAt, List.getElem_map]
    exact pieceCubic_shift d _ _ _ _ _ _ q

/-! #### Periodic boundary (`n ≥ 4`): by uniqueness of the periodic spline -/

omit [ToUsize F] [LawfulToUsize F] in
/-- **C15_periodic_scale_data** -/
theorem C15_periodic_scale_data (c : F) (xs ys ks : List F) (hs : StrictInc xs)
    (hy : ys.length = xs.length) (hn : 4 ≤ xs.length)
    (h : solveForK (V := F) xs ys .periodic = .ok ks) :
    solveForK (V := F) xs (ys.map (c * ·)) .periodic = .ok (ks.map (c * ·)) := by
  obtain ⟨hends, hk, hi, hl, hc⟩ := periodicCond_of_solve xs ys ks hs hy hn h
  apply solve_of_periodicCond xs _ _ hs (by simpa using hy) hn (by simp [hends]) (by simpa using hk)
  refine ⟨?_, ?_, ?_⟩
  · intro j hj
    have := hi j hj
    unfold interiorEq at this ⊢
    simp only [List.getElem_map]
    linear_combination c * this
  · simp only [List.getElem_map, hl]
  · simp only [List.getElem_map]
    linear_combination c * hc

omit [ToUsize F] [LawfulToUsize F] in
/-- **C15_periodic_add** -/
theorem C15_periodic_add (xs ys zs ks ms : List F) (hs : StrictInc xs)
    (hy : ys.length = xs.length) (hz : zs.length = xs.length) (hn : 4 ≤ xs.length)
    (h1 : solveForK (V := F) xs ys .periodic = .ok ks)
    (h2 : solveForK (V := F) xs zs .periodic = .ok ms) :
    solveForK (V := F) xs (List.zipWith (· + ·) ys zs) .periodic = .ok (List.zipWith (· + ·) ks ms) := by
  obtain ⟨he1, hk, hi1, hl1, hc1⟩ := periodicCond_of_solve xs ys ks hs hy hn h1
  obtain ⟨he2, hm, hi2, hl2, hc2⟩ := periodicCond_of_solve xs zs ms hs hz hn h2
  apply solve_of_periodicCond xs _ _ hs (by simp [hy, hz]) hn (by simp [he1, he2]) (by simp [hk, hm])
  refine ⟨?_, ?_, ?_⟩
  · intro j hj
    have a := hi1 j hj
    have b := hi2 j hj
    unfold interiorEq at a b ⊢
    simp only [List.getElem_zipWith]
    linear_combination a + b
  · simp only [List.getElem_zipWith, hl1, hl2]
  · simp only [List.getElem_zipWith]
    linear_combination hc1 + hc2

omit [ToUsize F] [LawfulToUsize F] in
/-- **C15_periodic_shift** -/
theorem C15_periodic_shift (d : F) (xs ys ks : List F) (hs : StrictInc xs)
    (hy : ys.length = xs.length) (hn : 4 ≤ xs.length)
    (h : solveForK (V := F) xs ys .periodic = .ok ks) :
    solveForK (V := F) (xs.map (· + d)) ys .periodic = .ok ks := by
  obtain ⟨hends, hk, hi, hl, hc⟩ := periodicCond_of_solve xs ys ks hs hy hn h
  have hs' : StrictInc (xs.map (· + d)) :=
    strictInc_map (fun x => x + d) (fun a b hab => by simpa using hab) xs hs
  have e : ∀ a b : F, a + d - (b + d) = a - b := fun a b => by ring
  apply solve_of_periodicCond _ ys ks hs' (by simpa using hy) (by simpa using hn)
    (by simpa using hends) (by simpa using hk)
  refine ⟨?_, ?_, ?_⟩
  · intro j hj
    have := hi j (by simpa using hj)
    unfold interiorEq at this ⊢
    simp only [List.getElem_map, e]
    exact this
  · simpa using hl
  · simp only [List.getElem_map, List.length_map, e]
    exact hc

omit [ToUsize F] [LawfulToUsize F] in
/-- **C15_periodic_scale_axis**: axis × `c > 0` divides the slopes by `c` (values unchanged by
    `pieceCubic_scaleAxis`). -/
theorem C15_periodic_scale_axis (c : F) (hc0 : 0 < c) (xs ys ks : List F) (hs : StrictInc xs)
    (hy : ys.length = xs.length) (hn : 4 ≤ xs.length)
    (h : solveForK (V := F) xs ys .periodic = .ok ks) :
    solveForK (V := F) (xs.map (c * ·)) ys .periodic = .ok (ks.map (· / c)) := by
  obtain ⟨hends, hk, hi, hl, hc⟩ := periodicCond_of_solve xs ys ks hs hy hn h
  have hs' : StrictInc (xs.map (c * ·)) :=
    strictInc_map (fun x => c * x) (fun a b hab => mul_lt_mul_of_pos_left hab hc0) xs hs
  have hcne : c ≠ 0 := ne_of_gt hc0
  have hne : ∀ i j (hij : i < j) (hj : j < xs.length), xs[j] - xs[i]'(by omega) ≠ 0 :=
    fun i j hij hj => ne_of_gt (sub_pos.mpr (hs.2 i j hij hj))
  apply solve_of_periodicCond _ ys _ hs' (by simpa using hy) (by simpa using hn)
    (by simpa using hends) (by simpa using hk)
  refine ⟨?_, ?_, ?_⟩
  · intro j hj
    have hj' : j + 2 < xs.length := by simpa using hj
    have := hi j hj'
    unfold interiorEq at this ⊢
    simp only [List.getElem_map]
    have n1 := hne j (j + 1) (by omega) (by omega)
    have n2 := hne (j + 1) (j + 2) (by omega) hj'
    have e1 : c * xs[j + 2] - c * xs[j + 1] = c * (xs[j + 2] - xs[j + 1]) := by ring
    have e2 : c * xs[j + 1] - c * xs[j] = c * (xs[j + 1] - xs[j]) := by ring
    rw [e1, e2]
    field_simp
    field_simp at this
    linear_combination this
  · simp only [List.getElem_map, List.length_map, hl]
  · simp only [List.getElem_map, List.length_map]
    have n1 := hne 0 1 (by omega) (by omega)
    have n2 := hne (xs.length - 2) (xs.length - 1) (by omega) (by omega)
    have e1 : c * xs[1] - c * xs[0] = c * (xs[1] - xs[0]) := by ring
    have e2 : c * xs[xs.length - 1] - c * xs[xs.length - 2] = c * (xs[xs.length - 1] - xs[xs.length - 2]) := by ring
    rw [e1, e2]
    field_simp
    field_simp at hc
    linear_combination hc

omit [LawfulCmp F] [ToUsize F] [LawfulToUsize F] in
/-- **C15_spline_scale_axis**: multiplying the axis by `c > 0` (boundary values converted:
    `FirstDeriv v/c`, `SecondDeriv v/c²`) divides the slopes by `c` and leaves every value unchanged:
    `S_c(c·q) = S(q)`.  By uniqueness of the spline (`C03_unique`). -/
theorem C15_spline_scale_axis (c : F) (hc : 0 < c) (xs ys ks : List F) (hs : StrictInc xs)
    (hy : ys.length = xs.length) (hn : 3 ≤ xs.length) (left right : SingleBoundary F)
    (hpar : ¬ (xs.length = 3 ∧ isNakPair left right = true)) (hk : ks.length = xs.length)
    (h : solveForK (V := F) xs ys (.mixed left right) = .ok ks) :
    solveForK (V := F) (xs.map (c * ·)) ys (.mixed (left.scaleAxis c) (right.scaleAxis c)) =
      .ok (ks.map (· / c)) ∧
    ∀ i (hi : i + 1 < xs.length) q,
      (pieceAt (xs.map (c * ·)) ys (ks.map (· / c)) i (by simpa using hi) (by simpa using hy)
        (by simpa using hk)).eval (c * q) = (pieceAt xs ys ks i hi hy hk).eval q := by
  have hc0 : c ≠ 0 := ne_of_gt hc
  have hne : ∀ i j (hij : i < j) (hj : j < xs.length), xs[j] - xs[i]'(by omega) ≠ 0 :=
    fun i j hij hj => ne_of_gt (sub_pos.mpr (hs.2 i j hij hj))
  -- the computed slopes satisfy the conditions
  obtain ⟨ks0, h0, hk0, hsat, _⟩ := solveForK_spec xs ys hy hn hs left right
  have : ks0 = ks := by rw [h0] at h; injection h
  subst this
  obtain ⟨hC2, hL, hR⟩ := (spline_char xs ys ks0 hy hk hn hs left right hpar).mp hsat
  have hs' : StrictInc (xs.map (c * ·)) :=
    strictInc_map (fun x => c * x) (fun a b hab => mul_lt_mul_of_pos_left hab hc) xs hs
  have hy' : ys.length = (xs.map (c * ·)).length := by simpa using hy
  have hk' : (ks0.map (· / c)).length = (xs.map (c * ·)).length := by simpa using hk
  have hn' : 3 ≤ (xs.map (c * ·)).length := by simpa using hn
  -- pieces of the scaled problem
  have hp : ∀ i j (hij : i < j) (hj : j < xs.length),
      pc (xs.map (c * ·)) ys (ks0.map (· / c)) hy' hk' i j (by simp; omega) (by simpa using hj) =
        pieceCubic (c * xs[i]'(by omega)) (c * xs[j]) (ys[i]'(by omega)) (ys[j]'(by omega))
          ((ks0[i]'(by omega)) / c) ((ks0[j]'(by omega)) / c) := by
    intro i j hij hj
    simp [pc]
  have hnak : isNakPair (left.scaleAxis c) (right.scaleAxis c) = isNakPair left right := by
    cases left <;> cases right <;> rfl
  constructor
  · apply C03_unique (xs.map (c * ·)) ys hs' hy' hn' _ _ (by rw [hnak]; simpa using hpar) _ hk'
    · intro j hj
      have hj' : j + 2 < xs.length := by simpa using hj
      have a := pieceCubic_scaleAxis c xs[j] xs[j + 1] (ys[j]'(by omega)) (ys[j + 1]'(by omega))
        (ks0[j]'(by omega)) (ks0[j + 1]'(by omega)) hc0 (hne j (j + 1) (by omega) (by omega))
      have b := pieceCubic_scaleAxis c xs[j + 1] xs[j + 2] (ys[j + 1]'(by omega)) (ys[j + 2]'(by omega))
        (ks0[j + 1]'(by omega)) (ks0[j + 2]'(by omega)) hc0 (hne (j + 1) (j + 2) (by omega) hj')
      rw [hp j (j + 1) (by omega) (by omega), hp (j + 1) (j + 2) (by omega) hj']
      simp only [List.getElem_map]
      rw [a.2.2.1, b.2.2.1]
      have := hC2 j hj'
      simp only [pc] at this
      rw [this]
    · have a := pieceCubic_scaleAxis c xs[0] xs[1] (ys[0]'(by omega)) (ys[1]'(by omega))
        (ks0[0]'(by omega)) (ks0[1]'(by omega)) hc0 (hne 0 1 (by omega) (by omega))
      have b := pieceCubic_scaleAxis c xs[1] xs[2] (ys[1]'(by omega)) (ys[2]'(by omega))
        (ks0[1]'(by omega)) (ks0[2]'(by omega)) hc0 (hne 1 2 (by omega) (by omega))
      unfold LeftCond at hL ⊢
      rw [hp 0 1 (by omega) (by omega), hp 1 2 (by omega) (by omega)]
      simp only [pc] at hL
      cases left <;>
        simp only [SingleBoundary.scaleAxis, SingleBoundary.specialize, List.getElem_map] at hL ⊢
      · rw [a.2.2.2, b.2.2.2, hL]
      · rw [a.2.2.1, hL]; simp
      · rw [a.2.1, hL]; simp
      · rw [a.2.1, hL]
      · rw [a.2.2.1, hL]
    · have e1 : (xs.map (c * ·)).length = xs.length := by simp
      have a := pieceCubic_scaleAxis c xs[xs.length - 3] xs[xs.length - 2] (ys[xs.length - 3]'(by omega))
        (ys[xs.length - 2]'(by omega)) (ks0[xs.length - 3]'(by omega)) (ks0[xs.length - 2]'(by omega)) hc0
        (hne _ _ (by omega) (by omega))
      have b := pieceCubic_scaleAxis c xs[xs.length - 2] xs[xs.length - 1] (ys[xs.length - 2]'(by omega))
        (ys[xs.length - 1]'(by omega)) (ks0[xs.length - 2]'(by omega)) (ks0[xs.length - 1]'(by omega)) hc0
        (hne _ _ (by omega) (by omega))
      unfold RightCond at hR ⊢
      simp only [e1]
      rw [hp (xs.length - 3) (xs.length - 2) (by omega) (by omega),
        hp (xs.length - 2) (xs.length - 1) (by omega) (by omega)]
      simp only [pc] at hR
      cases right <;>
        simp only [SingleBoundary.scaleAxis, SingleBoundary.specialize, List.getElem_map] at hR ⊢
      · rw [a.2.2.2, b.2.2.2, hR]
      · rw [b.2.2.1, hR]; simp
      · rw [b.2.1, hR]; simp
      · rw [b.2.1, hR]
      · rw [b.2.2.1, hR]
  · intro i hi q
    have a := pieceCubic_scaleAxis c xs[i] xs[i + 1] (ys[i]'(by omega)) (ys[i + 1]'(by omega))
      (ks0[i]'(by omega)) (ks0[i + 1]'(by omega)) hc0 (hne i (i + 1) (by omega) hi)
    simp only [pieceAt, List.getElem_map]
    exact a.1 q

/-- **C15_spline_solver_scale**: the tridiagonal solve is homogeneous in the right-hand sides
    (data and boundary derivative values) — an identity of the algorithm. -/
theorem C15_spline_solver_scale (c : F) (rows : List (Row F F)) :
    thomas (rows.map (scaleRow c)) = (thomas rows).map (c * ·) := thomas_scale c rows

/-! ### the 3-point Periodic closed form under the same maps -/

omit [ToUsize F] [LawfulToUsize F] [IsStrictOrderedRing F] in
/-- three points, Periodic: the solve is the equal-ends test followed by the closed form -/
theorem solveForK_periodic3_eq (xs ys : List F) (hy : ys.length = xs.length) (h3 : xs.length = 3) :
    solveForK (V := F) xs ys .periodic =
      if ys[0]'(by omega) = ys[2]'(by omega) then .ok (periodic3 (endsOf xs ys hy (by omega)))
      else .error (.builder .valueError) := by
  have hn : 3 ≤ xs.length := by omega
  have hg : (3 ≤ ys.length ∧ xs.length = ys.length) := ⟨by omega, hy.symm⟩
  have hl : ys.length = 3 := by omega
  unfold solveForK
  simp only [bind, Except.bind, pure, Except.pure]
  rw [if_neg (not_not.mpr hg)]
  simp only [getEnds_eq' xs ys hy hn, InternalBoundary.specialize, all2_scalar]
  have e1 : (endsOf xs ys hy hn).yl1 = ys[2]'(by omega) := by simp only [endsOf]; congr 1; omega
  have e0 : (endsOf xs ys hy hn).y0 = ys[0]'(by omega) := rfl
  by_cases hends : ys[0]'(by omega) = ys[2]'(by omega)
  · have : Cmp.eq (endsOf xs ys hy hn).y0 (endsOf xs ys hy hn).yl1 = true := by rw [cmp_eq, e0, e1]; exact hends
    simp only [this, Bool.not_true, Bool.false_eq_true, if_false, hl, if_true, if_pos hends]
  · have : Cmp.eq (endsOf xs ys hy hn).y0 (endsOf xs ys hy hn).yl1 = false := by rw [cmp_eq_false, e0, e1]; exact hends
    simp only [this, Bool.not_false, if_true, if_neg hends]
    rfl

omit [ToUsize F] [LawfulToUsize F] in
/-- the common slope of the 3-point periodic spline, written out -/
theorem periodic3_val (xs ys : List F) (hy : ys.length = xs.length) (h3 : xs.length = 3) :
    periodic3 (endsOf xs ys hy (by omega)) =
      List.replicate 3 (((ys[1]'(by omega) - ys[0]'(by omega)) / (xs[1]'(by omega) - xs[0]'(by omega)) / (xs[1]'(by omega) - xs[0]'(by omega)) +
        (ys[2]'(by omega) - ys[1]'(by omega)) / (xs[2]'(by omega) - xs[1]'(by omega)) / (xs[2]'(by omega) - xs[1]'(by omega))) /
        (1 / (xs[1]'(by omega) - xs[0]'(by omega)) + 1 / (xs[2]'(by omega) - xs[1]'(by omega)))) := by
  simp only [periodic3, endsOf, Ends.dx0, Ends.dx1, map1_scalar, map2_scalar, c1, Nat.cast_one, List.replicate]

omit [ToUsize F] [LawfulToUsize F] in
/-- **C15_periodic3_scale_data**: three points, Periodic — data × `c` multiplies the slopes by `c` -/
theorem C15_periodic3_scale_data (c : F) (xs ys ks : List F) (hs : StrictInc xs)
    (hy : ys.length = xs.length) (h3 : xs.length = 3)
    (h : solveForK (V := F) xs ys .periodic = .ok ks) :
    solveForK (V := F) xs (ys.map (c * ·)) .periodic = .ok (ks.map (c * ·)) := by
  have hy' : (ys.map (c * ·)).length = xs.length := by simpa using hy
  rw [solveForK_periodic3_eq xs ys hy h3] at h
  rw [solveForK_periodic3_eq xs _ hy' h3]
  have d0 : xs[1]'(by omega) - xs[0]'(by omega) ≠ 0 := ne_of_gt (sub_pos.mpr (hs.2 0 1 (by omega) (by omega)))
  have d1 : xs[2]'(by omega) - xs[1]'(by omega) ≠ 0 := ne_of_gt (sub_pos.mpr (hs.2 1 2 (by omega) (by omega)))
  have ds : xs[2]'(by omega) - xs[1]'(by omega) + (xs[1]'(by omega) - xs[0]'(by omega)) ≠ 0 := by
    have a := sub_pos.mpr (hs.2 0 1 (by omega) (by omega)); have b := sub_pos.mpr (hs.2 1 2 (by omega) (by omega))
    exact ne_of_gt (by linarith)
  split at h
  · rename_i he
    simp only [Except.ok.injEq] at h
    rw [if_pos (by simp only [List.getElem_map, he])]
    rw [periodic3_val xs _ hy' h3, ← h, periodic3_val xs ys hy h3]
    simp only [List.getElem_map, List.replicate, List.map_cons, List.map_nil, Except.ok.injEq, List.cons.injEq, and_true]
    refine ⟨?_, ?_, ?_⟩ <;> (field_simp <;> ring)
  · cases h

omit [ToUsize F] [LawfulToUsize F] in
/-- **C15_periodic3_add**: superposition -/
theorem C15_periodic3_add (xs ys zs ks ms : List F) (hs : StrictInc xs)
    (hy : ys.length = xs.length) (hz : zs.length = xs.length) (h3 : xs.length = 3)
    (h1 : solveForK (V := F) xs ys .periodic = .ok ks)
    (h2 : solveForK (V := F) xs zs .periodic = .ok ms) :
    solveForK (V := F) xs (List.zipWith (· + ·) ys zs) .periodic = .ok (List.zipWith (· + ·) ks ms) := by
  have hyz : (List.zipWith (· + ·) ys zs).length = xs.length := by simp [hy, hz]
  rw [solveForK_periodic3_eq xs ys hy h3] at h1
  rw [solveForK_periodic3_eq xs zs hz h3] at h2
  rw [solveForK_periodic3_eq xs _ hyz h3]
  have d0 : xs[1]'(by omega) - xs[0]'(by omega) ≠ 0 := ne_of_gt (sub_pos.mpr (hs.2 0 1 (by omega) (by omega)))
  have d1 : xs[2]'(by omega) - xs[1]'(by omega) ≠ 0 := ne_of_gt (sub_pos.mpr (hs.2 1 2 (by omega) (by omega)))
  have ds : xs[2]'(by omega) - xs[1]'(by omega) + (xs[1]'(by omega) - xs[0]'(by omega)) ≠ 0 := by
    have a := sub_pos.mpr (hs.2 0 1 (by omega) (by omega)); have b := sub_pos.mpr (hs.2 1 2 (by omega) (by omega))
    exact ne_of_gt (by linarith)
  split at h1
  · rename_i he1
    split at h2
    · rename_i he2
      simp only [Except.ok.injEq] at h1 h2
      rw [if_pos (by simp only [List.getElem_zipWith, he1, he2])]
      rw [periodic3_val xs _ hyz h3, ← h1, ← h2, periodic3_val xs ys hy h3, periodic3_val xs zs hz h3]
      simp only [List.getElem_zipWith, List.replicate, List.zipWith_cons_cons, List.zipWith_nil_left, Except.ok.injEq,
        List.cons.injEq, and_true]
      refine ⟨?_, ?_, ?_⟩ <;> (field_simp <;> ring)
    · cases h2
  · cases h1

omit [ToUsize F] [LawfulToUsize F] in
/-- **C15_periodic3_shift**: shifting the axis leaves the slopes unchanged -/
theorem C15_periodic3_shift (d : F) (xs ys ks : List F)
    (hy : ys.length = xs.length) (h3 : xs.length = 3)
    (h : solveForK (V := F) xs ys .periodic = .ok ks) :
    solveForK (V := F) (xs.map (· + d)) ys .periodic = .ok ks := by
  have hy' : ys.length = (xs.map (· + d)).length := by simpa using hy
  have h3' : (xs.map (· + d)).length = 3 := by simpa using h3
  rw [solveForK_periodic3_eq xs ys hy h3] at h
  rw [solveForK_periodic3_eq _ ys hy' h3']
  have e : ∀ a b : F, a + d - (b + d) = a - b := fun a b => by ring
  split at h
  · rename_i he
    simp only [Except.ok.injEq] at h
    rw [if_pos he, periodic3_val _ ys hy' h3', ← h, periodic3_val xs ys hy h3]
    simp only [List.getElem_map, e]
  · cases h

omit [ToUsize F] [LawfulToUsize F] in
/-- **C15_periodic3_scale_axis**: axis × `c > 0` divides the slopes by `c` -/
theorem C15_periodic3_scale_axis (c : F) (hc0 : 0 < c) (xs ys ks : List F) (hs : StrictInc xs)
    (hy : ys.length = xs.length) (h3 : xs.length = 3)
    (h : solveForK (V := F) xs ys .periodic = .ok ks) :
    solveForK (V := F) (xs.map (c * ·)) ys .periodic = .ok (ks.map (· / c)) := by
  have hy' : ys.length = (xs.map (c * ·)).length := by simpa using hy
  have h3' : (xs.map (c * ·)).length = 3 := by simpa using h3
  rw [solveForK_periodic3_eq xs ys hy h3] at h
  rw [solveForK_periodic3_eq _ ys hy' h3']
  have hcne : c ≠ 0 := ne_of_gt hc0
  have d0 : xs[1]'(by omega) - xs[0]'(by omega) ≠ 0 := ne_of_gt (sub_pos.mpr (hs.2 0 1 (by omega) (by omega)))
  have d1 : xs[2]'(by omega) - xs[1]'(by omega) ≠ 0 := ne_of_gt (sub_pos.mpr (hs.2 1 2 (by omega) (by omega)))
  have ds : xs[2]'(by omega) - xs[1]'(by omega) + (xs[1]'(by omega) - xs[0]'(by omega)) ≠ 0 := by
    have a := sub_pos.mpr (hs.2 0 1 (by omega) (by omega)); have b := sub_pos.mpr (hs.2 1 2 (by omega) (by omega))
    exact ne_of_gt (by linarith)
  have e : ∀ a b : F, c * a - c * b = c * (a - b) := fun a b => by ring
  split at h
  · rename_i he
    simp only [Except.ok.injEq] at h
    rw [if_pos he, periodic3_val _ ys hy' h3', ← h, periodic3_val xs ys hy h3]
    simp only [List.getElem_map, e, List.replicate, List.map_cons, List.map_nil, Except.ok.injEq, List.cons.injEq, and_true]
    refine ⟨?_, ?_, ?_⟩ <;> (field_simp <;> ring)
  · cases h

end field


end NdInterp
