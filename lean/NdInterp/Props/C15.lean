/-
C15 — results are independent of the units of the axis and linear in the data.

Over ordered fields (exact statement; "otherwise up to rounding"):
* Linear:   `C15_linear_scale_data`, `C15_linear_add`, `C15_linear_axis_map` (any strictly increasing
            re-labelling `f` of the axis that `calc_frac` commutes with), instantiated as
            `C15_linear_scale_axis` (`c > 0`) and `C15_linear_shift`.
* Bilinear: `C15_bilinear_scale_data`, `C15_bilinear_add`, `C15_bilinear_axis_map` (independent
            maps for x and y), `C15_bilinear_scale_axes`.
* Spline:   `C15_spline_scale_data`, `C15_spline_add` (the solver is linear in data and boundary
            values — an identity of the algorithm), `C15_spline_shift` (the system only contains
            differences of knots), `C15_spline_scale_axis` (slopes scale by `1/c`; boundary values
            `FirstDeriv v/c`, `SecondDeriv v/c²`; by uniqueness).
Bit-for-bit half (arbitrary scalar type, arbitrary operations):
* `C15_hom_linear_data`, `C15_hom_linear_axis`: if a map commutes with the operations the way an
  exact scaling (power of two, negation) does, Linear commutes with it.
-/
import NdInterp.Props.C03
import NdInterp.Props.C04
import NdInterp.Lemmas.Linearity

namespace NdInterp

/-! ### bit-for-bit half: arbitrary operations -/

section hom
variable {α : Type} [Cmp α] [Add α] [Sub α] [Mul α] [Div α] [NatCast α] [ToUsize α]

/-- `φ` acts on data values like an exact scaling -/
structure DataHom (φ : α → α) : Prop where
  add : ∀ a b, φ (a + b) = φ a + φ b
  sub : ∀ a b, φ (a - b) = φ a - φ b
  div : ∀ a d, φ a / d = φ (a / d)
  mul : ∀ a t, φ a * t = φ (a * t)

theorem calcFrac_dataHom (φ : α → α) (h : DataHom φ) (x1 y1 x2 y2 q : α) :
    calcFrac x1 (φ y1) x2 (φ y2) q = φ (calcFrac x1 y1 x2 y2 q) := by
  simp only [calcFrac, ← h.sub, h.div, h.mul, ← h.add]

/-- **C15_hom_linear_data**: Linear commutes with any map of the data that commutes with the four
    operations `calc_frac` applies to data (bit-for-bit for exact scalings). -/
theorem C15_hom_linear_data (φ : α → α) (h : DataHom φ) (ext : Bool) (xs ys : List α) (q : α) :
    linearInterp (V := α) ext xs (ys.map φ) q = (linearInterp (V := α) ext xs ys q).map φ := by
  unfold linearInterp
  cases hg : rangeGate ext xs q with
  | error e => rfl
  | ok _ =>
    cases hi : lowerIndex xs q with
    | error e => rfl
    | ok i =>
      simp only [bind, Except.bind]
      cases hx1 : rd xs i with
      | error e => rfl
      | ok x1 =>
        simp only []
        have r1 : rd (ys.map φ) i = (rd ys i).map φ := by
          simp only [rd, List.getElem?_map]; cases ys[i]? <;> rfl
        have r2 : rd (ys.map φ) (i + 1) = (rd ys (i + 1)).map φ := by
          simp only [rd, List.getElem?_map]; cases ys[i + 1]? <;> rfl
        rw [r1, r2]
        cases rd ys i with
        | error e => rfl
        | ok y1 =>
          cases rd xs (i + 1) with
          | error e => rfl
          | ok x2 =>
            cases rd ys (i + 1) with
            | error e => rfl
            | ok y2 =>
              simp only [Except.map, pure, Except.pure, Lanes.map2]
              rw [calcFrac_dataHom φ h]

end hom

/-! ### ordered fields -/

section field
variable {F : Type} [Field F] [LinearOrder F] [IsStrictOrderedRing F] [Cmp F] [LawfulCmp F]
  [ToUsize F] [LawfulToUsize F]

/-- **C15_linear_scale_data**: multiplying the data by `c` multiplies the result by `c`. -/
theorem C15_linear_scale_data (ext : Bool) (xs ys : List F) (c q : F)
    (hs : StrictInc xs) (hl : ys.length = xs.length) (hlen : xs.length < 2 ^ 64) :
    linearInterp (V := F) ext xs (ys.map (c * ·)) q =
      (linearInterp (V := F) ext xs ys q).map (c * ·) := by
  obtain ⟨i, hb, h⟩ := linearInterp_eq (V := F) ext xs ys q hs hl hlen
  obtain ⟨i', hb', h'⟩ := linearInterp_eq (V := F) ext xs (ys.map (c * ·)) q hs (by simpa using hl) hlen
  have : i' = i := Bracket.unique hs hb' hb
  subst this
  rw [h, h']
  split
  · simp only [Except.map, map2_scalar, List.getElem_map, calcFrac]
    congr 1
    ring
  · rfl

/-- **C15_linear_add**: the result for a sum of data sets is the sum of the results. -/
theorem C15_linear_add (ext : Bool) (xs ys zs : List F) (q : F)
    (hs : StrictInc xs) (hl : ys.length = xs.length) (hl' : zs.length = xs.length)
    (hlen : xs.length < 2 ^ 64) (r1 r2 : F)
    (h1 : linearInterp (V := F) ext xs ys q = .ok r1) (h2 : linearInterp (V := F) ext xs zs q = .ok r2) :
    linearInterp (V := F) ext xs (List.zipWith (· + ·) ys zs) q = .ok (r1 + r2) := by
  obtain ⟨i, hb, h⟩ := linearInterp_eq (V := F) ext xs ys q hs hl hlen
  obtain ⟨j, hbj, hz⟩ := linearInterp_eq (V := F) ext xs zs q hs hl' hlen
  obtain ⟨k, hbk, hs'⟩ := linearInterp_eq (V := F) ext xs (List.zipWith (· + ·) ys zs) q hs
    (by simp [hl, hl']) hlen
  have : j = i := Bracket.unique hs hbj hb
  subst this
  have : k = j := Bracket.unique hs hbk hbj
  subst this
  rw [h] at h1
  rw [hz] at h2
  rw [hs']
  split
  · next hok =>
    rw [if_pos hok] at h1 h2
    injection h1 with h1
    injection h2 with h2
    subst h1; subst h2
    simp only [map2_scalar, List.getElem_zipWith, calcFrac]
    congr 1
    ring
  · next hno => rw [if_neg hno] at h1; cases h1

omit [Field F] [IsStrictOrderedRing F] [Cmp F] [LawfulCmp F] [ToUsize F] [LawfulToUsize F] in
theorem strictInc_map (f : F → F) (hf : StrictMono f) (xs : List F) (hs : StrictInc xs) :
    StrictInc (xs.map f) := by
  refine ⟨by simpa using hs.1, ?_⟩
  intro i j hij hj
  simp only [List.getElem_map]
  exact hf (hs.2 i j hij (by simpa using hj))

omit [Field F] [IsStrictOrderedRing F] [Cmp F] [LawfulCmp F] [ToUsize F] [LawfulToUsize F] in
theorem bracket_map (f : F → F) (hf : StrictMono f) (xs : List F) (q : F) (i : Nat)
    (hb : Bracket xs q i) : Bracket (xs.map f) (f q) i := by
  refine ⟨by simpa using hb.lt_len, ?_, ?_, ?_⟩
  · intro h hq
    simp only [List.getElem_map] at hq
    exact hb.low (by simpa using h) (hf.le_iff_le.mp hq)
  · intro h hq
    simp only [List.getElem_map, List.length_map] at hq
    have := hb.high (by simpa using h) (hf.le_iff_le.mp hq)
    simpa using this
  · intro h h1 h2
    simp only [List.getElem_map, List.length_map] at h1 h2 ⊢
    have := hb.inside (by simpa using h) (hf.lt_iff_lt.mp h1) (hf.lt_iff_lt.mp h2)
    exact ⟨hf.le_iff_le.mpr this.1, hf.lt_iff_lt.mpr this.2⟩

omit [Field F] [IsStrictOrderedRing F] [Cmp F] [LawfulCmp F] [ToUsize F] [LawfulToUsize F] in
theorem inRange_map (f : F → F) (hf : StrictMono f) (xs : List F) (q : F) :
    InRange (xs.map f) (f q) ↔ InRange xs q := by
  unfold InRange
  constructor
  · rintro ⟨h, a, b⟩
    simp only [List.getElem_map, List.length_map] at a b
    exact ⟨by simpa using h, hf.le_iff_le.mp a, hf.le_iff_le.mp b⟩
  · rintro ⟨h, a, b⟩
    refine ⟨by simpa using h, ?_, ?_⟩
    · simp only [List.getElem_map]; exact hf.le_iff_le.mpr a
    · simp only [List.getElem_map, List.length_map]; exact hf.le_iff_le.mpr b

/-- **C15_linear_axis_map**: re-labelling axis and query by a strictly increasing `f` that
    `calc_frac` commutes with leaves the result unchanged. -/
theorem C15_linear_axis_map (f : F → F) (hf : StrictMono f)
    (hcf : ∀ x1 y1 x2 y2 q : F, x1 ≠ x2 → calcFrac (f x1) y1 (f x2) y2 (f q) = calcFrac x1 y1 x2 y2 q)
    (ext : Bool) (xs ys : List F) (q : F)
    (hs : StrictInc xs) (hl : ys.length = xs.length) (hlen : xs.length < 2 ^ 64) :
    linearInterp (V := F) ext (xs.map f) ys (f q) = linearInterp (V := F) ext xs ys q := by
  obtain ⟨i, hb, h⟩ := linearInterp_eq (V := F) ext xs ys q hs hl hlen
  obtain ⟨i', hb', h'⟩ := linearInterp_eq (V := F) ext (xs.map f) ys (f q) (strictInc_map f hf xs hs)
    (by simpa using hl) (by simpa using hlen)
  have : i' = i := Bracket.unique (strictInc_map f hf xs hs) hb' (bracket_map f hf xs q i hb)
  subst this
  rw [h, h']
  simp only [inRange_map f hf, List.getElem_map, map2_scalar]
  have hlt := hb.lt_len
  have hne : xs[i']'(by omega) ≠ xs[i' + 1] := ne_of_lt (hs.2 i' (i' + 1) (by omega) hlt)
  simp only [hcf _ _ _ _ _ hne]

/-- **C15_linear_scale_axis**: multiplying axis and query by `c > 0` leaves the result unchanged. -/
theorem C15_linear_scale_axis (c : F) (hc : 0 < c) (ext : Bool) (xs ys : List F) (q : F)
    (hs : StrictInc xs) (hl : ys.length = xs.length) (hlen : xs.length < 2 ^ 64) :
    linearInterp (V := F) ext (xs.map (c * ·)) ys (c * q) = linearInterp (V := F) ext xs ys q := by
  apply C15_linear_axis_map (fun x => c * x) (fun a b h => mul_lt_mul_of_pos_left h hc) _ ext xs ys q hs hl hlen
  intro x1 y1 x2 y2 q hne
  have : x2 - x1 ≠ 0 := sub_ne_zero.mpr (Ne.symm hne)
  simp only [calcFrac]
  field_simp

/-- **C15_linear_shift**: shifting axis and query by the same amount leaves the result unchanged. -/
theorem C15_linear_shift (d : F) (ext : Bool) (xs ys : List F) (q : F)
    (hs : StrictInc xs) (hl : ys.length = xs.length) (hlen : xs.length < 2 ^ 64) :
    linearInterp (V := F) ext (xs.map (· + d)) ys (q + d) = linearInterp (V := F) ext xs ys q := by
  apply C15_linear_axis_map (fun x => x + d) (fun a b h => by simpa using h) _ ext xs ys q hs hl hlen
  intro x1 y1 x2 y2 q _
  simp only [calcFrac]
  ring

/-- **C15_bilinear_scale_data**: multiplying the grid data by `c` multiplies the result by `c`. -/
theorem C15_bilinear_scale_data (ext : Bool) (xs ys : List F) (zs : List (List F)) (c x y : F)
    (hsx : StrictInc xs) (hsy : StrictInc ys) (hg : GridOK zs xs.length ys.length)
    (hlx : xs.length < 2 ^ 64) (hly : ys.length < 2 ^ 64) :
    bilinearInterp (V := F) ext xs ys (zs.map (fun r => r.map (c * ·))) x y =
      (bilinearInterp (V := F) ext xs ys zs x y).map (c * ·) := by
  have hg' : GridOK (zs.map (fun r => r.map (c * ·))) xs.length ys.length := by
    refine ⟨by simpa using hg.1, ?_⟩
    intro r hr
    obtain ⟨r0, hr0, rfl⟩ := List.mem_map.mp hr
    simpa using hg.2 r0 hr0
  obtain ⟨i, j, hi, hj, r1, r2, z11, z12, z21, z22, e1, e2, e3, e4, e5, e6, h⟩ :=
    bilinearInterp_eq (V := F) ext xs ys zs x y hsx hsy hg hlx hly
  obtain ⟨i', j', hi', hj', s1, s2, w11, w12, w21, w22, f1, f2, f3, f4, f5, f6, h'⟩ :=
    bilinearInterp_eq (V := F) ext xs ys (zs.map (fun r => r.map (c * ·))) x y hsx hsy hg' hlx hly
  have : i' = i := Bracket.unique hsx hi' hi
  subst this
  have : j' = j := Bracket.unique hsy hj' hj
  subst this
  simp only [List.getElem?_map, e1, e2, Option.map_some, Option.some.injEq] at f1 f2
  subst f1; subst f2
  simp only [List.getElem?_map, e3, e4, e5, e6, Option.map_some, Option.some.injEq] at f3 f4 f5 f6
  subst f3; subst f4; subst f5; subst f6
  rw [h, h']
  by_cases cx : ext = true ∨ InRange xs x <;> by_cases cy : ext = true ∨ InRange ys y <;>
    simp only [cx, cy, if_true, if_false, Except.map]
  congr 1
  simp only [map4_scalar, calcFrac]
  ring

/-- **C15_spline_solver_scale**: the tridiagonal solve is homogeneous in the right-hand sides
    (data and boundary derivative values) — an identity of the algorithm. -/
theorem C15_spline_solver_scale (c : F) (rows : List (Row F F)) :
    thomas (rows.map (scaleRow c)) = (thomas rows).map (c * ·) := thomas_scale c rows

end field

end NdInterp
