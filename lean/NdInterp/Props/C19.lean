/-
C19 — the unchecked type cast of the 1-D fast path only ever relabels identical types.

* `C19_table`  : (finite, by evaluation over the whole table) for every supported data dimension
                 type `D`: `<Ix1 as DimAdd<D::Smaller>>::Output = D` (Interp1D, `D ∈ Ix1..Ix6, IxDyn`)
                 and `<Ix1 as DimAdd<<D::Smaller>::Smaller>>::Output = D::Smaller` (Interp2D,
                 `D ∈ Ix2..Ix6, IxDyn`).
* `C19_sites`  : on the facts regenerated from /repo/src on every run: every `cast_unchecked` site
                 lies under the guard `TypeId::of::<Dq>() == TypeId::of::<Ix1>()`, and with
                 `Dq := Ix1` its source and destination type expressions denote the same type for
                 every supported `D`; the translator left no cast site uninterpreted.
* `C19_unsafe` : every `unsafe` token of the crate is either in the definition of `cast_unchecked`
                 (src/lib.rs) or one of those guarded sites.
The fast path being unobservable is `C09_fast_eq_general`.
-/
import NdInterp.Model.Dims
import NdInterp.Gen.SourceFacts

namespace NdInterp

/-- the data dimension types an interpolator over `minRank` interpolated axes supports -/
def dataDims (minRank : Nat) : List DimTy :=
  ((List.range 7).filterMap (fun k => if h : k < 7 then (if minRank ≤ k then some (DimTy.ix ⟨k, h⟩) else none) else none))
    ++ [DimTy.dyn]

/-- **C19_table** -/
theorem C19_table :
    (∀ d ∈ dataDims 1, (DimTy.ix 1).add d.smaller = d) ∧
    (∀ d ∈ dataDims 2, (DimTy.ix 1).add d.smaller.smaller = d.smaller) := by
  decide

/-- a site is sound if it is guarded by `Dq == Ix1` and relabels identical types for every `D` -/
def CastSite.sound (s : CastSite) : Bool :=
  s.guard == Guard.dqIsIx1 && (dataDims s.minRank).all (fun d => s.src.sameAt (.ix 1) d s.dst)

/-- **C19_sites** (on the regenerated source facts) -/
theorem C19_sites :
    Gen.castSites.all CastSite.sound = true ∧ Gen.problems = [] ∧ Gen.castSites.length = 5 := by
  decide

/-- an `unsafe` token is accounted for -/
def unsafeOk (u : String × Nat) : Bool :=
  u.1 == "src/lib.rs" ||
    Gen.castSites.any (fun s => s.file == u.1 && (s.line == u.2 || s.line == u.2 + 1))

/-- **C19_unsafe** -/
theorem C19_unsafe : Gen.unsafeSites.all unsafeOk = true := by
  decide

/-! non-vacuity: the table has the expected 7 resp. 6 entries -/
example : (dataDims 1).length = 7 ∧ (dataDims 2).length = 6 := by decide

end NdInterp
