/-
C02 — the cubic spline passes through the data and is a C² piecewise cubic.

Single-lane statements for every non-periodic boundary pair `(left, right)` — i.e. for
NotAKnot, Natural, Clamped and every Mixed / per-lane Individual selection (`C08` carries them
to every lane of n-dimensional data); the periodic boundary is treated in `Props/C07`.

* `C02_build`    : on a strictly increasing axis with ≥ 3 points `solve_for_k` never fails
                   (all Thomas pivots are positive) and returns one slope per knot.
* `C02_eval`     : every answered query is the value of the cubic piece of its bracketing
                   interval; `C02_cubic` exhibits that piece as a `Polynomial` of degree ≤ 3.
* `C02_through`  : each piece takes the data values at both of its ends; `C02_knot`: the
                   interpolator returns `ys[k]` at `xs[k]`.
* `C02_C1`       : neighbouring pieces have the same first derivative at the common knot.
* `C02_C2`       : … and the same second derivative (this is where the linear system is used).
* `C05_spline`, `C06_spline_*` : the range-gate / extrapolation statements for the spline.
-/
import NdInterp.Lemmas.SplineChar

namespace NdInterp

open Polynomial

section
variable {F : Type} [Field F] [LinearOrder F] [IsStrictOrderedRing F] [Cmp F] [LawfulCmp F]
  [ToUsize F] [LawfulToUsize F] [RemEuclid F]

/-- **C02_build**: the builder's linear solve succeeds for every boundary pair. -/
theorem C02_build (xs ys : List F) (hs : StrictInc xs) (hy : ys.length = xs.length)
    (hn : 3 ≤ xs.length) (left right : SingleBoundary F) :
    ∃ ks, solveForK (V := F) xs ys (.mixed left right) = .ok ks ∧ ks.length = xs.length := by
  obtain ⟨ks, h1, h2, _, _⟩ := solveForK_spec xs ys hy hn hs left right
  exact ⟨ks, h1, h2⟩

/-- the whole-data-set boundaries are the corresponding pairs -/
theorem C02_build_names (xs ys : List F) :
    solveForK (V := F) xs ys .natural = solveForK (V := F) xs ys (.mixed .natural .natural) ∧
    solveForK (V := F) xs ys .clamped = solveForK (V := F) xs ys (.mixed .clamped .clamped) ∧
    solveForK (V := F) xs ys .notAKnot = solveForK (V := F) xs ys (.mixed .notAKnot .notAKnot) :=
  ⟨(solveForK_nonmixed xs ys _).1 rfl, (solveForK_nonmixed xs ys _).2.1 rfl,
   (solveForK_nonmixed xs ys _).2.2 rfl⟩

/-- **C02_eval**: an answered query is the value of the cubic piece of its bracket. -/
theorem C02_eval (xs ys ks : List F) (q : F) (extr : Extrapolate) (hne : extr ≠ .periodic)
    (hs : StrictInc xs) (hy : ys.length = xs.length) (hk : ks.length = xs.length)
    (hlen : xs.length < 2 ^ 64) (hok : extr = .yes ∨ InRange xs q) :
    ∃ i, ∃ (hb : Bracket xs q i),
      splineInterp (V := F) (splineOf xs ys ks extr) xs ys q =
        .ok ((pieceAt xs ys ks i hb.lt_len hy hk).eval q) := by
  obtain ⟨i, hb, h⟩ := splineInterp_eq xs ys ks q extr hne hs hy hk hlen
  exact ⟨i, hb, by rw [h, if_pos hok]⟩

/-- **C02_cubic**: on each interval the interpolant is one polynomial of degree ≤ 3, whose
    derivatives are `Cubic.d1`, `Cubic.d2`, `Cubic.d3` of the piece. -/
theorem C02_cubic (xs ys ks : List F) (hy : ys.length = xs.length) (hk : ks.length = xs.length)
    (i : Nat) (hi : i + 1 < xs.length) :
    ∃ P : F[X], P.natDegree ≤ 3 ∧
      (∀ q, P.eval q = (pieceAt xs ys ks i hi hy hk).eval q) ∧
      (∀ q, (derivative P).eval q = (pieceAt xs ys ks i hi hy hk).d1 q) ∧
      (∀ q, (derivative^[2] P).eval q = (pieceAt xs ys ks i hi hy hk).d2 q) ∧
      (∀ q, (derivative^[3] P).eval q = (pieceAt xs ys ks i hi hy hk).d3) :=
  ⟨(pieceAt xs ys ks i hi hy hk).toPoly, Cubic.natDegree_le _, Cubic.eval_toPoly _, Cubic.d1_toPoly _,
    Cubic.d2_toPoly _, Cubic.d3_toPoly _⟩

omit [Cmp F] [LawfulCmp F] [ToUsize F] [LawfulToUsize F] [RemEuclid F] in
/-- **C02_through**: every piece takes the data values at both ends of its interval. -/
theorem C02_through (xs ys ks : List F) (hs : StrictInc xs) (hy : ys.length = xs.length)
    (hk : ks.length = xs.length) (i : Nat) (hi : i + 1 < xs.length) :
    (pieceAt xs ys ks i hi hy hk).eval (xs[i]'(by omega)) = ys[i]'(by omega) ∧
    (pieceAt xs ys ks i hi hy hk).eval xs[i + 1] = ys[i + 1]'(by omega) := by
  have hd : xs[i + 1] - xs[i] ≠ 0 := ne_of_gt (sub_pos.mpr (hs.2 i (i + 1) (by omega) hi))
  exact ⟨piece_eval_left _ _ _ _ _ _, piece_eval_right _ _ _ _ _ _ hd⟩

/-- **C02_knot**: the interpolator reproduces every data point at its axis value. -/
theorem C02_knot (xs ys ks : List F) (k : Nat) (extr : Extrapolate) (hne : extr ≠ .periodic)
    (hs : StrictInc xs) (hy : ys.length = xs.length) (hk : ks.length = xs.length)
    (hlen : xs.length < 2 ^ 64) (hkn : k < xs.length) :
    splineInterp (V := F) (splineOf xs ys ks extr) xs ys xs[k] = .ok (ys[k]'(by omega)) := by
  have hn := hs.1
  have hin : InRange xs xs[k] :=
    ⟨by omega, hs.le_of_le (Nat.zero_le k) hkn, hs.le_of_le (by omega) (by omega)⟩
  obtain ⟨i, hb, h⟩ := C02_eval xs ys ks xs[k] extr hne hs hy hk hlen (Or.inr hin)
  rw [h]
  obtain ⟨t1, t2⟩ := C02_through xs ys ks hs hy hk i hb.lt_len
  rcases knot_bracket hs hkn hb with rfl | rfl
  · rw [t1]
  · rw [t2]

omit [Cmp F] [LawfulCmp F] [ToUsize F] [LawfulToUsize F] [RemEuclid F] in
/-- **C02_C1**: the first derivative is continuous at every interior knot (both one-sided
    derivatives equal the slope `ks[j+1]`). -/
theorem C02_C1 (xs ys ks : List F) (hs : StrictInc xs) (hy : ys.length = xs.length)
    (hk : ks.length = xs.length) (j : Nat) (h : j + 2 < xs.length) :
    (pc xs ys ks hy hk j (j + 1) (by omega) (by omega)).d1 xs[j + 1] = ks[j + 1]'(by omega) ∧
    (pc xs ys ks hy hk (j + 1) (j + 2) (by omega) h).d1 xs[j + 1] = ks[j + 1]'(by omega) := by
  have hd : xs[j + 1] - xs[j] ≠ 0 := ne_of_gt (sub_pos.mpr (hs.2 j (j + 1) (by omega) (by omega)))
  exact ⟨piece_d1_right _ _ _ _ _ _ hd, piece_d1_left _ _ _ _ _ _⟩

/-- **C02_C2**: the slopes `solve_for_k` returns make the second derivative continuous at
    every interior knot — for every boundary pair. -/
theorem C02_C2 (xs ys : List F) (hs : StrictInc xs) (hy : ys.length = xs.length)
    (hn : 3 ≤ xs.length) (left right : SingleBoundary F)
    (hpar : ¬ (xs.length = 3 ∧ isNakPair left right = true)) :
    ∃ ks, ∃ (hk : ks.length = xs.length),
      solveForK (V := F) xs ys (.mixed left right) = .ok ks ∧ C2Cond xs ys ks hy hk := by
  obtain ⟨ks, h1, h2, h3, _⟩ := solveForK_spec xs ys hy hn hs left right
  exact ⟨ks, h2, h1, ((spline_char xs ys ks hy h2 hn hs left right hpar).mp h3).1⟩

/-! ### range gate and extrapolation of the spline (C05, C06) -/

/-- **C05_spline**: without extrapolation the spline answers exactly the closed range. -/
theorem C05_spline (xs ys ks : List F) (q : F) (hs : StrictInc xs) (hy : ys.length = xs.length)
    (hk : ks.length = xs.length) (hlen : xs.length < 2 ^ 64) :
    (InRange xs q → ∃ v, splineInterp (V := F) (splineOf xs ys ks .no) xs ys q = .ok v) ∧
    (¬ InRange xs q → splineInterp (V := F) (splineOf xs ys ks .no) xs ys q = .error .outOfBounds) := by
  obtain ⟨i, hb, h⟩ := splineInterp_eq xs ys ks q .no (by simp) hs hy hk hlen
  constructor
  · intro hin; rw [h, if_pos (Or.inr hin)]; exact ⟨_, rfl⟩
  · intro hout; rw [h, if_neg (by simp [hout])]

/-- **C06_spline_never_rejects** -/
theorem C06_spline_never_rejects (xs ys ks : List F) (q : F) (hs : StrictInc xs)
    (hy : ys.length = xs.length) (hk : ks.length = xs.length) (hlen : xs.length < 2 ^ 64) :
    ∃ v, splineInterp (V := F) (splineOf xs ys ks .yes) xs ys q = .ok v := by
  obtain ⟨i, hb, h⟩ := splineInterp_eq xs ys ks q .yes (by simp) hs hy hk hlen
  rw [h, if_pos (Or.inl rfl)]; exact ⟨_, rfl⟩

/-- **C06_spline_left**: at or left of the first knot the value is that of the cubic piece of
    the first interval evaluated at `q`. -/
theorem C06_spline_left (xs ys ks : List F) (q : F) (hs : StrictInc xs)
    (hy : ys.length = xs.length) (hk : ks.length = xs.length) (hlen : xs.length < 2 ^ 64)
    (hq : q ≤ xs[0]'(by have := hs.1; omega)) :
    splineInterp (V := F) (splineOf xs ys ks .yes) xs ys q =
      .ok ((pieceAt xs ys ks 0 (by have := hs.1; omega) hy hk).eval q) := by
  obtain ⟨i, hb, h⟩ := C02_eval xs ys ks q .yes (by simp) hs hy hk hlen (Or.inl rfl)
  have : i = 0 := hb.low (by have := hs.1; omega) hq
  subst this
  exact h

/-- **C06_spline_right**: at or right of the last knot, the cubic piece of the last interval. -/
theorem C06_spline_right (xs ys ks : List F) (q : F) (hs : StrictInc xs)
    (hy : ys.length = xs.length) (hk : ks.length = xs.length) (hlen : xs.length < 2 ^ 64)
    (hq : xs[xs.length - 1]'(by have := hs.1; omega) ≤ q) :
    splineInterp (V := F) (splineOf xs ys ks .yes) xs ys q =
      .ok ((pieceAt xs ys ks (xs.length - 2) (by have := hs.1; omega) hy hk).eval q) := by
  obtain ⟨i, hb, h⟩ := C02_eval xs ys ks q .yes (by simp) hs hy hk hlen (Or.inl rfl)
  have : i = xs.length - 2 := hb.high (by have := hs.1; omega) hq
  subst this
  exact h

end

/-- **C06_spline_inrange_same** — arbitrary scalar operations (bit-identity): when the
    closed-range test passes, evaluation with `Extrapolate::Yes` and `Extrapolate::No` is the
    same term. -/
theorem C06_spline_inrange_same {α V : Type} [Cmp α] [Add α] [Sub α] [Mul α] [Div α] [Neg α]
    [NatCast α] [ToUsize α] [RemEuclid α] [Lanes α V]
    (a b : List V) (xs : List α) (ys : List V) (q : α) (h : isInRange xs q = .ok true) :
    splineInterp { a := a, b := b, extrapolate := .yes } xs ys q =
      splineInterp { a := a, b := b, extrapolate := .no } xs ys q := by
  unfold splineInterp
  simp only [h, bind, Except.bind]
  rfl

end NdInterp
