/-
Model of ndarray views as far as the `*_into` entry points use them (core Lean only):
a view is an offset, a shape and strides over a memory `Int → α`; logical (row-major) index
order; `index_axis(Axis(0), i)`; element-wise writes through a view (`Zip`).

`arrayIntoMem` is the (repaired) `interp_array_into`: shape assertion, then for every query
multi-index in logical order the sub-view selected by successive `index_axis_move(Axis(0), idx)`
is handed to the strategy, which fills it in logical order.
-/
import NdInterp.Model.Interp

namespace NdInterp

structure View where
  off : Int
  shape : List Nat
  strides : List Int
deriving Repr

/-- all multi-indices of a shape in logical (row-major) order -/
def indices : List Nat → List (List Nat)
  | [] => [[]]
  | d :: ds => (List.range d).flatMap (fun i => (indices ds).map (fun idx => i :: idx))

/-- `Σ idxₖ · strideₖ` -/
def dot : List Nat → List Int → Int
  | i :: is, s :: ss => (i : Int) * s + dot is ss
  | _, _ => 0

namespace View

def addr (v : View) (idx : List Nat) : Int := v.off + dot idx v.strides

/-- addresses of all elements in logical order -/
def addrs (v : View) : List Int := (indices v.shape).map v.addr

/-- `v.index_axis(Axis(0), i)` -/
def indexAxis0 (v : View) (i : Nat) : View :=
  { off := v.off + (i : Int) * v.strides.headD 0, shape := v.shape.tail, strides := v.strides.tail }

/-- successive `index_axis_move(Axis(0), idx)` for the components of a query multi-index -/
def subviewAt (v : View) (idx : List Nat) : View := idx.foldl indexAxis0 v

end View

section mem
variable {α : Type}

/-- element-wise assignment of `vals` to the addresses `as` (in order) -/
def writeAddrs (m : Int → α) : List Int → List α → (Int → α)
  | a :: as, v :: vs => writeAddrs (fun x => if x = a then v else m x) as vs
  | _, _ => m

/-- fill a view in logical order (`Zip … for_each(|…, t| *t = …)`) -/
def View.write (v : View) (m : Int → α) (vals : List α) : Int → α := writeAddrs m v.addrs vals

/-- contents of a view in logical order -/
def View.read (v : View) (m : Int → α) : List α := v.addrs.map m

/-- the per-element loop of `interp_array_into`: `rows[k]` is what the strategy writes for the
    `k`-th query multi-index -/
def writeRows (buf : View) (m : Int → α) : List (List Nat) → List (List α) → (Int → α)
  | idx :: idxs, row :: rows => writeRows buf ((buf.subviewAt idx).write m row) idxs rows
  | _, _ => m

/-- `interp_array_into(qs, buffer)` on memory: `Err`/panic leave the partial writes in place -/
def arrayIntoMem {β : Type} (trailing : List Nat) (f : β → Except Fault (List α)) (qshape : List Nat)
    (qs : List β) (buf : View) (m : Int → α) : Except Fault (Int → α) :=
  if buf.shape ≠ qshape ++ trailing then .error .panic
  else
    match interpEach f qs with
    | .error e => .error e
    | .ok rows => .ok (writeRows buf m (indices qshape) rows)

end mem

end NdInterp
