/-
Model of jonasBoss/ndarray-interp — basic vocabulary.

Core Lean only (no Mathlib): this file is linked into the `driver` executable.

* `Fault`      : the three ways an API call of the crate can end without a value.
* `Cmp`        : the scalar's own Boolean comparisons (`PartialOrd`/`PartialEq` of Rust).
                 They are *data*, not propositions, so that an element that is
                 incomparable to everything (NaN) is covered by the same definitions.
* `ToUsize`    : `num_traits::cast::<T, usize>`.
* `RemEuclid`  : `num_traits::Euclid::rem_euclid`.
* `Lanes α V`  : "a row of lane values".  The crate writes every n-dimensional operation as
                 an element-wise `Zip` over the trailing axes with a closure over scalars;
                 `map1 … map4` are those `Zip`s.  `V = α` is 1-D data, `V = List α` is
                 n-D data (row-major flattened trailing axes).
-/
namespace NdInterp

inductive BKind | notEnoughData | monotonic | shapeError | valueError
deriving Repr, DecidableEq, BEq

inductive Fault
  | panic
  | outOfBounds
  | builder (k : BKind)
deriving Repr, DecidableEq, BEq

/-- the scalar's own comparison operators -/
class Cmp (α : Type) where
  lt : α → α → Bool
  le : α → α → Bool
  eq : α → α → Bool

namespace Cmp
variable {α : Type} [Cmp α]
/-- Rust `a > b` -/
@[inline] def gt (a b : α) : Bool := Cmp.lt b a
/-- Rust `a >= b` -/
@[inline] def ge (a b : α) : Bool := Cmp.le b a
end Cmp

/-- `cast::<T, usize>(x)`; `none` where the cast fails -/
class ToUsize (α : Type) where
  toUsize? : α → Option Nat

/-- `x.rem_euclid(&p)` -/
class RemEuclid (α : Type) where
  remEuclid : α → α → α

/-- element-wise operations over the lanes of one row -/
class Lanes (α : outParam Type) (V : Type) where
  /-- `row.fill(c)` / a row with the shape of `like` holding `c` everywhere -/
  const : V → α → V
  map1 : (α → α) → V → V
  map2 : (α → α → α) → V → V → V
  map3 : (α → α → α → α) → V → V → V → V
  map4 : (α → α → α → α → α) → V → V → V → V → V
  /-- `a == b` of two rows (every lane equal by the scalar's `==`) -/
  all2 : (α → α → Bool) → V → V → Bool

/-- 1-D data: a row is a single value -/
instance instLanesScalar (α : Type) : Lanes α α where
  const _ c := c
  map1 f a := f a
  map2 f a b := f a b
  map3 f a b c := f a b c
  map4 f a b c d := f a b c d
  all2 p a b := p a b

def zipWith3 {α β γ δ : Type} (f : α → β → γ → δ) : List α → List β → List γ → List δ
  | a :: as, b :: bs, c :: cs => f a b c :: zipWith3 f as bs cs
  | _, _, _ => []

def zipWith4 {α β γ δ ε : Type} (f : α → β → γ → δ → ε) :
    List α → List β → List γ → List δ → List ε
  | a :: as, b :: bs, c :: cs, d :: ds => f a b c d :: zipWith4 f as bs cs ds
  | _, _, _, _ => []

def all2List {α : Type} (p : α → α → Bool) : List α → List α → Bool
  | a :: as, b :: bs => p a b && all2List p as bs
  | [], [] => true
  | _, _ => false

/-- n-D data: a row is the list of its lane values in logical (row-major) order -/
instance instLanesList (α : Type) : Lanes α (List α) where
  const like c := like.map (fun _ => c)
  map1 f a := a.map f
  map2 f a b := List.zipWith f a b
  map3 f a b c := zipWith3 f a b c
  map4 f a b c d := zipWith4 f a b c d
  all2 p a b := all2List p a b

/-- a single lane that may be absent (the image of the projection `row ↦ row[j]?`) -/
instance instLanesOption (α : Type) : Lanes α (Option α) where
  const like c := like.map (fun _ => c)
  map1 f a := a.map f
  map2 f a b := match a, b with
    | some a, some b => some (f a b)
    | _, _ => none
  map3 f a b c := match a, b, c with
    | some a, some b, some c => some (f a b c)
    | _, _, _ => none
  map4 f a b c d := match a, b, c, d with
    | some a, some b, some c, some d => some (f a b c d)
    | _, _, _, _ => none
  all2 p a b := match a, b with
    | some a, some b => p a b
    | none, none => true
    | _, _ => false

/-- checked read: an out-of-range index is a Rust panic -/
def rd {β : Type} (xs : List β) (i : Nat) : Except Fault β :=
  match xs[i]? with
  | some v => .ok v
  | none => .error .panic

/-- product of a shape -/
def shapeSize (s : List Nat) : Nat := s.foldl (· * ·) 1

end NdInterp
