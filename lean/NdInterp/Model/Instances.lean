/-
Scalar instances the model is executed at.  Core Lean only.

* `Rat`   : exact arithmetic — the real-number semantics of the code on finite inputs.
* `Float` : IEEE binary64 — used for outcome kinds only (NaN, ±inf, range edges).
* `Int`   : comparisons only (`monotonic_prop` on `i32`/`i64`).
* `Z64`   : Rust's `i64` on values far from overflow: truncating `/`, Euclidean `rem_euclid`,
            `NumCast` to `usize` failing for negatives — Linear, Bilinear, lookup and classification
            on integer axes and data.
-/
import NdInterp.Model.Basic

namespace NdInterp

instance : Cmp Rat where
  lt a b := decide (a < b)
  le a b := decide (a ≤ b)
  eq a b := decide (a = b)

/-- `num_traits` float → `usize`: fails for `x ≤ -1` and `x ≥ 2^64`, truncates otherwise -/
instance : ToUsize Rat where
  toUsize? x :=
    if x ≤ -1 then none
    else if (18446744073709551616 : Rat) ≤ x then none
    else some x.floor.toNat

/-- `rem_euclid`: `a - |p|·⌊a / |p|⌋` -/
instance : RemEuclid Rat where
  remEuclid a p :=
    let m := if p < 0 then -p else p
    a - m * ((a / m).floor : Rat)

instance : Cmp Float where
  lt a b := a < b
  le a b := a ≤ b
  eq a b := a == b

instance : ToUsize Float where
  toUsize? x :=
    if x > -1.0 && x < 18446744073709551616.0 then some x.toUInt64.toNat else none

/-- a finite `Float` as `(negative, M, E)` with value `± M · 2^E` (from the IEEE-754 bits) -/
def floatDecode (f : Float) : Bool × Nat × Int :=
  let b := f.toBits.toNat
  let neg := b >>> 63 == 1
  let e := (b >>> 52) % 2048
  let m := b % (2 ^ 52)
  if e == 0 then (neg, m, -1074) else (neg, m + 2 ^ 52, (e : Int) - 1075)

/-- C `fmod` (Rust's `%` on `f64`), computed exactly on the decoded operands: the result is
    `a - trunc(a/p)·p`, which is always representable, with the sign of `a`. -/
def floatFmod (a p : Float) : Float :=
  if a.isNaN || p.isNaN || a.isInf || p == 0.0 then 0.0 / 0.0
  else if p.isInf then a
  else
    let (na, ma, ea) := floatDecode a
    let (_, mp, ep) := floatDecode p
    let e0 := if ea ≤ ep then ea else ep
    let r := (ma * 2 ^ (ea - e0).toNat) % (mp * 2 ^ (ep - e0).toNat)
    let v := (Float.ofNat r).scaleB e0
    if na then -v else v

instance : RemEuclid Float where
  remEuclid a p :=
    -- Rust: `let r = self % rhs; if r < 0.0 { r + rhs.abs() } else { r }`  (`%` = C `fmod`)
    let r := floatFmod a p
    if r < 0.0 then r + p.abs else r

instance : NatCast Float := ⟨Float.ofNat⟩

/-! ### `f32` (Lean's `Float32`: IEEE-754 binary32, the same operations as Rust's `f32`) -/

instance : Cmp Float32 where
  lt a b := a < b
  le a b := a ≤ b
  eq a b := a == b

instance : ToUsize Float32 where
  toUsize? x :=
    if x > -1.0 && x < 18446744073709551616.0 then some x.toUInt64.toNat else none

/-- a finite `Float32` as `(negative, M, E)` with value `± M · 2^E` -/
def float32Decode (f : Float32) : Bool × Nat × Int :=
  let b := f.toBits.toNat
  let neg := b >>> 31 == 1
  let e := (b >>> 23) % 256
  let m := b % (2 ^ 23)
  if e == 0 then (neg, m, -149) else (neg, m + 2 ^ 23, (e : Int) - 150)

/-- C `fmodf` (Rust's `%` on `f32`), exactly, on the decoded operands -/
def float32Fmod (a p : Float32) : Float32 :=
  if a.isNaN || p.isNaN || a.isInf || p == 0.0 then 0.0 / 0.0
  else if p.isInf then a
  else
    let (na, ma, ea) := float32Decode a
    let (_, mp, ep) := float32Decode p
    let e0 := if ea ≤ ep then ea else ep
    let r := (ma * 2 ^ (ea - e0).toNat) % (mp * 2 ^ (ep - e0).toNat)
    let v := (Float32.ofNat r).scaleB e0
    if na then -v else v

instance : RemEuclid Float32 where
  remEuclid a p :=
    let r := float32Fmod a p
    if r < 0.0 then r + p.abs else r

instance : NatCast Float32 := ⟨Float32.ofNat⟩

instance : Cmp Int where
  lt a b := decide (a < b)
  le a b := decide (a ≤ b)
  eq a b := decide (a = b)

/-- the integers with the operations of Rust's `i64` (no overflow: the driver is fed small values) -/
structure Z64 where
  val : Int
deriving BEq, Repr

instance : Add Z64 := ⟨fun a b => ⟨a.val + b.val⟩⟩
instance : Sub Z64 := ⟨fun a b => ⟨a.val - b.val⟩⟩
instance : Mul Z64 := ⟨fun a b => ⟨a.val * b.val⟩⟩
instance : Neg Z64 := ⟨fun a => ⟨-a.val⟩⟩
/-- `i64` division truncates toward zero -/
instance : Div Z64 := ⟨fun a b => ⟨Int.tdiv a.val b.val⟩⟩
instance : NatCast Z64 := ⟨fun n => ⟨(n : Int)⟩⟩

instance : Cmp Z64 where
  lt a b := decide (a.val < b.val)
  le a b := decide (a.val ≤ b.val)
  eq a b := decide (a.val = b.val)

/-- `num_traits::cast::<i64, usize>`: `None` for negative values -/
instance : ToUsize Z64 where
  toUsize? x := if x.val < 0 then none else some x.val.toNat

/-- `i64::rem_euclid` -/
instance : RemEuclid Z64 where
  remEuclid a p := ⟨Int.emod a.val p.val⟩

end NdInterp
