/-
Model of ndarray's dimension-type algebra as far as the crate uses it: the static dimension
types `Ix0 … Ix6` and `IxDyn`, `Dimension::Smaller`, `DimAdd::Output`, and the crate's
`DimExtension::new` (src/dim_extensions.rs).  Core Lean only.
-/
namespace NdInterp

/-- `Ix0 … Ix6` (`ix n`, `n ≤ 6`) and `IxDyn` -/
inductive DimTy
  | ix (n : Fin 7)
  | dyn
deriving Repr, DecidableEq

/-- `<D as Dimension>::Smaller` (`Ix0::Smaller = Ix0`, `IxDyn::Smaller = IxDyn`) -/
def DimTy.smaller : DimTy → DimTy
  | .ix n => .ix ⟨n.val - 1, by omega⟩
  | .dyn => .dyn

/-- `<A as DimAdd<B>>::Output`: static when the ranks add up to at most 6, else `IxDyn` -/
def DimTy.add : DimTy → DimTy → DimTy
  | .ix a, .ix b => if h : a.val + b.val ≤ 6 then .ix ⟨a.val + b.val, by omega⟩ else .dyn
  | _, _ => .dyn

/-- `DimExtension::new(iter)`: a static dimension zips the iterator into its zero-initialised
    slots (missing entries stay 0, surplus entries are dropped); `IxDyn` collects everything -/
def DimTy.extNew : DimTy → List Nat → List Nat
  | .ix n, lens => (lens ++ List.replicate n.val 0).take n.val
  | .dyn, lens => lens

/-- type expressions over the two dimension type parameters of `interp_array_into` -/
inductive DimExpr
  | dq                       -- `Dq`
  | d                        -- `D`
  | ix1                      -- `Ix1`
  | smaller (e : DimExpr)    -- `E::Smaller` / `<E as Dimension>::Smaller`
  | addOut (a b : DimExpr)   -- `<A as DimAdd<B>>::Output`
deriving Repr, DecidableEq

def DimExpr.eval (dq d : DimTy) : DimExpr → DimTy
  | .dq => dq
  | .d => d
  | .ix1 => .ix 1
  | .smaller e => (e.eval dq d).smaller
  | .addOut a b => (a.eval dq d).add (b.eval dq d)

/-- the two kinds of types the crate relabels -/
inductive CastTy
  | refArray (storage : String) (dim : DimExpr)   -- `&ArrayBase<S, dim>`
  | viewMut (dim : DimExpr)                       -- `ArrayViewMut<Sd::Elem, dim>`
deriving Repr, DecidableEq

/-- same type after instantiating the dimension parameters -/
def CastTy.sameAt (dq d : DimTy) : CastTy → CastTy → Bool
  | .refArray s1 a, .refArray s2 b => s1 == s2 && a.eval dq d == b.eval dq d
  | .viewMut a, .viewMut b => a.eval dq d == b.eval dq d
  | _, _ => false

/-- guard under which a piece of code runs -/
inductive Guard
  | dqIsIx1      -- `TypeId::of::<Dq>() == TypeId::of::<Ix1>()`
  | none
  | other (text : String)
deriving Repr, DecidableEq

structure CastSite where
  file : String
  line : Nat
  guard : Guard
  src : CastTy
  dst : CastTy
  /-- data dimension types this interpolator supports (1-D: Ix1..Ix6, IxDyn; 2-D: Ix2..Ix6, IxDyn) -/
  minRank : Nat
deriving Repr

/-- receiver of a method -/
inductive Recv | ref | refMut | owned | noSelf
deriving Repr, DecidableEq

end NdInterp
