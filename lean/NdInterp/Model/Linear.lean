/-
Model of the `Linear` strategy (`src/interp1d/strategies/linear.rs`) and of the `Bilinear`
strategy (`src/interp2d/strategies/bilinear.rs`).  Core Lean only.

Data of shape `(n, s₁, …, s_m)` is a list `ys` of `n` rows; a row is a `V` with `Lanes α V`.
-/
import NdInterp.Model.Vector

namespace NdInterp

section
variable {α V : Type} [Cmp α] [Add α] [Sub α] [Mul α] [Div α] [NatCast α] [ToUsize α] [Lanes α V]

/-- `!self.extrapolate && !this.is_in_range(x)` → `Err(OutOfBounds)` -/
def rangeGate (ext : Bool) (xs : List α) (q : α) : Except Fault Unit :=
  if ext then .ok ()
  else
    match isInRange xs q with
    | .error e => .error e
    | .ok true => .ok ()
    | .ok false => .error .outOfBounds

/-- `<Linear as Interp1DStrategy>::interp_into`: the row written into the target -/
def linearInterp (ext : Bool) (xs : List α) (ys : List V) (q : α) : Except Fault V := do
  rangeGate ext xs q
  let idx ← lowerIndex xs q
  let x1 ← rd xs idx
  let y1 ← rd ys idx
  let x2 ← rd xs (idx + 1)
  let y2 ← rd ys (idx + 1)
  pure (Lanes.map2 (fun y1 y2 => calcFrac x1 y1 x2 y2 q) y1 y2)

/-- `<Bilinear as Interp2DStrategy>::interp_into`.
    `zs[i][j]` is the row of lanes at grid node `(xs[i], ys[j])`. -/
def bilinearInterp (ext : Bool) (xs ys : List α) (zs : List (List V)) (x y : α) :
    Except Fault V := do
  rangeGate ext xs x
  rangeGate ext ys y
  let xi ← lowerIndex xs x
  let yi ← lowerIndex ys y
  let x1 ← rd xs xi
  let y1 ← rd ys yi
  let r1 ← rd zs xi
  let z11 ← rd r1 yi
  let z12 ← rd r1 (yi + 1)
  let r2 ← rd zs (xi + 1)
  let z21 ← rd r2 yi
  let x2 ← rd xs (xi + 1)
  let y2 ← rd ys (yi + 1)
  let z22 ← rd r2 (yi + 1)
  pure (Lanes.map4 (fun z11 z12 z21 z22 =>
    let z1 := calcFrac x1 z11 x2 z21 x
    let z2 := calcFrac x1 z12 x2 z22 x
    calcFrac y1 z1 y2 z2 y) z11 z12 z21 z22)

end

end NdInterp
