/-
Model of `Interp1D` / `Interp2D`, their builders (`src/interp1d/mod.rs`, `src/interp2d/mod.rs`)
and of `CubicSpline::build` / `calc_coefficients` / `solve_for_k_individual`.  Core Lean only.

n-dimensional data is `shape` + row-major contents; along the interpolated axis it is a list
of rows, every row the list of its lane values (`Lanes α (List α)`).
-/
import NdInterp.Model.Spline

namespace NdInterp

/-- an owned n-d array / view, by logical contents -/
structure NdArr (α : Type) where
  shape : List Nat
  flat : List α
deriving Repr

namespace NdArr
variable {α : Type}
/-- number of lanes behind the first `k` axes -/
def lanes (a : NdArr α) (k : Nat) : Nat := shapeSize (a.shape.drop k)
/-- rows along axis 0 -/
def rows (a : NdArr α) : List (List α) :=
  let L := a.lanes 1
  (List.range (a.shape.headD 0)).map (fun i => (a.flat.drop (i * L)).take L)
/-- grid of rows along axes 0 and 1 -/
def grid (a : NdArr α) : List (List (List α)) :=
  let L := a.lanes 2
  let ny := (a.shape.drop 1).headD 0
  (List.range (a.shape.headD 0)).map (fun i =>
    (List.range ny).map (fun j => (a.flat.drop ((i * ny + j) * L)).take L))
end NdArr

section
variable {α : Type} [Cmp α] [Add α] [Sub α] [Mul α] [Div α] [Neg α] [NatCast α]
  [ToUsize α] [RemEuclid α]

/-- what the user passes to `.strategy(..)` -/
inductive Strat1Spec (α : Type)
  | linear (ext : Bool)
  | spline (ext : Bool) (bc : BoundaryCondition α)
deriving Repr

/-- the finished strategy stored in the interpolator -/
inductive Strat1 (α : Type)
  | linear (ext : Bool)
  | spline (s : SplineStrat (List α))

def Strat1Spec.minLen : Strat1Spec α → Nat
  | .linear _ => 2
  | .spline _ _ => 3

/-- `Interp1DBuilder::new`: the default axis `0, 1, …, len-1` (`len = 0` when the data has no axis) -/
def defaultAxis (len : Nat) : List α := (List.range len).map (fun (n : Nat) => (n : α))

/-- transpose lane results (each of length `n`) back into `n` rows -/
def transposeLanes (n : Nat) (cols : List (List α)) : Except Fault (List (List α)) :=
  (List.range n).mapM (fun i => cols.mapM (fun c => rd c i))

/-- `solve_for_k_individual`: the recursion over the last axis ends in one `solve_for_k`
    call per lane on 1-D data with that lane's boundary (lanes in row-major order). -/
def solveIndividual (xs : List α) (rows : List (List α)) (L : Nat)
    (bounds : List (RowBoundary α)) : Except Fault (List (List α)) := do
  let cols ← (List.range L).mapM (fun j => do
    let col ← rows.mapM (fun r => rd r j)
    let b ← rd bounds j
    solveForK (V := α) xs col b.toInternal)
  transposeLanes rows.length cols

/-- the `Extrapolate` mode `CubicSpline::build` selects -/
def splineExtrapolate (ext : Bool) (bc : BoundaryCondition α) : Extrapolate :=
  if !ext then Extrapolate.no
  else match bc with
    | .periodic => Extrapolate.periodic
    | _ => Extrapolate.yes

/-- `calc_coefficients` + `build` of the spline strategy -/
def splineBuild (ext : Bool) (bc : BoundaryCondition α) (xs : List α) (data : NdArr α) :
    Except Fault (SplineStrat (List α)) := do
  let rows := data.rows
  let k ←
    match bc with
    | .periodic => solveForK xs rows .periodic
    | .natural => solveForK xs rows .natural
    | .clamped => solveForK xs rows .clamped
    | .notAKnot => solveForK xs rows .notAKnot
    | .individual bshape bounds =>
      if bshape ≠ 1 :: data.shape.drop 1 then throw (.builder .shapeError)
      else solveIndividual xs rows (data.lanes 1) bounds
  let ab := coeffs xs rows k
  pure { a := ab.map (·.1), b := ab.map (·.2), extrapolate := splineExtrapolate ext bc }

/-- `Interp1D { x, data, strategy }` -/
structure Interp1 (α : Type) where
  xs : List α
  data : NdArr α
  strat : Strat1 α

/-- the validation chain of `Interp1DBuilder::build` (in source order); returns the axis.
    `x = none` is the default axis of `Interp1DBuilder::new`. -/
def validate1 (minLen : Nat) (x : Option (List α)) (data : NdArr α) : Except Fault (List α) := do
  let xs := x.getD (defaultAxis (data.shape.headD 0))
  if data.shape.length < 1 then throw (.builder .shapeError)
  let len := data.shape.headD 0
  if len < minLen then throw (.builder .notEnoughData)
  match monotonicProp xs with
  | .error e => throw e
  | .ok (.rising true) => pure ()
  | .ok _ => throw (.builder .monotonic)
  if xs.length ≠ len then throw (.builder .shapeError)
  pure xs

/-- `Interp1DBuilder::build` with a user-defined strategy builder `sb`
    (`MINIMUM_DATA_LENGHT = minLen`, `sb xs data = strategy.build(&x, &data)`) -/
def buildCustom1 {σ : Type} (minLen : Nat) (sb : List α → NdArr α → Except Fault σ)
    (x : Option (List α)) (data : NdArr α) : Except Fault (List α × NdArr α × σ) := do
  let xs ← validate1 minLen x data
  let strat ← sb xs data
  pure (xs, data, strat)

/-- the built-in strategy builders -/
def builtin1 (spec : Strat1Spec α) (xs : List α) (data : NdArr α) : Except Fault (Strat1 α) :=
  match spec with
  | .linear ext => pure (Strat1.linear ext)
  | .spline ext bc => do
    let s ← splineBuild ext bc xs data
    pure (Strat1.spline s)

/-- `Interp1DBuilder::build` -/
def build1 (x : Option (List α)) (data : NdArr α) (spec : Strat1Spec α) :
    Except Fault (Interp1 α) := do
  let (xs, data, strat) ← buildCustom1 spec.minLen (builtin1 spec) x data
  pure { xs, data, strat }

/-- `strategy.interp_into(self, target, q)`: the row written to the target -/
def Interp1.at (it : Interp1 α) (q : α) : Except Fault (List α) :=
  match it.strat with
  | .linear ext => linearInterp ext it.xs it.data.rows q
  | .spline s => splineInterp s it.xs it.data.rows q

/-- `Interp2D { x, y, data, strategy }` with the `Bilinear` strategy -/
structure Interp2 (α : Type) where
  xs : List α
  ys : List α
  data : NdArr α
  ext : Bool

/-- the validation chain of `Interp2DBuilder::build` (in source order); returns both axes -/
def validate2 (minLen : Nat) (x y : Option (List α)) (data : NdArr α) :
    Except Fault (List α × List α) := do
  let xs := x.getD (defaultAxis (data.shape.headD 0))
  let ys := y.getD (defaultAxis ((data.shape.drop 1).headD 0))
  if data.shape.length < 2 then throw (.builder .shapeError)
  let nx := data.shape.headD 0
  let ny := (data.shape.drop 1).headD 0
  if nx < minLen then throw (.builder .notEnoughData)
  if ny < minLen then throw (.builder .notEnoughData)
  if xs.length ≠ nx then throw (.builder .shapeError)
  if ys.length ≠ ny then throw (.builder .shapeError)
  match monotonicProp xs with
  | .error e => throw e
  | .ok (.rising true) => pure ()
  | .ok _ => throw (.builder .monotonic)
  match monotonicProp ys with
  | .error e => throw e
  | .ok (.rising true) => pure ()
  | .ok _ => throw (.builder .monotonic)
  pure (xs, ys)

/-- `Interp2DBuilder::build` with a user-defined strategy builder -/
def buildCustom2 {σ : Type} (minLen : Nat) (sb : List α → List α → NdArr α → Except Fault σ)
    (x y : Option (List α)) (data : NdArr α) : Except Fault (List α × List α × NdArr α × σ) := do
  let (xs, ys) ← validate2 minLen x y data
  let strat ← sb xs ys data
  pure (xs, ys, data, strat)

/-- `Interp2DBuilder::build` (Bilinear: `MINIMUM_DATA_LENGHT = 2`, its `build` cannot fail) -/
def build2 (x y : Option (List α)) (data : NdArr α) (ext : Bool) (minLen : Nat := 2) :
    Except Fault (Interp2 α) := do
  let (xs, ys, data, ext) ← buildCustom2 minLen (fun _ _ _ => pure ext) x y data
  pure { xs, ys, data, ext }

def Interp2.at (it : Interp2 α) (x y : α) : Except Fault (List α) :=
  bilinearInterp it.ext it.xs it.ys it.data.grid x y

end

/-! ### Query entry points (generic over the strategy)

`f q` stands for `strategy.interp_into(self, target, q)`: the row it writes, or its error. -/

section entry
variable {α β : Type}

/-- one strategy call per query element in logical order, stopping at the first error -/
def interpEach (f : β → Except Fault (List α)) : List β → Except Fault (List (List α))
  | [] => .ok []
  | q :: qs =>
    match f q with
    | .error e => .error e
    | .ok v =>
      match interpEach f qs with
      | .error e => .error e
      | .ok vs => .ok (v :: vs)

/-- `interp(q)`: an array of shape `trailing` -/
def epInterp (trailing : List Nat) (f : β → Except Fault (List α)) (q : β) :
    Except Fault (NdArr α) :=
  match f q with
  | .error e => .error e
  | .ok v => .ok { shape := trailing, flat := v }

/-- `interp_scalar(q)` (1-D data / 2-D grid without lanes) -/
def epScalar (f : β → Except Fault (List α)) (q : β) : Except Fault α :=
  match f q with
  | .error e => .error e
  | .ok v => rd v 0

/-- `interp_into(q, buffer)` with a built-in strategy: the strategy runs up to its `Zip`,
    which panics unless the buffer has the trailing shape -/
def epInterpInto (trailing : List Nat) (f : β → Except Fault (List α)) (q : β)
    (bufShape : List Nat) : Except Fault (NdArr α) :=
  match f q with
  | .error e => .error e
  | .ok v => if bufShape = trailing then .ok { shape := bufShape, flat := v } else .error .panic

/-- `interp_array(qs)`: shape `qshape ++ trailing` -/
def epArray (trailing : List Nat) (f : β → Except Fault (List α)) (qshape : List Nat)
    (qs : List β) : Except Fault (NdArr α) :=
  match interpEach f qs with
  | .error e => .error e
  | .ok vs => .ok { shape := qshape ++ trailing, flat := vs.flatten }

/-- `interp_array_into(qs, buffer)`: the (repaired) shape assertions of both paths come
    before any strategy call -/
def epArrayInto (trailing : List Nat) (f : β → Except Fault (List α)) (qshape : List Nat)
    (qs : List β) (bufShape : List Nat) : Except Fault (NdArr α) :=
  if bufShape ≠ qshape ++ trailing then .error .panic
  else epArray trailing f qshape qs

end entry

/-! ### which rejected element an `OutOfBounds` error names

Every entry point funnels into the strategy's `interp_into`, element by element in logical
(row-major) order, and returns its first error; the strategies test `x` (then, in 2-D, `y`) against
`is_in_range` and put the offending value into the message. -/

section witness
variable {α : Type} [Cmp α]

/-- a value that `is_in_range` does not accept (NaN included: the comparisons are false) -/
def rejected (xs : List α) (q : α) : Bool :=
  match isInRange xs q with
  | .ok true => false
  | _ => true

/-- 1-D: the first rejected query element -/
def oobWitness1 (xs : List α) (qs : List α) : Option α :=
  qs.find? (rejected xs)

/-- 2-D: the first element with a rejected coordinate; `x` is tested before `y`
    (`false` = the message names `x`, `true` = it names `y`) -/
def oobWitness2 (xs ys : List α) : List (α × α) → Option (Bool × α)
  | [] => none
  | (x, y) :: rest =>
    if rejected xs x then some (false, x)
    else if rejected ys y then some (true, y)
    else oobWitness2 xs ys rest

end witness

end NdInterp
