/-
Model of the `CubicSpline` strategy (`src/interp1d/strategies/cubic_spline.rs`):
boundary types, assembly of the tridiagonal system for every boundary row, the Thomas
algorithm, the condensed periodic system, coefficient extraction, evaluation and the
periodic wrap.  Core Lean only.

The model keeps the structure of the code: the three diagonals are scalars shared by all
lanes, right-hand sides and unknowns are rows `V` (`Lanes α V`), and every lane-wise `Zip`
closure of the source is one `Lanes.mapN` with the same expression.
-/
import NdInterp.Model.Linear

namespace NdInterp

inductive SingleBoundary (α : Type)
  | notAKnot | natural | clamped
  | firstDeriv (v : α)
  | secondDeriv (v : α)
deriving Repr, BEq

inductive RowBoundary (α : Type)
  | notAKnot | natural | clamped
  | mixed (left right : SingleBoundary α)
deriving Repr, BEq

inductive InternalBoundary (α : Type)
  | notAKnot | natural | clamped | periodic
  | mixed (left right : SingleBoundary α)
deriving Repr, BEq

/-- `BoundaryCondition<T, D>`; the `Individual` array is kept as shape + row-major contents -/
inductive BoundaryCondition (α : Type)
  | notAKnot | natural | clamped | periodic
  | individual (shape : List Nat) (bounds : List (RowBoundary α))
deriving Repr

inductive Extrapolate | yes | no | periodic
deriving Repr, DecidableEq, BEq

/-- one row of the tridiagonal system `lo·k[i-1] + mid·k[i] + up·k[i+1] = rhs` -/
structure Row (α V : Type) where
  lo : α
  mid : α
  up : α
  rhs : V

/-- a row after forward elimination -/
structure ERow (α V : Type) where
  mid : α
  up : α
  rhs : V

section
variable {α V : Type} [Add α] [Sub α] [Mul α] [Div α] [Neg α] [NatCast α] [Lanes α V]

@[inline] def c0 : α := ((0 : Nat) : α)
@[inline] def c1 : α := ((1 : Nat) : α)
@[inline] def c2 : α := ((2 : Nat) : α)
@[inline] def c3 : α := ((3 : Nat) : α)
/-- `x.pow(two)` -/
@[inline] def sq (x : α) : α := x * x

def RowBoundary.toInternal : RowBoundary α → InternalBoundary α
  | .notAKnot => .notAKnot
  | .natural => .natural
  | .clamped => .clamped
  | .mixed l r => .mixed l r

/-- `InternalBoundary::specialize` -/
def InternalBoundary.specialize : InternalBoundary α → InternalBoundary α
  | .natural => .mixed .natural .natural
  | .notAKnot => .mixed .notAKnot .notAKnot
  | .clamped => .mixed .clamped .clamped
  | b => b

/-- `SingleBoundary::specialize` -/
def SingleBoundary.specialize : SingleBoundary α → SingleBoundary α
  | .natural => .secondDeriv c0
  | .clamped => .firstDeriv c0
  | b => b

/-! ### Thomas algorithm -/

/-- forward sweep below a row with (eliminated) pivot `pm`, upper entry `pu`, rhs `pr` -/
def fwd (pm pu : α) (pr : V) : List (Row α V) → List (ERow α V)
  | [] => []
  | r :: rest =>
    let w := r.lo / pm
    let m' := r.mid - w * pu
    let r' := Lanes.map2 (fun rhs rhsLeft => rhs - w * rhsLeft) r.rhs pr
    ⟨m', r.up, r'⟩ :: fwd m' r.up r' rest

def fwdAll : List (Row α V) → List (ERow α V)
  | [] => []
  | r :: rest => ⟨r.mid, r.up, r.rhs⟩ :: fwd r.mid r.up r.rhs rest

/-- back substitution -/
def back : List (ERow α V) → List V
  | [] => []
  | [e] => [Lanes.map1 (fun rhs => rhs / e.mid) e.rhs]
  | e :: e2 :: rest =>
    match back (e2 :: rest) with
    | [] => []
    | k :: ks => Lanes.map2 (fun rhs kRight => (rhs - e.up * kRight) / e.mid) e.rhs k :: k :: ks

/-- `Self::thomas(k, a_up, a_mid, a_low, rhs)` -/
def thomas (rows : List (Row α V)) : List V := back (fwdAll rows)

/-! ### Assembly -/

/-- the interior rows `1 .. len-2` (diagonals from `x.windows(3)`, rhs from the `for n` loop) -/
def interiorRows : List α → List V → List (Row α V)
  | x0 :: x1 :: x2 :: xs, y0 :: y1 :: y2 :: ys =>
    let dxn := x2 - x1
    let dxn_1 := x1 - x0
    { lo := dxn
      mid := c2 * (dxn + dxn_1)
      up := dxn_1
      rhs := Lanes.map3 (fun yLeft yMid yRight =>
        c3 * (dxn * (yMid - yLeft) / dxn_1 + dxn_1 * (yRight - yMid) / dxn)) y0 y1 y2 }
      :: interiorRows (x1 :: x2 :: xs) (y1 :: y2 :: ys)
  | _, _ => []

/-- the axis values and data rows the boundary rows read:
    `x0 x1 x2` / `y0 y1 y2` at indices `0 1 2`, `xl1 xl2 xl3` / `yl1 yl2 yl3` at `len-1 len-2 len-3` -/
structure Ends (α V : Type) where
  x0 : α
  x1 : α
  x2 : α
  xl1 : α
  xl2 : α
  xl3 : α
  y0 : V
  y1 : V
  y2 : V
  yl1 : V
  yl2 : V
  yl3 : V

def getEnds (xs : List α) (ys : List V) : Except Fault (Ends α V) := do
  let len := ys.length
  let x0 ← rd xs 0
  let x1 ← rd xs 1
  let x2 ← rd xs 2
  let xl1 ← rd xs (len - 1)
  let xl2 ← rd xs (len - 2)
  let xl3 ← rd xs (len - 3)
  let y0 ← rd ys 0
  let y1 ← rd ys 1
  let y2 ← rd ys 2
  let yl1 ← rd ys (len - 1)
  let yl2 ← rd ys (len - 2)
  let yl3 ← rd ys (len - 3)
  pure { x0, x1, x2, xl1, xl2, xl3, y0, y1, y2, yl1, yl2, yl3 }

namespace Ends
variable (e : Ends α V)
@[inline] def dx0 : α := e.x1 - e.x0
@[inline] def dx1 : α := e.x2 - e.x1
/-- `dx_1 = x[len-1] - x[len-2]` -/
@[inline] def dxl1 : α := e.xl1 - e.xl2
/-- `dx_2 = x[len-2] - x[len-3]` -/
@[inline] def dxl2 : α := e.xl2 - e.xl3
end Ends

/-- row `0` for a (specialised) left boundary; `none` for the variants that are `unreachable!` -/
def firstRow (e : Ends α V) : SingleBoundary α → Option (Row α V)
  | .notAKnot =>
    let dx0 := e.dx0
    let dx1 := e.dx1
    let d := e.x2 - e.x0
    let tmp1 := (dx0 + c2 * d) * dx1
    some { lo := c0, mid := dx1, up := d
           rhs := Lanes.map3 (fun y0 y1 y2 =>
             (tmp1 * (y1 - y0) / dx0 + sq dx0 * (y2 - y1) / dx1) / d) e.y0 e.y1 e.y2 }
  | .firstDeriv deriv =>
    some { lo := c0, mid := c1, up := c0, rhs := Lanes.const e.y0 deriv }
  | .secondDeriv deriv =>
    let dx0 := e.dx0
    some { lo := c0, mid := c2 * dx0, up := dx0
           rhs := Lanes.map2 (fun y_0 y_1 => c3 * (y_1 - y_0) - deriv * sq dx0 / c2) e.y0 e.y1 }
  | .natural => none
  | .clamped => none

/-- row `len-1` for a (specialised) right boundary -/
def lastRow (e : Ends α V) : SingleBoundary α → Option (Row α V)
  | .notAKnot =>
    let dx_1 := e.dxl1
    let dx_2 := e.dxl2
    let d := e.xl1 - e.xl3
    let tmp1 := (c2 * d + dx_1) * dx_2
    some { lo := d, mid := dx_2, up := c0
           rhs := Lanes.map3 (fun y_1 y_2 y_3 =>
             (sq dx_1 * (y_2 - y_3) / dx_2 + tmp1 * (y_1 - y_2) / dx_1) / d) e.yl1 e.yl2 e.yl3 }
  | .firstDeriv deriv =>
    some { lo := c0, mid := c1, up := c0, rhs := Lanes.const e.yl1 deriv }
  | .secondDeriv deriv =>
    let dx_1 := e.dxl1
    some { lo := dx_1, mid := c2 * dx_1, up := c0
           rhs := Lanes.map2 (fun y_n y_n1 => c3 * (y_n - y_n1) + deriv * sq dx_1 / c2) e.yl1 e.yl2 }
  | .natural => none
  | .clamped => none

/-- the three rows of the 3-point NotAKnot/NotAKnot case (parabola through the points) -/
def parabolaRows (e : Ends α V) : List (Row α V) :=
  let dx0 := e.dx0
  let dx1 := e.dx1
  let slope0 := Lanes.map1 (fun v => v / dx0) (Lanes.map2 (fun y1 y0 => y1 - y0) e.y1 e.y0)
  let slope1 := Lanes.map1 (fun v => v / dx1) (Lanes.map2 (fun y2 y1 => y2 - y1) e.y2 e.y1)
  [ { lo := c0, mid := c1, up := c1, rhs := Lanes.map1 (fun s => s * c2) slope0 },
    { lo := dx1, mid := c2 * (dx0 + dx1), up := dx0
      rhs := Lanes.map1 (fun v => v * c3)
        (Lanes.map2 (fun a b => a + b) (Lanes.map1 (fun s => s * dx0) slope1)
          (Lanes.map1 (fun s => s * dx1) slope0)) },
    { lo := c1, mid := c1, up := c0, rhs := Lanes.map1 (fun s => s * c2) slope1 } ]

/-- Periodic, `len = 3`: every row of `k` is `(slope0/dx0 + slope1/dx1) / (1/dx0 + 1/dx1)` -/
def periodic3 (e : Ends α V) : List V :=
  let dx0 := e.dx0
  let dx1 := e.dx1
  let slope0 := Lanes.map1 (fun v => v / dx0) (Lanes.map2 (fun y1 y0 => y1 - y0) e.y1 e.y0)
  let slope1 := Lanes.map1 (fun v => v / dx1) (Lanes.map2 (fun y2 y1 => y2 - y1) e.y2 e.y1)
  let k := Lanes.map1 (fun v => v / (c1 / dx0 + c1 / dx1))
    (Lanes.map2 (fun a b => a + b) (Lanes.map1 (fun s => s / dx0) slope0)
      (Lanes.map1 (fun s => s / dx1) slope1))
  [k, k, k]

/-- `l.dropLast` twice / once, as `slice_axis_inplace(0..-2)` / `(0..-1)` -/
def dropLast2 {β : Type} (l : List β) : List β := l.dropLast.dropLast

/-- replace the rhs of every row by a row of zeros except first and last, as `rhs2` is built -/
def rhs2Rows (like : V) (first last : α) : List (Row α V) → List (Row α V)
  | [] => []
  | [r] => [{ r with rhs := Lanes.const like last }]
  | r :: rest =>
    { r with rhs := Lanes.const like first } ::
      (go rest)
where
  go : List (Row α V) → List (Row α V)
    | [] => []
    | [r] => [{ r with rhs := Lanes.const like last }]
    | r :: rest => { r with rhs := Lanes.const like c0 } :: go rest

/-- row 0 of the condensed periodic system: `a_mid[0] = 2(dx_1 + dx0)`, `a_up[0] = dx_1`,
    `rhs[0] = (slope_1·dx0 + slope0·dx_1)·3` -/
def periodicRow0 (e : Ends α V) : Row α V :=
  let dx0 := e.dx0
  let dx_1 := e.dxl1
  let slope0 := Lanes.map1 (fun v => v / dx0) (Lanes.map2 (fun y1 y0 => y1 - y0) e.y1 e.y0)
  let slope_1 := Lanes.map1 (fun v => v / dx_1) (Lanes.map2 (fun a b => a - b) e.yl1 e.yl2)
  { lo := c0, mid := c2 * (dx_1 + dx0), up := dx_1
    rhs := Lanes.map1 (fun v => v * c3)
      (Lanes.map2 (fun a b => a + b) (Lanes.map1 (fun s => s * dx0) slope_1)
        (Lanes.map1 (fun s => s * dx_1) slope0)) }

/-- `rhs[len-2] = (slope_2·dx_1 + slope_1·dx_2)·3` -/
def periodicRhsLast (e : Ends α V) : V :=
  let dx_1 := e.dxl1
  let dx_2 := e.dxl2
  let slope_1 := Lanes.map1 (fun v => v / dx_1) (Lanes.map2 (fun a b => a - b) e.yl1 e.yl2)
  let slope_2 := Lanes.map1 (fun v => v / dx_2) (Lanes.map2 (fun a b => a - b) e.yl2 e.yl3)
  Lanes.map1 (fun v => v * c3)
    (Lanes.map2 (fun a b => a + b) (Lanes.map1 (fun s => s * dx_1) slope_2)
      (Lanes.map1 (fun s => s * dx_2) slope_1))

/-- `k_m1` and the assembly of `k` from the two Thomas solutions -/
def periodicCombine (dx_1 dx_2 : α) (len : Nat) (rhsLast : V) (k1 k2 : List V) :
    Except Fault (List V) := do
  let k1_0 ← rd k1 0
  let k1_l ← rd k1 (len - 3)
  let k2_0 ← rd k2 0
  let k2_l ← rd k2 (len - 3)
  let num := Lanes.map2 (fun a b => a - b)
    (Lanes.map2 (fun a b => a - b) rhsLast (Lanes.map1 (fun v => v * dx_2) k1_0))
    (Lanes.map1 (fun v => v * dx_1) k1_l)
  let den := Lanes.map1 (fun v => v + c2 * (dx_1 + dx_2))
    (Lanes.map2 (fun a b => a + b) (Lanes.map1 (fun v => v * dx_2) k2_0)
      (Lanes.map1 (fun v => v * dx_1) k2_l))
  let k_m1 := Lanes.map2 (fun a b => a / b) num den
  let head := List.zipWith (fun a b => Lanes.map2 (fun a b => a + b) a
    (Lanes.map2 (fun km k2 => km * k2) k_m1 b)) k1 k2
  let k0 ← rd head 0
  pure (head ++ [k_m1, k0])

/-- Periodic, `len ≥ 4`: the condensed system (two Thomas solves) -/
def periodicN (xs : List α) (ys : List V) (e : Ends α V) (xl4 : α) : Except Fault (List V) :=
  -- rows 1 .. len-3 of the condensed system are interior rows 1 .. len-3
  let rows1 := periodicRow0 e :: (interiorRows xs ys).dropLast
  -- `rhs2`: zeros, row 0 filled with `-dx0`, then row `len-3` filled with `-dx_3`
  let rows2 := rhs2Rows e.y0 (-e.dx0) (-(e.xl3 - xl4)) rows1
  periodicCombine e.dxl1 e.dxl2 ys.length (periodicRhsLast e) (thomas rows1) (thomas rows2)

variable [Cmp α]

/-- the match arm `(Mixed { left: NotAKnot, right: NotAKnot }, 3)` -/
def isNakPair : SingleBoundary α → SingleBoundary α → Bool
  | .notAKnot, .notAKnot => true
  | _, _ => false

/-- `solve_for_k(k, x, data, boundary)`: the rows of `k` -/
def solveForK (xs : List α) (ys : List V) (b : InternalBoundary α) : Except Fault (List V) := do
  let len := ys.length
  -- `Zip` of the sliced diagonals with `x.windows(3)` panics unless the lengths agree;
  -- `x[2]`, `s![1..-1]` panic for fewer than three points
  if ¬ (3 ≤ len ∧ xs.length = len) then throw .panic
  let e ← getEnds xs ys
  match b.specialize with
  | .periodic =>
    if !(Lanes.all2 Cmp.eq e.y0 e.yl1) then throw (.builder .valueError)
    if len = 3 then pure (periodic3 e)
    else
      let xl4 ← rd xs (len - 4)
      periodicN xs ys e xl4
  | .mixed left right =>
    if len = 3 && isNakPair left right then
      pure (thomas (parabolaRows e))
    else
      match firstRow e left.specialize, lastRow e right.specialize with
      | some f, some l => pure (thomas (f :: interiorRows xs ys ++ [l]))
      | _, _ => throw .panic
  | _ => throw .panic   -- `unreachable!()`

/-- the coefficient rows `(c_a[i], c_b[i])`, `i = 0 .. len-2` -/
def coeffs : List α → List V → List V → List (V × V)
  | x0 :: x1 :: xs, y0 :: y1 :: ys, k0 :: k1 :: ks =>
    (Lanes.map4 (fun k _kRight y yRight => k * (x1 - x0) - (yRight - y)) k0 k1 y0 y1,
     Lanes.map4 (fun _k kRight y yRight => (yRight - y) - kRight * (x1 - x0)) k0 k1 y0 y1)
      :: coeffs (x1 :: xs) (y1 :: ys) (k1 :: ks)
  | _, _, _ => []

/-- `CubicSplineStrategy { a, b, extrapolate }` -/
structure SplineStrat (V : Type) where
  a : List V
  b : List V
  extrapolate : Extrapolate

variable [ToUsize α] [RemEuclid α]

/-- the evaluation of `interp_into` at the (possibly wrapped) point `x` -/
def splineEvalAt (s : SplineStrat V) (xs : List α) (ys : List V) (x : α) : Except Fault V := do
  let idx ← lowerIndex xs x
  let xLeft ← rd xs idx
  let dataLeft ← rd ys idx
  let xRight ← rd xs (idx + 1)
  let dataRight ← rd ys (idx + 1)
  let aLeft ← rd s.a idx
  let bLeft ← rd s.b idx
  let t := (x - xLeft) / (xRight - xLeft)
  pure (Lanes.map4 (fun yLeft yRight aLeft bLeft =>
    (c1 - t) * yLeft + t * yRight + t * (c1 - t) * (aLeft * (c1 - t) + bLeft * t))
    dataLeft dataRight aLeft bLeft)

/-- the point `interp_into` evaluates at: the query, or in `Periodic` mode outside the range
    `(q - x0).rem_euclid(xn - x0) + x0` -/
def splineWrap (extr : Extrapolate) (inRange : Bool) (xs : List α) (q : α) : Except Fault α :=
  if extr == .periodic && !inRange then do
    let x0 ← rd xs 0
    let xn ← rd xs (xs.length - 1)
    pure (RemEuclid.remEuclid (q - x0) (xn - x0) + x0)
  else pure q

/-- `<CubicSplineStrategy as Interp1DStrategy>::interp_into` -/
def splineInterp (s : SplineStrat V) (xs : List α) (ys : List V) (q : α) : Except Fault V := do
  let inRange ← isInRange xs q
  if s.extrapolate == .no && !inRange then throw .outOfBounds
  let x ← splineWrap s.extrapolate inRange xs q
  splineEvalAt s xs ys x

end

end NdInterp
