/-
Model of `src/vector_extensions.rs` (`monotonic_prop`, `get_lower_index`) and of
`Linear::calc_frac` (`src/interp1d/strategies/linear.rs`), which the index guess uses.
Core Lean only.
-/
import NdInterp.Model.Basic

namespace NdInterp

/-! ### `Linear::calc_frac` -/

/-- `calc_frac((x1, y1), (x2, y2), x)`:
    `let b = y1; let m = (y2 - y1) / (x2 - x1); m * (x - x1) + b` -/
@[inline] def calcFrac {α : Type} [Add α] [Sub α] [Mul α] [Div α]
    (x1 y1 x2 y2 x : α) : α :=
  let b := y1
  let m := (y2 - y1) / (x2 - x1)
  m * (x - x1) + b

/-! ### `monotonic_prop` -/

inductive Monotonic
  | rising (strict : Bool)
  | falling (strict : Bool)
  | notMonotonic
deriving Repr, DecidableEq, BEq

inductive MState
  | init
  | notStrict
  | likely (m : Monotonic)
deriving Repr, DecidableEq

section mono
variable {α : Type} [Cmp α]

/-- `MonotonicState::update`, comparisons in the order of the source -/
def MState.update (s : MState) (a b : α) : MState :=
  match s with
  | .init =>
    if Cmp.lt a b then .likely (.rising true)
    else if Cmp.eq a b then .notStrict
    else .likely (.falling true)
  | .notStrict =>
    if Cmp.lt a b then .likely (.rising false)
    else if Cmp.eq a b then .notStrict
    else .likely (.falling false)
  | .likely (.rising strict) =>
    if Cmp.eq a b then .likely (.rising false)
    else if Cmp.lt a b then .likely (.rising strict)
    else .likely .notMonotonic
  | .likely (.falling strict) =>
    if Cmp.eq a b then .likely (.falling false)
    else if Cmp.gt a b then .likely (.falling strict)
    else .likely .notMonotonic
  | .likely .notMonotonic => .likely .notMonotonic

/-- `short_circuit`: `Err(NotMonotonic)` once the state can no longer change -/
def MState.shortCircuit : MState → Except Monotonic MState
  | .likely .notMonotonic => .error .notMonotonic
  | s => .ok s

/-- `finish`; the `Init` state panics -/
def MState.finish : MState → Except Fault Monotonic
  | .init => .error .panic
  | .notStrict => .ok .notMonotonic
  | .likely m => .ok m

/-- `windows(2).try_fold(state, |s, w| s.update(w[0], w[1]).short_circuit())` -/
def foldPairs (s : MState) : List α → Except Monotonic MState
  | a :: b :: rest =>
    match (s.update a b).shortCircuit with
    | .error m => .error m
    | .ok s' => foldPairs s' (b :: rest)
  | _ => .ok s

/-- the same fold without the early exit (used to state that the exit is unobservable) -/
def foldPairsFull (s : MState) : List α → MState
  | a :: b :: rest => foldPairsFull (s.update a b) (b :: rest)
  | _ => s

/-- `xs.windows(2).into_iter().try_fold(init, |state, items| f state items[0] items[1])`: the fold over consecutive pairs that
    stops at the first `Err` (the iterator idiom itself; the generated `GenCtl.mono_prop` is stated over it) -/
def tryFoldPairs {σ ε : Type} (init : σ) (f : σ → α → α → Except ε σ) : List α → Except ε σ
  | a :: b :: rest =>
    match f init a b with
    | .error e => .error e
    | .ok s' => tryFoldPairs s' f (b :: rest)
  | _ => .ok init

def monotonicProp (xs : List α) : Except Fault Monotonic :=
  if xs.length ≤ 1 then .ok .notMonotonic
  else
    match foldPairs .init xs with
    | .error m => .ok m
    | .ok s => s.finish

end mono

/-! ### `get_lower_index` -/

section lower
variable {α : Type} [Cmp α]

/-- the `while range.0 + 1 < range.1` loop -/
def bisect (xs : List α) (q : α) (lo hi : Nat) : Except Fault Nat :=
  if _h : lo + 1 < hi then
    let mid := (hi - lo) / 2 + lo
    match xs[mid]? with
    | none => .error .panic
    | some mx => if Cmp.le mx q then bisect xs q mid hi else bisect xs q lo mid
  else .ok lo
termination_by hi - lo
decreasing_by all_goals omega

/-- `get_lower_index` with the result of the O(1) index guess (`cast(mid)`) as a parameter:
    `none` = the cast failed (the `unimplemented!` panic). -/
def lowerIndexWith (xs : List α) (q : α) (guess : Option Nat) : Except Fault Nat :=
  let n := xs.length
  match xs[0]? with
  | none => .error .panic
  | some x0 =>
    if Cmp.le q x0 then .ok 0
    else
      match xs[n - 1]? with
      | none => .error .panic
      | some xl =>
        if Cmp.ge q xl then (if 2 ≤ n then .ok (n - 2) else .error .panic)
        else
          match guess with
          | none => .error .panic
          | some g =>
            match xs[g]? with
            | none => .error .panic
            | some mx =>
              if Cmp.le mx q then
                -- `mid_x <= x && x < self[mid_idx + 1]` : the second read happens only here
                match xs[g + 1]? with
                | none => .error .panic
                | some nx =>
                  if Cmp.lt q nx then .ok g
                  else bisect xs q g (n - 1)
              else bisect xs q 0 g

variable [Add α] [Sub α] [Mul α] [Div α] [NatCast α] [ToUsize α]

/-- the O(1) guess: `cast(calc_frac((x[0], 0), (x[n-1], n-1), q))` -/
def indexGuess (xs : List α) (q : α) : Option Nat :=
  match xs[0]?, xs[xs.length - 1]? with
  | some x0, some xl =>
    ToUsize.toUsize? (calcFrac x0 ((0 : Nat) : α) xl ((xs.length - 1 : Nat) : α) q)
  | _, _ => none

def lowerIndex (xs : List α) (q : α) : Except Fault Nat :=
  lowerIndexWith xs q (indexGuess xs q)

/-- `is_in_range`: `x[0] <= q && q <= x[len-1]` -/
def isInRange (xs : List α) (q : α) : Except Fault Bool :=
  match xs[0]? with
  | none => .error .panic
  | some x0 =>
    if Cmp.le x0 q then
      match xs[xs.length - 1]? with
      | none => .error .panic
      | some xl => .ok (Cmp.le q xl)
    else .ok false

end lower

end NdInterp
