/-
A max-norm bound along the Thomas recursion: for a system whose rows are diagonally dominant
with non-negative off-diagonals and `|rhs| ≤ B·(mid - lo - up)`, every unknown satisfies `|k| ≤ B`.
Used for the denominator of the periodic spline (`|k2ᵢ| ≤ 1`).
-/
import NdInterp.Lemmas.Thomas
import Mathlib.Algebra.Order.AbsoluteValue.Basic

namespace NdInterp

variable {F : Type} [Field F] [LinearOrder F] [IsStrictOrderedRing F]

theorem fwd_bound (rows : List (Row F F)) (pm pu pr B : F) (h0 : 0 ≤ pu) (h1 : pu < pm) (hB : 0 ≤ B)
    (hpr : |pr| ≤ B * (pm - pu))
    (hd : ∀ r ∈ rows, Dom r ∧ |r.rhs| ≤ B * (r.mid - r.lo - r.up)) :
    ∀ e ∈ fwd pm pu pr rows, 0 ≤ e.up ∧ e.up < e.mid ∧ |e.rhs| ≤ B * (e.mid - e.up) := by
  induction rows generalizing pm pu pr with
  | nil => simp [fwd]
  | cons r rest ih =>
    have ⟨⟨hlo, hup, hmid⟩, hr⟩ := hd r (by simp)
    have hpm : 0 < pm := lt_of_le_of_lt h0 h1
    have hw : 0 ≤ r.lo / pm := div_nonneg hlo hpm.le
    have key : r.lo / pm * pu ≤ r.lo := by
      have : pu / pm ≤ 1 := by rw [div_le_one hpm]; exact h1.le
      calc r.lo / pm * pu = r.lo * (pu / pm) := by ring
        _ ≤ r.lo * 1 := by gcongr
        _ = r.lo := by ring
    have hnew : |r.rhs - r.lo / pm * pr| ≤ B * ((r.mid - r.lo / pm * pu) - r.up) := by
      calc |r.rhs - r.lo / pm * pr| ≤ |r.rhs| + |r.lo / pm * pr| := abs_sub _ _
        _ = |r.rhs| + r.lo / pm * |pr| := by rw [abs_mul, abs_of_nonneg hw]
        _ ≤ B * (r.mid - r.lo - r.up) + r.lo / pm * (B * (pm - pu)) := by gcongr
        _ = B * ((r.mid - r.lo / pm * pu) - r.up) := by field_simp; ring
    intro e he
    simp only [fwd, map2_scalar, List.mem_cons] at he
    rcases he with rfl | he
    · exact ⟨hup, by simp only; linarith, hnew⟩
    · exact ih _ _ _ hup (by linarith) hnew (fun r hr => hd r (by simp [hr])) e he

theorem back_bound (es : List (ERow F F)) (B : F) (hB : 0 ≤ B)
    (h : ∀ e ∈ es, 0 ≤ e.up ∧ e.up < e.mid ∧ |e.rhs| ≤ B * (e.mid - e.up)) :
    ∀ k ∈ back es, |k| ≤ B := by
  induction es with
  | nil => simp [back]
  | cons e es ih =>
    have ⟨hu, hm, hr⟩ := h e (by simp)
    have hpos : 0 < e.mid := lt_of_le_of_lt hu hm
    cases es with
    | nil =>
      intro k hk
      simp only [back, map1_scalar, List.mem_singleton] at hk
      subst hk
      rw [abs_div, abs_of_pos hpos, div_le_iff₀ hpos]
      calc |e.rhs| ≤ B * (e.mid - e.up) := hr
        _ ≤ B * e.mid := by gcongr; linarith
    | cons e2 rest =>
      have ih' := ih (fun e' he' => h e' (by simp [he']))
      simp only [back] at ih' ⊢
      split
      · simp
      · next k1 ks hb =>
        rw [hb] at ih'
        have hk1 : |k1| ≤ B := ih' k1 (by simp)
        intro k hk
        simp only [List.mem_cons, map2_scalar] at hk
        rcases hk with rfl | hk
        · rw [abs_div, abs_of_pos hpos, div_le_iff₀ hpos]
          calc |e.rhs - e.up * k1| ≤ |e.rhs| + |e.up * k1| := abs_sub _ _
            _ = |e.rhs| + e.up * |k1| := by rw [abs_mul, abs_of_nonneg hu]
            _ ≤ B * (e.mid - e.up) + e.up * B := by gcongr
            _ = B * e.mid := by ring
        · exact ih' k (by simpa using hk)

/-- every unknown of a dominant system is bounded by `B` -/
theorem thomas_bound (r0 : Row F F) (rows : List (Row F F)) (B : F) (hB : 0 ≤ B)
    (h0 : 0 ≤ r0.up ∧ r0.up < r0.mid ∧ |r0.rhs| ≤ B * (r0.mid - r0.up))
    (hd : ∀ r ∈ rows, Dom r ∧ |r.rhs| ≤ B * (r.mid - r.lo - r.up)) :
    ∀ k ∈ thomas (r0 :: rows), |k| ≤ B := by
  unfold thomas
  apply back_bound _ B hB
  intro e he
  simp only [fwdAll, List.mem_cons] at he
  rcases he with rfl | he
  · exact h0
  · exact fwd_bound rows r0.mid r0.up r0.rhs B h0.1 h0.2.1 hB h0.2.2 hd e he

end NdInterp
