/-
Linearity of the spline build in the data (and boundary derivative values), and invariance under a
common shift of the axis — identities of the assembled rows, valid in every ordered field.
-/
import NdInterp.Lemmas.Linearity

namespace NdInterp

variable {F : Type} [Field F] [LinearOrder F] [IsStrictOrderedRing F]

/-- boundary derivative values in the units of data multiplied by `c` -/
def SingleBoundary.scale (c : F) : SingleBoundary F → SingleBoundary F
  | .firstDeriv v => .firstDeriv (c * v)
  | .secondDeriv v => .secondDeriv (c * v)
  | b => b

omit [LinearOrder F] [IsStrictOrderedRing F] in
theorem isNakPair_scale (c : F) (l r : SingleBoundary F) :
    isNakPair (l.scale c) (r.scale c) = isNakPair l r := by
  cases l <;> cases r <;> rfl

omit [LinearOrder F] [IsStrictOrderedRing F] in
theorem interiorRows_scale (c : F) (xs ys : List F) :
    interiorRows xs (ys.map (c * ·)) = (interiorRows xs ys).map (scaleRow c) := by
  induction xs generalizing ys with
  | nil => cases ys <;> simp [interiorRows]
  | cons x0 xs ih =>
    match xs, ys with
    | [], _ => cases ys <;> simp [interiorRows]
    | [x1], ys => cases ys with
      | nil => simp [interiorRows]
      | cons y0 ys => cases ys with
        | nil => simp [interiorRows]
        | cons y1 ys => cases ys <;> simp [interiorRows]
    | x1 :: x2 :: xs', [] => simp [interiorRows]
    | x1 :: x2 :: xs', [y0] => simp [interiorRows]
    | x1 :: x2 :: xs', [y0, y1] => simp [interiorRows]
    | x1 :: x2 :: xs', y0 :: y1 :: y2 :: ys' =>
      simp only [List.map_cons, interiorRows, scaleRow, map3_scalar]
      congr 1
      · congr 1; ring
      · have := ih (y1 :: y2 :: ys')
        simpa using this

section
variable [Cmp F]

theorem sysRows_scale (c : F) (xs ys : List F) (hy : ys.length = xs.length) (hn : 3 ≤ xs.length)
    (left right : SingleBoundary F) :
    sysRows xs (ys.map (c * ·)) (by simpa using hy) hn (left.scale c) (right.scale c) =
      (sysRows xs ys hy hn left right).map (scaleRow c) := by
  unfold sysRows
  rw [isNakPair_scale]
  have hy0 : ∀ i (h : i < xs.length), ((ys.map (c * ·))[i]'(by simp; omega)) = c * ys[i]'(by omega) := by
    intro i h; simp
  split
  · -- parabola
    simp only [parabolaRows, endsOf, Ends.dx0, Ends.dx1, List.map_cons, List.map_nil, scaleRow, map1_scalar,
      map2_scalar, List.getElem_map]
    refine congrArg₂ _ ?_ (congrArg₂ _ ?_ (congrArg₂ _ ?_ rfl)) <;> (congr 1; ring)
  · have hf : firstRow (endsOf xs (ys.map (c * ·)) (by simpa using hy) hn) (left.scale c).specialize =
        (firstRow (endsOf xs ys hy hn) left.specialize).map (scaleRow c) := by
      cases left <;>
        simp only [SingleBoundary.scale, SingleBoundary.specialize, firstRow, endsOf, Ends.dx0, Ends.dx1,
          Option.map_some, scaleRow, map3_scalar, map2_scalar, const_scalar, List.getElem_map, c0_eq, c2_eq,
          c3_eq, sq] <;> (congr 2; ring)
    have hl : lastRow (endsOf xs (ys.map (c * ·)) (by simpa using hy) hn) (right.scale c).specialize =
        (lastRow (endsOf xs ys hy hn) right.specialize).map (scaleRow c) := by
      cases right <;>
        simp only [SingleBoundary.scale, SingleBoundary.specialize, lastRow, endsOf, Ends.dxl1, Ends.dxl2,
          Option.map_some, scaleRow, map3_scalar, map2_scalar, const_scalar, List.getElem_map, c0_eq, c2_eq,
          c3_eq, sq] <;> (congr 2; ring)
    rw [hf, hl, interiorRows_scale]
    cases firstRow (endsOf xs ys hy hn) left.specialize <;>
      cases lastRow (endsOf xs ys hy hn) right.specialize <;> simp

/-- **the spline's slopes are homogeneous in data and boundary values** -/
theorem solveForK_scale (c : F) (xs ys : List F) (hy : ys.length = xs.length) (hn : 3 ≤ xs.length)
    (left right : SingleBoundary F) :
    solveForK (V := F) xs (ys.map (c * ·)) (.mixed (left.scale c) (right.scale c)) =
      (solveForK (V := F) xs ys (.mixed left right)).map (List.map (c * ·)) := by
  rw [solveForK_mixed xs (ys.map (c * ·)) (by simpa using hy) hn, solveForK_mixed xs ys hy hn,
    sysRows_scale c xs ys hy hn, thomas_scale]
  rfl

end

omit [LinearOrder F] [IsStrictOrderedRing F] in
theorem interiorRows_shift (d : F) (xs ys : List F) :
    interiorRows (xs.map (· + d)) ys = interiorRows xs ys := by
  induction xs generalizing ys with
  | nil => cases ys <;> simp [interiorRows]
  | cons x0 xs ih =>
    match xs, ys with
    | [], _ => cases ys <;> simp [interiorRows]
    | [x1], ys => cases ys with
      | nil => simp [interiorRows]
      | cons y0 ys => cases ys with
        | nil => simp [interiorRows]
        | cons y1 ys => cases ys <;> simp [interiorRows]
    | x1 :: x2 :: xs', [] => simp [interiorRows]
    | x1 :: x2 :: xs', [y0] => simp [interiorRows]
    | x1 :: x2 :: xs', [y0, y1] => simp [interiorRows]
    | x1 :: x2 :: xs', y0 :: y1 :: y2 :: ys' =>
      simp only [List.map_cons, interiorRows]
      have e1 : x2 + d - (x1 + d) = x2 - x1 := by ring
      have e2 : x1 + d - (x0 + d) = x1 - x0 := by ring
      rw [e1, e2]
      congr 1
      have := ih (y1 :: y2 :: ys')
      simpa using this

section
variable [Cmp F]

/-- **a common shift of the axis leaves the assembled system unchanged** -/
theorem sysRows_shift (d : F) (xs ys : List F) (hy : ys.length = xs.length) (hn : 3 ≤ xs.length)
    (left right : SingleBoundary F) :
    sysRows (xs.map (· + d)) ys (by simpa using hy) (by simpa using hn) left right =
      sysRows xs ys hy hn left right := by
  unfold sysRows
  have e : ∀ a b : F, a + d - (b + d) = a - b := fun a b => by ring
  simp only [List.length_map, interiorRows_shift]
  have hp : parabolaRows (endsOf (xs.map (· + d)) ys (by simpa using hy) (by simpa using hn)) =
      parabolaRows (endsOf xs ys hy hn) := by
    simp only [parabolaRows, endsOf, Ends.dx0, Ends.dx1, List.getElem_map, e]
  have hf : ∀ b : SingleBoundary F,
      firstRow (endsOf (xs.map (· + d)) ys (by simpa using hy) (by simpa using hn)) b =
        firstRow (endsOf xs ys hy hn) b := by
    intro b
    cases b <;> simp only [firstRow, endsOf, Ends.dx0, Ends.dx1, List.getElem_map, e]
  have hl : ∀ b : SingleBoundary F,
      lastRow (endsOf (xs.map (· + d)) ys (by simpa using hy) (by simpa using hn)) b =
        lastRow (endsOf xs ys hy hn) b := by
    intro b
    cases b <;> simp only [lastRow, endsOf, Ends.dxl1, Ends.dxl2, List.getElem_map, List.length_map, e]
  rw [hp, hf, hl]

theorem solveForK_shift (d : F) (xs ys : List F) (hy : ys.length = xs.length) (hn : 3 ≤ xs.length)
    (left right : SingleBoundary F) :
    solveForK (V := F) (xs.map (· + d)) ys (.mixed left right) =
      solveForK (V := F) xs ys (.mixed left right) := by
  rw [solveForK_mixed (xs.map (· + d)) ys (by simpa using hy) (by simpa using hn),
    solveForK_mixed xs ys hy hn, sysRows_shift]

end

omit [LinearOrder F] [IsStrictOrderedRing F] in
/-- a piece with data and slopes multiplied by `c` is `c` times the piece -/
theorem pieceCubic_scale (c xl xr yl yr kl kr q : F) :
    (pieceCubic xl xr (c * yl) (c * yr) (c * kl) (c * kr)).eval q =
      c * (pieceCubic xl xr yl yr kl kr).eval q := by
  simp only [pieceCubic, Cubic.eval]
  ring

omit [LinearOrder F] [IsStrictOrderedRing F] in
/-- a piece depends on the knots only through differences -/
theorem pieceCubic_shift (d xl xr yl yr kl kr q : F) :
    (pieceCubic (xl + d) (xr + d) yl yr kl kr).eval (q + d) = (pieceCubic xl xr yl yr kl kr).eval q := by
  simp only [pieceCubic, Cubic.eval]
  have e1 : xr + d - (xl + d) = xr - xl := by ring
  have e2 : q + d - (xl + d) = q - xl := by ring
  rw [e1, e2]

/-- boundary derivative values converted to an axis multiplied by `c` -/
def SingleBoundary.scaleAxis (c : F) : SingleBoundary F → SingleBoundary F
  | .firstDeriv v => .firstDeriv (v / c)
  | .secondDeriv v => .secondDeriv (v / (c * c))
  | b => b

omit [LinearOrder F] [IsStrictOrderedRing F] in
/-- a piece on an axis multiplied by `c ≠ 0` with slopes divided by `c` -/
theorem pieceCubic_scaleAxis (c xl xr yl yr kl kr : F) (hc : c ≠ 0) (hd : xr - xl ≠ 0) :
    let P := pieceCubic (c * xl) (c * xr) yl yr (kl / c) (kr / c)
    let Q := pieceCubic xl xr yl yr kl kr
    (∀ q, P.eval (c * q) = Q.eval q) ∧ (∀ q, P.d1 (c * q) = Q.d1 q / c) ∧
    (∀ q, P.d2 (c * q) = Q.d2 q / (c * c)) ∧ P.d3 = Q.d3 / (c * c * c) := by
  simp only [pieceCubic, Cubic.eval, Cubic.d1, Cubic.d2, Cubic.d3]
  have e : c * xr - c * xl = c * (xr - xl) := by ring
  refine ⟨?_, ?_, ?_, ?_⟩
  · intro q; rw [e]; field_simp
  · intro q; rw [e]; field_simp
  · intro q; rw [e]; field_simp
  · rw [e]; field_simp

end NdInterp
