/-
Linearity of the spline build in the data (and boundary derivative values), and invariance under a
common shift of the axis — identities of the assembled rows, valid in every ordered field.
-/
import NdInterp.Lemmas.Linearity

namespace NdInterp

variable {F : Type} [Field F] [LinearOrder F] [IsStrictOrderedRing F]

/-- boundary derivative values in the units of data multiplied by `c` -/
def SingleBoundary.scale (c : F) : SingleBoundary F → SingleBoundary F
  | .firstDeriv v => .firstDeriv (c * v)
  | .secondDeriv v => .secondDeriv (c * v)
  | b => b

omit [LinearOrder F] [IsStrictOrderedRing F] in
theorem isNakPair_scale (c : F) (l r : SingleBoundary F) :
    isNakPair (l.scale c) (r.scale c) = isNakPair l r := by
  cases l <;> cases r <;> rfl

omit [LinearOrder F] [IsStrictOrderedRing F] in
theorem interiorRows_scale (c : F) (xs ys : List F) :
    interiorRows xs (ys.map (c * ·)) = (interiorRows xs ys).map (scaleRow c) := by
  induction xs generalizing ys with
  | nil => cases ys <;> simp [interiorRows]
  | cons x0 xs ih =>
    match xs, ys with
    | [], _ => cases ys <;> simp [interiorRows]
    | [x1], ys => cases ys with
      | nil => simp [interiorRows]
      | cons y0 ys => cases ys with
        | nil => simp [interiorRows]
        | cons y1 ys => cases ys <;> simp [interiorRows]
    | x1 :: x2 :: xs', [] => simp [interiorRows]
    | x1 :: x2 :: xs', [y0] => simp [interiorRows]
    | x1 :: x2 :: xs', [y0, y1] => simp [interiorRows]
    | x1 :: x2 :: xs', y0 :: y1 :: y2 :: ys' =>
      simp only [List.map_cons, interiorRows, scaleRow, map3_scalar]
      congr 1
      · congr 1; ring
      · have := ih (y1 :: y2 :: ys')
        simpa using this

section
variable [Cmp F]

theorem sysRows_scale (c : F) (xs ys : List F) (hy : ys.length = xs.length) (hn : 3 ≤ xs.length)
    (left right : SingleBoundary F) :
    sysRows xs (ys.map (c * ·)) (by simpa using hy) hn (left.scale c) (right.scale c) =
      (sysRows xs ys hy hn left right).map (scaleRow c) := by
  unfold sysRows
  rw [isNakPair_scale]
  have hy0 : ∀ i (h : i < xs.length), ((ys.map (c * ·))[i]'(by simp; omega)) = c * ys[i]'(by omega) := by
    intro i h; simp
  split
  · -- parabola
    simp only [parabolaRows, endsOf, Ends.dx0, Ends.dx1, List.map_cons, List.map_nil, scaleRow, map1_scalar,
      map2_scalar, List.getElem_map]
    refine congrArg₂ _ ?_ (congrArg₂ _ ?_ (congrArg₂ _ ?_ rfl)) <;> (congr 1; ring)
  · have hf : firstRow (endsOf xs (ys.map (c * ·)) (by simpa using hy) hn) (left.scale c).specialize =
        (firstRow (endsOf xs ys hy hn) left.specialize).map (scaleRow c) := by
      cases left <;>
        simp only [SingleBoundary.scale, SingleBoundary.specialize, firstRow, endsOf, Ends.dx0, Ends.dx1,
          Option.map_some, scaleRow, map3_scalar, map2_scalar, const_scalar, List.getElem_map, c0_eq, c2_eq,
          c3_eq, sq] <;> (congr 2; ring)
    have hl : lastRow (endsOf xs (ys.map (c * ·)) (by simpa using hy) hn) (right.scale c).specialize =
        (lastRow (endsOf xs ys hy hn) right.specialize).map (scaleRow c) := by
      cases right <;>
        simp only [SingleBoundary.scale, SingleBoundary.specialize, lastRow, endsOf, Ends.dxl1, Ends.dxl2,
          Option.map_some, scaleRow, map3_scalar, map2_scalar, const_scalar, List.getElem_map, c0_eq, c2_eq,
          c3_eq, sq] <;> (congr 2; ring)
    rw [hf, hl, interiorRows_scale]
    cases firstRow (endsOf xs ys hy hn) left.specialize <;>
      cases lastRow (endsOf xs ys hy hn) right.specialize <;> simp

/-- **the spline's slopes are homogeneous in data and boundary values** -/
theorem solveForK_scale (c : F) (xs ys : List F) (hy : ys.length = xs.length) (hn : 3 ≤ xs.length)
    (left right : SingleBoundary F) :
    solveForK (V := F) xs (ys.map (c * ·)) (.mixed (left.scale c) (right.scale c)) =
      (solveForK (V := F) xs ys (.mixed left right)).map (List.map (c * ·)) := by
  rw [solveForK_mixed xs (ys.map (c * ·)) (by simpa using hy) hn, solveForK_mixed xs ys hy hn,
    sysRows_scale c xs ys hy hn, thomas_scale]
  rfl

end

omit [LinearOrder F] [IsStrictOrderedRing F] in
theorem interiorRows_shift (d : F) (xs ys : List F) :
    interiorRows (xs.map (· + d)) ys = interiorRows xs ys := by
  induction xs generalizing ys with
  | nil => cases ys <;> simp [interiorRows]
  | cons x0 xs ih =>
    match xs, ys with
    | [], _ => cases ys <;> simp [interiorRows]
    | [x1], ys => cases ys with
      | nil => simp [interiorRows]
      | cons y0 ys => cases ys with
        | nil => simp [interiorRows]
        | cons y1 ys => cases ys <;> simp [interiorRows]
    | x1 :: x2 :: xs', [] => simp [interiorRows]
    | x1 :: x2 :: xs', [y0] => simp [interiorRows]
    | x1 :: x2 :: xs', [y0, y1] => simp [interiorRows]
    | x1 :: x2 :: xs', y0 :: y1 :: y2 :: ys' =>
      simp only [List.map_cons, interiorRows]
      have e1 : x2 + d - (x1 + d) = x2 - x1 := by ring
      have e2 : x1 + d - (x0 + d) = x1 - x0 := by ring
      rw [e1, e2]
      congr 1
      have := ih (y1 :: y2 :: ys')
      simpa using this

section
variable [Cmp F]

/-- **a common shift of the axis leaves the assembled system unchanged** -/
theorem sysRows_shift (d : F) (xs ys : List F) (hy : ys.length = xs.length) (hn : 3 ≤ xs.length)
    (left right : SingleBoundary F) :
    sysRows (xs.map (· + d)) ys (by simpa using hy) (by simpa using hn) left right =
      sysRows xs ys hy hn left right := by
  unfold sysRows
  have e : ∀ a b : F, a + d - (b + d) = a - b := fun a b => by ring
  simp only [List.length_map, interiorRows_shift]
  have hp : parabolaRows (endsOf (xs.map (· + d)) ys (by simpa using hy) (by simpa using hn)) =
      parabolaRows (endsOf xs ys hy hn) := by
    simp only [parabolaRows, endsOf, Ends.dx0, Ends.dx1, List.getElem_map, e]
  have hf : ∀ b : SingleBoundary F,
      firstRow (endsOf (xs.map (· + d)) ys (by simpa using hy) (by simpa using hn)) b =
        firstRow (endsOf xs ys hy hn) b := by
    intro b
    cases b <;> simp only [firstRow, endsOf, Ends.dx0, Ends.dx1, List.getElem_map, e]
  have hl : ∀ b : SingleBoundary F,
      lastRow (endsOf (xs.map (· + d)) ys (by simpa using hy) (by simpa using hn)) b =
        lastRow (endsOf xs ys hy hn) b := by
    intro b
    cases b <;> simp only [lastRow, endsOf, Ends.dxl1, Ends.dxl2, List.getElem_map, List.length_map, e]
  rw [hp, hf, hl]

theorem solveForK_shift (d : F) (xs ys : List F) (hy : ys.length = xs.length) (hn : 3 ≤ xs.length)
    (left right : SingleBoundary F) :
    solveForK (V := F) (xs.map (· + d)) ys (.mixed left right) =
      solveForK (V := F) xs ys (.mixed left right) := by
  rw [solveForK_mixed (xs.map (· + d)) ys (by simpa using hy) (by simpa using hn),
    solveForK_mixed xs ys hy hn, sysRows_shift]

end


/-! ### superposition -/

section add
omit [LinearOrder F] [IsStrictOrderedRing F]

/-- the diagonal entries of an eliminated row -/
def ediag (e : ERow F F) : F × F := (e.mid, e.up)

theorem ediag_index (es1 es2 : List (ERow F F)) (h : es1.map ediag = es2.map ediag) :
    es1.length = es2.length ∧ ∀ i (h1 : i < es1.length) (h2 : i < es2.length),
      es1[i].mid = es2[i].mid ∧ es1[i].up = es2[i].up := by
  have hl : es1.length = es2.length := by simpa using congrArg List.length h
  refine ⟨hl, ?_⟩
  intro i h1 h2
  have := List.getElem_of_eq h (i := i) (by simpa using h1)
  simp only [List.getElem_map, ediag, Prod.mk.injEq] at this
  exact this

theorem sameDiag_fwd (pm pu p1 p2 : F) (rows1 rows2 : List (Row F F)) (h : SameDiag rows1 rows2) :
    (fwd pm pu p1 rows1).map ediag = (fwd pm pu p2 rows2).map ediag := by
  induction rows1 generalizing rows2 pm pu p1 p2 with
  | nil => cases rows2 <;> simp [fwd, SameDiag] at h ⊢
  | cons r rest ih =>
    cases rows2 with
    | nil => simp [SameDiag] at h
    | cons s ss =>
      obtain ⟨h1, h2, h3, h4⟩ := h
      simp only [fwd, List.map_cons, map2_scalar, ediag]
      rw [ih _ _ _ (s.rhs - s.lo / pm * p2) ss h4, h1, h2, h3]

theorem sameDiag_fwdAll (rows1 rows2 : List (Row F F)) (h : SameDiag rows1 rows2) :
    (fwdAll rows1).map ediag = (fwdAll rows2).map ediag := by
  cases rows1 with
  | nil => cases rows2 <;> simp [fwdAll, SameDiag] at h ⊢
  | cons r rest =>
    cases rows2 with
    | nil => simp [SameDiag] at h
    | cons s ss =>
      obtain ⟨h1, h2, h3, h4⟩ := h
      simp only [fwdAll, List.map_cons, ediag]
      rw [sameDiag_fwd r.mid r.up r.rhs s.rhs rest ss h4, h2, h3]

theorem fwdAll_add (rows1 rows2 : List (Row F F)) (h : SameDiag rows1 rows2) :
    fwdAll (List.zipWith addRow rows1 rows2) = List.zipWith addERow (fwdAll rows1) (fwdAll rows2) := by
  cases rows1 with
  | nil => cases rows2 <;> simp [fwdAll]
  | cons r rest =>
    cases rows2 with
    | nil => simp [SameDiag] at h
    | cons s ss =>
      obtain ⟨h1, h2, h3, h4⟩ := h
      simp only [List.zipWith_cons_cons, fwdAll, addRow, addERow]
      have := fwd_add r.mid r.up r.rhs s.rhs rest ss h4
      rw [this, ← h2, ← h3]

/-- **the tridiagonal solve is additive in the right-hand sides** -/
theorem thomas_add (rows1 rows2 : List (Row F F)) (h : SameDiag rows1 rows2) :
    thomas (List.zipWith addRow rows1 rows2) = List.zipWith (· + ·) (thomas rows1) (thomas rows2) := by
  simp only [thomas, fwdAll_add rows1 rows2 h]
  exact back_add _ _ (ediag_index _ _ (sameDiag_fwdAll rows1 rows2 h))

theorem sameDiag_append (a1 a2 b1 b2 : List (Row F F)) (ha : SameDiag a1 a2) (hb : SameDiag b1 b2) :
    SameDiag (a1 ++ b1) (a2 ++ b2) := by
  induction a1 generalizing a2 with
  | nil => cases a2 <;> simp [SameDiag] at ha ⊢; exact hb
  | cons r rest ih =>
    cases a2 with
    | nil => simp [SameDiag] at ha
    | cons s ss =>
      obtain ⟨h1, h2, h3, h4⟩ := ha
      exact ⟨h1, h2, h3, ih ss h4⟩

theorem zipWith_add_append (a1 a2 b1 b2 : List (Row F F)) (h : a1.length = a2.length) :
    List.zipWith addRow (a1 ++ b1) (a2 ++ b2) = List.zipWith addRow a1 a2 ++ List.zipWith addRow b1 b2 :=
  List.zipWith_append h

theorem interiorRows_add (xs ys zs : List F) (hl : ys.length = zs.length) :
    interiorRows xs (List.zipWith (· + ·) ys zs) =
      List.zipWith addRow (interiorRows xs ys) (interiorRows xs zs) ∧
    SameDiag (interiorRows xs ys) (interiorRows xs zs) := by
  induction xs generalizing ys zs with
  | nil => cases ys <;> cases zs <;> simp [interiorRows, SameDiag]
  | cons x0 xs ih =>
    match xs, ys, zs, hl with
    | [], ys, zs, _ => cases ys <;> cases zs <;> simp [interiorRows, SameDiag]
    | [x1], ys, zs, _ => simp [interiorRows, SameDiag]
    | x1 :: x2 :: xs', [], [], _ => simp [interiorRows, SameDiag]
    | x1 :: x2 :: xs', [y0], [z0], _ => simp [interiorRows, SameDiag]
    | x1 :: x2 :: xs', [y0, y1], [z0, z1], _ => simp [interiorRows, SameDiag]
    | x1 :: x2 :: xs', y0 :: y1 :: y2 :: ys', z0 :: z1 :: z2 :: zs', hl =>
      have := ih (y1 :: y2 :: ys') (z1 :: z2 :: zs') (by simpa using hl)
      simp only [List.zipWith_cons_cons] at this
      simp only [List.zipWith_cons_cons, interiorRows, SameDiag, addRow, map3_scalar, true_and]
      refine ⟨?_, this.2⟩
      rw [this.1]
      congr 2
      ring

end add

/-- boundary derivative values added (both boundaries of the same kind) -/
def SingleBoundary.add : SingleBoundary F → SingleBoundary F → SingleBoundary F
  | .firstDeriv a, .firstDeriv b => .firstDeriv (a + b)
  | .secondDeriv a, .secondDeriv b => .secondDeriv (a + b)
  | l, _ => l

/-- two boundary selections of the same kind -/
def SingleBoundary.sameKind : SingleBoundary F → SingleBoundary F → Bool
  | .notAKnot, .notAKnot => true
  | .natural, .natural => true
  | .clamped, .clamped => true
  | .firstDeriv _, .firstDeriv _ => true
  | .secondDeriv _, .secondDeriv _ => true
  | _, _ => false

section
variable [Cmp F]

theorem sysRows_add (xs ys zs : List F) (hy : ys.length = xs.length) (hz : zs.length = xs.length)
    (hn : 3 ≤ xs.length) (l1 l2 r1 r2 : SingleBoundary F)
    (hl : l1.sameKind l2 = true) (hr : r1.sameKind r2 = true) :
    sysRows xs (List.zipWith (· + ·) ys zs) (by simp [hy, hz]) hn (l1.add l2) (r1.add r2) =
      List.zipWith addRow (sysRows xs ys hy hn l1 r1) (sysRows xs zs hz hn l2 r2) ∧
    SameDiag (sysRows xs ys hy hn l1 r1) (sysRows xs zs hz hn l2 r2) := by
  have hnak : isNakPair (l1.add l2) (r1.add r2) = isNakPair l1 r1 ∧ isNakPair l2 r2 = isNakPair l1 r1 := by
    cases l1 <;> cases l2 <;> simp [SingleBoundary.sameKind] at hl <;>
      cases r1 <;> cases r2 <;> simp [SingleBoundary.sameKind] at hr <;> exact ⟨rfl, rfl⟩
  unfold sysRows
  rw [hnak.1, hnak.2]
  split
  · simp only [parabolaRows, endsOf, Ends.dx0, Ends.dx1, map1_scalar, map2_scalar, List.getElem_zipWith, List.zipWith_cons_cons,
      List.zipWith_nil_right, addRow, SameDiag, and_self, and_true]
    refine congrArg₂ _ ?_ (congrArg₂ _ ?_ (congrArg₂ _ ?_ rfl)) <;> (congr 1; ring)
  · have hf : ∃ f1 f2, firstRow (endsOf xs ys hy hn) l1.specialize = some f1 ∧
        firstRow (endsOf xs zs hz hn) l2.specialize = some f2 ∧
        firstRow (endsOf xs (List.zipWith (· + ·) ys zs) (by simp [hy, hz]) hn) (l1.add l2).specialize =
          some (addRow f1 f2) ∧ f1.lo = f2.lo ∧ f1.mid = f2.mid ∧ f1.up = f2.up := by
      cases l1 <;> cases l2 <;> simp [SingleBoundary.sameKind] at hl <;>
        (refine ⟨_, _, rfl, rfl, ?_, rfl, rfl, rfl⟩
         simp only [SingleBoundary.add, SingleBoundary.specialize, firstRow, endsOf, Ends.dx0, Ends.dx1, addRow,
           map3_scalar, map2_scalar, const_scalar, List.getElem_zipWith, c0_eq, c2_eq, c3_eq, sq]
         try (first | rfl | (congr 2; ring)))
    have hlr : ∃ f1 f2, lastRow (endsOf xs ys hy hn) r1.specialize = some f1 ∧
        lastRow (endsOf xs zs hz hn) r2.specialize = some f2 ∧
        lastRow (endsOf xs (List.zipWith (· + ·) ys zs) (by simp [hy, hz]) hn) (r1.add r2).specialize =
          some (addRow f1 f2) ∧ f1.lo = f2.lo ∧ f1.mid = f2.mid ∧ f1.up = f2.up := by
      cases r1 <;> cases r2 <;> simp [SingleBoundary.sameKind] at hr <;>
        (refine ⟨_, _, rfl, rfl, ?_, rfl, rfl, rfl⟩
         simp only [SingleBoundary.add, SingleBoundary.specialize, lastRow, endsOf, Ends.dxl1, Ends.dxl2, addRow,
           map3_scalar, map2_scalar, const_scalar, List.getElem_zipWith, c0_eq, c2_eq, c3_eq, sq, List.length_zipWith, hy, hz,
           Nat.min_self]
         try (first | rfl | (congr 2; ring)))
    obtain ⟨f1, f2, e1, e2, e3, d1, d2, d3⟩ := hf
    obtain ⟨g1, g2, e4, e5, e6, d4, d5, d6⟩ := hlr
    have hi := interiorRows_add xs ys zs (by rw [hy, hz])
    rw [e1, e2, e3, e4, e5, e6]
    simp only []
    rw [hi.1]
    simp only [List.cons_append, List.zipWith_cons_cons]
    have hlen : (interiorRows xs ys).length = (interiorRows xs zs).length := by
      simp [interiorRows_length, hy, hz]
    refine ⟨?_, d1, d2, d3, sameDiag_append _ _ _ _ hi.2 ⟨d4, d5, d6, trivial⟩⟩
    rw [List.zipWith_append hlen]
    rfl

/-- **the spline's slopes are additive in data and boundary values** -/
theorem solveForK_add (xs ys zs : List F) (hy : ys.length = xs.length) (hz : zs.length = xs.length)
    (hn : 3 ≤ xs.length) (l1 l2 r1 r2 : SingleBoundary F)
    (hl : l1.sameKind l2 = true) (hr : r1.sameKind r2 = true) :
    solveForK (V := F) xs (List.zipWith (· + ·) ys zs) (.mixed (l1.add l2) (r1.add r2)) =
      .ok (List.zipWith (· + ·) (thomas (sysRows xs ys hy hn l1 r1)) (thomas (sysRows xs zs hz hn l2 r2))) := by
  have h := sysRows_add xs ys zs hy hz hn l1 l2 r1 r2 hl hr
  rw [solveForK_mixed xs _ (by simp [hy, hz]) hn, h.1, thomas_add _ _ h.2]

end

omit [LinearOrder F] [IsStrictOrderedRing F] in
/-- a piece of summed data and slopes is the sum of the pieces -/
theorem pieceCubic_add (xl xr yl yr kl kr yl' yr' kl' kr' q : F) :
    (pieceCubic xl xr (yl + yl') (yr + yr') (kl + kl') (kr + kr')).eval q =
      (pieceCubic xl xr yl yr kl kr).eval q + (pieceCubic xl xr yl' yr' kl' kr').eval q := by
  simp only [pieceCubic, Cubic.eval]
  ring

omit [LinearOrder F] [IsStrictOrderedRing F] in
/-- a piece with data and slopes multiplied by `c` is `c` times the piece -/
theorem pieceCubic_scale (c xl xr yl yr kl kr q : F) :
    (pieceCubic xl xr (c * yl) (c * yr) (c * kl) (c * kr)).eval q =
      c * (pieceCubic xl xr yl yr kl kr).eval q := by
  simp only [pieceCubic, Cubic.eval]
  ring

omit [LinearOrder F] [IsStrictOrderedRing F] in
/-- a piece depends on the knots only through differences -/
theorem pieceCubic_shift (d xl xr yl yr kl kr q : F) :
    (pieceCubic (xl + d) (xr + d) yl yr kl kr).eval (q + d) = (pieceCubic xl xr yl yr kl kr).eval q := by
  simp only [pieceCubic, Cubic.eval]
  have e1 : xr + d - (xl + d) = xr - xl := by ring
  have e2 : q + d - (xl + d) = q - xl := by ring
  rw [e1, e2]

/-- boundary derivative values converted to an axis multiplied by `c` -/
def SingleBoundary.scaleAxis (c : F) : SingleBoundary F → SingleBoundary F
  | .firstDeriv v => .firstDeriv (v / c)
  | .secondDeriv v => .secondDeriv (v / (c * c))
  | b => b

omit [LinearOrder F] [IsStrictOrderedRing F] in
/-- a piece on an axis multiplied by `c ≠ 0` with slopes divided by `c` -/
theorem pieceCubic_scaleAxis (c xl xr yl yr kl kr : F) (hc : c ≠ 0) (hd : xr - xl ≠ 0) :
    let P := pieceCubic (c * xl) (c * xr) yl yr (kl / c) (kr / c)
    let Q := pieceCubic xl xr yl yr kl kr
    (∀ q, P.eval (c * q) = Q.eval q) ∧ (∀ q, P.d1 (c * q) = Q.d1 q / c) ∧
    (∀ q, P.d2 (c * q) = Q.d2 q / (c * c)) ∧ P.d3 = Q.d3 / (c * c * c) := by
  simp only [pieceCubic, Cubic.eval, Cubic.d1, Cubic.d2, Cubic.d3]
  have e : c * xr - c * xl = c * (xr - xl) := by ring
  refine ⟨?_, ?_, ?_, ?_⟩
  · intro q; rw [e]; field_simp
  · intro q; rw [e]; field_simp
  · intro q; rw [e]; field_simp
  · rw [e]; field_simp

end NdInterp
