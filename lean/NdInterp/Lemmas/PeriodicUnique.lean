/-
Uniqueness of the periodic spline: the cyclic tridiagonal system (interior rows, `k[n-1] = k[0]`,
closing row) is strictly diagonally dominant, so its homogeneous version has only the zero
solution (maximum-modulus argument).
-/
import NdInterp.Lemmas.Periodic
import Mathlib.Data.Finset.Max
import Mathlib.Order.Interval.Finset.Nat

namespace NdInterp

variable {F : Type} [Field F] [LinearOrder F] [IsStrictOrderedRing F]

/-- the conditions that determine the periodic spline's slopes -/
def PeriodicCond (xs ys ks : List F) (hy : ys.length = xs.length) (hk : ks.length = xs.length)
    (hn : 4 ≤ xs.length) : Prop :=
  (∀ j (h : j + 2 < xs.length), interiorEq (xs[j]'(by omega)) (xs[j + 1]'(by omega)) xs[j + 2]
      (ys[j]'(by omega)) (ys[j + 1]'(by omega)) (ys[j + 2]'(by omega))
      (ks[j]'(by omega)) (ks[j + 1]'(by omega)) (ks[j + 2]'(by omega))) ∧
  ks[xs.length - 1]'(by omega) = ks[0]'(by omega) ∧
  (xs[1] - xs[0]) * ks[xs.length - 2]'(by omega) +
      2 * ((xs[xs.length - 1] - xs[xs.length - 2]) + (xs[1] - xs[0])) * ks[0]'(by omega) +
      (xs[xs.length - 1] - xs[xs.length - 2]) * ks[1]'(by omega) =
    3 * ((xs[1] - xs[0]) * (ys[xs.length - 1]'(by omega) - ys[xs.length - 2]'(by omega)) /
          (xs[xs.length - 1] - xs[xs.length - 2]) +
        (xs[xs.length - 1] - xs[xs.length - 2]) * (ys[1]'(by omega) - ys[0]'(by omega)) / (xs[1] - xs[0]))

/-- a strictly dominant row forces the middle unknown below the maximum -/
theorem dominant_row (a b u v w M : F) (ha : 0 < a) (hb : 0 < b)
    (h : a * u + 2 * (a + b) * v + b * w = 0) (hu : |u| ≤ M) (hw : |w| ≤ M) (hv : |v| = M) :
    M = 0 := by
  have hM : 0 ≤ M := hv ▸ abs_nonneg v
  have e : 2 * (a + b) * v = -(a * u + b * w) := by linear_combination h
  have h1 : |2 * (a + b) * v| = 2 * (a + b) * M := by
    rw [abs_mul, abs_of_pos (by positivity : (0 : F) < 2 * (a + b)), hv]
  have h2 : |-(a * u + b * w)| ≤ a * M + b * M := by
    rw [abs_neg]
    calc |a * u + b * w| ≤ |a * u| + |b * w| := abs_add_le _ _
      _ = a * |u| + b * |w| := by rw [abs_mul, abs_mul, abs_of_pos ha, abs_of_pos hb]
      _ ≤ a * M + b * M := by
        exact add_le_add (mul_le_mul_of_nonneg_left hu ha.le) (mul_le_mul_of_nonneg_left hw hb.le)
  rw [e] at h1
  rw [h1] at h2
  have : (a + b) * M ≤ 0 := by linarith
  have hab : 0 < a + b := by linarith
  exact le_antisymm (by
    by_contra hc
    push_neg at hc
    have := mul_pos hab hc
    linarith) hM

/-- **periodic_unique**: two slope lists satisfying the periodic conditions coincide. -/
theorem periodic_unique (xs ys ks ks' : List F) (hs : StrictInc xs) (hy : ys.length = xs.length)
    (hn : 4 ≤ xs.length) (hk : ks.length = xs.length) (hk' : ks'.length = xs.length)
    (h : PeriodicCond xs ys ks hy hk hn) (h' : PeriodicCond xs ys ks' hy hk' hn) : ks = ks' := by
  obtain ⟨hi, hl, hc⟩ := h
  obtain ⟨hi', hl', hc'⟩ := h'
  have hpos : ∀ i j (hij : i < j) (hj : j < xs.length), 0 < xs[j] - xs[i]'(by omega) :=
    fun i j hij hj => sub_pos.mpr (hs.2 i j hij hj)
  -- the difference, as a function of the index
  let d : Nat → F := fun i => ks.getD i 0 - ks'.getD i 0
  have dg : ∀ i (h : i < xs.length), d i = ks[i]'(by omega) - ks'[i]'(by omega) := by
    intro i h
    simp only [d, List.getD_eq_getElem?_getD, List.getElem?_eq_getElem (show i < ks.length by omega),
      List.getElem?_eq_getElem (show i < ks'.length by omega), Option.getD_some]
  -- homogeneous equations
  have di : ∀ j (h : j + 2 < xs.length),
      (xs[j + 2] - xs[j + 1]) * d j + 2 * ((xs[j + 2] - xs[j + 1]) + (xs[j + 1] - xs[j])) * d (j + 1) +
        (xs[j + 1] - xs[j]) * d (j + 2) = 0 := by
    intro j h
    have a := hi j h
    have b := hi' j h
    unfold interiorEq at a b
    rw [dg j (by omega), dg (j + 1) (by omega), dg (j + 2) (by omega)]
    linear_combination a - b
  have dl : d (xs.length - 1) = d 0 := by
    rw [dg _ (by omega), dg 0 (by omega), hl, hl']
  have dc : (xs[1] - xs[0]) * d (xs.length - 2) +
      2 * ((xs[xs.length - 1] - xs[xs.length - 2]) + (xs[1] - xs[0])) * d 0 +
      (xs[xs.length - 1] - xs[xs.length - 2]) * d 1 = 0 := by
    rw [dg _ (by omega), dg 0 (by omega), dg 1 (by omega)]
    linear_combination hc - hc'
  -- an index of maximal modulus
  obtain ⟨m, hm, hmax⟩ := Finset.exists_max_image (Finset.range xs.length) (fun i => |d i|)
    ⟨0, by simp; omega⟩
  have hm' : m < xs.length := by simpa using hm
  have hle : ∀ i, i < xs.length → |d i| ≤ |d m| := fun i hi => hmax i (by simpa using hi)
  have hM0 : |d m| = 0 := by
    by_cases h0 : m = 0 ∨ m = xs.length - 1
    · -- closing row (d 0 = d (n-1))
      have hm0 : |d 0| = |d m| := by
        rcases h0 with h0 | h0
        · rw [h0]
        · rw [h0, dl]
      have := dominant_row (xs[1] - xs[0]) (xs[xs.length - 1] - xs[xs.length - 2])
        (d (xs.length - 2)) (d 0) (d 1) (|d m|) (hpos 0 1 (by omega) (by omega))
        (hpos _ _ (by omega) (by omega)) (by linear_combination dc)
        (hle _ (by omega)) (hle _ (by omega)) hm0
      exact this
    · push_neg at h0
      obtain ⟨j, rfl⟩ : ∃ j, m = j + 1 := ⟨m - 1, by omega⟩
      have hj : j + 2 < xs.length := by omega
      exact dominant_row (xs[j + 2] - xs[j + 1]) (xs[j + 1] - xs[j]) (d j) (d (j + 1)) (d (j + 2))
        (|d (j + 1)|) (hpos _ _ (by omega) hj) (hpos _ _ (by omega) (by omega)) (di j hj)
        (hle _ (by omega)) (hle _ (by omega)) rfl
  apply List.ext_getElem (by omega)
  intro i h1 h2
  have : |d i| ≤ 0 := hM0 ▸ hle i (by omega)
  have : d i = 0 := abs_eq_zero.mp (le_antisymm this (abs_nonneg _))
  rw [dg i (by omega)] at this
  exact sub_eq_zero.mp this

end NdInterp
