/-
The spline solver is linear in the right-hand sides: identities of the Thomas algorithm that
hold in every field (no pivot condition), and the corresponding statements for the assembled
rows (data and boundary derivative values scaled / added).
-/
import NdInterp.Lemmas.SplineChar

namespace NdInterp

variable {F : Type} [Field F]

def scaleRow (c : F) (r : Row F F) : Row F F := { r with rhs := c * r.rhs }
def scaleERow (c : F) (r : ERow F F) : ERow F F := { r with rhs := c * r.rhs }

theorem fwd_scale (c pm pu pr : F) (rows : List (Row F F)) :
    fwd pm pu (c * pr) (rows.map (scaleRow c)) = (fwd pm pu pr rows).map (scaleERow c) := by
  induction rows generalizing pm pu pr with
  | nil => rfl
  | cons r rest ih =>
    simp only [List.map_cons, fwd, scaleRow, scaleERow, map2_scalar]
    have e : c * r.rhs - r.lo / pm * (c * pr) = c * (r.rhs - r.lo / pm * pr) := by ring
    rw [e, ih]

theorem fwdAll_scale (c : F) (rows : List (Row F F)) :
    fwdAll (rows.map (scaleRow c)) = (fwdAll rows).map (scaleERow c) := by
  cases rows with
  | nil => rfl
  | cons r rest =>
    simp only [List.map_cons, fwdAll]
    have := fwd_scale c r.mid r.up r.rhs rest
    simp only [scaleRow, scaleERow] at this ⊢
    rw [this]

theorem back_scale (c : F) (es : List (ERow F F)) :
    back (es.map (scaleERow c)) = (back es).map (c * ·) := by
  induction es with
  | nil => rfl
  | cons e es ih =>
    cases es with
    | nil => simp [back, scaleERow, mul_div_assoc]
    | cons e2 rest =>
      simp only [List.map_cons] at ih ⊢
      simp only [back]
      rw [ih]
      cases hb : back (e2 :: rest) with
      | nil => simp
      | cons k ks =>
        simp only [List.map_cons, map2_scalar, scaleERow]
        congr 1
        ring

theorem thomas_scale (c : F) (rows : List (Row F F)) :
    thomas (rows.map (scaleRow c)) = (thomas rows).map (c * ·) := by
  simp [thomas, fwdAll_scale, back_scale]

/-- two systems with the same matrix -/
def SameDiag : List (Row F F) → List (Row F F) → Prop
  | [], [] => True
  | r :: rs, s :: ss => r.lo = s.lo ∧ r.mid = s.mid ∧ r.up = s.up ∧ SameDiag rs ss
  | _, _ => False

def addRow (r s : Row F F) : Row F F := { r with rhs := r.rhs + s.rhs }
def addERow (r s : ERow F F) : ERow F F := { r with rhs := r.rhs + s.rhs }

theorem fwd_add (pm pu p1 p2 : F) (rows1 rows2 : List (Row F F)) (h : SameDiag rows1 rows2) :
    fwd pm pu (p1 + p2) (List.zipWith addRow rows1 rows2) =
      List.zipWith addERow (fwd pm pu p1 rows1) (fwd pm pu p2 rows2) := by
  induction rows1 generalizing rows2 pm pu p1 p2 with
  | nil => cases rows2 <;> simp [fwd]
  | cons r rest ih =>
    cases rows2 with
    | nil => simp [SameDiag] at h
    | cons s ss =>
      obtain ⟨h1, h2, h3, h4⟩ := h
      simp only [List.zipWith_cons_cons, fwd, addRow, addERow, map2_scalar]
      have e : r.rhs + s.rhs - r.lo / pm * (p1 + p2) =
          (r.rhs - r.lo / pm * p1) + (s.rhs - s.lo / pm * p2) := by rw [h1]; ring
      rw [e, ih _ _ _ _ ss h4]
      simp [h1, h2, h3]

theorem back_add (es1 es2 : List (ERow F F))
    (h : es1.length = es2.length ∧ ∀ i (h1 : i < es1.length) (h2 : i < es2.length),
      es1[i].mid = es2[i].mid ∧ es1[i].up = es2[i].up) :
    back (List.zipWith addERow es1 es2) = List.zipWith (· + ·) (back es1) (back es2) := by
  induction es1 generalizing es2 with
  | nil => cases es2 <;> simp [back]
  | cons e es ih =>
    cases es2 with
    | nil => simp at h
    | cons f fs =>
      have hm := h.2 0 (by simp) (by simp)
      simp only [List.getElem_cons_zero] at hm
      have htail : es.length = fs.length ∧ ∀ i (h1 : i < es.length) (h2 : i < fs.length),
          es[i].mid = fs[i].mid ∧ es[i].up = fs[i].up := by
        refine ⟨by simpa using h.1, ?_⟩
        intro i h1 h2
        have := h.2 (i + 1) (by simpa using h1) (by simpa using h2)
        simpa using this
      cases es with
      | nil =>
        cases fs with
        | nil => simp [back, addERow, hm.1, add_div]
        | cons f2 fs' => simp at htail
      | cons e2 rest =>
        cases fs with
        | nil => simp at htail
        | cons f2 fs' =>
          have ih' := ih (f2 :: fs') htail
          simp only [List.zipWith_cons_cons] at ih' ⊢
          simp only [back]
          rw [ih']
          have l1 := back_length (F := F) (e2 :: rest)
          have l2 := back_length (F := F) (f2 :: fs')
          cases hb1 : back (e2 :: rest) with
          | nil => rw [hb1] at l1; simp at l1
          | cons k ks =>
            cases hb2 : back (f2 :: fs') with
            | nil => rw [hb2] at l2; simp at l2
            | cons k' ks' =>
              simp only [List.zipWith_cons_cons, map2_scalar, addERow]
              congr 1
              rw [hm.1, hm.2]
              ring

end NdInterp
