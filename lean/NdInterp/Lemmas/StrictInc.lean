/-
Strictly increasing axes: the recursive form the automaton establishes (`AllPairs (· < ·)`)
and the index form the lookup and the interpolation theorems use.
-/
import NdInterp.Props.C12

namespace NdInterp

variable {α : Type}

/-- the axis invariant of an interpolator: at least two knots, strictly increasing -/
def StrictInc [LT α] (xs : List α) : Prop :=
  2 ≤ xs.length ∧ ∀ i j (_ : i < j) (hj : j < xs.length), xs[i]'(by omega) < xs[j]

theorem strictInc_of_allPairs [Preorder α] (xs : List α) (hl : 2 ≤ xs.length)
    (h : AllPairs (· < ·) xs) : StrictInc xs := by
  refine ⟨hl, ?_⟩
  clear hl
  induction xs with
  | nil => intro i j _ hj; simp at hj
  | cons a l ih =>
    cases l with
    | nil => intro i j hij hj; simp at hj; omega
    | cons b l =>
      have ih' := ih h.2
      intro i j hij hj
      match i, j, hij with
      | 0, j + 1, _ =>
        simp only [List.getElem_cons_zero, List.getElem_cons_succ]
        cases j with
        | zero => exact h.1
        | succ j =>
          have := ih' 0 (j + 1) (by omega) (by simpa using hj)
          simp only [List.getElem_cons_zero] at this
          exact lt_trans h.1 this
      | i + 1, j + 1, _ =>
        simp only [List.getElem_cons_succ]
        exact ih' i j (by omega) (by simpa using hj)

theorem allPairs_of_strictInc [LT α] (xs : List α) (h : StrictInc xs) : AllPairs (· < ·) xs := by
  replace h := h.2
  induction xs with
  | nil => trivial
  | cons a l ih =>
    cases l with
    | nil => trivial
    | cons b l =>
      refine ⟨h 0 1 (by omega) (by simp), ih ?_⟩
      intro i j hij hj
      have := h (i + 1) (j + 1) (by omega) (by simpa using hj)
      simpa using this

/-- the axis a successful `build()` stores is strictly increasing (C12 ⇒ C10, C11) -/
theorem strictInc_of_monotonicProp [LinearOrder α] [Cmp α] [LawfulCmp α] (xs : List α)
    (h : monotonicProp xs = .ok (.rising true)) : StrictInc xs := by
  obtain ⟨h1, h2⟩ := (rising_strict_iff xs).mp h
  exact strictInc_of_allPairs xs h1 h2

theorem StrictInc.le_of_le [LinearOrder α] {xs : List α} (h : StrictInc xs) {i j : Nat}
    (hij : i ≤ j) (hj : j < xs.length) : xs[i]'(by omega) ≤ xs[j] := by
  rcases Nat.lt_or_eq_of_le hij with h1 | h1
  · exact le_of_lt (h.2 i j h1 hj)
  · subst h1; exact le_refl _

end NdInterp
